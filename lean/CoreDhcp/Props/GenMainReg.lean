/-
Unit `mainreg`: Generated/MainReg.lean (written on every run by `harness gen -unit mainreg` from the go/ast of
/repo/cmds/coredhcp/main.go, /repo/plugins/plugin.go `RegisterPlugin`, and the `var Plugin = plugins.Plugin{…}`
declaration of every plugin package that `desiredPlugins` names) against the hand-written Model/MainReg.lean.

  GEN_mainreg_register_eq     generated `register`            = `MainReg.register`
  GEN_mainreg_printLoop_eq    generated `printLoop`           = appending one `print` per plugin
  GEN_mainreg_regLoop_eq      generated `regLoop`             = `MainReg.regRun` (accumulator-generalised, by induction)
  GEN_mainreg_main_eq         generated `main`                = `MainReg.main` at the generated `logLevelNames`,
                                                                `desired`, `registry0`
  GEN_mainreg_registry0       the registry the process starts with is empty
  MAINREG_log_levels          the keys of `logLevels` (the generated list, literally)
  MAINREG_flag_table          the flags: -c = --conf, -P = --plugins, … (the generated table, literally)

and on the model, at the generated list where the list matters:

  MAINREG_names_distinct, MAINREG_registration_never_panics, MAINREG_registry_exact (+ the connection to
  Model/Plugins.lean: MAINREG_view4/view6, MAINREG_unknown_name_rejected, MAINREG_unsupported_skipped,
  MAINREG_load_exact4/6), MAINREG_protocol_support (+ _models), MAINREG_config_before_sockets,
  MAINREG_list_plugins_is_pure, MAINREG_second_registration_panics.

This replaces the syntactic fact F9 of harness/facts.go.
-/
import CoreDhcp.Generated.MainReg
import CoreDhcp.Model.MainReg
import CoreDhcp.Model.OptPlug
import CoreDhcp.Props.C13
set_option linter.unusedSimpArgs false
namespace CoreDhcp
open MainReg

/-! ## the generated definitions are the model -/

/-- The generated `RegisterPlugin` is the model's: nil ↦ error, a registered name ↦ panic, else the map gets
name ↦ plugin. -/
theorem GEN_mainreg_register_eq (plugin : Option PluginDecl) (reg : Reg) :
    GenMainReg.register plugin reg = MainReg.register plugin reg := by
  unfold GenMainReg.register MainReg.register
  cases plugin with
  | none => rfl
  | some p =>
    cases h : Reg.get reg p.name with
    | none => simp only [h, Option.isSome_none, Bool.false_eq_true, if_false]
    | some v => simp only [h, Option.isSome_some, if_true]

/-- The generated loop of the `--plugins` branch appends one `print` step per plugin, in order. -/
theorem GEN_mainreg_printLoop_eq (t : Trace) (ps : List PluginDecl) :
    GenMainReg.printLoop t ps = t ++ ps.map (fun p => Step.print p.name) := by
  induction ps generalizing t with
  | nil => simp only [GenMainReg.printLoop, List.map_nil, List.append_nil]
  | cons p rest ih =>
    simp only [GenMainReg.printLoop, GenMainReg.printBody, ih, List.map_cons, List.append_assoc, List.singleton_append]

/-- The generated registration loop, started with the registry `reg` and the trace `t`, is the model's
`regRun`: the steps are appended to `t`, and the loop goes on with the registry `regRun` gives, or has ended
the process. -/
theorem GEN_mainreg_regLoop_eq (reg : Reg) (t : Trace) (ps : List PluginDecl) :
    GenMainReg.regLoop reg t ps =
      match MainReg.regRun reg ps with
      | (steps, some reg') => .next reg' (t ++ steps)
      | (steps, none) => .stop (t ++ steps) := by
  induction ps generalizing reg t with
  | nil => simp only [GenMainReg.regLoop, MainReg.regRun, List.append_nil]
  | cons p rest ih =>
    unfold GenMainReg.regLoop GenMainReg.regBody MainReg.regRun
    rw [GEN_mainreg_register_eq]
    cases h : MainReg.register (some p) reg with
    | error => rfl
    | panic => rfl
    | ok reg' =>
      simp only [ih]
      cases h2 : MainReg.regRun reg' rest with
      | mk steps r =>
        cases r with
        | none => simp only [List.append_assoc, List.singleton_append]
        | some r => simp only [List.append_assoc, List.singleton_append]

/-- The registry the process starts with (`var RegisteredPlugins = make(map[string]*Plugin)`) is empty. -/
theorem GEN_mainreg_registry0 : GenMainReg.registry0 = [] := rfl

/-- The generated `main` is the model's `main` for the generated log-level names, plugin list and initial
registry, for all flag values and all answers of the world. -/
theorem GEN_mainreg_main_eq (f : Flags) (w : World) :
    GenMainReg.main f w = MainReg.main GenMainReg.logLevelNames GenMainReg.desired GenMainReg.registry0 f w := by
  unfold GenMainReg.main MainReg.main MainReg.logging
  by_cases hp : f.plugins = true
  · simp only [hp, if_true, GEN_mainreg_printLoop_eq, List.singleton_append, List.cons_append, List.nil_append]
  · simp only [hp, if_false, Bool.false_eq_true]
    cases hl : GenMainReg.logLevelNames.contains f.loglevel with
    | false => simp only [if_true, List.cons_append, List.nil_append]
    | true =>
      simp only [Bool.true_eq_false, if_false]
      cases hw : w.load f.conf with
      | none =>
        by_cases h1 : f.logfile = "" <;> by_cases h2 : f.nostdout = true <;>
          simp only [h1, h2, ne_eq, not_true_eq_false, not_false_eq_true, if_true, if_false, Bool.false_eq_true, List.append_assoc, List.cons_append, List.nil_append, List.append_nil]
      | some c =>
        simp only [GEN_mainreg_regLoop_eq]
        cases hr : MainReg.regRun GenMainReg.registry0 GenMainReg.desired with
        | mk steps r =>
          cases r with
          | none =>
            by_cases h1 : f.logfile = "" <;> by_cases h2 : f.nostdout = true <;>
              simp only [h1, h2, ne_eq, not_true_eq_false, not_false_eq_true, if_true, if_false, Bool.false_eq_true, List.append_assoc, List.cons_append, List.nil_append, List.append_nil]
          | some reg' =>
            cases hs : w.start c <;>
            by_cases h1 : f.logfile = "" <;> by_cases h2 : f.nostdout = true <;>
              simp only [h1, h2, ne_eq, not_true_eq_false, not_false_eq_true, if_true, if_false, Bool.false_eq_true, List.append_assoc, List.cons_append, List.nil_append, List.append_nil]

/-- The flags as declared today: `-l` = `--logfile`, `-N` = `--nostdout`, `-L` = `--loglevel` (default "info"),
`-c` = `--conf` (the value `main` gives to `config.Load`, default ""), `-P` = `--plugins` (default false). -/
theorem MAINREG_flag_table :
    GenMainReg.flagDecls = [⟨"logfile", "l", .str ""⟩, ⟨"nostdout", "N", .bool false⟩, ⟨"loglevel", "L", .str "info"⟩,
      ⟨"conf", "c", .str ""⟩, ⟨"plugins", "P", .bool false⟩] := by decide

/-- The log levels `main` accepts, as `logLevels` has them today; any other value of --loglevel is fatal. -/
theorem MAINREG_log_levels :
    GenMainReg.logLevelNames = ["none", "debug", "info", "warning", "error", "fatal"] := by decide

/-! ## the registry as a map -/

theorem MainReg.get_set (reg : Reg) (k : String) (v : PluginDecl) (k' : String) :
    Reg.get (Reg.set reg k v) k' = if k = k' then some v else Reg.get reg k' := by
  induction reg with
  | nil => simp [Reg.set, Reg.get]
  | cons e rest ih =>
    obtain ⟨k0, v0⟩ := e
    by_cases h : k0 = k
    · subst h
      by_cases h2 : k0 = k' <;> simp [Reg.set, Reg.get, h2]
    · by_cases h2 : k0 = k'
      · subst h2
        have h3 : ¬ k = k0 := fun e => h e.symm
        simp [Reg.set, Reg.get, h, h3]
      · simp [Reg.set, Reg.get, h, h2, ih]

/-- how the loop of `main` and `registerAll` relate: the loop ends with a registry exactly when `registerAll` does -/
theorem MainReg.regRun_snd (reg : Reg) (ps : List PluginDecl) :
    (regRun reg ps).2 = match registerAll reg ps with | .ok r => some r | _ => none := by
  induction ps generalizing reg with
  | nil => rfl
  | cons p rest ih =>
    unfold regRun registerAll
    cases h : register (some p) reg with
    | error => rfl
    | panic => rfl
    | ok reg' => simp only [ih]

/-- a loop that ends with a registry has added one `registered` step per plugin, in order, and nothing else -/
theorem MainReg.regRun_fst_ok (reg : Reg) (ps : List PluginDecl) (r : Reg) (h : (regRun reg ps).2 = some r) :
    (regRun reg ps).1 = ps.map (fun p => Step.registered p.name) := by
  induction ps generalizing reg with
  | nil => rfl
  | cons p rest ih =>
    unfold regRun at h ⊢
    cases h1 : register (some p) reg with
    | error => simp [h1] at h
    | panic => simp [h1] at h
    | ok reg' =>
      simp only [h1] at h ⊢
      simp [ih reg' h]

/-- the loop adds only `registered`, `fatal (register _)` and `panic` steps -/
theorem MainReg.regRun_steps (reg : Reg) (ps : List PluginDecl) :
    ∀ s ∈ (regRun reg ps).1, (∃ n, s = .registered n) ∨ (∃ n, s = .fatal (.register n)) ∨ s = .panic := by
  induction ps generalizing reg with
  | nil => intro s hs; simp [regRun] at hs
  | cons p rest ih =>
    intro s hs
    unfold regRun at hs
    cases h1 : register (some p) reg with
    | error => simp [h1] at hs; exact Or.inr (Or.inl ⟨_, hs⟩)
    | panic => simp [h1] at hs; exact Or.inr (Or.inr hs)
    | ok reg' =>
      simp only [h1, List.mem_cons] at hs
      rcases hs with rfl | hs
      · exact Or.inl ⟨_, rfl⟩
      · exact ih reg' s hs

/-- Registering plugins with pairwise distinct names, none of which is registered yet, succeeds, and the
registry afterwards maps each of the names to its own plugin and is otherwise what it was. -/
theorem MainReg.registerAll_ok (ps : List PluginDecl) (reg : Reg)
    (hd : (ps.map (fun p => p.name)).Nodup) (hf : ∀ p ∈ ps, Reg.get reg p.name = none) :
    ∃ reg', registerAll reg ps = .ok reg' ∧
      ∀ k, Reg.get reg' k = match ps.find? (fun p => p.name = k) with | some p => some p | none => Reg.get reg k := by
  induction ps generalizing reg with
  | nil => exact ⟨reg, rfl, fun k => rfl⟩
  | cons p rest ih =>
    simp only [List.map_cons, List.nodup_cons, List.mem_map, not_exists, not_and] at hd
    obtain ⟨hp, hd'⟩ := hd
    have h0 : Reg.get reg p.name = none := hf p (List.mem_cons_self ..)
    have hreg : register (some p) reg = .ok (Reg.set reg p.name p) := by simp [register, h0]
    have hf' : ∀ q ∈ rest, Reg.get (Reg.set reg p.name p) q.name = none := by
      intro q hq
      have hne : ¬ p.name = q.name := fun e => hp q hq e.symm
      rw [MainReg.get_set]
      simp [hne, hf q (List.mem_cons_of_mem _ hq)]
    obtain ⟨reg', h1, h2⟩ := ih (Reg.set reg p.name p) hd' hf'
    refine ⟨reg', by simp [registerAll, hreg, h1], ?_⟩
    intro k
    rw [h2 k, List.find?_cons]
    by_cases hk : p.name = k
    · subst hk
      have hnone : rest.find? (fun q => decide (q.name = p.name)) = none := by
        rw [List.find?_eq_none]
        intro q hq
        have : ¬ q.name = p.name := fun e => hp q hq e
        simp [this]
      simp [hnone, MainReg.get_set]
    · cases hfind : rest.find? (fun q => decide (q.name = k)) with
      | some q => simp [hk]
      | none => simp [hk, MainReg.get_set]

/-! ## the names are distinct, so the loop of `main` never panics -/

/-- The plugin names that `desiredPlugins` lists — each resolved through the import to the `Name` of the
package's `Plugin` declaration — are pairwise distinct. -/
theorem MAINREG_names_distinct : (GenMainReg.desired.map (fun p => p.name)).Nodup := by decide

/-- Hence the registration loop of `main`, started with the empty registry of a fresh process, registers
every plugin: `registerAll` ends with `.ok`, never with the error or the panic of `RegisterPlugin`. -/
theorem MAINREG_registration_never_panics :
    ∃ reg, registerAll GenMainReg.registry0 GenMainReg.desired = .ok reg :=
  (MainReg.registerAll_ok GenMainReg.desired GenMainReg.registry0 MAINREG_names_distinct (fun _ _ => rfl)).imp
    (fun _ h => h.1)

-- a list that names one package twice, or two packages whose declarations carry the same name, panics at the second
example : registerAll [] [⟨"x/dns", "dns", true, true⟩, ⟨"x/dns", "dns", true, true⟩] = .panic := by decide
example : registerAll [] [⟨"x/dns", "dns", true, true⟩, ⟨"x/other", "dns", true, false⟩] = .panic := by decide
example : register none [] = .error := rfl

/-- After main's loop the registry maps exactly the names of `desired`, each to its own entry: the look-up of
a listed name gives that plugin, a name that is not listed is absent. (The loop of `main` — `regRun` — ends with
this very registry.) -/
theorem MAINREG_registry_exact :
    ∃ reg, registerAll GenMainReg.registry0 GenMainReg.desired = .ok reg ∧
      (regRun GenMainReg.registry0 GenMainReg.desired).2 = some reg ∧
      (∀ p ∈ GenMainReg.desired, Reg.get reg p.name = some p) ∧
      (∀ k, k ∉ GenMainReg.desired.map (fun p => p.name) → Reg.get reg k = none) ∧
      (∀ k, Reg.get reg k = GenMainReg.desired.find? (fun p => p.name = k)) := by
  obtain ⟨reg, h1, h2⟩ :=
    MainReg.registerAll_ok GenMainReg.desired GenMainReg.registry0 MAINREG_names_distinct (fun _ _ => rfl)
  have h3 : ∀ k, Reg.get reg k = GenMainReg.desired.find? (fun p => p.name = k) := by
    intro k
    rw [h2 k]
    cases GenMainReg.desired.find? (fun p => decide (p.name = k)) <;> rfl
  refine ⟨reg, h1, by rw [MainReg.regRun_snd, h1], ?_, ?_, h3⟩
  · -- each listed plugin is the FIRST of its name in the list, the names being distinct
    have key : ∀ (ps : List PluginDecl), (ps.map (fun p => p.name)).Nodup → ∀ p ∈ ps,
        ps.find? (fun q => decide (q.name = p.name)) = some p := by
      intro ps
      induction ps with
      | nil => intro _ p hp; cases hp
      | cons q rest ih =>
        intro hd p hp
        simp only [List.map_cons, List.nodup_cons, List.mem_map, not_exists, not_and] at hd
        rw [List.find?_cons]
        rcases List.mem_cons.mp hp with rfl | hp'
        · simp
        · have : ¬ q.name = p.name := fun e => hd.1 p hp' e.symm
          simp [this, ih hd.2 p hp']
    intro p hp
    rw [h3, key _ MAINREG_names_distinct p hp]
  · intro k hk
    rw [h3, List.find?_eq_none]
    intro q hq
    have : ¬ q.name = k := fun e => hk (List.mem_map.mpr ⟨q, hq, e⟩)
    simp [this]

example : (match registerAll GenMainReg.registry0 GenMainReg.desired with
    | .ok reg => decide ((Reg.get reg "range").map (fun p => p.importPath) = some "github.com/coredhcp/coredhcp/plugins/range" ∧
        Reg.get reg "example" = none ∧ Reg.get reg "leasetime" = none ∧ (Reg.get reg "lease_time").isSome = true)
    | _ => false) = true := by
  decide

/-- Registering any of the listed plugins a second time is a panic — what would happen if main's loop ran
twice, or if a plugin package also registered itself. -/
theorem MAINREG_second_registration_panics (reg : Reg)
    (h : registerAll GenMainReg.registry0 GenMainReg.desired = .ok reg) :
    (∀ p ∈ GenMainReg.desired, register (some p) reg = .panic) ∧ registerAll reg GenMainReg.desired = .panic := by
  obtain ⟨reg', h1, _, h3, _⟩ := MAINREG_registry_exact
  have : reg' = reg := by rw [h1] at h; exact Out.ok.inj h
  subst this
  have hall : ∀ p ∈ GenMainReg.desired, register (some p) reg' = .panic := by
    intro p hp
    simp [register, h3 p hp]
  refine ⟨hall, ?_⟩
  have hne : ∃ p rest, GenMainReg.desired = p :: rest := ⟨_, _, rfl⟩
  obtain ⟨p, rest, hpr⟩ := hne
  rw [hpr, registerAll, hall p (by rw [hpr]; exact List.mem_cons_self ..)]

/-! ## this is the registry `plugins.LoadPlugins` looks names up in (Model/Plugins.lean, Props/C13.lean) -/

/-- What `LoadPlugins` sees of the registry main's loop has built, for DHCPv4: a name is registered exactly when
`desired` lists it, and it has a set-up function for DHCPv4 exactly when the listed declaration has a `Setup4`. -/
theorem MAINREG_view4 {H : Type} (setups : PluginDecl → Setup H) (reg : Reg)
    (h : registerAll GenMainReg.registry0 GenMainReg.desired = .ok reg) (name : String) :
    Reg.view4 setups reg name =
      match GenMainReg.desired.find? (fun p => p.name = name) with
      | none => none
      | some p => some (if p.has4 = true then some (setups p) else none) := by
  obtain ⟨reg', h1, _, _, _, h5⟩ := MAINREG_registry_exact
  have : reg' = reg := by rw [h1] at h; exact Out.ok.inj h
  subst this
  unfold Reg.view4
  rw [h5 name]
  cases GenMainReg.desired.find? (fun p => decide (p.name = name)) <;> rfl

/-- The same for DHCPv6 and `Setup6`. -/
theorem MAINREG_view6 {H : Type} (setups : PluginDecl → Setup H) (reg : Reg)
    (h : registerAll GenMainReg.registry0 GenMainReg.desired = .ok reg) (name : String) :
    Reg.view6 setups reg name =
      match GenMainReg.desired.find? (fun p => p.name = name) with
      | none => none
      | some p => some (if p.has6 = true then some (setups p) else none) := by
  obtain ⟨reg', h1, _, _, _, h5⟩ := MAINREG_registry_exact
  have : reg' = reg := by rw [h1] at h; exact Out.ok.inj h
  subst this
  unfold Reg.view6
  rw [h5 name]
  cases GenMainReg.desired.find? (fun p => decide (p.name = name)) <;> rfl

/-- A configuration that names a plugin `desiredPlugins` does not list is rejected by `LoadPlugins` (by
`C13_load_aborts`, for the concrete registry of the server program), for either protocol. -/
theorem MAINREG_unknown_name_rejected {H : Type} (setups : PluginDecl → Setup H) (reg : Reg)
    (h : registerAll GenMainReg.registry0 GenMainReg.desired = .ok reg)
    (ps : List (String × List String)) (q : String × List String) (hq : q ∈ ps)
    (hn : q.1 ∉ GenMainReg.desired.map (fun p => p.name)) :
    (∃ e, loadChain (Reg.view4 setups reg) ps = .error e) ∧ (∃ e, loadChain (Reg.view6 setups reg) ps = .error e) := by
  have hfind : GenMainReg.desired.find? (fun p => decide (p.name = q.1)) = none := by
    rw [List.find?_eq_none]
    intro p hp
    have : ¬ p.name = q.1 := fun e => hn (List.mem_map.mpr ⟨p, hp, e⟩)
    simp [this]
  constructor
  · exact C13_load_aborts _ ps (Or.inl ⟨q, hq, by rw [MAINREG_view4 setups reg h, hfind]⟩)
  · exact C13_load_aborts _ ps (Or.inl ⟨q, hq, by rw [MAINREG_view6 setups reg h, hfind]⟩)

/-- A listed plugin whose declaration has no set-up function for a protocol is skipped when that protocol's
chain is loaded: no handler, no error (`prefix` in a DHCPv4 list, `range` in a DHCPv6 list, …). -/
theorem MAINREG_unsupported_skipped {H : Type} (setups : PluginDecl → Setup H) (reg : Reg)
    (h : registerAll GenMainReg.registry0 GenMainReg.desired = .ok reg)
    (p : PluginDecl) (hp : p ∈ GenMainReg.desired) (args : List String) (rest : List (String × List String)) :
    (p.has4 = false → loadChain (Reg.view4 setups reg) ((p.name, args) :: rest) = loadChain (Reg.view4 setups reg) rest) ∧
    (p.has6 = false → loadChain (Reg.view6 setups reg) ((p.name, args) :: rest) = loadChain (Reg.view6 setups reg) rest) := by
  obtain ⟨reg', h1, _, h3, _⟩ := MAINREG_registry_exact
  have : reg' = reg := by rw [h1] at h; exact Out.ok.inj h
  subst this
  constructor <;> intro hs
  · have : Reg.view4 setups reg' p.name = some none := by simp [Reg.view4, h3 p hp, hs]
    simp [loadChain, this]
  · have : Reg.view6 setups reg' p.name = some none := by simp [Reg.view6, h3 p hp, hs]
    simp [loadChain, this]

/-- `C13_load_exact` for the server program: when the DHCPv4 chain loads, every configured name is one of
`desired`, and the handlers are — in configuration order — what the `Setup4` of the listed declarations that have
one returned for the configured arguments. -/
theorem MAINREG_load_exact4 {H : Type} (setups : PluginDecl → Setup H) (reg : Reg)
    (h : registerAll GenMainReg.registry0 GenMainReg.desired = .ok reg)
    (ps : List (String × List String)) (hs : List H) (hl : loadChain (Reg.view4 setups reg) ps = .ok hs) :
    (∀ q ∈ ps, q.1 ∈ GenMainReg.desired.map (fun p => p.name)) ∧
    (ps.filterMap (fun q => match GenMainReg.desired.find? (fun p => p.name = q.1) with
        | some d => if d.has4 = true then some (setups d q.2) else none
        | none => none)) = hs.map (fun x => .ok (some x)) := by
  obtain ⟨h1, h2⟩ := C13_load_exact _ ps hs hl
  constructor
  · intro q hq
    have := h1 q hq
    rw [MAINREG_view4 setups reg h] at this
    cases hf : GenMainReg.desired.find? (fun p => decide (p.name = q.1)) with
    | none => simp [hf] at this
    | some d =>
      have hm := List.mem_of_find?_eq_some hf
      have hn := List.find?_some hf
      exact List.mem_map.mpr ⟨d, hm, by simpa using hn⟩
  · rw [← h2]
    unfold supported
    rw [List.map_filterMap]
    congr 1
    funext q
    rw [MAINREG_view4 setups reg h]
    cases GenMainReg.desired.find? (fun p => decide (p.name = q.1)) with
    | none => rfl
    | some d => cases h4 : d.has4 <;> simp [h4]

/-- The same for the DHCPv6 chain and `Setup6`. -/
theorem MAINREG_load_exact6 {H : Type} (setups : PluginDecl → Setup H) (reg : Reg)
    (h : registerAll GenMainReg.registry0 GenMainReg.desired = .ok reg)
    (ps : List (String × List String)) (hs : List H) (hl : loadChain (Reg.view6 setups reg) ps = .ok hs) :
    (∀ q ∈ ps, q.1 ∈ GenMainReg.desired.map (fun p => p.name)) ∧
    (ps.filterMap (fun q => match GenMainReg.desired.find? (fun p => p.name = q.1) with
        | some d => if d.has6 = true then some (setups d q.2) else none
        | none => none)) = hs.map (fun x => .ok (some x)) := by
  obtain ⟨h1, h2⟩ := C13_load_exact _ ps hs hl
  constructor
  · intro q hq
    have := h1 q hq
    rw [MAINREG_view6 setups reg h] at this
    cases hf : GenMainReg.desired.find? (fun p => decide (p.name = q.1)) with
    | none => simp [hf] at this
    | some d =>
      have hm := List.mem_of_find?_eq_some hf
      have hn := List.find?_some hf
      exact List.mem_map.mpr ⟨d, hm, by simpa using hn⟩
  · rw [← h2]
    unfold supported
    rw [List.map_filterMap]
    congr 1
    funext q
    rw [MAINREG_view6 setups reg h]
    cases GenMainReg.desired.find? (fun p => decide (p.name = q.1)) with
    | none => rfl
    | some d => cases h6 : d.has6 <;> simp [h6]

/-- (for the examples) the result of loading a chain is this list of handlers / this error -/
def MainReg.chainIs (r : Except LoadErr (List String)) (want : List String ⊕ LoadErr) : Bool :=
  match r, want with
  | .ok l, .inl l' => l == l'
  | .error e, .inr e' => decide (e = e')
  | _, _ => false

-- with set-up functions that always give a handler (the plugin's name): a DHCPv4 list with `prefix` in it loads
-- without it; a list with a name that is not built in (the example plugin, a misspelt lease_time) is rejected
example : (match registerAll GenMainReg.registry0 GenMainReg.desired with
    | .ok reg =>
      MainReg.chainIs (loadChain (Reg.view4 (fun p _ => .ok (some p.name)) reg) [("server_id", []), ("prefix", []), ("range", [])])
          (.inl ["server_id", "range"]) &&
        MainReg.chainIs (loadChain (Reg.view6 (fun p _ => .ok (some p.name)) reg) [("server_id", []), ("prefix", []), ("range", [])])
          (.inl ["server_id", "prefix"]) &&
        MainReg.chainIs (loadChain (Reg.view4 (fun p _ => .ok (some p.name)) reg) [("server_id", []), ("example", [])])
          (.inr (.unknown "example")) &&
        MainReg.chainIs (loadChain (Reg.view4 (fun p _ => .ok (some p.name)) reg) [("leasetime", ["1h"])])
          (.inr (.unknown "leasetime"))
    | _ => false) = true := by decide

/-! ## which built-in plugin supports which protocol -/

/-- The table read from the fifteen `var Plugin = plugins.Plugin{…}` declarations, as it is today:
(name, has a DHCPv4 set-up, has a DHCPv6 set-up), in the order of `desiredPlugins`. -/
theorem MAINREG_protocol_support :
    GenMainReg.desired.map (fun p => (p.name, p.has4, p.has6)) =
      [("autoconfigure", true, false), ("dns", true, true), ("file", true, true), ("ipv6only", true, false),
       ("lease_time", true, false), ("mtu", true, false), ("nbp", true, true), ("netmask", true, false),
       ("prefix", false, true), ("range", true, false), ("router", true, false), ("searchdomains", true, true),
       ("server_id", true, true), ("sleep", true, true), ("staticroute", true, false)] := by decide

/-- for which names the option-plugin model (Model/OptPlug.lean) has a DHCPv4 / DHCPv6 set-up -/
theorem MainReg.plugSetup4_isSome (name : String) (args : List Plug.ArgOracle) :
    (Plug.plugSetup4 name args).isSome = ["dns", "mtu", "netmask", "router", "lease_time", "searchdomains", "staticroute",
      "ipv6only", "autoconfigure", "nbp", "sleep", "server_id"].contains name := by
  unfold Plug.plugSetup4
  by_cases h0 : name = "dns"
  · subst h0; simp
  by_cases h1 : name = "mtu"
  · subst h1; simp
  by_cases h2 : name = "netmask"
  · subst h2; simp
  by_cases h3 : name = "router"
  · subst h3; simp
  by_cases h4 : name = "lease_time"
  · subst h4; simp
  by_cases h5 : name = "searchdomains"
  · subst h5; simp
  by_cases h6 : name = "staticroute"
  · subst h6; simp
  by_cases h7 : name = "ipv6only"
  · subst h7; simp
  by_cases h8 : name = "autoconfigure"
  · subst h8; simp
  by_cases h9 : name = "nbp"
  · subst h9; simp
  by_cases h10 : name = "sleep"
  · subst h10; simp
  by_cases h11 : name = "server_id"
  · subst h11; simp
  simp [h0, h1, h2, h3, h4, h5, h6, h7, h8, h9, h10, h11]

theorem MainReg.plugSetup6_isSome (name : String) (args : List Plug.ArgOracle) :
    (Plug.plugSetup6 name args).isSome = ["dns", "searchdomains", "nbp", "sleep", "server_id"].contains name := by
  unfold Plug.plugSetup6
  by_cases h0 : name = "dns"
  · subst h0; simp
  by_cases h1 : name = "searchdomains"
  · subst h1; simp
  by_cases h2 : name = "nbp"
  · subst h2; simp
  by_cases h3 : name = "sleep"
  · subst h3; simp
  by_cases h4 : name = "server_id"
  · subst h4; simp
  simp [h0, h1, h2, h3, h4]

/-- The table agrees with the models there are: for every listed plugin other than the three stateful ones, the
option-plugin model `Plug.plugSetup4` / `Plug.plugSetup6` (Model/OptPlug.lean; tied to the set-up functions by unit
`setups`) has a set-up for a protocol exactly when the plugin's declaration has one; and the three stateful ones
are declared for exactly the protocols Model/System.lean has chain elements for — `file`: both (`Elem4.file`,
`Elem6.file`), `range`: DHCPv4 only (`Elem4.lease`), `prefix`: DHCPv6 only (`Elem6.pd`). -/
theorem MAINREG_protocol_support_models (args : List Plug.ArgOracle) :
    (∀ p ∈ GenMainReg.desired, p.name ∉ ["file", "range", "prefix"] →
      (Plug.plugSetup4 p.name args).isSome = p.has4 ∧ (Plug.plugSetup6 p.name args).isSome = p.has6) ∧
    (GenMainReg.desired.filter (fun p => ["file", "range", "prefix"].contains p.name)).map (fun p => (p.name, p.has4, p.has6))
      = [("file", true, true), ("prefix", false, true), ("range", true, false)] := by
  simp only [MainReg.plugSetup4_isSome, MainReg.plugSetup6_isSome]
  decide

/-! ## the order of effects in `main` -/

/-- a step that is no registration, no server start and no configuration load -/
def MainReg.Step.quiet : Step → Bool
  | .registered _ => false
  | .start _ => false
  | .load _ => false
  | _ => true

/-- a step that is no server start and no configuration load -/
def MainReg.Step.calm : Step → Bool
  | .start _ => false
  | .load _ => false
  | _ => true

theorem MainReg.logging_quiet (f : Flags) : ∀ s ∈ MainReg.logging f, s.quiet = true := by
  intro s hs
  unfold MainReg.logging at hs
  by_cases h1 : f.logfile = "" <;> by_cases h2 : f.nostdout = true <;>
    simp only [h1, h2, ne_eq, not_true_eq_false, not_false_eq_true, if_true, if_false, Bool.false_eq_true,
      List.append_nil, List.mem_append, List.mem_singleton, List.mem_cons, List.not_mem_nil, or_false] at hs
  · rcases hs with rfl | rfl <;> rfl
  · subst hs; rfl
  · rcases hs with (rfl | rfl) | rfl <;> rfl
  · rcases hs with rfl | rfl <;> rfl

theorem MainReg.regRun_calm (reg : Reg) (ps : List PluginDecl) : ∀ s ∈ (regRun reg ps).1, s.calm = true := by
  intro s hs
  rcases MainReg.regRun_steps reg ps s hs with ⟨n, rfl⟩ | ⟨n, rfl⟩ | rfl <;> rfl

/-- the five ways a run of `main` can go, each with the whole trace -/
theorem MainReg.main_cases (levels : List String) (desired : List PluginDecl) (reg0 : Reg) (f : Flags) (w : World) :
    (f.plugins = true ∧
      MainReg.main levels desired reg0 f w = .parseFlags :: (desired.map (fun p => Step.print p.name) ++ [.exit 0])) ∨
    (f.plugins = false ∧ MainReg.main levels desired reg0 f w = [.parseFlags, .getLogger "main", .fatal .logLevel]) ∨
    (f.plugins = false ∧ w.load f.conf = none ∧
      MainReg.main levels desired reg0 f w =
        ([.parseFlags, .getLogger "main"] ++ MainReg.logging f) ++ [.load f.conf, .fatal .load]) ∨
    (f.plugins = false ∧ (∃ c, w.load f.conf = some c) ∧ (regRun reg0 desired).2 = none ∧
      MainReg.main levels desired reg0 f w =
        ([.parseFlags, .getLogger "main"] ++ MainReg.logging f) ++ .load f.conf :: (regRun reg0 desired).1) ∨
    (f.plugins = false ∧ ∃ c, w.load f.conf = some c ∧ (∃ r, (regRun reg0 desired).2 = some r) ∧
      MainReg.main levels desired reg0 f w =
        ([.parseFlags, .getLogger "main"] ++ MainReg.logging f) ++ .load f.conf ::
          (desired.map (fun p => Step.registered p.name) ++ .start c ::
            (if w.start c = true then [.wait, .ret] else [.fatal .start]))) := by
  unfold MainReg.main
  by_cases hp : f.plugins = true
  · exact Or.inl ⟨hp, by simp only [hp, if_true]⟩
  · have hp' : f.plugins = false := by simpa using hp
    simp only [hp, if_false, Bool.false_eq_true]
    cases hl : levels.contains f.loglevel with
    | false => exact Or.inr (Or.inl ⟨trivial, by simp only [if_true, List.cons_append, List.nil_append]⟩)
    | true =>
      simp only [Bool.true_eq_false, if_false]
      cases hw : w.load f.conf with
      | none => exact Or.inr (Or.inr (Or.inl ⟨trivial, rfl, by simp only [List.append_assoc, List.cons_append, List.nil_append]⟩))
      | some c =>
        cases hr : regRun reg0 desired with
        | mk steps r =>
          cases r with
          | none =>
            exact Or.inr (Or.inr (Or.inr (Or.inl ⟨trivial, ⟨c, rfl⟩, rfl,
              by simp only [List.append_assoc, List.cons_append, List.nil_append]⟩)))
          | some reg' =>
            have hfst := MainReg.regRun_fst_ok reg0 desired reg' (by rw [hr])
            rw [hr] at hfst
            simp only at hfst
            subst hfst
            exact Or.inr (Or.inr (Or.inr (Or.inr ⟨trivial, c, rfl, ⟨reg', rfl⟩,
              by simp only [List.append_assoc, List.cons_append, List.nil_append]⟩)))

/-- In every run of `main` (any log levels, any plugin list, any initial registry, any flags, any world):
the only configuration loaded is the file named with --conf; when that load fails nothing is registered and the
server is not started; when a registration fails (or panics) the server is not started; and when the server is
started, it is started with the configuration `config.Load` returned for the --conf path, AFTER that load and
AFTER every plugin of the list was registered in order — nothing is registered or started before the load. -/
theorem MAINREG_config_before_sockets (levels : List String) (desired : List PluginDecl) (reg0 : Reg) (f : Flags) (w : World) :
    (∀ p, Step.load p ∈ MainReg.main levels desired reg0 f w → p = f.conf) ∧
    (w.load f.conf = none → ∀ s ∈ MainReg.main levels desired reg0 f w, (∀ n, s ≠ .registered n) ∧ (∀ c, s ≠ .start c)) ∧
    ((regRun reg0 desired).2 = none → ∀ c, Step.start c ∉ MainReg.main levels desired reg0 f w) ∧
    (∀ c, Step.start c ∈ MainReg.main levels desired reg0 f w →
      w.load f.conf = some c ∧
      ∃ pre post, MainReg.main levels desired reg0 f w =
          pre ++ Step.load f.conf :: (desired.map (fun p => Step.registered p.name) ++ Step.start c :: post) ∧
        ∀ s ∈ pre, (∀ n, s ≠ .registered n) ∧ (∀ c', s ≠ .start c') ∧ (∀ p, s ≠ .load p)) := by
  have hq : ∀ s ∈ ([Step.parseFlags, Step.getLogger "main"] ++ MainReg.logging f), s.quiet = true := by
    intro s hs
    rcases List.mem_append.mp hs with h | h
    · simp only [List.mem_cons, List.not_mem_nil, or_false] at h
      rcases h with rfl | rfl <;> rfl
    · exact MainReg.logging_quiet f s h
  have hcalm := MainReg.regRun_calm reg0 desired
  have hpost : ∀ c, ∀ s ∈ (if w.start c = true then [Step.wait, Step.ret] else [Step.fatal Fatal.start]), s.calm = true := by
    intro c s hs
    cases hst : w.start c <;> simp only [hst, if_true, if_false, Bool.false_eq_true, List.mem_cons, List.not_mem_nil, or_false] at hs
    · subst hs; rfl
    · rcases hs with rfl | rfl <;> rfl
  have quietD : ∀ s : Step, s.quiet = true → (∀ n, s ≠ .registered n) ∧ (∀ c', s ≠ .start c') ∧ (∀ p, s ≠ .load p) := by
    intro s h
    refine ⟨?_, ?_, ?_⟩ <;> intro x e <;> subst e <;> cases h
  have hmapL : ∀ p, Step.load p ∉ desired.map (fun q => Step.registered q.name) := by
    intro p h
    obtain ⟨q, _, e⟩ := List.mem_map.mp h
    cases e
  have hmapS : ∀ c, Step.start c ∉ desired.map (fun q => Step.registered q.name) := by
    intro c h
    obtain ⟨q, _, e⟩ := List.mem_map.mp h
    cases e
  have hprintL : ∀ s ∈ Step.parseFlags :: (desired.map (fun p => Step.print p.name) ++ [Step.exit 0]), s.quiet = true := by
    intro s hs
    rcases List.mem_cons.mp hs with rfl | hs
    · rfl
    · rcases List.mem_append.mp hs with h | h
      · obtain ⟨q, _, rfl⟩ := List.mem_map.mp h
        rfl
      · simp only [List.mem_cons, List.not_mem_nil, or_false] at h
        subst h; rfl
  rcases MainReg.main_cases levels desired reg0 f w with ⟨_, hm⟩ | ⟨_, hm⟩ | ⟨_, hw, hm⟩ | ⟨_, ⟨c, hw⟩, hr, hm⟩ | ⟨_, c, hw, ⟨r, hr⟩, hm⟩
  all_goals rw [hm]
  · -- --plugins
    refine ⟨?_, ?_, ?_, ?_⟩
    · intro p h; exact absurd rfl ((quietD _ (hprintL _ h)).2.2 p)
    · intro _ s h; exact ⟨(quietD _ (hprintL _ h)).1, (quietD _ (hprintL _ h)).2.1⟩
    · intro _ c h; exact absurd rfl ((quietD _ (hprintL _ h)).2.1 c)
    · intro c h; exact absurd rfl ((quietD _ (hprintL _ h)).2.1 c)
  · -- invalid log level
    refine ⟨?_, ?_, ?_, ?_⟩
    · intro p h; simp at h
    · intro _ s h
      simp only [List.mem_cons, List.not_mem_nil, or_false] at h
      rcases h with rfl | rfl | rfl <;> simp
    · intro _ c h; simp at h
    · intro c h; simp at h
  · -- the load fails
    refine ⟨?_, ?_, ?_, ?_⟩
    · intro p h
      rcases List.mem_append.mp h with h | h
      · exact absurd rfl ((quietD _ (hq _ h)).2.2 p)
      · simp only [List.mem_cons, List.not_mem_nil, or_false] at h
        rcases h with h | h
        · exact Step.load.inj h
        · cases h
    · intro _ s h
      rcases List.mem_append.mp h with h | h
      · exact ⟨(quietD _ (hq _ h)).1, (quietD _ (hq _ h)).2.1⟩
      · simp only [List.mem_cons, List.not_mem_nil, or_false] at h
        rcases h with rfl | rfl <;> simp
    · intro _ c h
      rcases List.mem_append.mp h with h | h
      · exact absurd rfl ((quietD _ (hq _ h)).2.1 c)
      · simp at h
    · intro c h
      rcases List.mem_append.mp h with h | h
      · exact absurd rfl ((quietD _ (hq _ h)).2.1 c)
      · simp at h
  · -- a registration fails
    have hnostart : ∀ c', Step.start c' ∉ ([Step.parseFlags, Step.getLogger "main"] ++ logging f) ++ Step.load f.conf :: (regRun reg0 desired).1 := by
      intro c' h
      rcases List.mem_append.mp h with h | h
      · exact absurd rfl ((quietD _ (hq _ h)).2.1 c')
      · rcases List.mem_cons.mp h with h | h
        · cases h
        · have := hcalm _ h
          cases this
    refine ⟨?_, ?_, ?_, ?_⟩
    · intro p h
      rcases List.mem_append.mp h with h | h
      · exact absurd rfl ((quietD _ (hq _ h)).2.2 p)
      · rcases List.mem_cons.mp h with h | h
        · exact Step.load.inj h
        · have := hcalm _ h
          cases this
    · intro h; rw [hw] at h; cases h
    · intro _ c'; exact hnostart c'
    · intro c' h; exact absurd h (hnostart c')
  · -- everything is registered, the server is started
    refine ⟨?_, ?_, ?_, ?_⟩
    · intro p h
      rcases List.mem_append.mp h with h | h
      · exact absurd rfl ((quietD _ (hq _ h)).2.2 p)
      · rcases List.mem_cons.mp h with h | h
        · exact Step.load.inj h
        · rcases List.mem_append.mp h with h | h
          · exact absurd h (hmapL p)
          · rcases List.mem_cons.mp h with h | h
            · cases h
            · have := hpost c _ h
              cases this
    · intro h; rw [hw] at h; cases h
    · intro h; rw [hr] at h; cases h
    · intro c' h
      have hcc : c' = c := by
        rcases List.mem_append.mp h with h | h
        · exact absurd rfl ((quietD _ (hq _ h)).2.1 c')
        · rcases List.mem_cons.mp h with h | h
          · cases h
          · rcases List.mem_append.mp h with h | h
            · exact absurd h (hmapS c')
            · rcases List.mem_cons.mp h with h | h
              · exact Step.start.inj h
              · have := hpost c _ h
                cases this
      subst hcc
      exact ⟨hw, _, _, rfl, fun s hs => quietD s (hq s hs)⟩

/-- The same for the generated `main` — the server program as the source has it now. -/
theorem MAINREG_config_before_sockets_gen (f : Flags) (w : World) :
    (∀ p, Step.load p ∈ GenMainReg.main f w → p = f.conf) ∧
    (w.load f.conf = none → ∀ s ∈ GenMainReg.main f w, (∀ n, s ≠ .registered n) ∧ (∀ c, s ≠ .start c)) ∧
    (∀ c, Step.start c ∈ GenMainReg.main f w →
      w.load f.conf = some c ∧
      ∃ pre post, GenMainReg.main f w =
          pre ++ Step.load f.conf :: (GenMainReg.desired.map (fun p => Step.registered p.name) ++ Step.start c :: post) ∧
        ∀ s ∈ pre, (∀ n, s ≠ .registered n) ∧ (∀ c', s ≠ .start c') ∧ (∀ p, s ≠ .load p)) := by
  rw [GEN_mainreg_main_eq]
  have h := MAINREG_config_before_sockets GenMainReg.logLevelNames GenMainReg.desired GenMainReg.registry0 f w
  exact ⟨h.1, h.2.1, h.2.2.2⟩

/-- A whole run of the server program without --plugins and with a valid log level: the logger, the load of the
--conf file, and then either the fatal end, or all fifteen registrations in the order of `desiredPlugins`, the
start of the server with the loaded configuration, and the wait (or the fatal end when the start fails). -/
theorem MAINREG_run (f : Flags) (w : World) (hp : f.plugins = false)
    (hl : GenMainReg.logLevelNames.contains f.loglevel = true) :
    GenMainReg.main f w =
      [.parseFlags, .getLogger "main"] ++ MainReg.logging f ++ [.load f.conf] ++
        match w.load f.conf with
        | none => [.fatal .load]
        | some c => GenMainReg.desired.map (fun p => Step.registered p.name) ++ [.start c] ++
            (if w.start c = true then [.wait, .ret] else [.fatal .start]) := by
  rw [GEN_mainreg_main_eq]
  obtain ⟨reg, _, h2, _⟩ := MAINREG_registry_exact
  have h1 := MainReg.regRun_fst_ok _ _ reg h2
  have hr : regRun GenMainReg.registry0 GenMainReg.desired =
      (GenMainReg.desired.map (fun p => Step.registered p.name), some reg) := by
    rw [← h1, ← h2]
  unfold MainReg.main
  simp only [hp, hl, Bool.false_eq_true, Bool.true_eq_false, if_false, hr]
  cases w.load f.conf <;> simp only [List.append_assoc]

/-- With -P (--plugins) nothing is loaded, registered or started: the whole run is `flag.Parse()`, one printed
line per plugin of `desired` — its name, in order — and `os.Exit(0)`; the world is not asked anything. -/
theorem MAINREG_list_plugins_is_pure (f : Flags) (w : World) (hp : f.plugins = true) :
    GenMainReg.main f w = .parseFlags :: (GenMainReg.desired.map (fun p => Step.print p.name) ++ [.exit 0]) ∧
    (∀ s ∈ GenMainReg.main f w, (∀ p, s ≠ .load p) ∧ (∀ n, s ≠ .registered n) ∧ (∀ c, s ≠ .start c) ∧
      (∀ n, s ≠ .getLogger n)) := by
  have h : GenMainReg.main f w = .parseFlags :: (GenMainReg.desired.map (fun p => Step.print p.name) ++ [.exit 0]) := by
    rw [GEN_mainreg_main_eq]
    unfold MainReg.main
    simp only [hp, if_true]
  refine ⟨h, ?_⟩
  rw [h]
  intro s hs
  rcases List.mem_cons.mp hs with rfl | hs
  · simp
  · rcases List.mem_append.mp hs with h | h
    · obtain ⟨q, _, rfl⟩ := List.mem_map.mp h
      simp
    · simp only [List.mem_cons, List.not_mem_nil, or_false] at h
      subst h; simp

/-! ## examples: the statements are about something, and a different program would violate them -/

/-- a world in which path "/etc/coredhcp.yml" gives configuration 7 and every start succeeds -/
def MainReg.exWorld : World := ⟨fun p => if p = "/etc/coredhcp.yml" then some 7 else none, fun _ => true⟩

-- a normal start: fifteen registrations between the load and the start, the start gets configuration 7
example : GenMainReg.main ⟨"", false, "info", "/etc/coredhcp.yml", false⟩ MainReg.exWorld =
    [.parseFlags, .getLogger "main", .setLevel "info", .load "/etc/coredhcp.yml",
     .registered "autoconfigure", .registered "dns", .registered "file", .registered "ipv6only", .registered "lease_time",
     .registered "mtu", .registered "nbp", .registered "netmask", .registered "prefix", .registered "range",
     .registered "router", .registered "searchdomains", .registered "server_id", .registered "sleep",
     .registered "staticroute", .start 7, .wait, .ret] := by decide
-- the configuration file does not load: fatal, nothing registered, nothing started
example : GenMainReg.main ⟨"log", true, "debug", "/nonexistent", false⟩ MainReg.exWorld =
    [.parseFlags, .getLogger "main", .setLevel "debug", .withFile "log", .withNoStdout, .load "/nonexistent", .fatal .load] := by
  decide
-- an invalid log level is fatal before the configuration is looked at
example : GenMainReg.main ⟨"", false, "verbose", "/etc/coredhcp.yml", false⟩ MainReg.exWorld =
    [.parseFlags, .getLogger "main", .fatal .logLevel] := by decide
-- --plugins
example : (GenMainReg.main ⟨"", false, "verbose", "/nonexistent", true⟩ MainReg.exWorld).length = 17 := by decide
-- a main that registered its plugins twice (or ran on top of plugin packages that register themselves) would panic
-- at the first plugin, before the server is started: the model's main from a registry that already has them
example : MainReg.main GenMainReg.logLevelNames GenMainReg.desired [("autoconfigure", ⟨"x", "autoconfigure", true, false⟩)]
    ⟨"", false, "info", "/etc/coredhcp.yml", false⟩ MainReg.exWorld =
    [.parseFlags, .getLogger "main", .setLevel "info", .load "/etc/coredhcp.yml", .panic] := by decide
-- `MAINREG_config_before_sockets` is violated by a program that starts the server before it loads: such a trace
-- has a `start` with no `load` before it, which no run of `main` has
example : ¬ ∃ pre post, [Step.start 7, Step.load "/etc/coredhcp.yml"] =
    pre ++ Step.load "/etc/coredhcp.yml" :: (([] : List PluginDecl).map (fun p => Step.registered p.name) ++ Step.start 7 :: post) := by
  rintro ⟨pre, post, h⟩
  rcases pre with _ | ⟨a, _ | ⟨b, rest⟩⟩ <;> simp at h

end CoreDhcp
