/-
GEN (set-up of the static-lease plugin: `setupFile`, its refresh goroutine, `setup4` / `setup6`) — the definitions
regenerated from the Go source on every run (Generated/FileSetup.lean, written by `harness gen -unit filesetup` from
the go/ast of plugins/file/plugin.go) are equal to the hand-written model (Model/FileSetup.lean), and the facts
property C10 relies on ("the mapping served is the one of the configured file; with `autorefresh` a later well-formed
version of THE CONFIGURED FILE replaces it, a malformed one leaves it as it is") are proved about the generated
definitions.

What `loadFromFile`, `handle4`, `handle6` do is unit `fileplugin` (Props/GenFilePlugin.lean); here `load b s` is the
answer of `loadFromFile(b, s)` as a function of its two arguments, so that the statements below say WHICH file is
loaded for WHICH protocol.  The last section links one event to one `FState.load` attempt of Model/File.lean.

Since the repair of the lost watch (a lease file replaced by rename was never refreshed a second time: the watch is on
the file, not on the name) the event loop looks at ONE thing of an event — whether it says the file was removed or
renamed — and then watches the configured name again before it reloads; `FILESETUP_replaced_file_is_watched_again`
and `FILESETUP_watch_survives_replacements` are about that, the code before the repair is `FileSetup.onEventOld`.

An edit of the Go logic changes the generated text, makes a statement below false and breaks this file (or is rejected
by the translator); a renamed variable, a comment, a changed or removed log line regenerate the same text;
`len(args) >= 2` for `len(args) > 1` regenerates another text of which the same statements hold.
-/
import CoreDhcp.Generated.FileSetup
import CoreDhcp.Model.FileSetup
namespace CoreDhcp
open FileSetup

/-! ## generated = model -/

/-- generated `setupFile` = the model's `setup`, for all arguments and all answers of the calls it makes; the initial
load is `loadFromFile(v6, args[0])` and the watcher is given `args[0]` -/
theorem GEN_filesetup_setup_eq (v6 : Bool) (args : List String) (load : Bool → String → Bool) (newWatcherOk : Bool)
    (add : String → Bool) :
    GenFileSetup.setupFile v6 args load newWatcherOk add =
      FileSetup.setup v6 args (load v6 (args.headD "")) newWatcherOk (add (args.headD "")) := by
  rcases args with _ | ⟨f, _ | ⟨a, rest⟩⟩
  · simp [GenFileSetup.setupFile, FileSetup.setup]
  · by_cases hf : f = "" <;> cases hl : load v6 f <;>
      simp [GenFileSetup.setupFile, FileSetup.setup, hf, hl]
  · by_cases hf : f = "" <;> cases hl : load v6 f <;> by_cases ha : a = "autorefresh" <;> cases newWatcherOk <;>
      cases hd : add f <;>
      simp [GenFileSetup.setupFile, FileSetup.setup, FileSetup.autoRefreshArg, hf, hl, ha, hd]

example : GenFileSetup.setupFile true ["leases.txt", "autorefresh"] (fun _ _ => true) true (fun _ => true)
    = .ok (some "leases.txt") .own4 .own6 := by decide
example : GenFileSetup.setupFile false ["leases.txt"] (fun _ _ => true) false (fun _ => false) = .ok none .own4 .own6 := by decide
example : GenFileSetup.setupFile false [] (fun _ _ => true) true (fun _ => true) = .argErr .noFileName := by decide
example : GenFileSetup.setupFile false ["", "autorefresh"] (fun _ _ => true) true (fun _ => true) = .argErr .emptyFileName := by decide
-- the load is asked for THIS protocol and THIS file
example : GenFileSetup.setupFile true ["a", "autorefresh"] (fun b s => b && s == "a") true (fun _ => true)
    = .ok (some "a") .own4 .own6 := by decide
example : GenFileSetup.setupFile false ["a", "autorefresh"] (fun b s => b && s == "a") true (fun _ => true) = .loadErr := by decide

/-- generated body of the event loop = the model's `onEvent`: one reload of `(v6, args[0])` for EVERY event; an event
that says the file was removed or renamed (`fsnotify.Remove` = 4, `fsnotify.Rename` = 8, values read from the fsnotify
source) makes the goroutine watch `args[0]` again before that reload — and what the `Add` of the re-watch answers
(`readd`) changes nothing: its error is only logged -/
theorem GEN_filesetup_refresh_eq (v6 : Bool) (args : List String) (load : Bool → String → Bool) (readd : String → Bool)
    (ev : Event) :
    GenFileSetup.onEvent v6 args load readd ev =
      FileSetup.onEvent v6 (args.headD "") (load v6 (args.headD "")) ev := by
  rcases args with _ | ⟨f, rest⟩
  · cases h : load v6 "" <;> cases h4 : ev.has 4 <;> cases h8 : ev.has 8 <;> cases hr : readd "" <;>
      simp [GenFileSetup.onEvent, FileSetup.onEvent, FileSetup.refresh, FileSetup.loopAfter, Event.replaced, h, h4, h8, hr]
  · cases h : load v6 f <;> cases h4 : ev.has 4 <;> cases h8 : ev.has 8 <;> cases hr : readd f <;>
      simp [GenFileSetup.onEvent, FileSetup.onEvent, FileSetup.refresh, FileSetup.loopAfter, Event.replaced, h, h4, h8, hr]

-- a Write (2) of a malformed version: nothing but the failed reload
example : GenFileSetup.onEvent true ["leases.txt", "autorefresh"] (fun _ _ => false) (fun _ => true) ⟨2, "leases.txt"⟩
    = ⟨[(true, "leases.txt")], .keep, .continues, none⟩ := by decide
-- a Chmod (16) under another name reloads all the same
example : GenFileSetup.onEvent false ["leases.txt", "autorefresh"] (fun _ _ => true) (fun _ => true) ⟨16, "other"⟩
    = ⟨[(false, "leases.txt")], .replace, .continues, none⟩ := by decide
-- a Rename (8), a Remove (4): the name is watched again, and reloaded; also when the re-watch fails
example : GenFileSetup.onEvent false ["leases.txt", "autorefresh"] (fun _ _ => true) (fun _ => true) ⟨8, "leases.txt"⟩
    = ⟨[(false, "leases.txt")], .replace, .continues, some "leases.txt"⟩ := by decide
example : GenFileSetup.onEvent false ["leases.txt", "autorefresh"] (fun _ _ => true) (fun _ => false) ⟨4, "leases.txt"⟩
    = ⟨[(false, "leases.txt")], .replace, .continues, some "leases.txt"⟩ := by decide
-- the code before the repair is another function: it never watches again
example : FileSetup.onEventOld false "leases.txt" true ⟨8, "leases.txt"⟩
    ≠ GenFileSetup.onEvent false ["leases.txt", "autorefresh"] (fun _ _ => true) (fun _ => true) ⟨8, "leases.txt"⟩ := by decide

/-- the two registered functions: `setup6` passes `true` and returns the DHCPv6 side of the pair, `setup4` passes
`false` and returns the DHCPv4 side -/
theorem GEN_filesetup_reg_eq : GenFileSetup.reg6 = FileSetup.reg6 ∧ GenFileSetup.reg4 = FileSetup.reg4 := ⟨rfl, rfl⟩

example : GenFileSetup.reg6.v6 = true ∧ GenFileSetup.reg4.side = .four := by decide

/-! ## what is watched -/

/-- when the set-up succeeds with a goroutine, the path whose events it consumes is `args[0]` verbatim, the second
argument is "autorefresh", the watcher was made and `Add` was given exactly that path; and with
`file "name" autorefresh` a successful set-up always has one -/
theorem FILESETUP_watches_the_configured_name (v6 : Bool) (args : List String) (load : Bool → String → Bool)
    (newWatcherOk : Bool) (add : String → Bool) :
    (∀ w t4 t6, GenFileSetup.setupFile v6 args load newWatcherOk add = .ok (some w) t4 t6 →
      args[0]? = some w ∧ args[1]? = some "autorefresh" ∧ newWatcherOk = true ∧ add w = true ∧ load v6 w = true) ∧
    (∀ f rest w t4 t6, args = f :: "autorefresh" :: rest →
      GenFileSetup.setupFile v6 args load newWatcherOk add = .ok w t4 t6 → w = some f) := by
  rw [GEN_filesetup_setup_eq]
  refine ⟨?_, ?_⟩
  · intro w t4 t6 h
    rcases args with _ | ⟨f, _ | ⟨a, rest⟩⟩
    · simp [FileSetup.setup] at h
    · by_cases hf : f = "" <;> cases hl : load v6 f <;> simp [FileSetup.setup, hf, hl] at h
    · by_cases hf : f = "" <;> cases hl : load v6 f <;> by_cases ha : a = "autorefresh" <;> cases newWatcherOk <;>
        cases hd : add f <;>
        simp [FileSetup.setup, FileSetup.autoRefreshArg, hf, hl, ha, hd] at h
      obtain ⟨rfl, _, _⟩ := h
      simp [ha, hd, hl]
  · intro f rest w t4 t6 hargs h
    subst hargs
    by_cases hf : f = "" <;> cases hl : load v6 f <;> cases newWatcherOk <;> cases hd : add f <;>
      simp [FileSetup.setup, FileSetup.autoRefreshArg, hf, hl, hd] at h
    exact h.1.symm

-- a name given through a symbolic link, or with `./` in front, is watched as it was given (not its directory, not
-- its resolved form): the events the goroutine sees are the events of the configured name
example : GenFileSetup.setupFile false ["./link/../leases.txt", "autorefresh"] (fun _ _ => true) true (fun _ => true)
    = .ok (some "./link/../leases.txt") .own4 .own6 := by decide
-- `Add` is asked about that very path: an oracle that refuses everything else still succeeds, one that refuses it fails
example : GenFileSetup.setupFile false ["dir/leases.txt", "autorefresh"] (fun _ _ => true) true (fun p => p == "dir/leases.txt")
    = .ok (some "dir/leases.txt") .own4 .own6 := by decide
example : GenFileSetup.setupFile false ["dir/leases.txt", "autorefresh"] (fun _ _ => true) true (fun p => p == "dir")
    = .watchErr := by decide

/-! ## the refresher -/

/-- EVERY event — whatever its operation bits and its name — makes exactly one reload, of the configured file, for
the protocol of this instance; the mapping is replaced exactly when that reload succeeds; two events differ at most
in whether the name is watched again -/
theorem FILESETUP_every_event_reloads (v6 : Bool) (args : List String) (load : Bool → String → Bool)
    (readd : String → Bool) (ev : Event) :
    (GenFileSetup.onEvent v6 args load readd ev).loads = [(v6, args.headD "")] ∧
    (GenFileSetup.onEvent v6 args load readd ev).refresh = FileSetup.refresh (load v6 (args.headD "")) ∧
    ((GenFileSetup.onEvent v6 args load readd ev).refresh = .replace ↔ load v6 (args.headD "") = true) ∧
    ∀ ev' readd', GenFileSetup.onEvent v6 args load readd' ev' =
      { GenFileSetup.onEvent v6 args load readd ev with
        rewatch := (GenFileSetup.onEvent v6 args load readd' ev').rewatch } := by
  simp only [GEN_filesetup_refresh_eq, FileSetup.onEvent, FileSetup.refresh]
  cases load v6 (args.headD "") <;> simp

-- a Chmod (16) or a Remove (4) reloads like a Write (2); so does an event that carries another name
example : ∀ op ∈ [1, 2, 4, 8, 16],
    (GenFileSetup.onEvent true ["f", "autorefresh"] (fun _ _ => true) (fun _ => true) ⟨op, "g"⟩).refresh = .replace := by
  decide

/-- after a reload that FAILED (and after one that succeeded) the goroutine takes the next event -/
theorem FILESETUP_failed_reload_keeps_watching (v6 : Bool) (args : List String) (load : Bool → String → Bool)
    (readd : String → Bool) (ev : Event) :
    (GenFileSetup.onEvent v6 args load readd ev).after = .continues ∧
    (load v6 (args.headD "") = false →
      (GenFileSetup.onEvent v6 args load readd ev).loads = [(v6, args.headD "")] ∧
      (GenFileSetup.onEvent v6 args load readd ev).refresh = .keep) := by
  simp only [GEN_filesetup_refresh_eq, FileSetup.onEvent, FileSetup.refresh, FileSetup.loopAfter]
  refine ⟨trivial, ?_⟩
  intro h
  rw [h]
  simp

example : (GenFileSetup.onEvent false ["f", "autorefresh"] (fun _ _ => false) (fun _ => false) ⟨2, "f"⟩).after = .continues := by decide

/-! ## a replaced file is watched again -/

/-- an event that says the watched file was removed or renamed makes the goroutine watch the configured name — the
value the set-up gave to `watcher.Add` — again; any other event leaves the watcher alone; and the reload of that same
event happens all the same (also when the `Add` of the re-watch fails) -/
theorem FILESETUP_replaced_file_is_watched_again (v6 : Bool) (args : List String) (load : Bool → String → Bool)
    (readd : String → Bool) (ev : Event) :
    (ev.replaced = true → (GenFileSetup.onEvent v6 args load readd ev).rewatch = some (args.headD "")) ∧
    (ev.replaced = false → (GenFileSetup.onEvent v6 args load readd ev).rewatch = none) ∧
    (GenFileSetup.onEvent v6 args load readd ev).loads = [(v6, args.headD "")] ∧
    (GenFileSetup.onEvent v6 args load readd ev).refresh = FileSetup.refresh (load v6 (args.headD "")) ∧
    (GenFileSetup.onEvent v6 args load readd ev).after = .continues ∧
    (∀ w t4 t6 nw add, GenFileSetup.setupFile v6 args load nw add = .ok (some w) t4 t6 → ev.replaced = true →
      (GenFileSetup.onEvent v6 args load readd ev).rewatch = some w) := by
  refine ⟨?_, ?_, ?_, ?_, ?_, ?_⟩
  · intro h; simp [GEN_filesetup_refresh_eq, FileSetup.onEvent, h]
  · intro h; simp [GEN_filesetup_refresh_eq, FileSetup.onEvent, h]
  · simp [GEN_filesetup_refresh_eq, FileSetup.onEvent]
  · simp [GEN_filesetup_refresh_eq, FileSetup.onEvent]
  · simp [GEN_filesetup_refresh_eq, FileSetup.onEvent, FileSetup.loopAfter]
  · intro w t4 t6 nw add hs h
    have h0 := ((FILESETUP_watches_the_configured_name v6 args load nw add).1 w t4 t6 hs).1
    rcases args with _ | ⟨f, rest⟩
    · simp at h0
    · simp at h0
      simp [GEN_filesetup_refresh_eq, FileSetup.onEvent, h, h0]

example : (⟨4, "f"⟩ : Event).replaced = true ∧ (⟨8, "f"⟩ : Event).replaced = true ∧ (⟨12, "f"⟩ : Event).replaced = true ∧
    (⟨2, "f"⟩ : Event).replaced = false ∧ (⟨1, "f"⟩ : Event).replaced = false ∧ (⟨16, "f"⟩ : Event).replaced = false := by decide
example : (GenFileSetup.onEvent false ["dir/f", "autorefresh"] (fun _ _ => false) (fun _ => false) ⟨8, "dir/f"⟩).rewatch = some "dir/f" := by
  decide

/-- the watch over a history of events of the configured file (replacements and in-place changes, in any order), as long
as the `Add` of the re-watch succeeds: every event is delivered and handled, and after each one the goroutine is
watching the file that carries the configured name now -/
theorem FILESETUP_watch_survives_replacements (v6 : Bool) (args : List String) (load : Bool → String → Bool)
    (readd : String → Bool) (history : List Event) :
    FileSetup.watchRun (GenFileSetup.onEvent v6 args load readd) (args.headD "") true true history =
      history.map (fun _ => some true) := by
  induction history with
  | nil => rfl
  | cons ev rest ih =>
    have hw : FileSetup.watchAfter (args.headD "") true ev (GenFileSetup.onEvent v6 args load readd ev) = true := by
      cases h : ev.replaced <;> simp [FileSetup.watchAfter, GEN_filesetup_refresh_eq, FileSetup.onEvent, h]
    simp only [FileSetup.watchRun, hw, List.map_cons, ih]

-- the failing history of the defect — replace, replace (then a write): with the code before the repair only the first
-- event is ever delivered; with the regenerated code all are, and the watch is there after each
example :
    FileSetup.watchRun (FileSetup.onEventOld false "f" true) "f" true true [⟨8, "f"⟩, ⟨8, "f"⟩, ⟨2, "f"⟩]
      = [some false, none, none] ∧
    FileSetup.watchRun (GenFileSetup.onEvent false ["f", "autorefresh"] (fun _ _ => true) (fun _ => true)) "f" true true
      [⟨8, "f"⟩, ⟨8, "f"⟩, ⟨2, "f"⟩] = [some true, some true, some true] := by
  decide
-- what is left: when no file carries the name at the moment of the event (delete, later create) the `Add` of the
-- re-watch fails, its error is logged, and nothing is delivered afterwards
example :
    FileSetup.watchRun (GenFileSetup.onEvent false ["f", "autorefresh"] (fun _ _ => false) (fun _ => false)) "f" false true
      [⟨4, "f"⟩, ⟨1, "f"⟩, ⟨2, "f"⟩] = [some false, none, none] := by
  decide

/-! ## which table is served -/

/-- whenever the set-up succeeds, the DHCPv4 handler it returns serves `DHCPv4Records` and the DHCPv6 handler
`DHCPv6Records` — never `StaticRecords`, the table loaded last; and the handler each registered function passes on
serves the table that the loads made with ITS flag (the initial one and every refresh) fill -/
theorem FILESETUP_serves_own_table (v6 : Bool) (args : List String) (load : Bool → String → Bool) (newWatcherOk : Bool)
    (add : String → Bool) :
    (∀ w t4 t6, GenFileSetup.setupFile v6 args load newWatcherOk add = .ok w t4 t6 →
      t4 = .own4 ∧ t6 = .own6 ∧ t4 ≠ .last ∧ t6 ≠ .last) ∧
    (∀ r, r = GenFileSetup.reg4 ∨ r = GenFileSetup.reg6 → ∀ t,
      (GenFileSetup.setupFile r.v6 args load newWatcherOk add).served r.side = some t → t = Table.loadedBy r.v6) := by
  have key : ∀ (b : Bool) w t4 t6, GenFileSetup.setupFile b args load newWatcherOk add = .ok w t4 t6 →
      t4 = .own4 ∧ t6 = .own6 := by
    intro b w t4 t6 h
    rw [GEN_filesetup_setup_eq] at h
    unfold FileSetup.setup at h
    split at h
    · cases h
    · repeat' split at h
      all_goals (cases h <;> exact ⟨rfl, rfl⟩)
  refine ⟨?_, ?_⟩
  · intro w t4 t6 h
    obtain ⟨rfl, rfl⟩ := key v6 w t4 t6 h
    simp
  · intro r hr t h
    rcases hr with rfl | rfl
    · simp only [GenFileSetup.reg4] at h ⊢
      cases hs : GenFileSetup.setupFile false args load newWatcherOk add with
      | ok w t4 t6 =>
        obtain ⟨rfl, rfl⟩ := key false w t4 t6 hs
        simp [hs, SetupOut.served] at h
        simp [Table.loadedBy, ← h]
      | _ => simp [hs, SetupOut.served] at h
    · simp only [GenFileSetup.reg6] at h ⊢
      cases hs : GenFileSetup.setupFile true args load newWatcherOk add with
      | ok w t4 t6 =>
        obtain ⟨rfl, rfl⟩ := key true w t4 t6 hs
        simp [hs, SetupOut.served] at h
        simp [Table.loadedBy, ← h]
      | _ => simp [hs, SetupOut.served] at h

example : (GenFileSetup.setupFile GenFileSetup.reg4.v6 ["f"] (fun _ _ => true) true (fun _ => true)).served GenFileSetup.reg4.side
    = some .own4 := by decide
example : (GenFileSetup.setupFile GenFileSetup.reg6.v6 ["f", "autorefresh"] (fun _ _ => true) true (fun _ => true)).served GenFileSetup.reg6.side
    = some .own6 := by decide
-- what "the table loaded last" would serve: after DHCPv6 was set up last, a DHCPv4 handler on `.last` reads the DHCPv6 table
example : Table.read .last ⟨[([1], .v4 1#32)], [([1], .v6 ⟨0#64, 2#64⟩)]⟩ true ≠ Table.read .own4 ⟨[([1], .v4 1#32)], [([1], .v6 ⟨0#64, 2#64⟩)]⟩ true := by
  decide

/-! ## no autorefresh, no watcher; a failed initial load -/

/-- unless the second argument is exactly "autorefresh", no watcher is made: the result does not depend on what
`NewWatcher` and `Add` would answer, is none of their errors, and a successful set-up has no goroutine -/
theorem FILESETUP_no_autorefresh_no_watcher (v6 : Bool) (args : List String) (load : Bool → String → Bool)
    (newWatcherOk : Bool) (add : String → Bool) (h : args[1]? ≠ some "autorefresh") :
    (∀ nw' add', GenFileSetup.setupFile v6 args load nw' add' = GenFileSetup.setupFile v6 args load newWatcherOk add) ∧
    GenFileSetup.setupFile v6 args load newWatcherOk add ≠ .watcherErr ∧
    GenFileSetup.setupFile v6 args load newWatcherOk add ≠ .watchErr ∧
    (∀ w t4 t6, GenFileSetup.setupFile v6 args load newWatcherOk add = .ok w t4 t6 → w = none) := by
  simp only [GEN_filesetup_setup_eq]
  rcases args with _ | ⟨f, _ | ⟨a, rest⟩⟩
  · simp [FileSetup.setup]
  · by_cases hf : f = "" <;> cases hl : load v6 f <;> simp [FileSetup.setup, hf, hl]
  · have ha : a ≠ "autorefresh" := by simpa using h
    by_cases hf : f = "" <;> cases hl : load v6 f <;> simp [FileSetup.setup, FileSetup.autoRefreshArg, hf, hl, ha]

example : GenFileSetup.setupFile false ["f", "auto"] (fun _ _ => true) false (fun _ => false) = .ok none .own4 .own6 := by decide
example : GenFileSetup.setupFile false ["f", "x", "autorefresh"] (fun _ _ => true) false (fun _ => false) = .ok none .own4 .own6 := by decide

/-- when the initial load of `(v6, args[0])` fails, the set-up returns that error: no handler is returned and,
whatever the watcher calls would answer, none is made (the load comes BEFORE the watcher) -/
theorem FILESETUP_initial_load_error_aborts (v6 : Bool) (f : String) (rest : List String) (load : Bool → String → Bool)
    (newWatcherOk : Bool) (add : String → Bool) (hf : f ≠ "") (hl : load v6 f = false) :
    GenFileSetup.setupFile v6 (f :: rest) load newWatcherOk add = .loadErr := by
  rw [GEN_filesetup_setup_eq]
  simp [FileSetup.setup, hf, hl]

example : GenFileSetup.setupFile true ["f", "autorefresh"] (fun _ _ => false) false (fun _ => false) = .loadErr := by decide

/-! ## link to Model/File.lean: one event = one `FState.load` attempt -/

/-- a malformed version leaves the mapping as it is (`refresh false = .keep`): the state after the attempt is the
state before; a well-formed one (`refresh true = .replace`) puts its table in force for this protocol and leaves the
other protocol's alone -/
theorem FILESETUP_refresh_is_load (s : FState) (v6 : Bool) (lines : List FLine) :
    (FileSetup.refresh (s.load v6 lines).2 = .keep → (s.load v6 lines).1 = s) ∧
    (FileSetup.refresh (s.load v6 lines).2 = .replace →
      loadFile v6 lines [] = some ((s.load v6 lines).1.table v6) ∧ (s.load v6 lines).1.table (!v6) = s.table (!v6)) := by
  unfold FState.load FileSetup.refresh
  cases h : loadFile v6 lines [] with
  | none => simp
  | some t => cases v6 <;> simp [FState.setTable, FState.table]

example : FileSetup.refresh (({} : FState).load false [FLine.fields 3 none .none]).2 = .keep ∧
    FileSetup.refresh (({} : FState).load false [FLine.fields 2 (some [1]) (.v4 7#32)]).2 = .replace := by decide

/-- the refresher as the code has it (`loopAfter`: it goes on after a failed reload): after any sequence of versions,
well-formed or not, a later well-formed version is in force -/
theorem FILESETUP_later_good_version_picked_up (s : FState) (v6 : Bool) (versions : List (List FLine))
    (good : List FLine) (t : FTable) (h : loadFile v6 good [] = some t) :
    (FileSetup.run FileSetup.loopAfter s v6 (versions ++ [good])).table v6 = t := by
  induction versions generalizing s with
  | nil => cases v6 <;> simp [FileSetup.run, FileSetup.loopAfter, FState.load, h, FState.setTable, FState.table]
  | cons f rest ih => simp only [List.cons_append, FileSetup.run, FileSetup.loopAfter]; exact ih _

-- with a loop that stopped after a failed reload (`return` for `continue`) the good version would never be picked up
example :
    let bad := [FLine.fields 3 none .none]
    let good := [FLine.fields 2 (some [1]) (.v4 7#32)]
    (FileSetup.run FileSetup.loopAfter {} false [bad, good]).t4 = [([1], .v4 7#32)] ∧
    (FileSetup.run (fun ok => if ok then .continues else .stops) {} false [bad, good]).t4 = [] := by
  decide

end CoreDhcp
