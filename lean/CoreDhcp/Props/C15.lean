/-
C15 — DHCPv4 replies are addressed per RFC 2131 §4.1.
Property theorems only (proofs in Proofs/Dispatch.lean).
-/
import CoreDhcp.Proofs.Dispatch
namespace CoreDhcp

/-- For every request, every reply the chain produces (any handlers), every listener binding and
receiving interface: destination, port, link-level flag and interface pinning are those of the
RFC 2131 §4.1 table as the property states it (`C15.expected`). -/
theorem C15_holds (bound : Nat) (oob : Option Nat) (hs : List Handler4) (input : Option Req4) :
    C15.holds bound oob input (dispatch4 bound oob hs input) = true := C15_dispatch bound oob hs input

/-- With the listener bound, or the kernel reporting the receiving interface (what `listen4`
arranges: fact F5), the link-level path always has an interface to send on. -/
theorem C15_has_interface (bound : Nat) (oob : Option Nat) (hs : List Handler4) (input : Option Req4)
    (henv : bound ≠ 0 ∨ ∃ i, oob = some i ∧ i ≠ 0) : dispatch4 bound oob hs input ≠ .panicNoIf :=
  C15_no_panic bound oob hs input henv

end CoreDhcp
