/-
GEN (receive side: the pool, the two Serve loops, the head of the handlers) — the definitions regenerated from the
Go source on every run (Generated/ServeLoop.lean, written by `harness gen -unit serveloop` from the go/ast of
server/handle.go) are equal to the hand-written model (Model/ServeLoop.lean), and the facts about the receive
side that properties C16 ("one datagram's handling never sees another's bytes") and C01 ("a datagram cannot take
the server down") rely on are proved about the model — and, through the equalities, about the regenerated code.

An edit of the Go logic changes the generated text, makes a statement below false and breaks this file (or is
rejected by the translator); a renamed variable, a moved comment, the two loops swapped in the file regenerate
the same text.
-/
import CoreDhcp.Generated.ServeLoop
import CoreDhcp.Model.ServeLoop
namespace CoreDhcp
open ServeLoop

/-! ## generated = model -/

/-- `New` yields a POINTER to a buffer of `MaxDatagram` = 65536 bytes -/
theorem GEN_serve_pool_new :
    GenServeLoop.poolNew = ⟨.ptr, 65536⟩ ∧ GenServeLoop.maxDatagram = 65536 ∧
    GenServeLoop.poolNew = ServeLoop.poolNew ServeLoop.maxDatagram := by
  refine ⟨rfl, rfl, rfl⟩

example : GenServeLoop.poolNew.kind = .ptr ∧ GenServeLoop.poolNew.len = 2 ^ 16 := by decide

/-- generated iteration of `(*listener6).Serve` = the model's `ServeLoop.iter .v6`, for every value the pool can
return and every answer of `ReadFrom` -/
theorem GEN_serve_iter6_eq (taken : Item) (r : Read) :
    GenServeLoop.iter6 taken r = ServeLoop.iter .v6 ServeLoop.maxDatagram taken r := by
  obtain ⟨k, b⟩ := taken
  obtain ⟨n, oob, peer, e⟩ := r
  cases k <;> cases e <;> simp [GenServeLoop.iter6, ServeLoop.iter, GenServeLoop.maxDatagram, ServeLoop.maxDatagram]

example : GenServeLoop.iter6 ⟨.ptr, ⟨7, 300⟩⟩ ⟨300, 11, 12, .none⟩ = .ran ⟨7, 65536⟩ (.spawn ⟨.v6, 7, 300, 11, 12⟩) := by decide

/-- generated iteration of `(*listener4).Serve` = the model's `ServeLoop.iter .v4` -/
theorem GEN_serve_iter4_eq (taken : Item) (r : Read) :
    GenServeLoop.iter4 taken r = ServeLoop.iter .v4 ServeLoop.maxDatagram taken r := by
  obtain ⟨k, b⟩ := taken
  obtain ⟨n, oob, peer, e⟩ := r
  cases k <;> cases e <;> simp [GenServeLoop.iter4, ServeLoop.iter, GenServeLoop.maxDatagram, ServeLoop.maxDatagram]

example : GenServeLoop.iter4 ⟨.ptr, ⟨7, 300⟩⟩ ⟨0, 11, 12, .other⟩ = .ran ⟨7, 65536⟩ (.exit .err) := by decide
example : GenServeLoop.iter4 ⟨.ptr, ⟨7, 300⟩⟩ ⟨0, 11, 12, .closed⟩ = .ran ⟨7, 65536⟩ (.exit .nil) := by decide

/-- generated head of `HandleMsg6` = the model's `ServeLoop.handlerHead` -/
theorem GEN_serve_head6_eq (parsedOk : Bool) : GenServeLoop.head6 parsedOk = ServeLoop.handlerHead parsedOk := by
  cases parsedOk <;> rfl

example : GenServeLoop.head6 false = ⟨[.parse, .put .ptr], false⟩ := by decide

/-- generated head of `HandleMsg4` = the model's `ServeLoop.handlerHead` -/
theorem GEN_serve_head4_eq (parsedOk : Bool) : GenServeLoop.head4 parsedOk = ServeLoop.handlerHead parsedOk := by
  cases parsedOk <;> rfl

example : GenServeLoop.head4 true = ⟨[.parse, .put .ptr], true⟩ := by decide

/-- the four regenerated definitions together = the model's code -/
theorem GEN_serve_code_eq : GenServeLoop.code = ServeLoop.code ServeLoop.maxDatagram := by
  unfold GenServeLoop.code ServeLoop.code
  congr 1
  · funext f taken r
    cases f
    · exact GEN_serve_iter6_eq taken r
    · exact GEN_serve_iter4_eq taken r
  · funext f ok
    cases f
    · exact GEN_serve_head6_eq ok
    · exact GEN_serve_head4_eq ok

/-! ## one iteration -/

/-- whatever length the pooled buffer had (a handler puts back `b[:n]`), `ReadFrom` is given `maxDatagram` bytes
of the buffer that was taken -/
theorem SERVE_reads_full_buffer (f : Fam) (md : Nat) (taken : Item) (r : Read) (into : Buf) (next : Next)
    (h : iter f md taken r = .ran into next) : into.len = md ∧ into.id = taken.buf.id := by
  obtain ⟨k, b⟩ := taken
  obtain ⟨n, oob, peer, e⟩ := r
  cases k <;> cases e <;> simp [iter] at h <;> (obtain ⟨rfl, _⟩ := h; simp)

example : ∃ into next, iter .v4 65536 ⟨.ptr, ⟨3, 548⟩⟩ ⟨300, 1, 2, .none⟩ = .ran into next ∧ into.len = 65536 :=
  ⟨_, _, rfl, rfl⟩

/-- a spawned handler gets the buffer, the length, the control message and the peer of the read of ITS iteration
(and is the handler of this loop's family); it is spawned only after a read without error -/
theorem SERVE_spawn_own_values (f : Fam) (md : Nat) (taken : Item) (r : Read) (into : Buf) (s : Spawn)
    (h : iter f md taken r = .ran into (.spawn s)) :
    s = ⟨f, taken.buf.id, r.n, r.oob, r.peer⟩ ∧ s.buf = into.id ∧ r.err = .none := by
  obtain ⟨k, b⟩ := taken
  obtain ⟨n, oob, peer, e⟩ := r
  cases k <;> cases e <;> simp [iter] at h
  obtain ⟨rfl, rfl⟩ := h
  simp

example : iter .v6 65536 ⟨.ptr, ⟨3, 548⟩⟩ ⟨300, 41, 42, .none⟩ = .ran ⟨3, 65536⟩ (.spawn ⟨.v6, 3, 300, 41, 42⟩) := rfl

/-- over a whole run of the loop: the k-th handler spawned has the values of the k-th iteration — the buffer `Get`
returned THEN, and the three results of THAT `ReadFrom` -/
theorem SERVE_spawn_own_values_run (f : Fam) (md : Nat) (steps : List (Item × Read)) (k : Nat) (s : Spawn)
    (h : (run f md steps).1[k]? = some s) :
    ∃ t r, steps[k]? = some (t, r) ∧ s = ⟨f, t.buf.id, r.n, r.oob, r.peer⟩ := by
  induction steps generalizing k with
  | nil => simp [run] at h
  | cons p rest ih =>
    obtain ⟨⟨kd, b⟩, ⟨n, oob, peer, e⟩⟩ := p
    cases kd <;> cases e <;> simp [run, iter] at h
    cases k with
    | zero => simp at h; exact ⟨⟨.ptr, b⟩, ⟨n, oob, peer, .none⟩, by simp, h.symm⟩
    | succ k =>
      simp at h
      obtain ⟨t, r, h1, h2⟩ := ih k h
      exact ⟨t, r, by simpa using h1, h2⟩

example : (run .v6 65536 [(⟨.ptr, ⟨0, 65536⟩⟩, ⟨300, 1, 2, .none⟩), (⟨.ptr, ⟨1, 65536⟩⟩, ⟨200, 3, 4, .none⟩),
    (⟨.ptr, ⟨0, 300⟩⟩, ⟨0, 5, 6, .closed⟩)]) = ([⟨.v6, 0, 300, 1, 2⟩, ⟨.v6, 1, 200, 3, 4⟩], some (.exit .nil)) := by decide

/-- a successful read spawns exactly one handler (and the loop goes on); a failed or closed read spawns none and
ends the loop (`return err` / `return nil`); no path goes to the next iteration without a spawn -/
theorem SERVE_one_spawn_per_datagram (f : Fam) (md : Nat) (taken : Item) (r : Read) (hk : taken.kind = .ptr) :
    (r.err = .none → ∃ into s, iter f md taken r = .ran into (.spawn s)) ∧
    (r.err = .closed → ∃ into, iter f md taken r = .ran into (.exit .nil)) ∧
    (r.err = .other → ∃ into, iter f md taken r = .ran into (.exit .err)) ∧
    (∀ into, iter f md taken r ≠ .ran into .again) := by
  obtain ⟨k, b⟩ := taken
  obtain ⟨n, oob, peer, e⟩ := r
  simp at hk
  subst hk
  cases e <;> simp [iter]

/-- over a run: as many handlers as reads before the first read that fails, and the loop ends there -/
theorem SERVE_one_spawn_per_datagram_run (f : Fam) (md : Nat) (pre post : List (Item × Read)) (t : Item) (r : Read)
    (hpre : ∀ p ∈ pre, p.1.kind = .ptr ∧ p.2.err = .none) (ht : t.kind = .ptr) (hr : r.err ≠ .none) :
    (run f md pre).1.length = pre.length ∧ (run f md pre).2 = none ∧
    (run f md (pre ++ (t, r) :: post)).1.length = pre.length ∧
    (run f md (pre ++ (t, r) :: post)).2 = some (.exit (if r.err = .closed then .nil else .err)) := by
  induction pre with
  | nil =>
    obtain ⟨k, b⟩ := t
    obtain ⟨n, oob, peer, e⟩ := r
    simp at ht hr
    subst ht
    cases e <;> simp [run, iter] at hr ⊢
  | cons p rest ih =>
    have hp := hpre p (by simp)
    have ih := ih (fun q hq => hpre q (by simp [hq]))
    obtain ⟨⟨kd, b⟩, ⟨n, oob, peer, e⟩⟩ := p
    simp at hp
    obtain ⟨rfl, rfl⟩ := hp
    simp [run, iter, ih]

example : (run .v4 65536 [(⟨.ptr, ⟨0, 65536⟩⟩, ⟨300, 1, 2, .none⟩), (⟨.ptr, ⟨1, 65536⟩⟩, ⟨0, 3, 4, .other⟩),
    (⟨.ptr, ⟨2, 65536⟩⟩, ⟨100, 5, 6, .none⟩)]) = ([⟨.v4, 0, 300, 1, 2⟩], some (.exit .err)) := by decide

/-! ## the head of a handler -/

/-- on every path of the handler's head (parse error or not) the buffer goes back to the pool exactly once, as a
pointer, after the parse (and after nothing else), and is not read afterwards; the handler goes on exactly when
the parse succeeded -/
theorem SERVE_buffer_back_once (parsedOk : Bool) :
    putsOf (handlerHead parsedOk).events = [.ptr] ∧
    (∃ pre, (handlerHead parsedOk).events = pre ++ [.put .ptr] ∧ pre = [.parse]) ∧
    usedAfterPut (handlerHead parsedOk).events = false ∧
    (handlerHead parsedOk).continues = parsedOk := by
  cases parsedOk <;> exact ⟨rfl, ⟨_, rfl, rfl⟩, rfl, rfl⟩

/-- the same about the regenerated heads -/
theorem SERVE_buffer_back_once_gen (parsedOk : Bool) :
    putsOf (GenServeLoop.head6 parsedOk).events = [.ptr] ∧ usedAfterPut (GenServeLoop.head6 parsedOk).events = false ∧
    putsOf (GenServeLoop.head4 parsedOk).events = [.ptr] ∧ usedAfterPut (GenServeLoop.head4 parsedOk).events = false := by
  rw [GEN_serve_head6_eq, GEN_serve_head4_eq]
  cases parsedOk <;> exact ⟨rfl, rfl, rfl, rfl⟩

/-- the predicates are not trivially true: a second `Put`, a `Put` of the slice, a `Put` before the parse, a use after it -/
example : putsOf [.parse, .put .ptr, .put .ptr] = [.ptr, .ptr] ∧ putsOf [.parse, .put .slice] = [.slice] ∧
    usedAfterPut [.put .ptr, .parse] = true ∧ usedAfterPut [.parse, .put .ptr, .use] = true ∧ putsOf [.parse] = [] := by decide

/-! ## the pool, the loops and the handlers: no buffer is in two hands -/

namespace ServeLoop

theorem perm_eraseIdx {α : Type} : ∀ {l : List α} {i : Nat} {a : α}, l[i]? = some a → l.Perm (a :: l.eraseIdx i)
  | [], i, a, h => by simp at h
  | x :: xs, 0, a, h => by
    simp at h
    subst h
    simp
  | x :: xs, i + 1, a, h => by
    simp at h
    have ih := perm_eraseIdx h
    simp only [List.eraseIdx_cons_succ]
    exact (List.Perm.cons x ih).trans (List.Perm.swap a x _)

/-- an element that did not count is replaced by one that does -/
theorem perm_filterMap_set_some {α β : Type} (f : α → Option β) :
    ∀ {l : List α} {i : Nat} {a x : α} {y : β}, l[i]? = some a → f a = none → f x = some y →
      ((l.set i x).filterMap f).Perm (y :: l.filterMap f)
  | [], i, a, x, y, h, _, _ => by simp at h
  | b :: bs, 0, a, x, y, h, ha, hx => by
    simp at h
    subst h
    simp [ha, hx]
  | b :: bs, i + 1, a, x, y, h, ha, hx => by
    simp at h
    have ih := perm_filterMap_set_some f h ha hx
    simp only [List.set_cons_succ, List.filterMap_cons]
    cases hb : f b with
    | none => simpa using ih
    | some z => exact (List.Perm.cons z ih).trans (List.Perm.swap y z _)

/-- an element that counted is replaced by one that does not -/
theorem perm_filterMap_set_none {α β : Type} (f : α → Option β) :
    ∀ {l : List α} {i : Nat} {a x : α} {y : β}, l[i]? = some a → f a = some y → f x = none →
      (l.filterMap f).Perm (y :: (l.set i x).filterMap f)
  | [], i, a, x, y, h, _, _ => by simp at h
  | b :: bs, 0, a, x, y, h, ha, hx => by
    simp at h
    subst h
    simp [ha, hx]
  | b :: bs, i + 1, a, x, y, h, ha, hx => by
    simp at h
    have ih := perm_filterMap_set_none f h ha hx
    simp only [List.set_cons_succ, List.filterMap_cons]
    cases hb : f b with
    | none => simpa using ih
    | some z => exact (List.Perm.cons z ih).trans (List.Perm.swap y z _)

theorem perm3_left {P P' L H : List Nat} {x : Nat} (h : P.Perm (x :: P')) : (P ++ L ++ H).Perm (x :: (P' ++ L ++ H)) := by
  have := (h.append_right L).append_right H
  simpa using this

theorem perm3_mid {P L L' H : List Nat} {x : Nat} (h : L.Perm (x :: L')) : (P ++ L ++ H).Perm (x :: (P ++ L' ++ H)) := by
  have h1 : (P ++ L).Perm (x :: (P ++ L')) := (h.append_left P).trans List.perm_middle
  have := h1.append_right H
  simpa using this

theorem perm3_right {P L H H' : List Nat} {x : Nat} (h : H.Perm (x :: H')) : (P ++ L ++ H).Perm (x :: (P ++ L ++ H')) :=
  (h.append_left (P ++ L)).trans List.perm_middle

/-- what is true of the system at every moment -/
structure Sys.Inv (s : Sys) : Prop where
  nodup   : s.hands.Nodup
  lt      : ∀ id ∈ s.hands, id < s.fresh
  poolPtr : ∀ it ∈ s.pool, it.kind = .ptr
  heldPtr : ∀ lp ∈ s.loops, ∀ it, lp.held = some it → it.kind = .ptr
  alive   : s.crashed = false

theorem Sys.Inv.init (fams : List Fam) : (Sys.init fams).Inv := by
  have hh : (Sys.init fams).hands = [] := by
    simp [Sys.hands, Sys.init, List.filterMap_eq_nil_iff, Loop.heldId]
  refine ⟨?_, ?_, ?_, ?_, rfl⟩
  · simp [hh]
  · simp [hh]
  · simp [Sys.init]
  · intro lp hlp it hit
    simp [Sys.init] at hlp
    obtain ⟨f, _, rfl⟩ := hlp
    simp at hit

/-- a state whose hands are a rearrangement of the old ones, with the same `fresh` -/
theorem Sys.Inv.of_perm {s s' : Sys} (h : s.Inv) (hp : s'.hands.Perm s.hands) (hf : s'.fresh = s.fresh)
    (h3 : ∀ it ∈ s'.pool, it.kind = .ptr) (h4 : ∀ lp ∈ s'.loops, ∀ it, lp.held = some it → it.kind = .ptr)
    (h5 : s'.crashed = false) : s'.Inv :=
  ⟨hp.nodup_iff.mpr h.nodup, fun id hid => hf ▸ h.lt id (hp.mem_iff.mp hid), h3, h4, h5⟩

/-- a state that has lost one hand -/
theorem Sys.Inv.of_less {s s' : Sys} {x : Nat} (h : s.Inv) (hp : s.hands.Perm (x :: s'.hands)) (hf : s'.fresh = s.fresh)
    (h3 : ∀ it ∈ s'.pool, it.kind = .ptr) (h4 : ∀ lp ∈ s'.loops, ∀ it, lp.held = some it → it.kind = .ptr)
    (h5 : s'.crashed = false) : s'.Inv := by
  have hn := hp.nodup_iff.mp h.nodup
  refine ⟨(List.nodup_cons.mp hn).2, fun id hid => hf ▸ h.lt id (hp.mem_iff.mpr (List.mem_cons_of_mem _ hid)), h3, h4, h5⟩

theorem heldPtr_set {s : Sys} (h : s.Inv) {l : Nat} {x : Loop} (hx : ∀ it, x.held = some it → it.kind = .ptr) :
    ∀ lp ∈ s.loops.set l x, ∀ it, lp.held = some it → it.kind = .ptr := by
  intro lp hlp it hit
  rcases List.mem_or_eq_of_mem_set hlp with hm | rfl
  · exact h.heldPtr lp hm it hit
  · exact hx it hit

theorem Sys.Inv.step {md : Nat} {s : Sys} (h : s.Inv) (e : Ev) : (s.step (code md) e).Inv := by
  have hc := h.alive
  unfold Sys.step
  rw [if_neg (by simp [hc])]
  cases e with
  | get l pick =>
    simp only
    cases hl : s.loops[l]? with
    | none => exact h
    | some lp =>
      simp only
      by_cases hg : lp.live = false ∨ lp.held ≠ none
      · simp only [hg, if_true]; exact h
      · simp only [hg, if_false]
        have hheld : lp.held = none := by
          cases hh : lp.held with
          | none => rfl
          | some it => exact absurd (Or.inr (by simp [hh])) hg
        have hid : Loop.heldId lp = none := by simp [Loop.heldId, hheld]
        cases pick with
        | none =>
          simp only
          have hL := perm_filterMap_set_some Loop.heldId (x := { lp with held := some ⟨(code md).new.kind, ⟨s.fresh, (code md).new.len⟩⟩ })
            (y := s.fresh) hl hid (by simp [Loop.heldId])
          have hp := perm3_mid (P := s.pool.map (fun (it : Item) => it.buf.id)) (H := s.handlers.map (fun (h : Handler) => h.buf.id)) hL
          refine ⟨?_, ?_, h.poolPtr, ?_, hc⟩
          · refine hp.nodup_iff.mpr (List.nodup_cons.mpr ⟨fun hm => ?_, h.nodup⟩)
            exact Nat.lt_irrefl _ (h.lt _ hm)
          · intro id hid'
            rcases List.mem_cons.mp (hp.mem_iff.mp hid') with rfl | hm
            · exact Nat.lt_succ_self _
            · exact Nat.lt_succ_of_lt (h.lt id hm)
          · exact heldPtr_set h (by intro it hit; simp at hit; subst hit; rfl)
        | some i =>
          simp only
          cases hpi : s.pool[i]? with
          | none => exact h
          | some it =>
            simp only
            have hP := (perm_eraseIdx hpi).map (fun (it : Item) => it.buf.id)
            have hL := perm_filterMap_set_some Loop.heldId (x := { lp with held := some it }) (y := it.buf.id) hl hid
              (by simp [Loop.heldId])
            have hp : (Sys.hands { s with pool := s.pool.eraseIdx i, loops := s.loops.set l { lp with held := some it } }).Perm s.hands :=
              (perm3_mid hL).trans (perm3_left hP).symm
            refine h.of_perm hp rfl (fun it' hit' => h.poolPtr it' (List.mem_of_mem_eraseIdx hit')) ?_ hc
            exact heldPtr_set h (by
              intro it' hit'; simp at hit'; subst hit'
              exact h.poolPtr _ (List.mem_of_getElem? hpi))
  | read l r =>
    simp only
    cases hl : s.loops[l]? with
    | none => exact h
    | some lp =>
      simp only
      cases hheld : lp.held with
      | none => exact h
      | some it =>
        simp only
        have hk : it.kind = .ptr := h.heldPtr lp (List.mem_of_getElem? hl) it hheld
        have hid : Loop.heldId lp = some it.buf.id := by simp [Loop.heldId, hheld]
        obtain ⟨k, b⟩ := it
        simp at hk
        subst hk
        obtain ⟨n, oob, peer, er⟩ := r
        cases er
        · -- a datagram: the handler is spawned
          simp only [code, iter]
          have hL := perm_filterMap_set_none Loop.heldId (x := { lp with held := none }) hl hid (by simp [Loop.heldId])
          have hH : ((s.handlers ++ ([⟨lp.fam, ⟨b.id, n⟩⟩] : List Handler)).map (fun (h : Handler) => h.buf.id)).Perm
              (b.id :: s.handlers.map (fun (h : Handler) => h.buf.id)) := by
            simp
          refine h.of_perm ((perm3_right hH).trans (perm3_mid hL).symm) rfl h.poolPtr ?_ hc
          exact heldPtr_set h (by intro it hit; simp at hit)
        · -- closed: return nil
          simp only [code, iter]
          have hL := perm_filterMap_set_none Loop.heldId (x := { lp with held := none, live := false }) hl hid (by simp [Loop.heldId])
          refine h.of_less (perm3_mid hL) rfl h.poolPtr ?_ hc
          exact heldPtr_set h (by intro it hit; simp at hit)
        · -- another error: return err
          simp only [code, iter]
          have hL := perm_filterMap_set_none Loop.heldId (x := { lp with held := none, live := false }) hl hid (by simp [Loop.heldId])
          refine h.of_less (perm3_mid hL) rfl h.poolPtr ?_ hc
          exact heldPtr_set h (by intro it hit; simp at hit)
  | head j ok =>
    simp only
    cases hj : s.handlers[j]? with
    | none => exact h
    | some hd =>
      have hu : usedAfterPut ((code md).head hd.fam ok).events = false := by cases ok <;> rfl
      have hq : putsOf ((code md).head hd.fam ok).events = [.ptr] := by cases ok <;> rfl
      simp only [hu, hq, Bool.false_eq_true, if_false, List.map_cons, List.map_nil]
      have hH := (perm_eraseIdx hj).map (fun (h : Handler) => h.buf.id)
      have hP : ((s.pool ++ ([⟨.ptr, hd.buf⟩] : List Item)).map (fun (it : Item) => it.buf.id)).Perm
          (hd.buf.id :: s.pool.map (fun (it : Item) => it.buf.id)) := by
        simp
      refine h.of_perm ((perm3_left hP).trans (perm3_right hH).symm) rfl ?_ h.heldPtr hc
      intro it hit
      rcases List.mem_append.mp hit with hm | hm
      · exact h.poolPtr it hm
      · simp at hm; subst hm; rfl
  | drop i =>
    simp only
    cases hpi : s.pool[i]? with
    | none =>
      have : s.pool.eraseIdx i = s.pool := List.eraseIdx_of_length_le (by simpa using hpi)
      rw [this]; exact h
    | some it =>
      have hP := (perm_eraseIdx hpi).map (fun (it : Item) => it.buf.id)
      exact h.of_less (s' := { s with pool := s.pool.eraseIdx i }) (perm3_left hP) rfl
        (fun it' hit' => h.poolPtr it' (List.mem_of_mem_eraseIdx hit')) h.heldPtr hc

theorem Sys.Inv.run {md : Nat} {s : Sys} (h : s.Inv) (evs : List Ev) : (s.run (code md) evs).Inv := by
  induction evs generalizing s with
  | nil => exact h
  | cons e rest ih => exact ih (h.step e)

end ServeLoop

/-- For any number of `Serve` loops (of either family) sharing the one pool, any answers of the world and ANY
interleaving of the loops' steps, the handlers' heads and the pool forgetting values (a list of events, by induction):
no buffer is in two hands at once — the identities in the pool, held by a loop between its `Get` and the end of its
iteration, and held by handlers between their spawn and their `Put` are pairwise different — and no type assertion
on a value of the pool ever fails (the process is never taken down by it). -/
theorem SERVE_no_two_owners (md : Nat) (fams : List Fam) (evs : List Ev) :
    ((Sys.init fams).run (code md) evs).hands.Nodup ∧ ((Sys.init fams).run (code md) evs).crashed = false :=
  ⟨((Sys.Inv.init fams).run evs).nodup, ((Sys.Inv.init fams).run evs).alive⟩

/-- the same about the REGENERATED code (`GenServeLoop.code`: `poolNew`, `iter6`, `iter4`, `head6`, `head4`) -/
theorem SERVE_no_two_owners_gen (fams : List Fam) (evs : List Ev) :
    ((Sys.init fams).run GenServeLoop.code evs).hands.Nodup ∧ ((Sys.init fams).run GenServeLoop.code evs).crashed = false := by
  rw [GEN_serve_code_eq]
  exact SERVE_no_two_owners _ fams evs

/-- spelled out: a buffer in the pool is held by no loop and no handler, a buffer a loop reads into is held by no
handler, and nothing holds a buffer twice -/
theorem SERVE_no_two_owners_apart (md : Nat) (fams : List Fam) (evs : List Ev) (id : Nat) :
    let s := (Sys.init fams).run (code md) evs
    (id ∈ s.pool.map (·.buf.id) → id ∉ s.loops.filterMap Loop.heldId ∧ id ∉ s.handlers.map (·.buf.id)) ∧
    (id ∈ s.loops.filterMap Loop.heldId → id ∉ s.handlers.map (·.buf.id)) := by
  intro s
  have hn : s.hands.Nodup := (SERVE_no_two_owners md fams evs).1
  unfold Sys.hands at hn
  rw [List.nodup_append] at hn
  obtain ⟨h12, _, h3⟩ := hn
  rw [List.nodup_append] at h12
  obtain ⟨_, _, h2⟩ := h12
  refine ⟨fun hp => ⟨fun hl => h2 id hp id hl rfl, fun hh => h3 id (List.mem_append_left _ hp) id hh rfl⟩,
    fun hl hh => h3 id (List.mem_append_right _ hl) id hh rfl⟩

/-- what C16 needs of the receive side: at every moment of every run, when a loop calls `ReadFrom`, the buffer the
datagram is written into has `md` bytes and is in no other hand — not in the pool (no other loop can take it) and
held by no handler (no handler of an earlier datagram can still be parsing it) -/
theorem SERVE_read_into_unshared (md : Nat) (fams : List Fam) (evs : List Ev) (l : Nat) (lp : Loop) (it : Item)
    (r : Read) (into : Buf) (next : Next) :
    let s := (Sys.init fams).run (code md) evs
    s.loops[l]? = some lp → lp.held = some it → iter lp.fam md it r = .ran into next →
    into.len = md ∧ into.id ∉ s.pool.map (·.buf.id) ∧ into.id ∉ s.handlers.map (·.buf.id) := by
  intro s hl hheld hit
  obtain ⟨hlen, hid⟩ := SERVE_reads_full_buffer _ _ _ _ _ _ hit
  have hmem : into.id ∈ s.loops.filterMap Loop.heldId :=
    List.mem_filterMap.mpr ⟨lp, List.mem_of_getElem? hl, by simp [Loop.heldId, hheld, hid]⟩
  have ha := SERVE_no_two_owners_apart md fams evs into.id
  exact ⟨hlen, fun hp => (ha.1 hp).1 hmem, ha.2 hmem⟩

/-- a run that goes round: two loops share the pool; loop 0 gets a new buffer (0), reads 300 bytes, its handler puts
`b[:300]` back; loop 1 then takes that same buffer from the pool and reads into all 65536 bytes of it while the
handler of a second datagram of loop 0 (buffer 1) is still waiting -/
example :
    let s := (Sys.init [.v6, .v4]).run (code 65536)
      [.get 0 none, .read 0 ⟨300, 1, 2, .none⟩, .get 0 none, .head 0 true, .read 0 ⟨200, 3, 4, .none⟩, .get 1 (some 0)]
    s.pool = [] ∧ s.loops = [⟨.v6, none, true⟩, ⟨.v4, some ⟨.ptr, ⟨0, 300⟩⟩, true⟩] ∧ s.handlers = [⟨.v6, ⟨1, 200⟩⟩] ∧
    s.hands = [0, 1] := by decide

/-- the statement is not vacuous: the same system run with a head that puts the buffer back TWICE has a buffer in
two hands (twice in the pool, and then with two loops reading into it at once) -/
example :
    let bad : Code := { code 65536 with head := fun _ _ => ⟨[.parse, .put .ptr, .put .ptr], false⟩ }
    let s := (Sys.init [.v6, .v4]).run bad [.get 0 none, .read 0 ⟨300, 1, 2, .none⟩, .head 0 false, .get 0 (some 0), .get 1 (some 0)]
    s.hands = [0, 0] ∧ ¬ s.hands.Nodup := by decide

/-- … and with a head that puts the SLICE back, the next `Get` of that value takes the process down -/
example :
    let bad : Code := { code 65536 with head := fun _ _ => ⟨[.parse, .put .slice], false⟩ }
    ((Sys.init [.v4]).run bad [.get 0 none, .read 0 ⟨300, 1, 2, .none⟩, .head 0 false, .get 0 (some 0),
      .read 0 ⟨100, 3, 4, .none⟩]).crashed = true := by decide

end CoreDhcp
