/-
C11 — DHCPv4 replies match their request; non-requests are never answered.
Property theorems only (proofs in Proofs/Dispatch.lean).
-/
import CoreDhcp.Proofs.Dispatch
namespace CoreDhcp

/-- Whatever the parse result (or parse failure), the listener configuration and the chain of
handlers that preserve the echoed fields: anything `HandleMsg4` sends is a BOOTREPLY answering
a BOOTREQUEST of type DISCOVER/REQUEST, echoing xid, htype, chaddr, flags, giaddr, options 82 and
61, and is an OFFER for a DISCOVER, an ACK or NAK for a REQUEST. -/
theorem C11_holds (bound : Nat) (oob : Option Nat) (hs : List Handler4) (input : Option Req4)
    (hpres : ∀ h ∈ hs, Handler4.Preserving h ∧ Handler4.NilPreserving h) :
    C11.holds input (dispatch4 bound oob hs input) = true := C11_dispatch bound oob hs input hpres

/-- BOOTREPLY opcodes, every other or missing message type, and unparseable datagrams are never
answered — for arbitrary handlers. -/
theorem C11_never_answers_non_requests (bound : Nat) (oob : Option Nat) (hs : List Handler4) (input : Option Req4)
    (resp : Resp4) (peer : BitVec 32) (port : Nat) (ifidx : Option Nat) (l2 : Bool)
    (h : dispatch4 bound oob hs input = .send resp peer port ifidx l2) :
    ∃ req, input = some req ∧ req.op = 1 ∧ (req.mt = 1 ∨ req.mt = 3) :=
  C11_only_requests bound oob hs input resp peer port ifidx l2 h

/-- non-vacuity: a DISCOVER through a one-handler chain is answered -/
example : ∃ r, dispatch4 3 none [fun _ r => (r, false)]
    (some ⟨1, 1, 7, 1, [1,2,3,4,5,6], 0, 0#32, 0#32, none, none⟩) = .send r 0#32 68 (some 3) true := ⟨_, rfl⟩

end CoreDhcp
