/-
GEN (start-up: listeners) — the definitions regenerated from the Go source on every run
(Generated/Start.lean, written by `harness gen -unit start` from the go/ast of server/serve.go:
listen4, listen6, Start, (*Servers).Close) are equal to the hand-written model (Model/Start.lean), and the
facts about start-up that the properties rely on are proved about the model.

The generated side keeps the shape of the Go code: the listener value is updated field by field along each
path, `Start` threads one state through two loops that APPEND (`srv.listeners = append(…)`), leaves the
loops through `goto` (`Step.jump`) and runs the label's statements (`cleanup`).  The model is written the
other way round (`Start.openAll` conses on the way back, no jumps); `GEN_start_loop6_acc` /
`GEN_start_loop4_acc` are the accumulator-generalised statements, proved by induction on the address list.

An edit of the Go logic changes the generated text, makes a statement below false and breaks this file
(or is rejected by the translator); a renamed variable or label, a moved log line, a comment regenerate
the same text.
-/
import CoreDhcp.Generated.Start
import CoreDhcp.Model.Start
namespace CoreDhcp
open GenStart (Step)

/-! ## listen4 / listen6 -/

/-- generated `listen4` = the model's `Start.listen .v4`, for every address and every answer of the world -/
theorem GEN_start_listen4_eq (a : LAddr) (o : ListenOracle) : GenStart.listen4 a o = Start.listen .v4 a o := by
  obtain ⟨c, i, s, j⟩ := o
  unfold GenStart.listen4 Start.listen
  cases c <;> cases i <;> cases s <;> cases j <;> cases a.multicast <;> by_cases hz : a.zone = "" <;>
    simp [Listener.zero, hz]

/-- generated `listen6` = the model's `Start.listen .v6` -/
theorem GEN_start_listen6_eq (a : LAddr) (o : ListenOracle) : GenStart.listen6 a o = Start.listen .v6 a o := by
  obtain ⟨c, i, s, j⟩ := o
  unfold GenStart.listen6 Start.listen
  cases c <;> cases i <;> cases s <;> cases j <;> cases a.multicast <;> by_cases hz : a.zone = "" <;>
    simp [Listener.zero, hz]

/-! ## Close -/

theorem GEN_start_closeLoop_acc (cs : List Listener) (ls : List (Option Listener)) :
    GenStart.closeLoop cs ls = cs ++ Start.close ls := by
  induction ls generalizing cs with
  | nil => simp [GenStart.closeLoop, Start.close]
  | cons x rest ih => cases x <;> simp [GenStart.closeLoop, GenStart.closeBody, Start.close, ih]

/-- generated `(*Servers).Close` = the model's `Start.close`: Close() on every non-nil listener, in order -/
theorem GEN_start_close_eq (ls : List (Option Listener)) : GenStart.close ls = Start.close ls := by
  simp [GenStart.close, GEN_start_closeLoop_acc]

theorem Start.close_map_some (ls : List Listener) : Start.close (ls.map some) = ls := by
  induction ls with
  | nil => rfl
  | cons l rest ih => simp [Start.close, ih]

/-! ## the loops of Start -/

/-- the model's result of one section as the outcome of the generated loop started in the state `st`:
the listeners appended to `srv.listeners` and to the goroutines, one more world answer used per listen call -/
def Gen13.ofOpen (st : St) : List Listener × Option ListenFail → Step
  | (ls, none) => .next ⟨st.listeners ++ ls.map some, st.serving ++ ls, st.closed, st.asked + ls.length⟩
  | (ls, some f) => .jump ⟨st.listeners ++ ls.map some, st.serving ++ ls, st.closed, st.asked + ls.length + 1⟩ f

theorem GEN_start_loop6_acc (w : World) (st : St) (as : List LAddr) :
    GenStart.loop6 w st as = Gen13.ofOpen st (Start.openAll .v6 w st.asked as) := by
  induction as generalizing st with
  | nil => simp [GenStart.loop6, Start.openAll, Gen13.ofOpen]
  | cons a rest ih =>
    unfold GenStart.loop6 GenStart.body6 Start.openAll
    rw [GEN_start_listen6_eq]
    cases h : Start.listen .v6 a (w st.asked) with
    | error f => simp [Gen13.ofOpen]
    | ok l =>
      simp only [ih]
      cases hr : Start.openAll .v6 w (st.asked + 1) rest with
      | mk ls r =>
        cases r <;> simp [Gen13.ofOpen, Chain.of, Nat.add_comm, Nat.add_left_comm]

theorem GEN_start_loop4_acc (w : World) (st : St) (as : List LAddr) :
    GenStart.loop4 w st as = Gen13.ofOpen st (Start.openAll .v4 w st.asked as) := by
  induction as generalizing st with
  | nil => simp [GenStart.loop4, Start.openAll, Gen13.ofOpen]
  | cons a rest ih =>
    unfold GenStart.loop4 GenStart.body4 Start.openAll
    rw [GEN_start_listen4_eq]
    cases h : Start.listen .v4 a (w st.asked) with
    | error f => simp [Gen13.ofOpen]
    | ok l =>
      simp only [ih]
      cases hr : Start.openAll .v4 w (st.asked + 1) rest with
      | mk ls r =>
        cases r <;> simp [Gen13.ofOpen, Chain.of, Nat.add_comm, Nat.add_left_comm]

/-! ## Start -/

/-- `if config.Server6 != nil { for … }` of the generated `Start`, as a function of the section -/
def Gen13.sec6 (w : World) (st : St) : Option (List LAddr) → Step
  | none => .next st
  | some as => GenStart.loop6 w st as

def Gen13.sec4 (w : World) (st : St) : Option (List LAddr) → Step
  | none => .next st
  | some as => GenStart.loop4 w st as

/-- the generated `Start`, its two `if`s named -/
theorem Gen13.start_unfold (s6 s4 : Option (List LAddr)) (loadedOk : Bool) (w : World) :
    GenStart.start s6 s4 loadedOk w =
      match loadedOk with
      | false => .loadErr
      | true =>
        match Gen13.sec6 w ⟨[], [], [], 0⟩ s6 with
        | .jump st f => GenStart.cleanup st f
        | .next st =>
          match Gen13.sec4 w st s4 with
          | .jump st' f => GenStart.cleanup st' f
          | .next st' => .ok st' := by
  cases loadedOk <;> cases s6 <;> cases s4 <;> rfl

theorem Gen13.sec6_eq (w : World) (st : St) (s6 : Option (List LAddr)) :
    Gen13.sec6 w st s6 = Gen13.ofOpen st (Start.openAll .v6 w st.asked (s6.getD [])) := by
  cases s6 <;> simp [Gen13.sec6, GEN_start_loop6_acc, Start.openAll, Gen13.ofOpen]

theorem Gen13.sec4_eq (w : World) (st : St) (s4 : Option (List LAddr)) :
    Gen13.sec4 w st s4 = Gen13.ofOpen st (Start.openAll .v4 w st.asked (s4.getD [])) := by
  cases s4 <;> simp [Gen13.sec4, GEN_start_loop4_acc, Start.openAll, Gen13.ofOpen]

/-- generated `Start` = the model's `Start.start`, for every configuration, both answers of LoadPlugins and
every world -/
theorem GEN_start_start_eq (cfg : StartCfg) (loadedOk : Bool) (w : World) :
    GenStart.start cfg.server6 cfg.server4 loadedOk w = Start.start cfg loadedOk w := by
  obtain ⟨s6, s4⟩ := cfg
  rw [Gen13.start_unfold]
  unfold Start.start
  cases loadedOk with
  | false => rfl
  | true =>
    simp only [Gen13.sec6_eq, Gen13.sec4_eq, Bool.true_eq_false, if_false]
    cases hr6 : Start.openAll .v6 w 0 (s6.getD []) with
    | mk ls6 r6 =>
      cases r6 with
      | some f =>
        simp [Gen13.ofOpen, GenStart.cleanup, GEN_start_close_eq, Start.close_map_some]
      | none =>
        simp only [Gen13.ofOpen, List.nil_append, Nat.zero_add]
        cases hr4 : Start.openAll .v4 w ls6.length (s4.getD []) with
        | mk ls4 r4 =>
          cases r4 <;>
            simp [GenStart.cleanup, GEN_start_close_eq, Start.close_map_some, ← List.map_append, Nat.add_assoc]

/-! ## facts about the model (they hold of the Go code through `GEN_start_start_eq`) -/

/-- what a listener looks like that `listenN` has opened for the address `a` and `Start` has given its chain -/
structure Start.Good (p : Proto) (a : LAddr) (l : Listener) : Prop where
  proto : l.proto = p
  conn : l.conn = some (p, a.zone, a.id)
  chain : l.chain = some (Chain.of p)
  unbound : a.zone = "" → l.iface = none ∧ (CFlag.interface, true) ∈ l.cmsg
  bound : a.zone ≠ "" → l.iface = some a.zone
  joined : l.joined = if a.multicast then some (l.iface, a.id) else none

/-- two lists of the same length whose elements are related one to one, in order -/
inductive Start.All₂ {α β : Type} (R : α → β → Prop) : List α → List β → Prop
  | nil : Start.All₂ R [] []
  | cons {a : α} {b : β} {as : List α} {bs : List β} : R a b → Start.All₂ R as bs → Start.All₂ R (a :: as) (b :: bs)

theorem Start.listen_ok (p : Proto) (a : LAddr) (o : ListenOracle) (l : Listener)
    (h : Start.listen p a o = .ok l) : Start.Good p a { l with chain := some (Chain.of p) } := by
  obtain ⟨c, i, s, j⟩ := o
  unfold Start.listen at h
  cases c <;> cases i <;> cases s <;> cases j <;> cases hm : a.multicast <;> by_cases hz : a.zone = "" <;>
    simp [Listener.zero, hz, hm] at h <;> subst h <;> constructor <;> simp [hz, hm]

/-- a failing `listenN` that got as far as opening the socket drops a listener value whose socket is open -/
theorem Start.listen_error (p : Proto) (a : LAddr) (o : ListenOracle) (f : ListenFail)
    (h : Start.listen p a o = .error f) :
    f.dropped.chain = none ∧ (f.err ≠ .conn → f.dropped.conn = some (p, a.zone, a.id)) := by
  obtain ⟨c, i, s, j⟩ := o
  unfold Start.listen at h
  cases c <;> cases i <;> cases s <;> cases j <;> cases hm : a.multicast <;> by_cases hz : a.zone = "" <;>
    simp [Listener.zero, hz, hm] at h <;> subst h <;> simp [hz]

/-- the outcome of one section, spelled out: the listeners are those of a prefix `pre` of the addresses, one
each and in order; either the prefix is everything, or the listen call on the next address failed -/
theorem Start.openAll_spec (p : Proto) (w : World) : ∀ (k : Nat) (as : List LAddr),
    ∃ pre post, as = pre ++ post ∧
      Start.All₂ (Start.Good p) pre (Start.openAll p w k as).1 ∧
      (match (Start.openAll p w k as).2 with
       | none => post = []
       | some f => ∃ a post', post = a :: post' ∧ Start.listen p a (w (k + pre.length)) = .error f)
  | _, [] => ⟨[], [], rfl, .nil, by simp [Start.openAll]⟩
  | k, a :: rest => by
    unfold Start.openAll
    cases h : Start.listen p a (w k) with
    | error f => exact ⟨[], a :: rest, rfl, .nil, by simp [h]⟩
    | ok l =>
      obtain ⟨pre, post, hsplit, hgood, hend⟩ := Start.openAll_spec p w (k + 1) rest
      refine ⟨a :: pre, post, by simp [hsplit], ?_, ?_⟩
      · exact Start.All₂.cons (Start.listen_ok p a (w k) l h) hgood
      · simp only [List.length_cons]
        rw [show k + (pre.length + 1) = k + 1 + pre.length by omega]
        exact hend

theorem Start.forall₂_length {α β : Type} {R : α → β → Prop} {a : List α} {b : List β}
    (h : Start.All₂ R a b) : a.length = b.length := by
  induction h with
  | nil => rfl
  | cons _ _ ih => simp [ih]

theorem Start.forall₂_append {α β : Type} {R : α → β → Prop} {a a' : List α} {b b' : List β}
    (h : Start.All₂ R a b) (h' : Start.All₂ R a' b') : Start.All₂ R (a ++ a') (b ++ b') := by
  induction h with
  | nil => exact h'
  | cons x _ ih => exact Start.All₂.cons x ih

theorem Start.forall₂_map {α β γ : Type} {R : α → β → Prop} {S : γ → β → Prop} (g : α → γ)
    (hRS : ∀ x y, R x y → S (g x) y) {a : List α} {b : List β}
    (h : Start.All₂ R a b) : Start.All₂ S (a.map g) b := by
  induction h with
  | nil => exact Start.All₂.nil
  | cons x _ ih => exact Start.All₂.cons (hRS _ _ x) ih

theorem Start.forall₂_mem {α β : Type} {R : α → β → Prop} {a : List α} {b : List β}
    (h : Start.All₂ R a b) : ∀ y ∈ b, ∃ x ∈ a, R x y := by
  induction h with
  | nil => intro y hy; cases hy
  | cons hx _ ih =>
    intro y hy
    cases hy with
    | head => exact ⟨_, List.Mem.head _, hx⟩
    | tail _ hy' =>
      obtain ⟨x, hx', hR⟩ := ih y hy'
      exact ⟨x, List.Mem.tail _ hx', hR⟩

/-- the addresses `Start` is to listen on: those of the DHCPv6 section, then those of the DHCPv4 section,
each with its protocol; an absent section contributes nothing -/
def Start.wanted (cfg : StartCfg) : List (Proto × LAddr) :=
  (cfg.server6.getD []).map (fun a => (Proto.v6, a)) ++ (cfg.server4.getD []).map (fun a => (Proto.v4, a))

/-- `Good` for a tagged address -/
def Start.GoodT (pa : Proto × LAddr) (l : Listener) : Prop := Start.Good pa.1 pa.2 l

/-- the whole of `Start`, spelled out.  Success: one good listener per wanted address, in order; srv.listeners
holds exactly them, a goroutine serves each, nothing is closed.  Listen error: the same for a strict prefix
`pre` of the wanted addresses, every one of those listeners has been closed, and `f` is the failure of the
listen call on the next address (which got the world's answers number `pre.length`). -/
theorem Start.start_spec (cfg : StartCfg) (w : World) :
    match Start.start cfg true w with
    | .loadErr => False
    | .ok st => Start.All₂ Start.GoodT (Start.wanted cfg) st.serving ∧
        st.listeners = st.serving.map some ∧ st.closed = [] ∧ st.asked = st.serving.length
    | .listenErr st f => ∃ pre pa post, Start.wanted cfg = pre ++ pa :: post ∧
        Start.All₂ Start.GoodT pre st.serving ∧
        st.listeners = st.serving.map some ∧ st.closed = st.serving ∧ st.asked = st.serving.length + 1 ∧
        Start.listen pa.1 pa.2 (w pre.length) = .error f := by
  obtain ⟨s6, s4⟩ := cfg
  unfold Start.start Start.wanted
  simp only [Bool.true_eq_false, if_false]
  obtain ⟨pre6, post6, hs6, hg6, he6⟩ := Start.openAll_spec .v6 w 0 (s6.getD [])
  have hg6' : Start.All₂ Start.GoodT (pre6.map (fun a => (Proto.v6, a))) (Start.openAll .v6 w 0 (s6.getD [])).1 :=
    Start.forall₂_map (fun a => (Proto.v6, a)) (fun _ _ h => h) hg6
  have hl6 := Start.forall₂_length hg6
  cases hr6 : Start.openAll .v6 w 0 (s6.getD []) with
  | mk ls6 r6 =>
    rw [hr6] at he6 hg6' hl6
    cases r6 with
    | some f =>
      obtain ⟨a, post', hpost, hfail⟩ := he6
      dsimp only
      refine ⟨pre6.map (fun a => (Proto.v6, a)), (Proto.v6, a),
        post'.map (fun a => (Proto.v6, a)) ++ (s4.getD []).map (fun a => (Proto.v4, a)), ?_, hg6', rfl, rfl, rfl, ?_⟩
      · simp [hs6, hpost]
      · simpa using hfail
    | none =>
      dsimp only
      simp only at he6
      subst he6
      simp only [List.append_nil] at hs6
      obtain ⟨pre4, post4, hs4, hg4, he4⟩ := Start.openAll_spec .v4 w ls6.length (s4.getD [])
      have hg4' : Start.All₂ Start.GoodT (pre4.map (fun a => (Proto.v4, a)))
          (Start.openAll .v4 w ls6.length (s4.getD [])).1 := Start.forall₂_map (fun a => (Proto.v4, a)) (fun _ _ h => h) hg4
      cases hr4 : Start.openAll .v4 w ls6.length (s4.getD []) with
      | mk ls4 r4 =>
        rw [hr4] at he4 hg4'
        cases r4 with
        | some f =>
          obtain ⟨a, post', hpost, hfail⟩ := he4
          dsimp only
          refine ⟨pre6.map (fun a => (Proto.v6, a)) ++ pre4.map (fun a => (Proto.v4, a)), (Proto.v4, a),
            post'.map (fun a => (Proto.v4, a)), ?_, Start.forall₂_append hg6' hg4', rfl, rfl, rfl, ?_⟩
          · simp [hs6, hs4, hpost]
          · simpa [hl6] using hfail
        | none =>
          simp only at he4
          subst he4
          simp only [List.append_nil] at hs4
          dsimp only
          refine ⟨?_, rfl, rfl, rfl⟩
          rw [hs6, hs4]
          exact Start.forall₂_append hg6' hg4'

/-! Non-vacuity: a configuration with both sections — DHCPv6 on a multicast address of zone eth0 and on an
address without zone, DHCPv4 on an address without zone.  The contents of the loaded chains are not an input
of `Start.start` at all (only `loadedOk` is): what follows holds just the same when a chain is EMPTY. -/
def Start.exCfg : StartCfg :=
  { server6 := some [⟨"eth0", true, 0⟩, ⟨"", false, 1⟩], server4 := some [⟨"", false, 2⟩] }
/-- a world in which every call succeeds -/
def Start.exWorld : World := fun _ => ⟨true, true, true, true⟩
/-- a world in which the third listen call (the DHCPv4 address) fails at SetControlMessage -/
def Start.exWorldFail : World := fun k => if k = 2 then ⟨true, true, false, true⟩ else ⟨true, true, true, true⟩

/-- EVERY address of EVERY present section gets a listener, in order (DHCPv6 section first), and nothing else
does — whatever the loaded chains are (also when a chain is empty: that listener then answers with the bare
ADVERTISE / OFFER) -/
theorem START_every_section_listens (cfg : StartCfg) (w : World) (st : St)
    (h : Start.start cfg true w = .ok st) :
    st.serving.map (fun l => (l.proto, l.conn))
      = (Start.wanted cfg).map (fun pa => (pa.1, some (pa.1, pa.2.zone, pa.2.id))) ∧
    st.listeners = st.serving.map some ∧ st.closed = [] := by
  have hs := Start.start_spec cfg w
  rw [h] at hs
  obtain ⟨hg, hl, hc, _⟩ := hs
  refine ⟨?_, hl, hc⟩
  generalize Start.wanted cfg = ws at hg
  generalize st.serving = ls at hg
  induction hg with
  | nil => rfl
  | cons hx _ ih => simp [ih, hx.proto, hx.conn]

example : ∃ st, Start.start Start.exCfg true Start.exWorld = .ok st ∧
    st.serving.map (fun l => (l.proto, l.conn))
      = [(.v6, some (.v6, "eth0", 0)), (.v6, some (.v6, "", 1)), (.v4, some (.v4, "", 2))] := ⟨_, rfl, rfl⟩

/-- every listener carries the whole loaded chain of its own protocol -/
theorem START_whole_chain (cfg : StartCfg) (w : World) (st : St)
    (h : Start.start cfg true w = .ok st) : ∀ l ∈ st.serving, l.chain = some (Chain.of l.proto) := by
  have hs := Start.start_spec cfg w
  rw [h] at hs
  intro l hl
  obtain ⟨pa, _, hg⟩ := Start.forall₂_mem hs.1 l hl
  rw [hg.chain, hg.proto]

example : ∃ st, Start.start Start.exCfg true Start.exWorld = .ok st ∧
    st.serving.map (·.chain) = [some .chain6, some .chain6, some .chain4] := ⟨_, rfl, rfl⟩

/-- a listener without a zone has per-packet interface information switched on (and is bound to no
interface); a listener with a zone is bound to that zone's interface -/
theorem START_unbound_has_pktinfo (cfg : StartCfg) (w : World) (st : St)
    (h : Start.start cfg true w = .ok st) :
    ∀ l ∈ st.serving, ∃ zone id, l.conn = some (l.proto, zone, id) ∧
      (zone = "" → l.iface = none ∧ (CFlag.interface, true) ∈ l.cmsg) ∧
      (zone ≠ "" → l.iface = some zone) := by
  have hs := Start.start_spec cfg w
  rw [h] at hs
  intro l hl
  obtain ⟨pa, _, hg⟩ := Start.forall₂_mem hs.1 l hl
  exact ⟨pa.2.zone, pa.2.id, by rw [hg.conn, hg.proto], hg.unbound, hg.bound⟩

example : ∃ st, Start.start Start.exCfg true Start.exWorld = .ok st ∧
    st.serving.map (fun l => (l.iface, l.cmsg, l.joined))
      = [(some "eth0", [], some (some "eth0", 0)), (none, [(.interface, true)], none),
         (none, [(.interface, true)], none)] := ⟨_, rfl, rfl⟩

/-- on a listen error the listeners closed are exactly the listeners opened before the failure — those of
the wanted addresses before the failing one, in order; srv.listeners held exactly them; and every goroutine
that had been started serves a listener that has been closed -/
theorem START_cleanup (cfg : StartCfg) (w : World) (st : St) (f : ListenFail)
    (h : Start.start cfg true w = .listenErr st f) :
    ∃ pre pa post, Start.wanted cfg = pre ++ pa :: post ∧
      st.closed.map (fun l => (l.proto, l.conn)) = pre.map (fun pa => (pa.1, some (pa.1, pa.2.zone, pa.2.id))) ∧
      st.listeners = st.closed.map some ∧ st.serving = st.closed ∧
      Start.listen pa.1 pa.2 (w pre.length) = .error f := by
  have hs := Start.start_spec cfg w
  rw [h] at hs
  obtain ⟨pre, pa, post, hw, hg, hl, hc, _, hf⟩ := hs
  refine ⟨pre, pa, post, hw, ?_, by rw [hc]; exact hl, hc.symm, hf⟩
  rw [hc]
  generalize st.serving = ls at hg
  clear hw hf
  induction hg with
  | nil => rfl
  | cons hx _ ih => simp [ih, hx.proto, hx.conn]

example : ∃ st f, Start.start Start.exCfg true Start.exWorldFail = .listenErr st f ∧
    st.closed.map (fun l => (l.proto, l.conn)) = [(.v6, some (.v6, "eth0", 0)), (.v6, some (.v6, "", 1))] ∧
    st.serving = st.closed ∧ f.err = .setCM := ⟨_, _, rfl, rfl, rfl, rfl⟩

/-- DEFECT made visible: the cleanup does not reach the failing `listenN` itself — when it fails after
the socket was opened (interface not found, SetControlMessage or JoinGroup refused), that socket is in
no listener that is closed: it stays open -/
theorem START_failed_listen_leaks_socket (cfg : StartCfg) (w : World) (st : St) (f : ListenFail)
    (h : Start.start cfg true w = .listenErr st f) (hne : f.err ≠ .conn) :
    (∃ c, f.dropped.conn = some c) ∧ f.dropped ∉ st.closed := by
  have hs := Start.start_spec cfg w
  rw [h] at hs
  obtain ⟨pre, pa, post, _, hg, _, hc, _, hf⟩ := hs
  have he := Start.listen_error _ _ _ _ hf
  refine ⟨⟨_, he.2 hne⟩, ?_⟩
  intro hmem
  rw [hc] at hmem
  obtain ⟨x, _, hgx⟩ := Start.forall₂_mem hg _ hmem
  have := hgx.chain
  rw [he.1] at this
  cases this

example : ∃ st f, Start.start Start.exCfg true Start.exWorldFail = .listenErr st f ∧
    f.err = .setCM ∧ f.dropped.conn = some (.v4, "", 2) ∧ st.closed.length = 2 := ⟨_, _, rfl, rfl, rfl, rfl⟩

/-- when LoadPlugins fails nothing is opened -/
theorem START_load_error_opens_nothing (cfg : StartCfg) (w : World) : Start.start cfg false w = .loadErr := by
  simp [Start.start]

example : Start.start Start.exCfg false Start.exWorld = .loadErr := rfl

/-- the generated definitions on the same inputs (they are not constant functions) -/
example : ∃ st, GenStart.start Start.exCfg.server6 Start.exCfg.server4 true Start.exWorld = .ok st ∧
    st.serving.length = 3 ∧ st.closed = [] := ⟨_, rfl, rfl, rfl⟩
example : ∃ st f, GenStart.start Start.exCfg.server6 Start.exCfg.server4 true Start.exWorldFail = .listenErr st f ∧
    st.closed.length = 2 ∧ f.err = .setCM := ⟨_, _, rfl, rfl, rfl⟩
example : GenStart.listen6 ⟨"eth0", true, 7⟩ ⟨true, true, true, false⟩
    = .error ⟨.join, { Listener.zero .v6 with conn := some (.v6, "eth0", 7), iface := some "eth0" }⟩ := rfl
example : GenStart.listen6 ⟨"eth0", true, 7⟩ ⟨true, false, true, true⟩
    = .error ⟨.noInterface .v4 "eth0", { Listener.zero .v6 with conn := some (.v6, "eth0", 7) }⟩ := rfl

end CoreDhcp
