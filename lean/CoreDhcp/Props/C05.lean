/-
C05 — Allocations lie in the pool, have the right size, and capacity is exact.
Property theorems only; invariant proofs are in Proofs/Alloc6.lean and Proofs/Alloc4.lean.
The monitor this theorem is about is the `c05` component of `Mon6.step` / `Mon4.step` (Spec/Alloc.lean).
-/
import CoreDhcp.Proofs.Alloc6
import CoreDhcp.Proofs.Alloc4
import CoreDhcp.Proofs.MonLemmas
namespace CoreDhcp

theorem C05_alloc6 (p : Pool6) (hp : p.WF) (a : A6) (hnew : A6.new p = .ok a)
    (ops : List Op6) (cs : List (Option Nat)) (evs : List Ev6) (z : A6)
    (hdom : ops.all (Op6.inDomain p) = true) (hrun : A6.run a ops cs = some (evs, z)) :
    C05.holds6 p evs = true := by
  unfold C05.holds6
  exact all_of_all_imp (A6.run_verdicts p hp a hnew ops cs evs z hdom hrun)
    (fun v hv => by unfold Verdict.all at hv; simp only [Bool.and_eq_true] at hv; exact hv.1.1.2)

theorem C05_alloc4 (s e : BitVec 32) (a : A4) (hnew : A4.new (some s) (some e) = .ok a)
    (ops : List Op4) (cs : List (Option Nat)) (evs : List Ev4) (z : A4)
    (hrun : A4.run a ops cs = some (evs, z)) :
    C05.holds4 s e evs = true := by
  unfold C05.holds4
  exact all_of_all_imp (A4.run_verdicts s e a hnew ops cs evs z hrun)
    (fun v hv => by unfold Verdict.all at hv; simp only [Bool.and_eq_true] at hv; exact hv.1.1.2)

end CoreDhcp

namespace CoreDhcp
/-- "no address available" changes nothing -/
theorem C05_noaddr_unchanged6 (a a' : A6) (h : Hint6) (c : Option Nat)
    (hr : a.allocate h c = some (a', .error .noaddr)) : a' = a := A6.noaddr_unchanged a a' h c hr
theorem C05_noaddr_unchanged4 (a a' : A4) (h : Option (BitVec 32)) (c : Option Nat)
    (hr : a.allocate h c = some (a', .noaddr)) : a' = a := A4.noaddr_unchanged a a' h c hr
/-- the model is never stuck: first fit, the policy of the code, is admissible in every state -/
theorem C05_progress6 (a : A6) (h : Hint6) : (a.allocate h a.firstFit).isSome = true := A6.firstFit_admissible a h
theorem C05_progress4 (a : A4) (h : Option (BitVec 32)) : (a.allocate h a.firstFit).isSome = true := A4.firstFit_admissible a h
end CoreDhcp
