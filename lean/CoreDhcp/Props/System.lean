/-
The whole server on one datagram — `HandleMsg4/6` composed with the models of the configured
built-in plugins (Model/System.lean). Property theorems only (proofs in Proofs/System.lean).

What is new against C11/C12/C15 in Props/: no hypothesis about the handlers is left. For every
chain of option plugins, `server_id` and `file`, in any order and with any configuration the
models accept, the reply that is sent satisfies the per-datagram properties.
-/
import CoreDhcp.Proofs.System
namespace CoreDhcp
open Sys

/-- C11 for every chain of built-in plugins: what is sent answers a DISCOVER/REQUEST BOOTREQUEST,
echoes xid, htype, chaddr, flags, giaddr, options 82 and 61 and has the right type. -/
theorem SYS_C11 (bound : Nat) (oob : Option Nat) (chain : List Elem4) (input : Option Sys.Req4) :
    C11.holds (input.map absReq4) (absOut4 (serve4 bound oob chain input)) = true :=
  sys_C11 bound oob chain input

/-- C15 for every chain of built-in plugins: destination, port, interface pinning, link-layer
unicast as RFC 2131 §4.1 prescribes. -/
theorem SYS_C15 (bound : Nat) (oob : Option Nat) (chain : List Elem4) (input : Option Sys.Req4) :
    C15.holds bound oob (input.map absReq4) (absOut4 (serve4 bound oob chain input)) = true :=
  sys_C15 bound oob chain input

/-- C12 for every chain of built-in plugins. -/
theorem SYS_C12 (bound : Nat) (oob : Option Nat) (src : Addr) (chain : List Elem6) (input : Option Sys.Pkt6) :
    C12.holds bound oob src (input.map absPkt6) (absOut6 (serve6 bound oob src chain input)) = true :=
  sys_C12 bound oob src chain input

/-- C14 end to end (DHCPv4, `server_id` first in the chain): a request naming another server gets
no reply at all, whatever follows in the chain. -/
theorem SYS_C14_drop4 (bound : Nat) (oob : Option Nat) (c : Plug.serverid4.Cfg) (rest : List Elem4) (req : Sys.Req4)
    (h : C14.namesOther4 c (viewReq4 req) = true) :
    serve4 bound oob (.plug (.serverid c) :: rest) (some req) = .drop :=
  sys_C14_drop4 bound oob c rest req h

/-- C14 end to end (DHCPv6): a message the Server-ID rules discard gets no reply. -/
theorem SYS_C14_drop6 (bound : Nat) (oob : Option Nat) (src : Addr) (c : Plug.serverid6.Cfg) (rest : List Elem6)
    (d : Sys.Pkt6) (m : Sys.Msg6) (hm : d.msg = some m)
    (h : C14.mustDiscard6 m.mt (C14.rel6 c ⟨d.layers.length, m.mt, m.opts⟩) = true) :
    serve6 bound oob src (.plug (.serverid c) :: rest) (some d) = .drop :=
  sys_C14_drop6 bound oob src c rest d m hm h

/-- C10/C13 end to end: a client listed in the static lease file is answered with that address and
nothing after `file` in the chain runs (the reply is the one of the chain cut after `file`). -/
theorem SYS_file_stops4 (bound : Nat) (oob : Option Nat) (pre post : List Elem4) (t : FTable) (req : Sys.Req4)
    (a : BitVec 32) (h : t.get req.chaddr = some (.v4 a)) :
    serve4 bound oob (pre ++ .file t :: post) (some req) = serve4 bound oob (pre ++ [.file t]) (some req) :=
  sys_file_stops4 bound oob pre post t req a h

/-- … and when `file` is reached — no element before it ends the chain with a response — the
address sent is the listed one. -/
theorem SYS_file_address4 (bound : Nat) (oob : Option Nat) (pre post : List Elem4) (t : FTable) (req : Sys.Req4)
    (a : BitVec 32) (h : t.get req.chaddr = some (.v4 a))
    (hpre : ∀ e ∈ pre, ∀ r r', handle4 e req (some r) ≠ (some r', true))
    (resp : Sys.Resp4) (peer : BitVec 32) (port : Nat) (ifidx : Option Nat) (l2 : Bool)
    (hs : serve4 bound oob (pre ++ .file t :: post) (some req) = .send resp peer port ifidx l2) :
    resp.yiaddr = be4 a :=
  sys_file_address4 bound oob pre post t req a h hpre resp peer port ifidx l2 hs

/-- The same with a hypothesis one can read off the configuration (what the `sys` driver evaluates
on every observed reply): before `file` only plugins that never end the chain (dns, mtu, netmask,
router, lease_time, searchdomains, staticroute, sleep). -/
theorem SYS_file_address4_cfg (bound : Nat) (oob : Option Nat) (pre post : List Elem4) (t : FTable) (req : Sys.Req4)
    (a : BitVec 32) (h : t.get req.chaddr = some (.v4 a)) (hpre : pre.all neverStops4 = true)
    (resp : Sys.Resp4) (peer : BitVec 32) (port : Nat) (ifidx : Option Nat) (l2 : Bool)
    (hs : serve4 bound oob (pre ++ .file t :: post) (some req) = .send resp peer port ifidx l2) :
    resp.yiaddr = be4 a :=
  sys_file_address4_syntactic bound oob pre post t req a h hpre resp peer port ifidx l2 hs

/-- `hpre` is needed: `nbp` before `file` ends the chain, the listed client is answered without its
address (yiaddr 0.0.0.0) -/
example :
    let req : Sys.Req4 := ⟨1, 7, 1, [2,0,0,0,0,1], 0, [0,0,0,0], [0,0,0,0], [0,0,0,0], [(53, [1])]⟩
    let t : FTable := [([2,0,0,0,0,1], .v4 0x0a090001#32)]
    let pre : List Elem4 := [.plug (.nbp ⟨none, [98]⟩)]
    t.get req.chaddr = some (.v4 0x0a090001#32) ∧
    ∃ r peer port ifidx l2, serve4 3 none (pre ++ .file t :: []) (some req) = .send r peer port ifidx l2 ∧
      r.yiaddr = [0, 0, 0, 0] ∧ r.yiaddr ≠ be4 0x0a090001#32 := by
  refine ⟨by decide, _, _, _, _, _, rfl, rfl, by decide⟩

/-- the option codes a DHCPv4 element may write: `Sys.owned4` (Proofs/System.lean) —
dns 6, mtu 26, netmask 1, router 3, lease_time 51, searchdomains 119, staticroute 121, ipv6only 108,
autoconfigure 116, nbp 66 and 67, server_id 54; sleep and file none -/
example : owned4 (.plug (.nbp ⟨none, []⟩)) = [66, 67] ∧ owned4 (.file []) = [] ∧ owned4 (.plug (.serverid [])) = [54] :=
  ⟨rfl, rfl, rfl⟩

/-- Frame: an option of the reply that differs from the prepared reply (`stub4`) has a code owned
by a plugin of the chain — nothing else is added, changed or removed. -/
theorem SYS_frame4 (bound : Nat) (oob : Option Nat) (chain : List Elem4) (req : Sys.Req4) (r0 : Sys.Resp4)
    (h0 : Sys.stub4 req = some r0)
    (resp : Sys.Resp4) (peer : BitVec 32) (port : Nat) (ifidx : Option Nat) (l2 : Bool)
    (hs : serve4 bound oob chain (some req) = .send resp peer port ifidx l2) (c : Nat)
    (hc : Plug.lookup c resp.opts ≠ Plug.lookup c r0.opts) :
    ∃ e ∈ chain, c ∈ owned4 e :=
  sys_frame4 bound oob chain req r0 h0 resp peer port ifidx l2 hs c hc

/-- non-vacuity: a DISCOVER through `server_id`, `dns`, `file` (client listed) is answered with the
listed address, the server identifier and — because `file` stops the chain — no router option -/
example :
    let req : Sys.Req4 := ⟨1, 7, 1, [2,0,0,0,0,1], 0, [0,0,0,0], [0,0,0,0], [0,0,0,0], [(53, [1]), (55, [3, 6])]⟩
    let chain : List Elem4 := [.plug (.serverid [10,0,0,1]), .plug (.dns [[8,8,8,8]]), .file [([2,0,0,0,0,1], .v4 0x0a090001#32)], .plug (.router [[10,0,0,254]])]
    ∃ r, serve4 3 none chain (some req) = .send r 0x0a090001#32 68 (some 3) true ∧
      r.yiaddr = [10, 9, 0, 1] ∧ Plug.lookup 54 r.opts = some [10,0,0,1] ∧ Plug.lookup 6 r.opts = some [8,8,8,8] ∧
      Plug.lookup 3 r.opts = none := by
  refine ⟨_, rfl, ?_, ?_, ?_, ?_⟩ <;> rfl

/-- C17 end to end (DHCPv4). A plugin of the chain that is reached (only plugins that never end the
chain before it) and whose option codes no later element owns: the response `mid` it is handed is
what the plugins before it produced, its own handler turns `mid` into `out` — about which
`C17_builtin4` says everything C17 says —, and the reply that is finally sent has, for every
option code the plugin owns, exactly the value in `out`. -/
theorem SYS_C17_delivered4 (bound : Nat) (oob : Option Nat) (pre post : List Elem4) (c : Plug.Cfg4) (req : Sys.Req4)
    (name : String) (args : List Plug.ArgOracle) (hcfg : Plug.plugSetup4 name args = some (.ok c))
    (hpre : pre.all neverStops4 = true)
    (hpost : ∀ e ∈ post, ∀ code ∈ owned4 (.plug c), code ∉ owned4 e)
    (resp : Sys.Resp4) (peer : BitVec 32) (port : Nat) (ifidx : Option Nat) (l2 : Bool)
    (hs : serve4 bound oob (pre ++ .plug c :: post) (some req) = .send resp peer port ifidx l2) :
    ∃ r0 mid out stop, Sys.stub4 req = some r0 ∧
      (runChain (pre.map handle4) req 0 (some r0)).1 = some mid ∧
      Plug.plugHandle4 c (viewReq4 req) (viewResp4 mid) = (some out, stop) ∧
      C17.holds4 c (viewReq4 req) (viewResp4 mid) (some out, stop) = true ∧
      ∀ code ∈ owned4 (.plug c), Plug.lookup code resp.opts = Plug.lookup code out.opts :=
  sys_C17_delivered4 bound oob pre post c req name args hcfg hpre hpost resp peer port ifidx l2 hs

/-- non-vacuity of `SYS_C17_delivered4`: `dns` after `router`, before `mtu` -/
example :
    let req : Sys.Req4 := ⟨1, 7, 1, [2,0,0,0,0,1], 0, [0,0,0,0], [0,0,0,0], [0,0,0,0], [(53, [1]), (55, [3, 6, 26])]⟩
    let pre : List Elem4 := [.plug (.router [[10,0,0,254]])]
    let post : List Elem4 := [.plug (.mtu 1500)]
    pre.all neverStops4 = true ∧ (∀ e ∈ post, ∀ code ∈ owned4 (.plug (.dns [[8,8,8,8]])), code ∉ owned4 e) ∧
    ∃ r, serve4 3 none (pre ++ .plug (.dns [[8,8,8,8]]) :: post) (some req) = .send r 0#32 68 (some 3) true ∧
      Plug.lookup 6 r.opts = some [8,8,8,8] := by
  refine ⟨rfl, ?_, _, rfl, rfl⟩
  intro e he code hc
  simp only [List.mem_singleton] at he
  subst he
  simp [owned4] at hc ⊢
  omega

end CoreDhcp
