/-
The whole server on one datagram — `HandleMsg4/6` composed with the models of the configured
built-in plugins (Model/System.lean). Property theorems only (proofs in Proofs/System.lean,
Proofs/System6.lean and Proofs/System7.lean).

What is new against C11/C12/C15 in Props/: no hypothesis about the handlers is left. For every
chain of option plugins, `server_id` and `file`, in any order and with any configuration the
models accept, the reply that is sent satisfies the per-datagram properties.
-/
import CoreDhcp.Proofs.System7
namespace CoreDhcp
open Sys

/-- C11 for every chain of built-in plugins: what is sent answers a DISCOVER/REQUEST BOOTREQUEST,
echoes xid, htype, chaddr, flags, giaddr, options 82 and 61 and has the right type. -/
theorem SYS_C11 (bound : Nat) (oob : Option Nat) (chain : List Elem4) (input : Option Sys.Req4) :
    C11.holds (input.map absReq4) (absOut4 (serve4 bound oob chain input)) = true :=
  sys_C11 bound oob chain input

/-- C15 for every chain of built-in plugins: destination, port, interface pinning, link-layer
unicast as RFC 2131 §4.1 prescribes. -/
theorem SYS_C15 (bound : Nat) (oob : Option Nat) (chain : List Elem4) (input : Option Sys.Req4) :
    C15.holds bound oob (input.map absReq4) (absOut4 (serve4 bound oob chain input)) = true :=
  sys_C15 bound oob chain input

/-- C12 for every chain of built-in plugins. -/
theorem SYS_C12 (bound : Nat) (oob : Option Nat) (src : Addr) (chain : List Elem6) (input : Option Sys.Pkt6) :
    C12.holds bound oob src (input.map absPkt6) (absOut6 (serve6 bound oob src chain input)) = true :=
  sys_C12 bound oob src chain input

/-- C14 end to end (DHCPv4, `server_id` first in the chain): a request naming another server gets
no reply at all, whatever follows in the chain. -/
theorem SYS_C14_drop4 (bound : Nat) (oob : Option Nat) (c : Plug.serverid4.Cfg) (rest : List Elem4) (req : Sys.Req4)
    (h : C14.namesOther4 c (viewReq4 req) = true) :
    serve4 bound oob (.plug (.serverid c) :: rest) (some req) = .drop :=
  sys_C14_drop4 bound oob c rest req h

/-- C14 end to end (DHCPv6): a message the Server-ID rules discard gets no reply. -/
theorem SYS_C14_drop6 (bound : Nat) (oob : Option Nat) (src : Addr) (c : Plug.serverid6.Cfg) (rest : List Elem6)
    (d : Sys.Pkt6) (m : Sys.Msg6) (hm : d.msg = some m)
    (h : C14.mustDiscard6 m.mt (C14.rel6 c ⟨d.layers.length, m.mt, m.opts⟩) = true) :
    serve6 bound oob src (.plug (.serverid c) :: rest) (some d) = .drop :=
  sys_C14_drop6 bound oob src c rest d m hm h

/-- C10/C13 end to end: a client listed in the static lease file is answered with that address and
nothing after `file` in the chain runs (the reply is the one of the chain cut after `file`). -/
theorem SYS_file_stops4 (bound : Nat) (oob : Option Nat) (pre post : List Elem4) (t : FTable) (req : Sys.Req4)
    (a : BitVec 32) (h : t.get req.chaddr = some (.v4 a)) :
    serve4 bound oob (pre ++ .file t :: post) (some req) = serve4 bound oob (pre ++ [.file t]) (some req) :=
  sys_file_stops4 bound oob pre post t req a h

/-- … and when `file` is reached — no element before it ends the chain with a response — the
address sent is the listed one. -/
theorem SYS_file_address4 (bound : Nat) (oob : Option Nat) (pre post : List Elem4) (t : FTable) (req : Sys.Req4)
    (a : BitVec 32) (h : t.get req.chaddr = some (.v4 a))
    (hpre : ∀ e ∈ pre, ∀ r r', handle4 e req (some r) ≠ (some r', true))
    (resp : Sys.Resp4) (peer : BitVec 32) (port : Nat) (ifidx : Option Nat) (l2 : Bool)
    (hs : serve4 bound oob (pre ++ .file t :: post) (some req) = .send resp peer port ifidx l2) :
    resp.yiaddr = be4 a :=
  sys_file_address4 bound oob pre post t req a h hpre resp peer port ifidx l2 hs

/-- The same with a hypothesis one can read off the configuration (what the `sys` driver evaluates
on every observed reply): before `file` only plugins that never end the chain (dns, mtu, netmask,
router, lease_time, searchdomains, staticroute, sleep). -/
theorem SYS_file_address4_cfg (bound : Nat) (oob : Option Nat) (pre post : List Elem4) (t : FTable) (req : Sys.Req4)
    (a : BitVec 32) (h : t.get req.chaddr = some (.v4 a)) (hpre : pre.all neverStops4 = true)
    (resp : Sys.Resp4) (peer : BitVec 32) (port : Nat) (ifidx : Option Nat) (l2 : Bool)
    (hs : serve4 bound oob (pre ++ .file t :: post) (some req) = .send resp peer port ifidx l2) :
    resp.yiaddr = be4 a :=
  sys_file_address4_syntactic bound oob pre post t req a h hpre resp peer port ifidx l2 hs

/-- `hpre` is needed: `nbp` before `file` ends the chain, the listed client is answered without its
address (yiaddr 0.0.0.0) -/
example :
    let req : Sys.Req4 := ⟨1, 7, 1, [2,0,0,0,0,1], 0, [0,0,0,0], [0,0,0,0], [0,0,0,0], [(53, [1])]⟩
    let t : FTable := [([2,0,0,0,0,1], .v4 0x0a090001#32)]
    let pre : List Elem4 := [.plug (.nbp ⟨none, [98]⟩)]
    t.get req.chaddr = some (.v4 0x0a090001#32) ∧
    ∃ r peer port ifidx l2, serve4 3 none (pre ++ .file t :: []) (some req) = .send r peer port ifidx l2 ∧
      r.yiaddr = [0, 0, 0, 0] ∧ r.yiaddr ≠ be4 0x0a090001#32 := by
  refine ⟨by decide, _, _, _, _, _, rfl, rfl, by decide⟩

/-- the option codes a DHCPv4 element may write: `Sys.owned4` (Proofs/System.lean) —
dns 6, mtu 26, netmask 1, router 3, lease_time 51, searchdomains 119, staticroute 121, ipv6only 108,
autoconfigure 116, nbp 66 and 67, server_id 54; sleep and file none -/
example : owned4 (.plug (.nbp ⟨none, []⟩)) = [66, 67] ∧ owned4 (.file []) = [] ∧ owned4 (.plug (.serverid [])) = [54] :=
  ⟨rfl, rfl, rfl⟩

/-- Frame: an option of the reply that differs from the prepared reply (`stub4`) has a code owned
by a plugin of the chain — nothing else is added, changed or removed. -/
theorem SYS_frame4 (bound : Nat) (oob : Option Nat) (chain : List Elem4) (req : Sys.Req4) (r0 : Sys.Resp4)
    (h0 : Sys.stub4 req = some r0)
    (resp : Sys.Resp4) (peer : BitVec 32) (port : Nat) (ifidx : Option Nat) (l2 : Bool)
    (hs : serve4 bound oob chain (some req) = .send resp peer port ifidx l2) (c : Nat)
    (hc : Plug.lookup c resp.opts ≠ Plug.lookup c r0.opts) :
    ∃ e ∈ chain, c ∈ owned4 e :=
  sys_frame4 bound oob chain req r0 h0 resp peer port ifidx l2 hs c hc

/-- non-vacuity: a DISCOVER through `server_id`, `dns`, `file` (client listed) is answered with the
listed address, the server identifier and — because `file` stops the chain — no router option -/
example :
    let req : Sys.Req4 := ⟨1, 7, 1, [2,0,0,0,0,1], 0, [0,0,0,0], [0,0,0,0], [0,0,0,0], [(53, [1]), (55, [3, 6])]⟩
    let chain : List Elem4 := [.plug (.serverid [10,0,0,1]), .plug (.dns [[8,8,8,8]]), .file [([2,0,0,0,0,1], .v4 0x0a090001#32)], .plug (.router [[10,0,0,254]])]
    ∃ r, serve4 3 none chain (some req) = .send r 0x0a090001#32 68 (some 3) true ∧
      r.yiaddr = [10, 9, 0, 1] ∧ Plug.lookup 54 r.opts = some [10,0,0,1] ∧ Plug.lookup 6 r.opts = some [8,8,8,8] ∧
      Plug.lookup 3 r.opts = none := by
  refine ⟨_, rfl, ?_, ?_, ?_, ?_⟩ <;> rfl

/-- C17 end to end (DHCPv4). A plugin of the chain that is reached (only plugins that never end the
chain before it) and whose option codes no later element owns: the response `mid` it is handed is
what the plugins before it produced, its own handler turns `mid` into `out` — about which
`C17_builtin4` says everything C17 says —, and the reply that is finally sent has, for every
option code the plugin owns, exactly the value in `out`. -/
theorem SYS_C17_delivered4 (bound : Nat) (oob : Option Nat) (pre post : List Elem4) (c : Plug.Cfg4) (req : Sys.Req4)
    (name : String) (args : List Plug.ArgOracle) (hcfg : Plug.plugSetup4 name args = some (.ok c))
    (hpre : pre.all neverStops4 = true)
    (hpost : ∀ e ∈ post, ∀ code ∈ owned4 (.plug c), code ∉ owned4 e)
    (resp : Sys.Resp4) (peer : BitVec 32) (port : Nat) (ifidx : Option Nat) (l2 : Bool)
    (hs : serve4 bound oob (pre ++ .plug c :: post) (some req) = .send resp peer port ifidx l2) :
    ∃ r0 mid out stop, Sys.stub4 req = some r0 ∧
      (runChain (pre.map handle4) req 0 (some r0)).1 = some mid ∧
      Plug.plugHandle4 c (viewReq4 req) (viewResp4 mid) = (some out, stop) ∧
      C17.holds4 c (viewReq4 req) (viewResp4 mid) (some out, stop) = true ∧
      ∀ code ∈ owned4 (.plug c), Plug.lookup code resp.opts = Plug.lookup code out.opts :=
  sys_C17_delivered4 bound oob pre post c req name args hcfg hpre hpost resp peer port ifidx l2 hs

/-- non-vacuity of `SYS_C17_delivered4`: `dns` after `router`, before `mtu` -/
example :
    let req : Sys.Req4 := ⟨1, 7, 1, [2,0,0,0,0,1], 0, [0,0,0,0], [0,0,0,0], [0,0,0,0], [(53, [1]), (55, [3, 6, 26])]⟩
    let pre : List Elem4 := [.plug (.router [[10,0,0,254]])]
    let post : List Elem4 := [.plug (.mtu 1500)]
    pre.all neverStops4 = true ∧ (∀ e ∈ post, ∀ code ∈ owned4 (.plug (.dns [[8,8,8,8]])), code ∉ owned4 e) ∧
    ∃ r, serve4 3 none (pre ++ .plug (.dns [[8,8,8,8]]) :: post) (some req) = .send r 0#32 68 (some 3) true ∧
      Plug.lookup 6 r.opts = some [8,8,8,8] := by
  refine ⟨rfl, ?_, _, rfl, rfl⟩
  intro e he code hc
  simp only [List.mem_singleton] at he
  subst he
  simp [owned4] at hc ⊢
  omega

/-! ## DHCPv6 with `prefix` in the chain -/

/-- the option codes a DHCPv6 element may add, replace or remove: `Sys.owned6` (Proofs/System6.lean) —
dns 23, searchdomains 24, nbp 59 and 60, server_id 2, file 3 (IA_NA), prefix 25 (IA_PD); sleep none -/
example : owned6 (.plug (.nbp ⟨[], none⟩)) = [59, 60] ∧ owned6 (.file []) = [3] ∧ owned6 (.plug (.serverid [])) = [2] ∧
    owned6 (.pd []) = [25] ∧ owned6 (.plug (.sleep 0)) = [] ∧ owned6 (.plug (.dns [])) = [23] ∧
    owned6 (.plug (.search [])) = [24] :=
  ⟨rfl, rfl, rfl, rfl, rfl, rfl, rfl⟩

/-- Frame (DHCPv6): the options of a code no element of the chain owns are, in the reply that is sent, exactly (same
values, same order, same multiplicity) those of the prepared reply `stub6`. -/
theorem SYS_frame6 (bound : Nat) (oob : Option Nat) (src : Addr) (chain : List Elem6) (d : Sys.Pkt6) (m : Sys.Msg6)
    (r0 : Sys.Resp6) (hm : d.msg = some m) (h0 : Sys.stub6 m = some r0)
    (layers : List Layer6) (resp : Sys.Resp6) (ifidx : Option Nat)
    (hs : serve6 bound oob src chain (some d) = .send layers resp ifidx) (c : Nat)
    (hc : ∀ e ∈ chain, c ∉ owned6 e) :
    resp.opts.filter (fun o => o.1 == c) = r0.opts.filter (fun o => o.1 == c) :=
  sys_frame6 bound oob src chain d m r0 hm h0 layers resp ifidx hs c hc

/-- non-vacuity of `SYS_frame6`: a SOLICIT with Rapid Commit asking for the DNS servers, through `server_id`, `dns`,
`prefix` and `file`: a REPLY is sent, no element owns codes 1 and 14, the Client-ID and Rapid Commit options are
those of the prepared reply; options 2, 23 and 25 were added -/
example :
    let m : Sys.Msg6 := ⟨1, 7, [(1, [0, 3, 0, 1, 2, 0, 0, 0, 0, 1]), (14, []), (6, [0, 23]), (25, [0, 0, 0, 1, 0, 0, 0, 0, 0, 0, 0, 0])]⟩
    let d : Sys.Pkt6 := ⟨[], some m, none⟩
    let chain : List Elem6 := [.plug (.serverid [0, 3, 0, 1, 2, 0, 0, 0, 0, 9]), .plug (.dns [[32, 1, 13, 184, 0, 0, 0, 0, 0, 0, 0, 0, 0, 0, 0, 83]]),
      .pd [⟨[0, 0, 0, 1], []⟩], .file []]
    (∀ e ∈ chain, 1 ∉ owned6 e ∧ 14 ∉ owned6 e) ∧
    ∃ r0 resp, Sys.stub6 m = some r0 ∧ serve6 0 none ⟨0x20010db800000000#64, 1#64⟩ chain (some d) = .send [] resp none ∧
      resp.opts.filter (fun o => o.1 == 1) = [(1, [0, 3, 0, 1, 2, 0, 0, 0, 0, 1])] ∧
      resp.opts.filter (fun o => o.1 == 14) = [(14, [])] ∧ resp.opts.length = 5 := by
  refine ⟨?_, _, _, rfl, rfl, rfl, rfl, rfl⟩
  intro e he
  simp only [List.mem_cons, List.not_mem_nil, or_false] at he
  rcases he with rfl | rfl | rfl | rfl <;> simp [owned6]

/-- C08 end to end: with `prefix` in the chain (once), reached (nothing before it ends the chain), whatever else is
configured before and after it, every reply that is sent carries exactly the IA_PD options `prefix` built — one per
`PdAns`, in order, nothing added, changed or removed by the other plugins. -/
theorem SYS_pd_delivered6 (bound : Nat) (oob : Option Nat) (src : Addr) (pre post : List Elem6) (out : List PdAns)
    (d : Sys.Pkt6) (hpre : pre.all neverStops6 = true)
    (hone : (pre ++ post).all (fun e => !isPd e) = true)
    (layers : List Layer6) (resp : Sys.Resp6) (ifidx : Option Nat)
    (hs : serve6 bound oob src (pre ++ .pd out :: post) (some d) = .send layers resp ifidx) :
    resp.opts.filter (fun o => o.1 == 25) = out.map (fun a => (25, encIAPD a)) :=
  sys_pd_delivered6 bound oob src pre post out d hpre hone layers resp ifidx hs

/-- non-vacuity of `SYS_pd_delivered6`: a relayed REQUEST, `dns` and `file` before `prefix`, `nbp` after it; the
reply goes back through the relay on the pinned interface and carries the two IA_PD options -/
example :
    let m : Sys.Msg6 := ⟨3, 7, [(1, [0, 3, 0, 1, 2, 0, 0, 0, 0, 1]), (6, [0, 23, 0, 59])]⟩
    let l : Layer6 := ⟨12, ⟨0x20010db800000000#64, 1#64⟩, ⟨0xfe80000000000000#64, 2#64⟩, none, none⟩
    let d : Sys.Pkt6 := ⟨[l], some m, none⟩
    let pre : List Elem6 := [.plug (.dns [[32, 1, 13, 184, 0, 0, 0, 0, 0, 0, 0, 0, 0, 0, 0, 83]]), .file []]
    let post : List Elem6 := [.plug (.nbp ⟨[104], none⟩)]
    let out : List PdAns := [⟨[0, 0, 0, 1], [(⟨⟨0x20010db800010000#64, 0#64⟩, 56⟩, 3600)]⟩, ⟨[0, 0, 0, 2], []⟩]
    pre.all neverStops6 = true ∧ (pre ++ post).all (fun e => !isPd e) = true ∧
    ∃ resp, serve6 3 none ⟨0xfe80000000000000#64, 2#64⟩ (pre ++ .pd out :: post) (some d) = .send (mirror [l]) resp (some 3) ∧
      resp.opts.map (·.1) = [1, 23, 25, 25, 59] := ⟨rfl, rfl, _, rfl, rfl⟩

/-- `hpre` is needed: `nbp` before `prefix` ends the chain, the reply is sent without any IA_PD -/
example :
    let m : Sys.Msg6 := ⟨3, 7, [(1, [0, 3, 0, 1, 2, 0, 0, 0, 0, 1])]⟩
    let d : Sys.Pkt6 := ⟨[], some m, none⟩
    ∃ resp, serve6 3 none ⟨0x20010db800000000#64, 2#64⟩ ([.plug (.nbp ⟨[104], none⟩)] ++ .pd [⟨[0, 0, 0, 1], []⟩] :: []) (some d) =
        .send [] resp none ∧ resp.opts.filter (fun o => o.1 == 25) = [] := ⟨_, rfl, rfl⟩

/-- The encoding loses nothing: a client that decodes the IA_PD body (`Sys.decIAPD`, Model/System.lean: IAID, T1,
T2, then IAPrefix sub-options, a Status Code sub-option is skipped) gets exactly the IAID and the blocks with their
lifetimes. -/
theorem SYS_pd_roundtrip (a : PdAns) (hi : a.iaid.length = 4)
    (hb : ∀ p ∈ a.pfxs, p.1.len < 256 ∧ p.2 < 2 ^ 32) : decIAPD (encIAPD a) = some a :=
  sys_pd_roundtrip a hi hb

/-- non-vacuity of `SYS_pd_roundtrip`: the bytes of an IA_PD with one /56 for an hour, and of one without prefix
(NoPrefixAvail); a lifetime that does not fit 32 bits is not read back (the hypothesis is needed) -/
example :
    let a : PdAns := ⟨[0, 0, 0, 1], [(⟨⟨0x20010db800010000#64, 0#64⟩, 56⟩, 3600)]⟩
    encIAPD a = [0, 0, 0, 1, 0, 0, 0, 0, 0, 0, 0, 0, 0, 26, 0, 25, 0, 0, 14, 16, 0, 0, 14, 16, 56,
      32, 1, 13, 184, 0, 1, 0, 0, 0, 0, 0, 0, 0, 0, 0, 0] ∧ decIAPD (encIAPD a) = some a ∧
    encIAPD ⟨[0, 0, 0, 2], []⟩ = [0, 0, 0, 2, 0, 0, 0, 0, 0, 0, 0, 0, 0, 13, 0, 2, 0, 6] ∧
    decIAPD (encIAPD ⟨[0, 0, 0, 2], []⟩) = some ⟨[0, 0, 0, 2], []⟩ ∧
    decIAPD (encIAPD ⟨[0, 0, 0, 1], [(⟨⟨0x20010db800010000#64, 0#64⟩, 56⟩, 2 ^ 32)]⟩) =
      some ⟨[0, 0, 0, 1], [(⟨⟨0x20010db800010000#64, 0#64⟩, 56⟩, 0)]⟩ := by
  refine ⟨?_, ?_, ?_, ?_, ?_⟩ <;> decide

/-- Every IA_PD of the request is answered on the wire by exactly one IA_PD option, with the same IAID, in order:
`PState.handleMsg` (Model/Prefix.lean) answers `rs`, `prefix` is the chain element `.pd (pdOf rs)`. -/
theorem SYS_pd_answers_each (bound : Nat) (oob : Option Nat) (src : Addr) (pre post : List Elem6)
    (s s' : PState) (c : ClientKey) (iapds : List IAPDReq) (now : Int) (cs cs' : List (Option Nat)) (rs : List IAPDResp)
    (hh : s.handleMsg (some c) iapds now cs = some (s', some rs, cs'))
    (d : Sys.Pkt6) (hpre : pre.all neverStops6 = true) (hone : (pre ++ post).all (fun e => !isPd e) = true)
    (layers : List Layer6) (resp : Sys.Resp6) (ifidx : Option Nat)
    (hs : serve6 bound oob src (pre ++ .pd (pdOf rs) :: post) (some d) = .send layers resp ifidx) :
    (resp.opts.filter (fun o => o.1 == 25)).map (fun o => o.2.take 4) = iapds.map (fun q => Plug.be 4 q.iaid) :=
  sys_pd_answers_each bound oob src pre post s s' c iapds now cs cs' rs hh d hpre hone layers resp ifidx hs

/-- non-vacuity of `SYS_pd_answers_each`: a pool of four /62 in a /60, a client asking for two IA_PD (IAID 1 and
70000): the state machine answers both, the reply is sent and carries two IA_PD options with those IAIDs -/
example : ∃ a s' rs cs' resp, A6.new ⟨⟨0x20010db800000000#64, 0#64⟩, 60, 62⟩ = .ok a ∧
    (⟨a, []⟩ : PState).handleMsg (some [0, 3, 0, 1, 2, 0, 0, 0, 0, 1]) [⟨1, []⟩, ⟨70000, [.empty]⟩] 10 [some 0, some 1] =
      some (s', some rs, cs') ∧
    serve6 3 none ⟨0x20010db800000000#64, 2#64⟩ ([.plug (.sleep 0)] ++ .pd (pdOf rs) :: [.plug (.search [])])
      (some ⟨[], some ⟨3, 7, [(1, [0, 3, 0, 1, 2, 0, 0, 0, 0, 1])]⟩, none⟩) = .send [] resp none ∧
    (resp.opts.filter (fun o => o.1 == 25)).map (fun o => o.2.take 4) = [[0, 0, 0, 1], [0, 1, 17, 112]] ∧
    (resp.opts.filter (fun o => o.1 == 25)).map (fun o => (decIAPD o.2).map (fun p => p.pfxs.map (·.2))) =
      [some [3600], some [3600]] :=
  ⟨_, _, _, _, _, rfl, rfl, rfl, rfl, rfl⟩

/-! ## `file` behind `range`, `server_id` first, `range` and `lease_time` -/

/-- C10 end to end with `range` before `file`: before `file` only plugins that never end the chain and `range` (which
hands its response on or drops the request, but never ends the chain with a response): if anything is sent to a
listed client, it carries the listed address, not the one `range` chose. -/
theorem SYS_file_address4_lease (bound : Nat) (oob : Option Nat) (pre post : List Elem4) (t : FTable) (req : Sys.Req4)
    (a : BitVec 32) (h : t.get req.chaddr = some (.v4 a)) (hpre : pre.all (fun e => neverStops4 e || isLease e) = true)
    (resp : Sys.Resp4) (peer : BitVec 32) (port : Nat) (ifidx : Option Nat) (l2 : Bool)
    (hs : serve4 bound oob (pre ++ .file t :: post) (some req) = .send resp peer port ifidx l2) :
    resp.yiaddr = be4 a :=
  sys_file_address4_lease bound oob pre post t req a h hpre resp peer port ifidx l2 hs

/-- non-vacuity of `SYS_file_address4_lease`: a DISCOVER through `range` (which answers 10.0.10.10 for 60 s) then `file`
listing the client with 10.9.0.1: the reply's yiaddr is 10.9.0.1 (and option 51 is still the one of `range`) -/
example :
    let req : Sys.Req4 := ⟨1, 7, 1, [2,0,0,0,0,1], 0, [0,0,0,0], [0,0,0,0], [0,0,0,0], [(53, [1])]⟩
    let t : FTable := [([2,0,0,0,0,1], .v4 0x0a090001#32)]
    let pre : List Elem4 := [.lease (some (0x0a000a0a#32, 60))]
    t.get req.chaddr = some (.v4 0x0a090001#32) ∧ pre.all (fun e => neverStops4 e || isLease e) = true ∧
    ∃ r, serve4 3 none (pre ++ .file t :: []) (some req) = .send r 0x0a090001#32 68 (some 3) true ∧
      r.yiaddr = [10, 9, 0, 1] ∧ r.yiaddr = be4 0x0a090001#32 ∧ Plug.lookup 51 r.opts = some [0, 0, 0, 60] := by
  refine ⟨by decide, rfl, _, rfl, rfl, by decide, rfl⟩

/-- C14 end to end (DHCPv4, `server_id` first in the chain and nowhere else): every reply that is sent carries this
server's address in option 54 and in siaddr — no other element writes either. -/
theorem SYS_C14_stamped4 (bound : Nat) (oob : Option Nat) (c : Plug.serverid4.Cfg) (rest : List Elem4) (req : Sys.Req4)
    (hrest : rest.all (fun e => !isServerId4 e) = true)
    (resp : Sys.Resp4) (peer : BitVec 32) (port : Nat) (ifidx : Option Nat) (l2 : Bool)
    (hs : serve4 bound oob (.plug (.serverid c) :: rest) (some req) = .send resp peer port ifidx l2) :
    Plug.lookup 54 resp.opts = some c ∧ resp.siaddr = c :=
  sys_C14_stamped4 bound oob c rest req hrest resp peer port ifidx l2 hs

/-- non-vacuity of `SYS_C14_stamped4`: a REQUEST naming this server, through `server_id`, `range`, `dns`, `nbp`: the ACK
carries 10.0.0.1 in option 54 and in siaddr. `hrest` is needed: a second `server_id` (another address, which the
request does not name either way) after the first overwrites both. -/
example :
    let req : Sys.Req4 := ⟨1, 7, 1, [2,0,0,0,0,1], 0, [0,0,0,0], [0,0,0,0], [0,0,0,0], [(53, [3]), (54, [10,0,0,1])]⟩
    let rest : List Elem4 := [.lease (some (0x0a000a0a#32, 60)), .plug (.dns [[8,8,8,8]]), .plug (.nbp ⟨none, [98]⟩)]
    rest.all (fun e => !isServerId4 e) = true ∧
    (∃ r, serve4 3 none (.plug (.serverid [10,0,0,1]) :: rest) (some req) = .send r 0x0a000a0a#32 68 (some 3) true ∧
      Plug.lookup 54 r.opts = some [10,0,0,1] ∧ r.siaddr = [10,0,0,1] ∧ Sys.mtOf r.opts = 5) ∧
    (let req0 : Sys.Req4 := ⟨1, 7, 1, [2,0,0,0,0,1], 0, [0,0,0,0], [0,0,0,0], [0,0,0,0], [(53, [1])]⟩
     ∃ r peer port ifidx l2,
      serve4 3 none (.plug (.serverid [10,0,0,1]) :: [.plug (.serverid [10,0,0,2])]) (some req0) = .send r peer port ifidx l2 ∧
      Plug.lookup 54 r.opts = some [10,0,0,2] ∧ r.siaddr = [10,0,0,2]) :=
  ⟨rfl, ⟨_, rfl, rfl, rfl, rfl⟩, ⟨_, _, _, _, _, rfl, rfl, rfl⟩⟩

/-- C14 end to end (DHCPv6, `server_id` first in the chain and nowhere else): every reply that is sent carries exactly
one Server Identifier option, this server's DUID. -/
theorem SYS_C14_stamped6 (bound : Nat) (oob : Option Nat) (src : Addr) (c : Plug.serverid6.Cfg) (rest : List Elem6)
    (hrest : rest.all (fun e => match e with | .plug (.serverid _) => false | _ => true) = true)
    (d : Sys.Pkt6) (layers : List Layer6) (resp : Sys.Resp6) (ifidx : Option Nat)
    (hs : serve6 bound oob src (.plug (.serverid c) :: rest) (some d) = .send layers resp ifidx) :
    resp.opts.filter (fun o => o.1 == 2) = [(2, c)] :=
  sys_C14_stamped6 bound oob src c rest hrest d layers resp ifidx hs

/-- non-vacuity of `SYS_C14_stamped6`: a SOLICIT asking for the DNS servers through `server_id`, `dns`, `prefix`, `file`;
and a REQUEST naming this server (its Server Identifier is checked, the reply carries it once) -/
example :
    let duid : Plug.Bytes := [0, 3, 0, 1, 2, 0, 0, 0, 0, 9]
    let m : Sys.Msg6 := ⟨1, 7, [(1, [0, 3, 0, 1, 2, 0, 0, 0, 0, 1]), (6, [0, 23])]⟩
    let m3 : Sys.Msg6 := ⟨3, 8, [(1, [0, 3, 0, 1, 2, 0, 0, 0, 0, 1]), (2, duid)]⟩
    let rest : List Elem6 := [.plug (.dns [[32, 1, 13, 184, 0, 0, 0, 0, 0, 0, 0, 0, 0, 0, 0, 83]]), .pd [⟨[0, 0, 0, 1], []⟩], .file []]
    rest.all (fun e => match e with | .plug (.serverid _) => false | _ => true) = true ∧
    (∃ resp, serve6 0 none ⟨0x20010db800000000#64, 1#64⟩ (.plug (.serverid duid) :: rest) (some ⟨[], some m, none⟩) = .send [] resp none ∧
      resp.opts.filter (fun o => o.1 == 2) = [(2, duid)] ∧ resp.opts.map (·.1) = [1, 2, 23, 25]) ∧
    (∃ resp, serve6 0 none ⟨0x20010db800000000#64, 1#64⟩ (.plug (.serverid duid) :: rest) (some ⟨[], some m3, none⟩) = .send [] resp none ∧
      resp.opts.filter (fun o => o.1 == 2) = [(2, duid)] ∧ resp.mt = 7) :=
  ⟨rfl, ⟨_, rfl, rfl, rfl⟩, ⟨_, rfl, rfl, rfl⟩⟩

/-- C02 end to end: `range` in the chain, reached (only plugins that never end the chain before it), once: every
reply that is sent carries the lease time of `range` in option 51, whatever `lease_time` plugin sits before it (its
value is overwritten) or after it (it keeps an option 51 that is there). -/
theorem SYS_C02_lease4 (bound : Nat) (oob : Option Nat) (pre post : List Elem4) (ip : BitVec 32) (o51 : Nat) (req : Sys.Req4)
    (hpre : pre.all neverStops4 = true)
    (hpost : post.all (fun e => !isLease e) = true)
    (resp : Sys.Resp4) (peer : BitVec 32) (port : Nat) (ifidx : Option Nat) (l2 : Bool)
    (hs : serve4 bound oob (pre ++ .lease (some (ip, o51)) :: post) (some req) = .send resp peer port ifidx l2) :
    Plug.lookup 51 resp.opts = some (Plug.be 4 o51) :=
  sys_C02_lease4 bound oob pre post ip o51 req hpre hpost resp peer port ifidx l2 hs

/-- … and when no `file` comes after `range` either, the address of the reply is the one `range` chose. -/
theorem SYS_C02_addr4 (bound : Nat) (oob : Option Nat) (pre post : List Elem4) (ip : BitVec 32) (o51 : Nat) (req : Sys.Req4)
    (hpre : pre.all neverStops4 = true)
    (hpost : post.all (fun e => !isLease e) = true)
    (hfile : post.all (fun e => match e with | .file _ => false | _ => true) = true)
    (resp : Sys.Resp4) (peer : BitVec 32) (port : Nat) (ifidx : Option Nat) (l2 : Bool)
    (hs : serve4 bound oob (pre ++ .lease (some (ip, o51)) :: post) (some req) = .send resp peer port ifidx l2) :
    resp.yiaddr = be4 ip :=
  sys_C02_addr4 bound oob pre post ip o51 req hpre hpost hfile resp peer port ifidx l2 hs

/-- non-vacuity of `SYS_C02_lease4` and `SYS_C02_addr4`: `lease_time 3600 s` before `range` (10.0.10.10 for 60 s) and
`lease_time 7200 s` after it: the reply has option 51 = 60 s and yiaddr 10.0.10.10. Without `range` the same
`lease_time 3600 s` does answer 3600 s (option 51 = 0x00000e10), so the first `lease_time` was overwritten. -/
example :
    let req : Sys.Req4 := ⟨1, 7, 1, [2,0,0,0,0,1], 0, [0,0,0,0], [0,0,0,0], [0,0,0,0], [(53, [1])]⟩
    let pre : List Elem4 := [.plug (.leasetime 3600000000000)]
    let post : List Elem4 := [.plug (.leasetime 7200000000000), .plug (.router [[10,0,0,254]])]
    pre.all neverStops4 = true ∧ post.all (fun e => !isLease e) = true ∧
    post.all (fun e => match e with | .file _ => false | _ => true) = true ∧
    (∃ r, serve4 3 none (pre ++ .lease (some (0x0a000a0a#32, 60)) :: post) (some req) = .send r 0x0a000a0a#32 68 (some 3) true ∧
      Plug.lookup 51 r.opts = some [0, 0, 0, 60] ∧ Plug.be 4 60 = [0, 0, 0, 60] ∧ r.yiaddr = [10, 0, 10, 10] ∧
      be4 0x0a000a0a#32 = [10, 0, 10, 10] ∧ Plug.lookup 3 r.opts = some [10, 0, 0, 254]) ∧
    (∃ r peer port ifidx l2, serve4 3 none (pre ++ post) (some req) = .send r peer port ifidx l2 ∧
      Plug.lookup 51 r.opts = some [0, 0, 14, 16]) := by
  refine ⟨rfl, rfl, rfl, ⟨_, rfl, rfl, rfl, rfl, by decide, rfl⟩, ⟨_, _, _, _, _, rfl, rfl⟩⟩

/-- `hfile` of `SYS_C02_addr4` is needed: `file` after `range` replaces the address for a listed client (this is
`SYS_file_address4_lease`) -/
example :
    let req : Sys.Req4 := ⟨1, 7, 1, [2,0,0,0,0,1], 0, [0,0,0,0], [0,0,0,0], [0,0,0,0], [(53, [1])]⟩
    ∃ r peer port ifidx l2,
      serve4 3 none ([] ++ .lease (some (0x0a000a0a#32, 60)) :: [.file [([2,0,0,0,0,1], .v4 0x0a090001#32)]]) (some req) =
        .send r peer port ifidx l2 ∧ r.yiaddr = [10, 9, 0, 1] ∧ r.yiaddr ≠ be4 0x0a000a0a#32 :=
  ⟨_, _, _, _, _, rfl, rfl, by decide⟩

end CoreDhcp
