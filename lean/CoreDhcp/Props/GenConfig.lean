/-
GEN (configuration loading) — the definitions regenerated from the Go source on every run
(Generated/Config.lean, written by `harness gen -unit config` from the go/ast of config/config.go:
protoVersionCheck, splitHostPort, getListenAddress, expandLLMulticast, defaultListen, parseListen, parsePlugins,
getPlugins, parseConfig, Load after the file was read) are equal to the hand-written model (Model/Config.lean)
that C18 (Proofs/Config.lean, Props/C18.lean) is about.

The generated side keeps what Go has and the model drops:
  * every error is told apart by its text (`GenCfg.Err`), a `panic("BUG: …")` is an outcome of its own
    (`Out.panic`); the model has `none` for all of them.  `Gen10.opt` forgets which error it was, and the
    `GEN_cfg_*_no_panic` theorems show that the panic outcome is never reached, for ANY protocol version;
  * the protocol version is the number the code passes (`Gen10.ver`: 6 / 4), the model has `v6 : Bool`;
  * the generated functions start from what viper / cast / the standard library answer (`RawConfig`, `Env`);
    `Gen10.view` is the model's `SectionView` of a section and says which call gives which field:
      plugins  = cast.ToSlice(Get("serverN.plugins")) (none = nil), each item through cast.ToStringMap
                 (`Gen10.itemView`: nil map ↦ notMap, one entry ↦ one key (strings.Fields (cast.ToString value)),
                 otherwise ↦ keys n)
      iface    = cast.ToString(Get("serverN.interface")), none = nil
      listen   = cast.ToStringSliceE(Get("serverN.listen")), or [cast.ToString(…)] when that fails; none = nil
      alias    = strings.Fields("%" ++ cast.ToString(Get("serverN.interface")))
      oracles  = the recorded answers of net.SplitHostPort / net.ParseIP / strconv.Atoi
  * the loops append to an accumulator, the model conses on the way back (`GEN_cfg_listenLoop_acc`,
    `GEN_cfg_pluginsLoop_acc` are the accumulator-generalised statements).

The one hypothesis, `env.ifs = some ifs`: the model's interface list is a `List Iface` — it has no failing
`net.Interfaces()`.  (With `env.ifs = none` the code returns "Could not list network interfaces" wherever
the model expands a multicast address.)  No consistency hypothesis on the oracles is needed: both sides look
the answers up with the same `findOracle`.

An edit of the Go logic changes the generated text, makes a statement below false and breaks this file (or is
rejected by the translator); a renamed local or a moved log line generates the same text.
-/
import CoreDhcp.Generated.Config
import CoreDhcp.Model.Config
set_option linter.unusedSimpArgs false
namespace CoreDhcp
open GenCfg (Out Err Env RawConfig RawSection CastView ItemRaw Servers Flags)

/-- the protocol version the code passes for the model's `v6` -/
def Gen10.ver (v6 : Bool) : Nat := if v6 then 6 else 4

/-- the generated outcome seen as the model sees it: the value, or `none` for every error (and for a panic,
which `GEN_cfg_*_no_panic` exclude) -/
def Gen10.opt {α : Type} : Out α → Option α
  | .ok v => some v
  | _ => none

@[simp] theorem Gen10.opt_ok {α : Type} (v : α) : Gen10.opt (Out.ok v) = some v := rfl
@[simp] theorem Gen10.opt_error {α : Type} (e : Err) : Gen10.opt (Out.error e : Out α) = none := rfl
@[simp] theorem Gen10.opt_panic {α : Type} : Gen10.opt (Out.panic : Out α) = none := rfl

theorem GEN_cfg_splitHostPort_eq (o : AddrOracle) : GenCfg.splitHostPort o = splitHostPort o := by
  unfold GenCfg.splitHostPort splitHostPort
  cases o.shp with
  | none =>
    cases o.shp0 with
    | none => rfl
    | some h => simp only []; cases lastPercent h.toList <;> rfl
  | some hp =>
    obtain ⟨h, p⟩ := hp
    simp only []; cases lastPercent h.toList <;> rfl

theorem GEN_cfg_getListenAddress_eq (v6 : Bool) (o : AddrOracle) :
    Gen10.opt (GenCfg.getListenAddress (Gen10.ver v6) o) = getListenAddress v6 o := by
  unfold GenCfg.getListenAddress getListenAddress
  rw [GEN_cfg_splitHostPort_eq]
  cases hs : splitHostPort o with
  | none => cases v6 <;> simp [Gen10.ver, GenCfg.protoVersionCheck, Gen10.opt]
  | some t =>
    obtain ⟨ipStr, zone, portStr⟩ := t
    cases v6 <;> by_cases hi : ipStr = "" <;> by_cases hp : portStr = "" <;>
      cases hl : lookupIP o ipStr <;> cases ha : o.atoi <;>
      simp [Gen10.ver, GenCfg.protoVersionCheck, Gen10.opt, GenCfg.to4Nil, hi, hp, hl, ha]

theorem GEN_cfg_getListenAddress_no_panic (ver : Nat) (o : AddrOracle) :
    GenCfg.getListenAddress ver o ≠ .panic := by
  unfold GenCfg.getListenAddress GenCfg.protoVersionCheck
  by_cases h6 : ver = 6 <;> by_cases h4 : ver = 4 <;> simp [h6, h4] <;> (try omega) <;>
    (cases splitHostPort o <;> simp [GEN_cfg_splitHostPort_eq]) <;> (repeat' split) <;> simp_all

/-- the suitable interfaces of the model, as the flags test of the code selects them -/
theorem Gen10.expandLoop_eq (env : Env) (fl : Flags) (a : UDPAddr) (acc : List UDPAddr) (ifs : List Iface) :
    GenCfg.expandLoop env fl a acc ifs =
      .ok (acc ++ (ifs.filter (fun i => Flags.and i.flags fl = fl)).map (fun i => { a with zone := i.name })) := by
  induction ifs generalizing acc with
  | nil => simp [GenCfg.expandLoop]
  | cons i rest ih =>
    unfold GenCfg.expandLoop GenCfg.expandBody
    by_cases h : Flags.and i.flags fl = fl <;> simp [h, ih]

theorem GEN_cfg_expand_eq (env : Env) (ifs : List Iface) (h : env.ifs = some ifs) (a : UDPAddr) :
    Gen10.opt (GenCfg.expandLLMulticast env a) = expandLLMulticast ifs a := by
  unfold GenCfg.expandLLMulticast expandLLMulticast
  simp only [h, Gen10.expandLoop_eq, List.nil_append]
  by_cases hm : isLLMulticast a.ip = true <;> by_cases hi : isIfaceLocalMulticast a.ip = true <;>
    by_cases hz : a.zone = "" <;> simp [hm, hi, hz] <;>
    cases hip : a.ip <;> simp [GenCfg.to4Nil, apply_ite Gen10.opt, Flags.and, Flags.or, Iface.flags, Flags.mk.injEq]

theorem GEN_cfg_expand_no_panic (env : Env) (a : UDPAddr) : GenCfg.expandLLMulticast env a ≠ .panic := by
  unfold GenCfg.expandLLMulticast
  simp only [Gen10.expandLoop_eq]
  (repeat' split) <;> simp

theorem GEN_cfg_defaultListen_eq (v6 : Bool) (env : Env) (ifs : List Iface) (h : env.ifs = some ifs) :
    Gen10.opt (GenCfg.defaultListen (Gen10.ver v6) env) = defaultListen v6 ifs := by
  unfold GenCfg.defaultListen defaultListen
  cases v6
  · simp [Gen10.ver]
  · simp only [Gen10.ver, allRelayAgentsAndServers, allServers, ← GEN_cfg_expand_eq env ifs h]
    cases hx : GenCfg.expandLLMulticast env
        { ip := IPKind.v6 ⟨0xff02000000000000#64, 0x0000000000010002#64⟩, port := 547, zone := "" } with
    | panic => exact absurd hx (GEN_cfg_expand_no_panic _ _)
    | error e => simp [hx]
    | ok l => simp [hx]

theorem GEN_cfg_defaultListen_no_panic (ver : Nat) (env : Env) : GenCfg.defaultListen ver env ≠ .panic := by
  unfold GenCfg.defaultListen
  have hp := GEN_cfg_expand_no_panic env
    { ip := IPKind.v6 ⟨0xff02000000000000#64, 0x0000000000010002#64⟩, port := 547, zone := "" }
  (repeat' split) <;> simp_all

/-- what one listen string contributes in the model's `listenLoop` -/
def Gen10.these (v6 : Bool) (ifs : List Iface) (os : List AddrOracle) (a : String) : Option (List UDPAddr) :=
  match findOracle os a with
  | none => none
  | some o =>
    match getListenAddress v6 o with
    | none => none
    | some l =>
      if l.zone == "" && (isLLMulticast l.ip || isIfaceLocalMulticast l.ip) then expandLLMulticast ifs l else some [l]

theorem Gen10.listenLoop_cons (v6 : Bool) (ifs : List Iface) (os : List AddrOracle) (a : String) (rest : List String) :
    listenLoop v6 ifs os (a :: rest) =
      match Gen10.these v6 ifs os a, listenLoop v6 ifs os rest with
      | some x, some y => some (x ++ y)
      | _, _ => none := by
  rw [listenLoop]
  unfold Gen10.these
  cases findOracle os a with
  | none => simp
  | some o => cases hg : getListenAddress v6 o <;> simp [hg] <;> rfl

/-- one round of the generated loop, in the model's terms -/
theorem Gen10.listenBody_eq (v6 : Bool) (env : Env) (cfg : RawConfig) (ifs : List Iface) (h : env.ifs = some ifs)
    (acc : List UDPAddr) (a : String) :
    Gen10.opt (GenCfg.listenBody (Gen10.ver v6) env cfg acc a) =
      (Gen10.these v6 ifs env.oracles a).map (acc ++ ·) := by
  unfold GenCfg.listenBody GenCfg.withOracle Gen10.these
  cases ho : findOracle env.oracles a with
  | none => simp
  | some o =>
    simp only [← GEN_cfg_getListenAddress_eq v6 o]
    cases hx : GenCfg.getListenAddress (Gen10.ver v6) o with
    | panic => exact absurd hx (GEN_cfg_getListenAddress_no_panic _ _)
    | error e => simp
    | ok l =>
      simp only [Gen10.opt_ok, ← GEN_cfg_expand_eq env ifs h l]
      by_cases hc : l.zone = "" ∧ (isLLMulticast l.ip = true ∨ isIfaceLocalMulticast l.ip = true)
      · have hc' : (l.zone == "" && (isLLMulticast l.ip || isIfaceLocalMulticast l.ip)) = true := by
          simpa using hc
        cases hy : GenCfg.expandLLMulticast env l with
        | panic => exact absurd hy (GEN_cfg_expand_no_panic _ _)
        | error e => simp [hc.1, hc.2]
        | ok x => simp [hc.1, hc.2]
      · have hc' : (l.zone == "" && (isLLMulticast l.ip || isIfaceLocalMulticast l.ip)) = false := by
          simpa using hc
        simp [hc, hc']

theorem Gen10.listenBody_no_panic (ver : Nat) (env : Env) (cfg : RawConfig) (acc : List UDPAddr) (a : String) :
    GenCfg.listenBody ver env cfg acc a ≠ .panic := by
  unfold GenCfg.listenBody GenCfg.withOracle
  cases findOracle env.oracles a with
  | none => simp
  | some o =>
    simp only []
    cases hx : GenCfg.getListenAddress ver o with
    | panic => exact absurd hx (GEN_cfg_getListenAddress_no_panic _ _)
    | error e => simp
    | ok l =>
      simp only []
      split
      · cases hy : GenCfg.expandLLMulticast env l with
        | panic => exact absurd hy (GEN_cfg_expand_no_panic _ _)
        | error e => simp
        | ok x => simp
      · simp

/-- GEN (the loop of parseListen), accumulator-generalised: the code appends, the model conses -/
theorem GEN_cfg_listenLoop_acc (v6 : Bool) (env : Env) (cfg : RawConfig) (ifs : List Iface) (h : env.ifs = some ifs)
    (acc : List UDPAddr) (l : List String) :
    Gen10.opt (GenCfg.listenLoop (Gen10.ver v6) env cfg acc l) = (listenLoop v6 ifs env.oracles l).map (acc ++ ·) := by
  induction l generalizing acc with
  | nil => simp [GenCfg.listenLoop, listenLoop]
  | cons a rest ih =>
    rw [GenCfg.listenLoop, Gen10.listenLoop_cons]
    have hb := Gen10.listenBody_eq v6 env cfg ifs h acc a
    cases hx : GenCfg.listenBody (Gen10.ver v6) env cfg acc a with
    | panic => exact absurd hx (Gen10.listenBody_no_panic _ _ _ _ _)
    | error e =>
      rw [hx] at hb
      cases ht : Gen10.these v6 ifs env.oracles a with
      | none => simp
      | some x => simp [ht] at hb
    | ok acc' =>
      rw [hx] at hb
      cases ht : Gen10.these v6 ifs env.oracles a with
      | none => simp [ht] at hb
      | some x =>
        simp only [ht, Gen10.opt_ok, Option.map_some, Option.some.injEq] at hb
        subst hb
        simp only [ih]
        cases listenLoop v6 ifs env.oracles rest <;> simp [List.append_assoc]

theorem GEN_cfg_listenLoop_eq (v6 : Bool) (env : Env) (cfg : RawConfig) (ifs : List Iface) (h : env.ifs = some ifs)
    (l : List String) :
    Gen10.opt (GenCfg.listenLoop (Gen10.ver v6) env cfg [] l) = listenLoop v6 ifs env.oracles l := by
  rw [GEN_cfg_listenLoop_acc v6 env cfg ifs h]
  cases listenLoop v6 ifs env.oracles l <;> simp

theorem GEN_cfg_listenLoop_no_panic (ver : Nat) (env : Env) (cfg : RawConfig) (acc : List UDPAddr) (l : List String) :
    GenCfg.listenLoop ver env cfg acc l ≠ .panic := by
  induction l generalizing acc with
  | nil => simp [GenCfg.listenLoop]
  | cons a rest ih =>
    rw [GenCfg.listenLoop]
    cases hx : GenCfg.listenBody ver env cfg acc a with
    | panic => exact absurd hx (Gen10.listenBody_no_panic _ _ _ _ _)
    | error e => simp
    | ok acc' => exact ih acc'

/-! ## from what viper / cast deliver to the model's `SectionView` -/

/-- one item of the plugin list as the model sees it -/
def Gen10.itemView (env : Env) : ItemRaw → ItemView
  | none => .notMap
  | some [(k, v)] => .one k (env.fieldsOf v)
  | some l => .keys l.length

/-- the model's view of one section: which call gives which field -/
def Gen10.view (env : Env) (sec : RawSection) : SectionView where
  plugins := sec.plugins.map (·.map (Gen10.itemView env))
  iface := sec.iface.map (·.str)
  listen := sec.listen.map (fun c => match c.sliceE with | some l => l | none => [c.str])
  alias := match sec.iface with | some c => env.fieldsOf ("%" ++ c.str) | none => []
  oracles := env.oracles

theorem Gen10.check_ok (v6 : Bool) : GenCfg.protoVersionCheck (Gen10.ver v6) = none := by
  cases v6 <;> simp [GenCfg.protoVersionCheck, Gen10.ver]

theorem GEN_cfg_parseListen_eq (v6 : Bool) (env : Env) (cfg : RawConfig) (ifs : List Iface) (h : env.ifs = some ifs)
    (sec : RawSection) (hs : cfg.section (Gen10.ver v6) = some sec) :
    Gen10.opt (GenCfg.parseListen (Gen10.ver v6) env cfg) = parseListen v6 ifs (Gen10.view env sec) := by
  unfold GenCfg.parseListen parseListen
  simp only [Gen10.check_ok, GenCfg.RawConfig.iface, GenCfg.RawConfig.listen, hs, Option.bind_some, Gen10.view]
  cases hi : sec.iface with
  | none =>
    cases hl : sec.listen with
    | none => simp [GEN_cfg_defaultListen_eq v6 env ifs h]
    | some c =>
      cases hc : c.sliceE <;> simp only [hc, Option.map_some, Option.map_none] <;>
        rw [← GEN_cfg_listenLoop_eq v6 env cfg ifs h] <;>
        generalize GenCfg.listenLoop _ _ _ _ _ = x <;> cases x <;> rfl
  | some c =>
    cases hl : sec.listen with
    | none =>
      simp only [GenCfg.castStr, Option.map_some, Option.map_none, Option.isSome_some, Option.isSome_none]
      rw [← GEN_cfg_listenLoop_eq v6 env cfg ifs h]
      generalize GenCfg.listenLoop _ _ _ _ _ = x
      cases x <;> simp
    | some c' => simp

theorem GEN_cfg_parseListen_no_panic (ver : Nat) (env : Env) (cfg : RawConfig) :
    GenCfg.parseListen ver env cfg ≠ .panic := by
  unfold GenCfg.parseListen
  have h1 := GEN_cfg_defaultListen_no_panic ver env
  have h2 := GEN_cfg_listenLoop_no_panic ver env cfg []
  simp only [GenCfg.castStr]
  (repeat' split) <;> simp_all

/-- GEN (the loop of parsePlugins), accumulator-generalised -/
theorem GEN_cfg_pluginsLoop_acc (env : Env) (acc : List (String × List String)) (items : List ItemRaw) :
    Gen10.opt (GenCfg.pluginsLoop env acc items) =
      (parsePlugins (items.map (Gen10.itemView env))).map (acc ++ ·) := by
  induction items generalizing acc with
  | nil => simp [GenCfg.pluginsLoop, parsePlugins]
  | cons x rest ih =>
    rw [GenCfg.pluginsLoop]
    unfold GenCfg.pluginsBody
    cases x with
    | none => simp [Gen10.itemView, parsePlugins]
    | some m =>
      match m with
      | [] => simp [Gen10.itemView, parsePlugins]
      | [(k, v)] =>
        simp only [List.length_singleton, ne_eq, not_true_eq_false, if_false, List.head?_cons, List.map_cons,
          Gen10.itemView, parsePlugins, ih]
        cases parsePlugins (rest.map (Gen10.itemView env)) <;> simp [List.append_assoc]
      | _ :: _ :: _ => simp [Gen10.itemView, parsePlugins]

theorem GEN_cfg_pluginsLoop_no_panic (env : Env) (acc : List (String × List String)) (items : List ItemRaw) :
    GenCfg.pluginsLoop env acc items ≠ .panic := by
  induction items generalizing acc with
  | nil => simp [GenCfg.pluginsLoop]
  | cons x rest ih =>
    rw [GenCfg.pluginsLoop]
    cases hx : GenCfg.pluginsBody env acc x with
    | panic =>
      exfalso
      revert hx
      unfold GenCfg.pluginsBody
      (repeat' split) <;> simp
    | error e => simp
    | ok acc' => exact ih acc'

theorem GEN_cfg_parsePlugins_eq (env : Env) (items : List ItemRaw) :
    Gen10.opt (GenCfg.parsePlugins env items) = parsePlugins (items.map (Gen10.itemView env)) := by
  unfold GenCfg.parsePlugins
  have h := GEN_cfg_pluginsLoop_acc env [] items
  generalize GenCfg.pluginsLoop env [] items = x at h ⊢
  cases x <;> simp_all <;> cases parsePlugins (items.map (Gen10.itemView env)) <;> simp_all

theorem GEN_cfg_parsePlugins_no_panic (env : Env) (items : List ItemRaw) : GenCfg.parsePlugins env items ≠ .panic := by
  unfold GenCfg.parsePlugins
  have h := GEN_cfg_pluginsLoop_no_panic env [] items
  generalize GenCfg.pluginsLoop env [] items = x at h ⊢
  cases x <;> simp_all

theorem GEN_cfg_getPlugins_eq (v6 : Bool) (env : Env) (cfg : RawConfig) (sec : RawSection)
    (hs : cfg.section (Gen10.ver v6) = some sec) :
    Gen10.opt (GenCfg.getPlugins (Gen10.ver v6) env cfg) =
      (sec.plugins.map (·.map (Gen10.itemView env))).bind parsePlugins := by
  unfold GenCfg.getPlugins
  simp only [Gen10.check_ok, GenCfg.RawConfig.plugins, hs, Option.bind_some]
  cases sec.plugins with
  | none => simp
  | some items => simp [GEN_cfg_parsePlugins_eq]

theorem GEN_cfg_getPlugins_no_panic (ver : Nat) (env : Env) (cfg : RawConfig) :
    GenCfg.getPlugins ver env cfg ≠ .panic := by
  unfold GenCfg.getPlugins
  (repeat' split) <;> simp [GEN_cfg_parsePlugins_no_panic]

/-- where `parseConfig(ver)` stores the section it parsed -/
def Gen10.store (v6 : Bool) (st : Servers) (sc : ServerConfig) : Servers :=
  if v6 then { st with s6 := some sc } else { st with s4 := some sc }

/-- GEN (parseConfig, the section is there): the model's `parseSection`, stored into `c.Server6` / `c.Server4` -/
theorem GEN_cfg_parseSection_eq (v6 : Bool) (env : Env) (cfg : RawConfig) (ifs : List Iface) (h : env.ifs = some ifs)
    (sec : RawSection) (hs : cfg.section (Gen10.ver v6) = some sec) (st : Servers) :
    Gen10.opt (GenCfg.parseConfig (Gen10.ver v6) env cfg st) =
      (parseSection v6 ifs (Gen10.view env sec)).map (Gen10.store v6 st) := by
  unfold GenCfg.parseConfig parseSection
  have hg := GEN_cfg_getPlugins_eq v6 env cfg sec hs
  have hgp := GEN_cfg_getPlugins_no_panic (Gen10.ver v6) env cfg
  have hl := GEN_cfg_parseListen_eq v6 env cfg ifs h sec hs
  have hlp := GEN_cfg_parseListen_no_panic (Gen10.ver v6) env cfg
  simp only [Gen10.check_ok, hs]
  generalize GenCfg.getPlugins (Gen10.ver v6) env cfg = x at hg hgp ⊢
  generalize GenCfg.parseListen (Gen10.ver v6) env cfg = y at hl hlp ⊢
  rw [← hl]
  have hv : (Gen10.view env sec).plugins = sec.plugins.map (·.map (Gen10.itemView env)) := rfl
  rw [hv]
  cases x with
  | panic => exact absurd rfl hgp
  | error e =>
    simp only [Gen10.opt_error] at hg ⊢
    cases hp : sec.plugins with
    | none => simp
    | some items => simp [hp] at hg; simp [← hg]
  | ok ps =>
    simp only [Gen10.opt_ok] at hg
    cases hp : sec.plugins with
    | none => simp [hp] at hg
    | some items =>
      simp only [hp, Option.map_some, Option.bind_some] at hg
      simp only [Option.map_some, ← hg]
      cases y with
      | panic => exact absurd rfl hlp
      | error e => simp
      | ok ls => cases v6 <;> simp [Gen10.ver, Gen10.store]

/-- GEN (parseConfig, the section is missing): not an error, nothing changes -/
theorem GEN_cfg_parseSection_absent (v6 : Bool) (env : Env) (cfg : RawConfig)
    (hs : cfg.section (Gen10.ver v6) = none) (st : Servers) :
    GenCfg.parseConfig (Gen10.ver v6) env cfg st = .ok st := by
  unfold GenCfg.parseConfig
  simp [Gen10.check_ok, hs]

theorem GEN_cfg_parseConfig_no_panic (ver : Nat) (env : Env) (cfg : RawConfig) (st : Servers) :
    GenCfg.parseConfig ver env cfg st ≠ .panic := by
  unfold GenCfg.parseConfig
  have h1 := GEN_cfg_getPlugins_no_panic ver env cfg
  have h2 := GEN_cfg_parseListen_no_panic ver env cfg
  (repeat' split) <;> simp_all

/-- GEN (Load, after the file was read): the model's `loadConfig` on the views of the two sections — DHCPv6
first, then DHCPv4; a missing section is not an error; at least one is needed -/
theorem GEN_cfg_load_eq (env : Env) (cfg : RawConfig) (ifs : List Iface) (h : env.ifs = some ifs) :
    (Gen10.opt (GenCfg.load env cfg)).map (fun st => (st.s6, st.s4)) =
      loadConfig ifs (cfg.s6.map (Gen10.view env)) (cfg.s4.map (Gen10.view env)) := by
  unfold GenCfg.load loadConfig
  dsimp only
  have h6 : cfg.section (Gen10.ver true) = cfg.s6 := by simp [GenCfg.RawConfig.section, Gen10.ver]
  have h4 : cfg.section (Gen10.ver false) = cfg.s4 := by simp [GenCfg.RawConfig.section, Gen10.ver]
  have e6 := GEN_cfg_parseSection_eq true env cfg ifs h
  have a6 := GEN_cfg_parseSection_absent true env cfg
  have p6 := GEN_cfg_parseConfig_no_panic 6 env cfg
  have e4 := GEN_cfg_parseSection_eq false env cfg ifs h
  have a4 := GEN_cfg_parseSection_absent false env cfg
  have p4 := GEN_cfg_parseConfig_no_panic 4 env cfg
  simp only [h6, h4, Gen10.ver, if_true, Bool.false_eq_true, if_false] at e6 a6 e4 a4
  cases h6s : cfg.s6 with
  | none =>
    simp only [a6 h6s, Option.map_none]
    cases h4s : cfg.s4 with
    | none => simp [a4 h4s]
    | some sec4 =>
      have e := e4 sec4 h4s ⟨none, none⟩
      have p := p4 ⟨none, none⟩
      generalize GenCfg.parseConfig 4 env cfg ⟨none, none⟩ = y at e p ⊢
      cases hps : parseSection false ifs (Gen10.view env sec4) with
      | none => cases y <;> simp_all
      | some sc => cases y <;> simp_all [Gen10.store]
  | some sec6 =>
    have e := e6 sec6 h6s ⟨none, none⟩
    have p := p6 ⟨none, none⟩
    generalize GenCfg.parseConfig 6 env cfg ⟨none, none⟩ = x at e p ⊢
    cases hps6 : parseSection true ifs (Gen10.view env sec6) with
    | none => cases x <;> simp_all
    | some sc6 =>
      cases x with
      | panic => exact absurd rfl p
      | error e' => simp_all
      | ok st2 =>
        simp only [hps6, Gen10.opt_ok, Option.map_some, Option.some.injEq, Gen10.store, if_true] at e
        subst e
        simp only [Option.map_some]
        cases h4s : cfg.s4 with
        | none => simp [a4 h4s, hps6]
        | some sec4 =>
          have e := e4 sec4 h4s ⟨some sc6, none⟩
          have p := p4 ⟨some sc6, none⟩
          generalize GenCfg.parseConfig 4 env cfg ⟨some sc6, none⟩ = y at e p ⊢
          cases hps : parseSection false ifs (Gen10.view env sec4) with
          | none => cases y <;> simp_all
          | some sc => cases y <;> simp_all [Gen10.store]

theorem GEN_cfg_load_no_panic (env : Env) (cfg : RawConfig) : GenCfg.load env cfg ≠ .panic := by
  unfold GenCfg.load
  have h6 := GEN_cfg_parseConfig_no_panic 6 env cfg
  have h4 := GEN_cfg_parseConfig_no_panic 4 env cfg
  dsimp only
  (repeat' split) <;> simp_all

/-- a protocol version that is neither 6 nor 4 is an error (never a panic) in every function that takes one -/
theorem GEN_cfg_bad_version (ver : Nat) (h6 : ver ≠ 6) (h4 : ver ≠ 4) (env : Env) (cfg : RawConfig) (o : AddrOracle)
    (st : Servers) :
    GenCfg.getListenAddress ver o = .error .badVersion ∧ GenCfg.parseListen ver env cfg = .error .badVersion ∧
    GenCfg.getPlugins ver env cfg = .error .badVersion ∧ GenCfg.parseConfig ver env cfg st = .error .badVersion ∧
    GenCfg.defaultListen ver env = .error .defaultVersion := by
  simp [GenCfg.getListenAddress, GenCfg.parseListen, GenCfg.getPlugins, GenCfg.parseConfig, GenCfg.defaultListen,
    GenCfg.protoVersionCheck, h6, h4]

/-- GEN (Load, the order): DHCPv6 is parsed first — when its section is rejected, that error is the one `Load`
returns, whatever the DHCPv4 section is.  (`GEN_cfg_load_eq` cannot see the order: the model has one `none` for
every error.) -/
theorem GEN_cfg_load_v6_first (env : Env) (cfg : RawConfig) (e : Err)
    (h : GenCfg.parseConfig 6 env cfg ⟨none, none⟩ = .error e) : GenCfg.load env cfg = .error e := by
  unfold GenCfg.load
  simp [h]

/-- GEN (parseConfig, the order): the plugin list is read before the listen addresses — its error wins -/
theorem GEN_cfg_parseConfig_plugins_first (v6 : Bool) (env : Env) (cfg : RawConfig) (sec : RawSection) (st : Servers)
    (e : Err) (hs : cfg.section (Gen10.ver v6) = some sec) (h : GenCfg.getPlugins (Gen10.ver v6) env cfg = .error e) :
    GenCfg.parseConfig (Gen10.ver v6) env cfg st = .error e := by
  unfold GenCfg.parseConfig
  simp [Gen10.check_ok, hs, h]

/-- non-vacuity: `listen: "[fe80::1%lo]:5470"` and `plugins: [{server_id: "LL 00:de:ad:be:ef:00"}]` for DHCPv6 -/
def Gen10.exOracle : AddrOracle := ⟨"[fe80::1%lo]:5470", some ("fe80::1%lo", "5470"), none,
  [("fe80::1", .v6 ⟨0xfe80000000000000#64, 1#64⟩)], some 5470⟩
def Gen10.exEnv : Env :=
  ⟨some [], [Gen10.exOracle], fun s => if s = "LL 00:de:ad:be:ef:00" then ["LL", "00:de:ad:be:ef:00"] else [s]⟩
def Gen10.exSection : RawSection := ⟨some [some [("server_id", "LL 00:de:ad:be:ef:00")]], none,
  some ⟨"[fe80::1%lo]:5470", some ["[fe80::1%lo]:5470"]⟩⟩

example :
    (Gen10.opt (GenCfg.load Gen10.exEnv ⟨some Gen10.exSection, none⟩)).map (fun st => st.s6.map (·.addrs)) =
      some (some [⟨.v6 ⟨0xfe80000000000000#64, 1#64⟩, 5470, "lo"⟩]) ∧
    (Gen10.opt (GenCfg.load Gen10.exEnv ⟨some Gen10.exSection, none⟩)).map (fun st => st.s6.map (·.plugins)) =
      some (some [("server_id", ["LL", "00:de:ad:be:ef:00"])]) ∧
    (Gen10.opt (GenCfg.load Gen10.exEnv ⟨some Gen10.exSection, none⟩)).map (fun st => st.s4.isNone) = some true := by
  decide

end CoreDhcp
