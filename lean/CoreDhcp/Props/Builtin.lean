/-
Facts about the built-in option plugins and server_id that the chain properties C11 and C13
rely on. Property theorems only (proofs in Proofs/OptPlug.lean).
-/
import CoreDhcp.Proofs.OptPlug
namespace CoreDhcp
open Plug

/-- a built-in DHCPv4 plugin that returns a nil response also ends the chain -/
theorem C13_nil_stop_builtin (cfg : Cfg4) (req : ReqView4) (pre : Resp4) (stop : Bool)
    (h : plugHandle4 cfg req pre = (none, stop)) : stop = true := nil_stop4 cfg req pre stop h

/-- … and so does a built-in DHCPv6 plugin -/
theorem C13_nil_stop_builtin6 (cfg : Cfg6) (req : ReqView6) (pre : Resp6) (stop : Bool)
    (h : plugHandle6 cfg req pre = (none, stop)) : stop = true := nil_stop6 cfg req pre stop h

/-- no built-in DHCPv4 plugin changes the message type of the response -/
theorem C11_builtin_preserve_mt (cfg : Cfg4) (req : ReqView4) (pre r : Resp4) (stop : Bool)
    (h : plugHandle4 cfg req pre = (some r, stop)) : r.mt = pre.mt := preserve_mt4 cfg req pre r stop h

/-- … nor does a built-in DHCPv6 plugin -/
theorem C12_builtin_preserve_mt (cfg : Cfg6) (req : ReqView6) (pre r : Resp6) (stop : Bool)
    (h : plugHandle6 cfg req pre = (some r, stop)) : r.mt = pre.mt := preserve_mt6 cfg req pre r stop h

/-- Every built-in DHCPv4 plugin leaves the relay agent information (82), client identifier (61)
and message type (53) options of the response alone: each only updates the codes it owns. -/
theorem C11_builtin_preserve_echo_opts (cfg : Cfg4) (req : ReqView4) (pre r : Resp4) (stop : Bool)
    (h : plugHandle4 cfg req pre = (some r, stop)) :
    lookup 82 r.opts = lookup 82 pre.opts ∧ lookup 61 r.opts = lookup 61 pre.opts ∧
    lookup 53 r.opts = lookup 53 pre.opts := preserve_echo_opts4 cfg req pre r stop h

/-- Every built-in DHCPv6 plugin leaves the Client-ID (1) and Rapid Commit (14) options of the
response untouched. -/
theorem C12_builtin_preserve_cid (cfg : Cfg6) (req : ReqView6) (pre r : Resp6) (stop : Bool)
    (h : plugHandle6 cfg req pre = (some r, stop)) :
    r.opts.filter (fun o => o.1 == 1) = pre.opts.filter (fun o => o.1 == 1) ∧
    r.opts.filter (fun o => o.1 == 14) = pre.opts.filter (fun o => o.1 == 14) := preserve_cid6 cfg req pre r stop h

end CoreDhcp
