/-
C08 — Delegated prefixes are in the pool, well-formed and disjoint across clients.
Property theorems only; the invariant proof is in CoreDhcp/Proofs/Prefix.lean.
-/
import CoreDhcp.Proofs.Prefix
import CoreDhcp.Proofs.MonLemmas
namespace CoreDhcp

/-- For every well-formed IPv6 pool, every history of messages (any clients, any number of IA_PDs,
any hints the library can deliver, direct or relayed), every admissible allocator policy and a
clock that does not run backwards: every delegated prefix lies in the pool, is aligned to and no
larger than the allocation size, has lifetimes 0 < preferred = valid ≤ 1 h, does not overlap any
prefix ever delegated to another client, and every request IA_PD is answered by exactly one IA_PD
with the same IAID (an empty one standing for NoPrefixAvail). -/
theorem C08_holds (pool : Pool6) (hp : pool.WF) (a : A6) (hnew : A6.new pool = .ok a)
    (ops : List POp) (hwf : ops.all (fun op => op.iapds.all IAPDReq.wf) = true)
    (hmono : POp.monotone ops = true)
    (cs : List (Option Nat)) (evs : List PEv) (z : PState)
    (hrun : PState.run ⟨a, []⟩ ops cs = some (evs, z)) :
    C08.holds pool evs = true := by
  unfold C08.holds
  exact all_of_all_imp (PState.run_verdicts pool hp a hnew ops hwf hmono cs evs z hrun)
    (fun v hv => by unfold PVerdict.all at hv; simp only [Bool.and_eq_true] at hv; exact hv.1)

/-- non-vacuity: a concrete two-client history is a run of the model -/
example : ∃ a evs z, A6.new ⟨⟨0x20010db800000000#64, 0#64⟩, 60, 62⟩ = .ok a ∧
    PState.run ⟨a, []⟩
      [⟨some [1], [⟨1, []⟩], 10⟩, ⟨some [2], [⟨1, [.empty]⟩, ⟨2, []⟩], 20⟩, ⟨some [1], [⟨1, []⟩], 30⟩]
      [some 0, some 1, none, none] = some (evs, z) ∧ evs.length = 3 ∧
    C08.holds ⟨⟨0x20010db800000000#64, 0#64⟩, 60, 62⟩ evs = true := ⟨_, _, _, rfl, rfl, rfl, rfl⟩

end CoreDhcp
