/-
GEN (decision logic) — the definitions regenerated from the Go source on every run
(Generated/Dispatch6.lean, Dispatch4.lean, ServerID6.lean, Netmask.lean, written by
`harness gen -unit …` from the go/ast of server/handle.go, plugins/serverid/plugin.go and
plugins/netmask/plugin.go) are equal to the hand-written model (Model/Dispatch.lean,
Model/OptPlug.lean) and to the specifications (Spec/Dispatch.lean, Spec/OptPlug.lean) the
property theorems are about.

The generated functions take ATOMS (what the Go conditions test) as arguments; every theorem
below instantiates the atoms with their meaning in the model:

  giaddrUnspec  = `req.giaddr == 0#32`          respMt      = `resp.mt`
  ciaddrUnspec  = `req.ciaddr == 0#32`          isBroadcast = `req.flags / 32768 % 2 == 1`
  peerIsBcast   = `peer == bcast4`              peerIsLinkLocal = `isLinkLocal4 peer` / `isLinkLocal6 src`
  bound         = index of the bound interface  oobNonNil / oobIdx = `oob.isSome` / `oob.getD 0`
  mt, rapid     = `m.mt`, `m.rapid`             hasSid / sidEqual = first option 2 present / equal to the DUID

An edit of the Go decision logic changes the generated text, makes the statements below false and
breaks this file (or is rejected by the translator); a renamed local or reformatted source
generates the same text.
-/
import CoreDhcp.Generated.Dispatch6
import CoreDhcp.Model.Dispatch
import CoreDhcp.Spec.Dispatch
set_option linter.unusedSimpArgs false
namespace CoreDhcp

/-! ## dispatch6 — `HandleMsg6` -/

/-- G1: the `switch msg.Type()` gives the type of the response `stub6` builds. -/
theorem GEN_replyKind6_eq : ∀ (m : Msg6) (c : List Nat), m.cid = some c →
    (stub6 m).map (·.mt) = Generated.replyKind6 m.mt m.rapid := by
  intro m c hc
  unfold stub6 Generated.replyKind6
  rw [hc]
  by_cases h1 : m.mt = 1
  · cases hr : m.rapid <;> simp [h1, hr]
  · by_cases h2 : m.mt = 3 ∨ m.mt = 4 ∨ m.mt = 5 ∨ m.mt = 6 ∨ m.mt = 8 ∨ m.mt = 11
    · have h2' := h2
      simp only [if_neg h1, if_pos h2, Option.map_some]
      rcases h2' with h | h | h | h | h | h <;> simp [h]
    · have h2' := h2
      simp only [not_or] at h2'
      simp [h1, h2, h2']

/-- G1, the whole response: type from the generated switch, transaction and client id echoed,
Rapid Commit echoed for a SOLICIT (library behaviour, mirrored by the model). -/
theorem GEN_stub6_eq (m : Msg6) :
    stub6 m = match m.cid with
      | none => none
      | some c => (Generated.replyKind6 m.mt m.rapid).map
          (fun k => ⟨k, m.xid, some c, decide (m.mt = 1) && m.rapid, []⟩) := by
  unfold stub6 Generated.replyKind6
  cases m.cid with
  | none => rfl
  | some c =>
    by_cases h1 : m.mt = 1
    · cases hr : m.rapid <;> simp [h1, hr]
    · by_cases h2 : m.mt = 3 ∨ m.mt = 4 ∨ m.mt = 5 ∨ m.mt = 6 ∨ m.mt = 8 ∨ m.mt = 11
      · have h2' := h2
        simp only [if_neg h1, if_pos h2]
        rcases h2' with h | h | h | h | h | h <;> simp [h]
      · have h2' := h2
        simp only [not_or] at h2'
        simp [h1, h2, h2']

/-- G1 against the specification of C12 -/
theorem GEN_replyKind6_spec (m : Msg6) : replyType6 m = Generated.replyKind6 m.mt m.rapid := by
  unfold replyType6 Generated.replyKind6
  by_cases h1 : m.mt = 1
  · cases hr : m.rapid <;> simp [h1, hr]
  · by_cases h2 : m.mt ∈ [3, 4, 5, 6, 8, 11]
    · have h2' := h2
      simp only [if_neg h1, if_pos h2]
      simp only [List.mem_cons, List.mem_nil_iff, or_false] at h2'
      rcases h2' with h | h | h | h | h | h <;> simp [h]
    · have h2' := h2
      simp only [List.mem_cons, List.mem_nil_iff, or_false, not_or] at h2'
      simp [h1, h2, h2']

/-- G1, enumerated: all 256 message types × Rapid Commit present / absent -/
theorem GEN_replyKind6_table :
    (List.range 256).all (fun t => [false, true].all (fun r =>
      replyType6 ⟨t, 0, none, r⟩ == Generated.replyKind6 t r &&
      (stub6 ⟨t, 0, some [], r⟩).map (·.mt) == Generated.replyKind6 t r)) = true := by
  decide +kernel

theorem GEN_replyKind6_all (t : Nat) (ht : t < 256) (r : Bool) :
    replyType6 ⟨t, 0, none, r⟩ = Generated.replyKind6 t r ∧
    (stub6 ⟨t, 0, some [], r⟩).map (·.mt) = Generated.replyKind6 t r := by
  have h := List.all_eq_true.mp GEN_replyKind6_table t (List.mem_range.mpr ht)
  have h' := List.all_eq_true.mp h r (by cases r <;> simp)
  simpa using h'

theorem GEN_pinIf6_eq (bound : Nat) (oob : Option Nat) :
    pin bound oob = Generated.pinIf6 bound oob.isSome (oob.getD 0) := by
  unfold pin Generated.pinIf6
  by_cases hb : bound = 0 <;> cases oob with
  | none => simp [hb]
  | some i => by_cases hi : i = 0 <;> simp [hb, hi]

/-- the `isLinkLocal6 src` guard and `pin` as `dispatch6` combines them -/
theorem GEN_woob6_eq (bound : Nat) (oob : Option Nat) (src : Addr) :
    (if isLinkLocal6 src then pin bound oob else none) =
      Generated.woob6 (isLinkLocal6 src) bound oob.isSome (oob.getD 0) := by
  rw [GEN_pinIf6_eq]
  unfold Generated.woob6 Generated.pinIf6
  rfl

/-- `HandleMsg6` end to end -/
theorem GEN_dispatch6_eq (bound : Nat) (oob : Option Nat) (src : Addr) (hs : List Handler6) (input : Option Pkt6) :
    dispatch6 bound oob src hs input =
      match input with
      | none => .drop
      | some d =>
        match d.msg with
        | none => .drop
        | some m =>
          match m.cid with
          | none => .drop
          | some c =>
            match Generated.replyKind6 m.mt m.rapid with
            | none => .drop
            | some k =>
              match (runChain hs d 0 (some ⟨k, m.xid, some c, decide (m.mt = 1) && m.rapid, []⟩)).1 with
              | none => .drop
              | some resp =>
                let woob := Generated.woob6 (isLinkLocal6 src) bound oob.isSome (oob.getD 0)
                match d.layers with
                | [] => .send [] resp woob
                | l :: _ => if l.mt ≠ 12 then .drop else .send (mirror d.layers) resp woob := by
  cases input with
  | none => rfl
  | some d =>
    simp only [dispatch6]
    cases hm : d.msg with
    | none => rfl
    | some m =>
      simp only [GEN_stub6_eq, GEN_woob6_eq]
      cases hc : m.cid with
      | none => rfl
      | some c =>
        cases hk : Generated.replyKind6 m.mt m.rapid with
        | none => rfl
        | some k => rfl

end CoreDhcp
