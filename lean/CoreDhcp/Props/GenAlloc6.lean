/-
GEN (IPv6 prefix allocator) — the definitions regenerated from the Go source on every run
(Generated/Alloc6.lean, written by `harness gen -unit alloc6` from the go/ast of
plugins/allocators/bitmap/bitmap.go: toIndex, toPrefix, contains, Allocate, Free,
NewBitmapAllocator) are
equal to the hand-written model (Model/Alloc6.lean over Model/Bits.lean and Model/IPCalc.lean) that
the allocator theorems (Proofs/Alloc6.lean, Props/C04–C07) are about.

The generated side keeps what Go returns: tuples `(value, error)`, the value next to an error, the
mask of the allocated net.IPNet (also next to an error), which error wraps which, the `Loc` of
ErrDoubleFree.  The model is coarser (`Except`, `AErr`, `FErr`, `NewErr`); the `Gen4.of…` functions
below embed the model's results into the generated side's, and every theorem has the form

    generated function = embedding (model function)

so it says both that the decisions agree and what the extra components are.

The code is first-fit (`NextClear(0)`); the model takes the `choice` as an argument and yields
`none` for an inadmissible one.  `GEN_a6_allocate_eq` is the statement with `choice := a.firstFit`.

Domains.  The model's functions take 16-byte addresses (`Addr`) where the code takes a net.IP; the
generated side's `Option Addr` is `some x` for exactly the 16-byte slices (IPv4-mapped or not), and
the theorems about toIndex, contains, Free and NewBitmapAllocator are stated at `some x` /
`⟨some x, ones, 128⟩` (what the generated functions do at the other values is stated next to them:
`GEN_a6_toIndex_none`, `GEN_a6_contains_none`, `GEN_a6_free_other`, `GEN_a6_free_outside`,
`GEN_a6_new_other`).  Allocate needs no hypothesis at all.  NewBitmapAllocator needs the two
numbers of the pool to be Go ints (`GEN_a6_new_eq`, with a witness that it fails without).

`contains` is not translated statement by statement: the translator recognises its exact shape and
maps it to the vocabulary item `containsIP` (see gen4.go); `GEN_a6_contains_eq` says what that is.

An edit of the Go logic changes the generated text, makes a statement below false and breaks this
file (or is rejected by the translator); a renamed local or reformatted source generates the same text.
-/
import CoreDhcp.Generated.Alloc6
import CoreDhcp.Model.Alloc6
import CoreDhcp.Proofs.Bits6
import CoreDhcp.Proofs.Alloc6
set_option linter.unusedSimpArgs false
namespace CoreDhcp
open GenA6 (Out Err IPNet)

/-! ## the embeddings model ↪ generated -/

/-- an error of allocators.Offset / AddPrefixes as the Go error value -/
def Gen4.ofCalc (e : CalcErr) : Option Err := some (.calc e)

/-- `toIndex` returns `0` and the wrapped error next to an error of Offset -/
def Gen4.ofIndex : Except CalcErr Nat → Nat × Option Err
  | .ok i => (i, none)
  | .error e => (0, some (.errIndex (Gen4.ofCalc e)))

/-- `toPrefix` returns what AddPrefixes returns: `net.IP{}` (none) next to an error -/
def Gen4.ofPrefix : Except CalcErr Addr → Option Addr × Option Err
  | .ok x => (some x, none)
  | .error e => (none, Gen4.ofCalc e)

/-! ## toIndex, toPrefix -/

theorem GEN_a6_toIndex_eq (a : A6) (x : Addr) :
    GenA6.toIndex a (some x) = .ret (Gen4.ofIndex (a.toIndex x)) := by
  unfold GenA6.toIndex A6.toIndex GenA6.offsetGo
  simp only []
  cases offset x a.pool.base a.pool.page <;> rfl

/-- outside the model's domain: a net.IP that is not 16 bytes long -/
theorem GEN_a6_toIndex_none (a : A6) :
    GenA6.toIndex a none =
      .outside "allocators.Offset/AddPrefixes of a net.IP that is not 16 bytes long" := rfl

/-! ## contains -/

/-- the recognised method `contains` is the model's membership test on every 16-byte address … -/
theorem GEN_a6_contains_eq (a : A6) (x : Addr) : GenA6.contains a (some x) = a.pool.contains x := rfl

/-- … and false on every other net.IP (the first length guard) -/
theorem GEN_a6_contains_none (a : A6) : GenA6.contains a none = false := rfl

theorem GEN_a6_toPrefix_eq (a : A6) (i : Nat) :
    GenA6.toPrefix a i = .ret (Gen4.ofPrefix (a.toPrefix i)) := by
  unfold GenA6.toPrefix A6.toPrefix GenA6.addPrefixesGo
  rw [BitVec.ofInt_natCast]
  cases addPrefixes a.pool.base (BitVec.ofNat 64 i) (BitVec.ofNat 64 a.pool.page) <;> rfl

/-- `toPrefix` does not look at the bitmap (it is called after `Set`). -/
theorem Gen4.toPrefix_bm (a : A6) (b : Bits) (i : Nat) :
    GenA6.toPrefix { a with bm := b } i = GenA6.toPrefix a i := rfl

/-! ## NewBitmapAllocator -/

def Gen4.ofNew : Except NewErr A6 → Option A6 × Option Err
  | .ok a => (some a, none)
  | .error .tooSmall => (none, some .errNewSmall)
  | .error .tooLarge => (none, some .errNewLarge)

/-- the pool as the net.IPNet `NewBitmapAllocator` is given: a 16-byte IP, a 128-bit prefix mask -/
def Gen4.poolNet (p : Pool6) : Hint6 := ⟨some p.base, p.poolLen, 128⟩

theorem Gen4.wrapInt_eq (i : Int) (h1 : -2^63 ≤ i) (h2 : i < 2^63) : GenA6.wrapInt i = i := by
  unfold GenA6.wrapInt
  rw [BitVec.toInt_ofInt, Int.bmod_def]
  split <;> omega

theorem Gen4.shl_eq (n : Nat) (h : n < 64) : GenA6.wrapUint (1 <<< GenA6.uintOfInt (n : Int)) = 2^n := by
  have hn : n % 2^64 = n := Nat.mod_eq_of_lt (by omega)
  unfold GenA6.wrapUint GenA6.uintOfInt
  rw [BitVec.ofInt_natCast, BitVec.toNat_ofNat, hn, Nat.one_shiftLeft]
  exact Nat.mod_eq_of_lt (Nat.pow_lt_pow_right (by decide) h)

/-- G-new.  Hypothesis: the two numbers are Go ints (`page` is one, `poolLen` comes from
`Mask.Size()`); the code computes `size - poolSize` in 64 bits, the model in ℕ. -/
theorem GEN_a6_new_eq (p : Pool6) (h : p.page < 2^63 ∧ p.poolLen ≤ 2^63) :
    GenA6.newBitmapAllocator (Gen4.poolNet p) p.page = .ret (Gen4.ofNew (A6.new p)) := by
  obtain ⟨hp, hl⟩ := h
  unfold GenA6.newBitmapAllocator A6.new GenA6.maskSize Gen4.poolNet
  simp only []
  rw [Gen4.wrapInt_eq _ (by omega) (by omega)]
  by_cases h1 : p.page < p.poolLen
  · have h1' : (p.page : Int) - p.poolLen < 0 := by omega
    simp only [if_pos h1, if_pos h1']
    rfl
  · have h1' : ¬ (p.page : Int) - p.poolLen < 0 := by omega
    simp only [if_neg h1, if_neg h1']
    by_cases h2 : p.page - p.poolLen ≥ 64
    · have h2' : (p.page : Int) - p.poolLen ≥ 64 := by omega
      simp only [if_pos h2, if_pos h2']
      rfl
    · have h2' : ¬ (p.page : Int) - p.poolLen ≥ 64 := by omega
      have hd : (p.page : Int) - p.poolLen = ((p.page - p.poolLen : Nat) : Int) := by omega
      have hc : 2^(p.page - p.poolLen) ≤ GenA6.bitsetCap := by
        have : 2^(p.page - p.poolLen) < 2^64 := Nat.pow_lt_pow_right (by decide) (by omega)
        unfold GenA6.bitsetCap
        omega
      simp only [if_neg h2, if_neg h2']
      rw [hd, Gen4.shl_eq _ (by omega)]
      simp only [hc, not_true_eq_false, if_false, ite_self, GenA6.mkAllocator, true_and,
        Int.natCast_nonneg, if_true, Int.toNat_natCast]
      rfl

/-- the hypothesis of `GEN_a6_new_eq` is needed: for poolLen = 2^64 (not a Go int) and page = 0 the
64-bit difference is 0 and the code builds a one-block allocator; the model reports `tooSmall`. -/
theorem GEN_a6_new_outside_domain :
    let p : Pool6 := ⟨⟨0#64, 0#64⟩, 2^64, 0⟩
    GenA6.newBitmapAllocator (Gen4.poolNet p) p.page = .ret (some ⟨p, Bits.new 1⟩, none) ∧
      A6.new p = .error .tooSmall := by
  constructor
  · have hw : GenA6.wrapInt (((0 : Nat) : Int) - ((2^64 : Nat) : Int)) = 0 := by decide
    have hs : GenA6.wrapUint (1 <<< GenA6.uintOfInt 0) = 1 := by decide
    have hc : (1 : Nat) ≤ GenA6.bitsetCap := by decide
    simp only [GenA6.newBitmapAllocator, Gen4.poolNet, GenA6.maskSize, hw, hs, hc]
    rfl
  · simp [A6.new]

/-- a pool whose IP is not 16 bytes long or whose mask is not a 128-bit prefix mask never gives an
allocator on the generated side: it ends with an error or `.outside` (the Go code builds one, whose
`contains` is always false; the record `A6` cannot hold it). -/
theorem GEN_a6_new_other (n : Hint6) (s : Int) (h : n.ip = none ∨ n.bits ≠ 128) (a : A6) :
    GenA6.newBitmapAllocator n s ≠ .ret (some a, none) := by
  have hm : ∀ b, GenA6.mkAllocator n s b = none := by
    intro b
    unfold GenA6.mkAllocator
    cases hip : n.ip with
    | none => rfl
    | some x =>
      rcases h with h | h
      · rw [hip] at h; cases h
      · simp only [h, false_and, if_false]
  unfold GenA6.newBitmapAllocator
  simp only [hm]
  repeat' split
  all_goals simp

/-! ## Free -/

/-- `Free(n)`: which error "not found" is, and the `Loc` of ErrDoubleFree -/
def Gen4.ofFRes (a : A6) (n : Hint6) (m : Addr) : Except FErr Unit → Option Err
  | .ok _ => none
  | .error .doubleFree => some (.errDoubleFree n)
  | .error .notFound =>
    if a.pool.contains m then some (.errNotFound (Gen4.ofIndex (a.toIndex m)).2) else some .errOutside

/-- G-free, for a prefix with a 16-byte address and a 128-bit prefix mask (the model's arguments). -/
theorem GEN_a6_free_eq (a : A6) (ip : Addr) (ones : Nat) :
    GenA6.free a ⟨some ip, ones, 128⟩ =
      ((a.free ip ones).1,
       .ret (Gen4.ofFRes a ⟨some ip, ones, 128⟩ (maskAddr ip ones) (a.free ip ones).2)) := by
  rw [A6.free_eq]
  unfold GenA6.free GenA6.ipMask GenA6.contains
  simp only [if_true]
  generalize maskAddr ip ones = m
  cases hc : a.pool.contains m
  · simp only [GenA6.containsIP, hc, Bool.not_false, if_true, Gen4.ofFRes, Bool.false_eq_true,
      if_false]
  · simp only [GenA6.containsIP, hc, Bool.not_true, Bool.false_eq_true, if_false,
      GEN_a6_toIndex_eq]
    cases hi : a.toIndex m with
    | error e =>
      simp only [Gen4.ofIndex, Gen4.ofCalc, ne_eq, reduceCtorEq, not_false_eq_true, if_true,
        Gen4.ofFRes, hc, hi]
    | ok i =>
      cases ht : a.bm.test i
      · simp only [Gen4.ofIndex, ne_eq, not_true_eq_false, if_false, ht, Bool.not_false, if_true,
          Gen4.ofFRes]
      · simp only [Gen4.ofIndex, ne_eq, not_true_eq_false, if_false, ht, Bool.not_true,
          Bool.false_eq_true, Gen4.ofFRes]

/-- every prefix whose `IP.Mask(Mask)` is not 16 bytes long (IP not 16 bytes long; or a prefix mask
that is not 128 bits long) is "outside of the pool": the length guard of `contains`. -/
theorem GEN_a6_free_other (a : A6) (n : Hint6) (h : n.ip = none ∨ (n.bits ≠ 128 ∧ n.bits ≠ 0)) :
    GenA6.free a n = (a, .ret (some .errOutside)) := by
  have hm : GenA6.ipMask n = some none := by
    unfold GenA6.ipMask
    cases hip : n.ip with
    | none => rfl
    | some x =>
      rcases h with h | h
      · rw [hip] at h; cases h
      · simp only [if_neg h.1, if_neg h.2]
  unfold GenA6.free
  simp only [hm, GenA6.contains, GenA6.containsIP, Bool.not_false, if_true]

/-- the one case the vocabulary has no meaning for: a 16-byte IP with a mask whose `Size()` is
(0, 0) (a nil mask, or a 128-bit mask that is not a prefix mask); this unit says nothing about
what `Free` does with it. -/
theorem GEN_a6_free_outside (a : A6) (x : Addr) (ones : Nat) :
    GenA6.free a ⟨some x, ones, 0⟩ =
      (a, .outside "x.IP.Mask(x.Mask) of a 16-byte IP with a mask whose Size() is (0, 0)") := rfl

/-! ## Allocate -/

/-- the requested size as the code computes it, an int -/
theorem Gen4.reqSize_eq (a : A6) (h : Hint6) :
    (if (h.ones : Int) < (a.pool.page : Int) ∨ (h.bits : Int) ≠ 128 then (a.pool.page : Int)
      else (h.ones : Int)) = ((a.reqSize h : Nat) : Int) := by
  unfold A6.reqSize
  by_cases c : h.ones < a.pool.page ∨ h.bits ≠ 128
  · have c' : (h.ones : Int) < a.pool.page ∨ (h.bits : Int) ≠ 128 := by omega
    rw [if_pos c, if_pos c']
  · have c' : ¬ ((h.ones : Int) < a.pool.page ∨ (h.bits : Int) ≠ 128) := by omega
    rw [if_neg c, if_neg c']

/-- `Set(c)` then `Clear(c)` on a clear bit below the length: nothing changed -/
theorem Gen4.clear_set (b : Bits) (c : Nat) (h1 : c < b.length) (h2 : b.test c = false) :
    (b.set c).clear c = b := by
  obtain ⟨l⟩ := b
  simp only [Bits.length] at h1
  simp only [Bits.test, List.getD_eq_getElem?_getD, List.getElem?_eq_getElem h1, Option.getD_some] at h2
  simp only [Bits.set, Bits.clear, h1, if_true, List.set_set, Bits.mk.injEq]
  rw [← h2]
  exact List.set_getElem_self h1

def Gen4.tail (a : A6) (len : Int) : A6 × Out (IPNet × Option Err) :=
  match a.bm.nextClear with
  | none => (a, .ret (⟨none, some (len, 128)⟩, some .errNoAddrAvail))
  | some c =>
    match a.toPrefix c with
    | .ok ip => ({ a with bm := a.bm.set c }, .ret (⟨some ip, some (len, 128)⟩, none))
    | .error e => ({ a with bm := (a.bm.set c).clear c },
        .ret (⟨none, some (len, 128)⟩, some (.errBug (Gen4.ofCalc e))))

theorem Gen4.model_toPrefix_bm (a : A6) (b : Bits) (i : Nat) :
    A6.toPrefix { a with bm := b } i = a.toPrefix i := rfl

/-- closes `<the generated text after the hint> = Gen4.tail a len` -/
local macro "a6_tail" : tactic => `(tactic| (
  unfold Gen4.tail GenA6.nextClear0
  cases hc : A6.bm _ |>.nextClear with
  | none => simp only [Bool.not_false, if_true]
  | some c =>
    simp only [Bool.not_true, Bool.false_eq_true, if_false, Gen4.toPrefix_bm, GEN_a6_toPrefix_eq,
      Gen4.model_toPrefix_bm]
    cases hp : A6.toPrefix _ c with
    | ok ip => simp only [Gen4.ofPrefix, ne_eq, not_true_eq_false, if_false]
    | error e =>
      simp only [Gen4.ofPrefix, Gen4.ofCalc, ne_eq, reduceCtorEq, not_false_eq_true, if_true]))

theorem Gen4.allocate_tail (a : A6) (h : Hint6) (hn : a.hintIdx h = none) :
    GenA6.allocate a h = Gen4.tail a (a.reqSize h) := by
  unfold GenA6.allocate GenA6.maskSize
  simp only [Gen4.reqSize_eq]
  unfold A6.hintIdx at hn
  cases hip : h.ip with
  | none =>
    simp only [GenA6.contains, GenA6.containsIP, Bool.false_eq_true, if_false]
    a6_tail
  | some x =>
    rw [hip] at hn
    simp only [GenA6.contains, GenA6.containsIP] at hn ⊢
    by_cases hc : ¬ a.pool.contains x = true
    · simp only [hc, Bool.false_eq_true, and_false, if_false]
      a6_tail
    · rw [Decidable.not_not] at hc
      simp only [hc, if_true] at hn
      simp only [hc, ne_eq, reduceCtorEq, not_false_eq_true, and_self, if_true, GEN_a6_toIndex_eq]
      cases hi : a.toIndex x with
      | error e =>
        simp only [Gen4.ofIndex, Gen4.ofCalc, reduceCtorEq, false_and, if_false]
        a6_tail
      | ok i =>
        rw [hi] at hn
        simp only at hn
        cases ht : a.bm.test i
        · rw [ht] at hn
          simp at hn
        · simp only [Gen4.ofIndex, ht, Bool.not_true, Bool.false_eq_true, and_false, if_false]
          a6_tail

/-- what `Allocate` does when the hint is honoured -/
theorem Gen4.allocate_hint (a : A6) (h : Hint6) (i : Nat) (hn : a.hintIdx h = some i) :
    GenA6.allocate a h =
      ({ a with bm := a.bm.set i },
       .ret (⟨(Gen4.ofPrefix (a.toPrefix i)).1, some (a.reqSize h, 128)⟩, (Gen4.ofPrefix (a.toPrefix i)).2)) := by
  unfold GenA6.allocate GenA6.maskSize
  simp only [Gen4.reqSize_eq]
  unfold A6.hintIdx at hn
  cases hip : h.ip with
  | none => rw [hip] at hn; cases hn
  | some x =>
    rw [hip] at hn
    simp only [GenA6.contains, GenA6.containsIP] at hn ⊢
    by_cases hc : ¬ a.pool.contains x = true
    · simp [hc] at hn
    · rw [Decidable.not_not] at hc
      simp only [hc, if_true] at hn
      simp only [hc, ne_eq, reduceCtorEq, not_false_eq_true, and_self, if_true, GEN_a6_toIndex_eq]
      cases hi : a.toIndex x with
      | error e => rw [hi] at hn; cases hn
      | ok j =>
        rw [hi] at hn
        simp only at hn
        cases ht : a.bm.test j
        · rw [ht] at hn
          simp only [Bool.not_false, if_true, Option.some.injEq] at hn
          subst hn
          simp only [Gen4.ofIndex, ht, Bool.not_false, and_self, if_true, Gen4.toPrefix_bm,
            GEN_a6_toPrefix_eq, Gen4.model_toPrefix_bm]
        · rw [ht] at hn
          simp at hn

/-- the error `toPrefix i` returns, if it does -/
def Gen4.prefixErr (a : A6) (i : Nat) : Option Err := (Gen4.ofPrefix (a.toPrefix i)).2

/-- `Allocate`: the mask is `net.CIDRMask(reqSize, 128)` also next to an error, where the IP is
`net.IP{}`; the error of `toPrefix` is wrapped ("BUG") after first fit, returned as it is on the
hint path -/
def Gen4.ofARes (a : A6) (h : Hint6) : Except AErr Block → Out (IPNet × Option Err)
  | .ok b => .ret (⟨some b.base, some ((b.len : Int), 128)⟩, none)
  | .error .noaddr => .ret (⟨none, some ((a.reqSize h : Int), 128)⟩, some .errNoAddrAvail)
  | .error .bug =>
    .ret (⟨none, some ((a.reqSize h : Int), 128)⟩,
      some (.errBug (Gen4.prefixErr a (a.firstFit.getD 0))))
  | .error .hintPrefix =>
    .ret (⟨none, some ((a.reqSize h : Int), 128)⟩, Gen4.prefixErr a ((a.hintIdx h).getD 0))

theorem GEN_a6_allocate_eq (a : A6) (h : Hint6) :
    (a.allocate h a.firstFit).map (fun p => (p.1, Gen4.ofARes a h p.2))
      = some (GenA6.allocate a h) := by
  unfold A6.allocate
  simp only []
  cases hh : a.hintIdx h with
  | some i =>
    rw [Gen4.allocate_hint a h i hh]
    cases hp : a.toPrefix i with
    | ok ip => simp only [hp, Option.map_some, Gen4.ofARes, Gen4.ofPrefix]
    | error e =>
      simp only [Option.map_some, Gen4.ofARes, Gen4.ofPrefix, Gen4.prefixErr, hh, Option.getD_some, hp]
  | none =>
    rw [Gen4.allocate_tail a h hh]
    unfold Gen4.tail A6.firstFit
    cases hn : a.bm.nextClear with
    | none =>
      simp only [(Bits6.nextClear_none a.bm).mp hn, if_true, Option.map_some, Gen4.ofARes]
    | some c =>
      obtain ⟨h1, h2, _⟩ := Bits6.nextClear_some a.bm c hn
      simp only [h1, h2, Bool.not_false, and_self, if_true]
      cases hp : a.toPrefix c with
      | ok ip => simp only [hp, Option.map_some, Gen4.ofARes]
      | error e =>
        simp only [Option.map_some, Gen4.ofARes, Gen4.prefixErr, A6.firstFit, hn, Option.getD_some,
          hp, Gen4.ofPrefix, Gen4.clear_set _ _ h1 h2]

/-- the same, read from the model's side: with the first-fit choice the model's answer is `some`,
namely the generated function's state and a result the generated one is the embedding of. -/
theorem GEN_a6_allocate_eq' (a : A6) (h : Hint6) :
    ∃ r, a.allocate h a.firstFit = some ((GenA6.allocate a h).1, r) ∧
      (GenA6.allocate a h).2 = Gen4.ofARes a h r := by
  have hg := GEN_a6_allocate_eq a h
  cases hm : a.allocate h a.firstFit with
  | none => rw [hm] at hg; cases hg
  | some p =>
    rw [hm] at hg
    simp only [Option.map_some, Option.some.injEq] at hg
    refine ⟨p.2, ?_, ?_⟩
    · rw [← hg]
    · rw [← hg]

end CoreDhcp
