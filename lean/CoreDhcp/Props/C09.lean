/-
C09 — A client keeps its delegated prefix: renewals and repeats return it.
Property theorems only; the invariant proof is in CoreDhcp/Proofs/Prefix.lean.
-/
import CoreDhcp.Proofs.Prefix
import CoreDhcp.Proofs.MonLemmas
namespace CoreDhcp

/-- Same quantifier as C08. Once a reply told a client it holds P: an IA_PD asking for exactly P is
answered with P again, with a lifetime not shorter than what remained; an IA_PD without any hint
(no IAPrefix option, or only the unspecified prefix) from a client that holds prefixes is answered
with exactly the prefixes it holds — so every delegated prefix is remembered however many a reply
delegated, and retransmissions consume no further block. -/
theorem C09_holds (pool : Pool6) (hp : pool.WF) (a : A6) (hnew : A6.new pool = .ok a)
    (ops : List POp) (hwf : ops.all (fun op => op.iapds.all IAPDReq.wf) = true)
    (hmono : POp.monotone ops = true)
    (cs : List (Option Nat)) (evs : List PEv) (z : PState)
    (hrun : PState.run ⟨a, []⟩ ops cs = some (evs, z)) :
    C09.holds pool evs = true := by
  unfold C09.holds
  exact all_of_all_imp (PState.run_verdicts pool hp a hnew ops hwf hmono cs evs z hrun)
    (fun v hv => by unfold PVerdict.all at hv; simp only [Bool.and_eq_true] at hv; exact hv.2)

/-- a message from one client never touches what another client holds -/
theorem C09_frame (s s' : PState) (c c' : ClientKey) (iapds : List IAPDReq) (now : Int)
    (cs cs' : List (Option Nat)) (resp : Option (List IAPDResp)) (hne : c' ≠ c)
    (h : s.handleMsg (some c) iapds now cs = some (s', resp, cs')) :
    s'.leasesOf c' = s.leasesOf c' := PState.handleMsg_frame s s' c c' iapds now cs cs' resp hne h

end CoreDhcp
