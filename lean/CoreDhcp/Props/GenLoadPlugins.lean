/-
GEN (plugin loader) — the definitions regenerated from the Go source on every run
(Generated/LoadPlugins.lean, written by `harness gen -unit loadplugins` from the go/ast of
plugins/plugin.go: LoadPlugins) are equal to the hand-written model (Model/Plugins.lean: `loadChain`,
`loadPlugins`) that the loading theorems (Proofs/Dispatch.lean `C13_load_*`, Props/C13.lean) are about.

The generated side keeps what Go has and the model drops:
  * a handler value can be nil, so the chains are `List (Option H)`; the model's chains are `List H`
    (the code never appends a nil handler — that is part of what is proved here);
  * the error values are told apart by their text (`DHCPv6: unknown plugin` / `DHCPv4: unknown plugin`, …),
    the model's `LoadErr` has one constructor for both protocols;
  * the code APPENDS to an accumulator while it walks the list (`hs ++ [h]`), the model conses on the way
    back (`h :: hs`): `GEN_lp_loop6_acc` / `GEN_lp_loop4_acc` are the accumulator-generalised statements,
    proved by induction on the plugin list.

`Gen6.ofErr6` / `Gen6.ofErr4` / `Gen6.ofChain` embed the model's results into the generated side's
(injective: `Gen6.ofChain_inj`), and the chain theorems have the form

    generated loop = embedding (model function)            for every registry and every plugin list.

For `LoadPlugins` as a whole the model's error does not say which protocol it comes from, so
`GEN_lp_load_eq` compares the two sides in the common type `Except LoadErr (List (Option H4) × List (Option H6))`:
the generated result with its errors mapped to `LoadErr` (`Gen6.view`, forgets only the protocol tag) and the
model's result with its handlers wrapped in `some` (`Gen6.ofLoad`, injective).  `GEN_lp_load_tagged` is the
exact form (no information dropped on either side): the generated function is the embedding of the model's
two chain results, combined DHCPv6 first.

An edit of the Go logic changes the generated text, makes a statement below false and breaks this file
(or is rejected by the translator); a renamed local or a moved log line generates the same text.
-/
import CoreDhcp.Generated.LoadPlugins
import CoreDhcp.Model.Plugins
namespace CoreDhcp
open GenLP (Err Step)

/-! ## the embeddings model ↪ generated -/

/-- the model's error of the DHCPv6 chain as the error value the code returns there -/
def Gen6.ofErr6 : LoadErr → Err
  | .noConfig => .noConfig
  | .unknown n => .unknown6 n
  | .setup n => .setupErr n ()
  | .nilHandler n => .noHandler6 n

/-- the model's error of the DHCPv4 chain as the error value the code returns there -/
def Gen6.ofErr4 : LoadErr → Err
  | .noConfig => .noConfig
  | .unknown n => .unknown4 n
  | .setup n => .setupErr n ()
  | .nilHandler n => .noHandler4 n

/-- the way back: forgets which protocol the text names -/
def Gen6.toErr : Err → LoadErr
  | .noConfig => .noConfig
  | .unknown6 n => .unknown n
  | .unknown4 n => .unknown n
  | .noHandler6 n => .nilHandler n
  | .noHandler4 n => .nilHandler n
  | .setupErr n _ => .setup n

theorem Gen6.toErr_ofErr6 (e : LoadErr) : Gen6.toErr (Gen6.ofErr6 e) = e := by cases e <;> rfl
theorem Gen6.toErr_ofErr4 (e : LoadErr) : Gen6.toErr (Gen6.ofErr4 e) = e := by cases e <;> rfl

/-- the model's result of one chain as the outcome of the generated loop started with the accumulator
`acc`: the handlers (none of them nil) appended to `acc`, or the error returned -/
def Gen6.ofChain {H : Type} (f : LoadErr → Err) (acc : List (Option H)) :
    Except LoadErr (List H) → Step (List (Option H))
  | .ok hs => .next (acc ++ hs.map some)
  | .error e => .ret (f e)

theorem Gen6.map_some_inj {H : Type} : ∀ (a b : List H), a.map some = b.map some → a = b
  | [], [], _ => rfl
  | [], _ :: _, h => by cases h
  | _ :: _, [], h => by cases h
  | x :: a, y :: b, h => by
    simp only [List.map_cons, List.cons.injEq, Option.some.injEq] at h
    rw [h.1, Gen6.map_some_inj a b h.2]

/-- the embedding loses nothing: the generated outcome determines the model's result -/
theorem Gen6.ofChain_inj {H : Type} (f : LoadErr → Err) (hf : ∀ e, Gen6.toErr (f e) = e)
    (a b : Except LoadErr (List H)) (h : Gen6.ofChain f [] a = Gen6.ofChain f [] b) : a = b := by
  cases a with
  | error ea =>
    cases b with
    | error eb =>
      simp only [Gen6.ofChain, Step.ret.injEq] at h
      rw [← hf ea, ← hf eb, h]
    | ok hb => simp [Gen6.ofChain] at h
  | ok ha =>
    cases b with
    | error eb => simp [Gen6.ofChain] at h
    | ok hb =>
      simp only [Gen6.ofChain, List.nil_append, Step.next.injEq] at h
      rw [Gen6.map_some_inj ha hb h]

/-- the model's `LoadPlugins` result with the handlers as the code holds them -/
def Gen6.ofLoad {H4 H6 : Type} :
    Except LoadErr (List H4 × List H6) → Except LoadErr (List (Option H4) × List (Option H6))
  | .ok (a, b) => .ok (a.map some, b.map some)
  | .error e => .error e

/-- the generated result with its error seen as the model's `LoadErr` -/
def Gen6.view {α : Type} : Except Err α → Except LoadErr α
  | .ok v => .ok v
  | .error e => .error (Gen6.toErr e)

/-- the model's chain of one protocol: nothing to load when the server is not configured -/
def Gen6.chainOf {H : Type} (reg : Registry H) : Option (List (String × List String)) → Except LoadErr (List H)
  | some ps => loadChain reg ps
  | none => .ok []

/-! ## the loops -/

/-- The generated DHCPv6 loop, started with any accumulator, is the model's `loadChain`: its handlers
appended to the accumulator in list order, or its error.  (The code appends, the model conses.) -/
theorem GEN_lp_loop6_acc {H : Type} (reg : Registry H) (acc : List (Option H)) (ps : List (String × List String)) :
    GenLP.loop6 reg acc ps = Gen6.ofChain Gen6.ofErr6 acc (loadChain reg ps) := by
  induction ps generalizing acc with
  | nil => simp [GenLP.loop6, loadChain, Gen6.ofChain]
  | cons p rest ih =>
    obtain ⟨name, args⟩ := p
    unfold GenLP.loop6 GenLP.body6 loadChain
    cases hr : reg name with
    | none => simp [Gen6.ofChain, Gen6.ofErr6]
    | some o =>
      cases o with
      | none => simp [ih]
      | some f =>
        cases hf : f args with
        | error e => simp [hf, Gen6.ofChain, Gen6.ofErr6]
        | ok o =>
          cases o with
          | none => simp [hf, Gen6.ofChain, Gen6.ofErr6]
          | some h =>
            simp only [hf, ih]
            cases loadChain reg rest with
            | error e => simp [Gen6.ofChain]
            | ok hs => simp [Gen6.ofChain, List.append_assoc]

/-- The same for the DHCPv4 loop. -/
theorem GEN_lp_loop4_acc {H : Type} (reg : Registry H) (acc : List (Option H)) (ps : List (String × List String)) :
    GenLP.loop4 reg acc ps = Gen6.ofChain Gen6.ofErr4 acc (loadChain reg ps) := by
  induction ps generalizing acc with
  | nil => simp [GenLP.loop4, loadChain, Gen6.ofChain]
  | cons p rest ih =>
    obtain ⟨name, args⟩ := p
    unfold GenLP.loop4 GenLP.body4 loadChain
    cases hr : reg name with
    | none => simp [Gen6.ofChain, Gen6.ofErr4]
    | some o =>
      cases o with
      | none => simp [ih]
      | some f =>
        cases hf : f args with
        | error e => simp [hf, Gen6.ofChain, Gen6.ofErr4]
        | ok o =>
          cases o with
          | none => simp [hf, Gen6.ofChain, Gen6.ofErr4]
          | some h =>
            simp only [hf, ih]
            cases loadChain reg rest with
            | error e => simp [Gen6.ofChain]
            | ok hs => simp [Gen6.ofChain, List.append_assoc]

/-- GEN (DHCPv6 chain): the generated loop, started as `LoadPlugins` starts it (`make(…, 0)`), equals the
model's `loadChain reg ps`, for every registry and every plugin list. -/
theorem GEN_lp_chain6_eq {H : Type} (reg : Registry H) (ps : List (String × List String)) :
    GenLP.loop6 reg [] ps = Gen6.ofChain Gen6.ofErr6 [] (loadChain reg ps) := GEN_lp_loop6_acc reg [] ps

/-- GEN (DHCPv4 chain). -/
theorem GEN_lp_chain4_eq {H : Type} (reg : Registry H) (ps : List (String × List String)) :
    GenLP.loop4 reg [] ps = Gen6.ofChain Gen6.ofErr4 [] (loadChain reg ps) := GEN_lp_loop4_acc reg [] ps

/-! ## LoadPlugins -/

/-- GEN (LoadPlugins, exact form): the generated function is the nil-configuration test, then the
embedding of the model's DHCPv6 chain, then of the model's DHCPv4 chain — DHCPv6 first: when both chains
fail, the error is the DHCPv6 one. -/
theorem GEN_lp_load_tagged {H4 H6 : Type} (reg4 : Registry H4) (reg6 : Registry H6)
    (s4 s6 : Option (List (String × List String))) :
    GenLP.loadPlugins reg4 reg6 s4 s6 =
      if s4.isNone && s6.isNone then .error .noConfig
      else
        match Gen6.ofChain Gen6.ofErr6 [] (Gen6.chainOf reg6 s6) with
        | .ret e => .error e
        | .next h6 =>
          match Gen6.ofChain Gen6.ofErr4 [] (Gen6.chainOf reg4 s4) with
          | .ret e => .error e
          | .next h4 => .ok (h4, h6) := by
  unfold GenLP.loadPlugins
  cases s6 <;> cases s4 <;>
    simp only [Gen6.chainOf, GEN_lp_chain6_eq, GEN_lp_chain4_eq, Gen6.ofChain, Option.isNone_none,
      Option.isNone_some, Bool.and_self, Bool.and_false, Bool.false_and, if_true, Bool.false_eq_true, if_false,
      List.map_nil, List.append_nil] <;>
    rfl

/-- GEN (LoadPlugins): the generated `LoadPlugins` equals the model's `loadPlugins reg4 reg6 s4 s6` — the
same decision on every input, the same handlers in the same order in both chains, the same error (of the
same plugin; DHCPv6 is loaded first, so its error wins).  Both sides are shown in the common type: the
generated errors as `LoadErr`, the model's handlers as non-nil handler values. -/
theorem GEN_lp_load_eq {H4 H6 : Type} (reg4 : Registry H4) (reg6 : Registry H6)
    (s4 s6 : Option (List (String × List String))) :
    Gen6.view (GenLP.loadPlugins reg4 reg6 s4 s6) = Gen6.ofLoad (loadPlugins reg4 reg6 s4 s6) := by
  unfold GenLP.loadPlugins loadPlugins
  cases s6 with
  | none =>
    cases s4 with
    | none => simp [Gen6.view, Gen6.ofLoad, Gen6.toErr]
    | some p4 =>
      cases h4 : loadChain reg4 p4 <;>
        simp [GEN_lp_chain4_eq, Gen6.ofChain, Gen6.view, Gen6.ofLoad, Gen6.toErr_ofErr4, h4]
  | some p6 =>
    cases h6 : loadChain reg6 p6 with
    | error e =>
      cases s4 <;> simp [GEN_lp_chain6_eq, Gen6.ofChain, Gen6.view, Gen6.ofLoad, Gen6.toErr_ofErr6, h6]
    | ok l6 =>
      cases s4 with
      | none => simp [GEN_lp_chain6_eq, Gen6.ofChain, Gen6.view, Gen6.ofLoad, h6]
      | some p4 =>
        cases h4 : loadChain reg4 p4 <;>
          simp [GEN_lp_chain6_eq, GEN_lp_chain4_eq, Gen6.ofChain, Gen6.view, Gen6.ofLoad, Gen6.toErr_ofErr4, h6, h4]

/-- the handlers the code returns are never nil, and an error of the code is an error of the model -/
theorem GEN_lp_load_ok {H4 H6 : Type} (reg4 : Registry H4) (reg6 : Registry H6)
    (s4 s6 : Option (List (String × List String))) (a : List (Option H4)) (b : List (Option H6)) :
    GenLP.loadPlugins reg4 reg6 s4 s6 = .ok (a, b) ↔
      ∃ h4 h6, loadPlugins reg4 reg6 s4 s6 = .ok (h4, h6) ∧ a = h4.map some ∧ b = h6.map some := by
  have h := GEN_lp_load_eq reg4 reg6 s4 s6
  constructor
  · intro hg
    rw [hg] at h
    cases hm : loadPlugins reg4 reg6 s4 s6 with
    | error e => rw [hm] at h; simp [Gen6.view, Gen6.ofLoad] at h
    | ok v =>
      obtain ⟨h4, h6⟩ := v
      rw [hm] at h
      simp only [Gen6.view, Gen6.ofLoad, Except.ok.injEq, Prod.mk.injEq] at h
      exact ⟨h4, h6, rfl, h.1, h.2⟩
  · rintro ⟨h4, h6, hm, rfl, rfl⟩
    rw [hm] at h
    cases hg : GenLP.loadPlugins reg4 reg6 s4 s6 with
    | error e => rw [hg] at h; simp [Gen6.view, Gen6.ofLoad] at h
    | ok v =>
      rw [hg] at h
      simp only [Gen6.view, Gen6.ofLoad, Except.ok.injEq] at h
      rw [h]

end CoreDhcp
