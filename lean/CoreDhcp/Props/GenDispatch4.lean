/-
GEN (decision logic) — the definitions regenerated from the Go source on every run
(Generated/Dispatch6.lean, Dispatch4.lean, ServerID6.lean, Netmask.lean, written by
`harness gen -unit …` from the go/ast of server/handle.go, plugins/serverid/plugin.go and
plugins/netmask/plugin.go) are equal to the hand-written model (Model/Dispatch.lean,
Model/OptPlug.lean) and to the specifications (Spec/Dispatch.lean, Spec/OptPlug.lean) the
property theorems are about.

The generated functions take ATOMS (what the Go conditions test) as arguments; every theorem
below instantiates the atoms with their meaning in the model:

  giaddrUnspec  = `req.giaddr == 0#32`          respMt      = `resp.mt`
  ciaddrUnspec  = `req.ciaddr == 0#32`          isBroadcast = `req.flags / 32768 % 2 == 1`
  peerIsBcast   = `peer == bcast4`              peerIsLinkLocal = `isLinkLocal4 peer` / `isLinkLocal6 src`
  bound         = index of the bound interface  oobNonNil / oobIdx = `oob.isSome` / `oob.getD 0`
  mt, rapid     = `m.mt`, `m.rapid`             hasSid / sidEqual = first option 2 present / equal to the DUID

An edit of the Go decision logic changes the generated text, makes the statements below false and
breaks this file (or is rejected by the translator); a renamed local or reformatted source
generates the same text.
-/
import CoreDhcp.Generated.Dispatch4
import CoreDhcp.Model.Dispatch
import CoreDhcp.Spec.Dispatch
set_option linter.unusedSimpArgs false
namespace CoreDhcp

/-! ## dispatch4 — `HandleMsg4` -/

/-- the address a generated destination code stands for -/
def Gen2.addr4 (req : Req4) (resp : Resp4) : Generated.Dest4 → BitVec 32
  | .giaddr => req.giaddr
  | .bcast => bcast4
  | .ciaddr => req.ciaddr
  | .yiaddr => resp.yiaddr

/-- the generated cascade on the atoms of a request / response pair -/
def Gen2.dest4 (req : Req4) (resp : Resp4) : Generated.Dest4 × Nat × Bool :=
  Generated.dest4 (req.giaddr == 0#32) resp.mt (req.ciaddr == 0#32) (req.flags / 32768 % 2 == 1)

/-- `NewReplyFromRequest(req)` with message type `t` (library behaviour, mirrored by the model) -/
def Gen2.reply4 (req : Req4) (t : Nat) : Resp4 :=
  { op := 2, mt := t, xid := req.xid, htype := req.htype, chaddr := req.chaddr, flags := req.flags,
    giaddr := req.giaddr, yiaddr := 0#32, opt82 := req.opt82, opt61 := req.opt61, tags := [] }

/-- G2(b): the destination cascade is `peer4`. -/
theorem GEN_peer4_eq (req : Req4) (resp : Resp4) :
    peer4 req resp =
      (Gen2.addr4 req resp (Gen2.dest4 req resp).1, (Gen2.dest4 req resp).2.1, (Gen2.dest4 req resp).2.2) := by
  unfold peer4 Gen2.dest4 Generated.dest4
  by_cases h1 : req.giaddr = 0#32 <;> by_cases h2 : resp.mt = 6 <;> by_cases h3 : req.ciaddr = 0#32 <;>
    by_cases h4 : req.flags / 32768 % 2 = 1 <;> simp [h1, h2, h3, h4, Gen2.addr4]

/-- G2(c): the `switch` choosing the interface is `pin`. -/
theorem GEN_pinIf4_eq (bound : Nat) (oob : Option Nat) :
    pin bound oob = Generated.pinIf4 bound oob.isSome (oob.getD 0) := by
  unfold pin Generated.pinIf4
  by_cases hb : bound = 0 <;> cases oob with
  | none => simp [hb]
  | some i => by_cases hi : i = 0 <;> simp [hb, hi]

/-- G2(c): `needPin` and `pin` as `dispatch4` combines them. -/
theorem GEN_woob4_eq (bound : Nat) (oob : Option Nat) (a : BitVec 32) (l2 : Bool) :
    (if (a == bcast4 || isLinkLocal4 a || l2) then pin bound oob else none) =
      Generated.woob4 (a == bcast4) (isLinkLocal4 a) l2 bound oob.isSome (oob.getD 0) := by
  rw [GEN_pinIf4_eq]
  unfold Generated.woob4 Generated.pinIf4
  rfl

/-- G2(a): opcode guard and `switch mt := req.MessageType()` are `stub4`. -/
theorem GEN_stub4_eq (req : Req4) :
    stub4 req = if Generated.dropEarly4 req.op then none else (Generated.stubType4 req.mt).map (Gen2.reply4 req) := by
  unfold stub4 Generated.dropEarly4 Generated.stubType4 Gen2.reply4
  by_cases h0 : req.op = 1 <;> by_cases h1 : req.mt = 1 <;> by_cases h3 : req.mt = 3 <;> simp [h0, h1, h3]

/-- G2(a) as stated on the message type alone -/
theorem GEN_stubType4_eq (req : Req4) (h : req.op = 1) :
    (stub4 req).map (·.mt) = Generated.stubType4 req.mt := by
  rw [GEN_stub4_eq]
  unfold Generated.dropEarly4 Generated.stubType4 Gen2.reply4
  by_cases h1 : req.mt = 1 <;> by_cases h3 : req.mt = 3 <;> simp [h, h1, h3]

/-- `HandleMsg4` end to end: the model's `dispatch4` is the composition of the generated decisions
(around the handler chain and the library's reply constructor). -/
theorem GEN_dispatch4_eq (bound : Nat) (oob : Option Nat) (hs : List Handler4) (input : Option Req4) :
    dispatch4 bound oob hs input =
      match input with
      | none => .drop
      | some req =>
        if Generated.dropEarly4 req.op then .drop
        else match Generated.stubType4 req.mt with
          | none => .drop
          | some t =>
            match (runChain hs req 0 (some (Gen2.reply4 req t))).1 with
            | none => .drop
            | some resp =>
              let d := Gen2.dest4 req resp
              let a := Gen2.addr4 req resp d.1
              let woob := Generated.woob4 (a == bcast4) (isLinkLocal4 a) d.2.2 bound oob.isSome (oob.getD 0)
              if d.2.2 && woob.isNone then .panicNoIf else .send resp a d.2.1 woob d.2.2 := by
  cases input with
  | none => rfl
  | some req =>
    simp only [dispatch4]
    rw [GEN_stub4_eq]
    by_cases h0 : Generated.dropEarly4 req.op = true
    · simp [h0]
    · simp only [h0, if_false, Bool.false_eq_true]
      cases hs4 : Generated.stubType4 req.mt with
      | none => simp
      | some t =>
        simp only [Option.map_some]
        cases hc : (runChain hs req 0 (some (Gen2.reply4 req t))).1 with
        | none => simp
        | some resp =>
          simp only [GEN_peer4_eq, GEN_woob4_eq]

end CoreDhcp
