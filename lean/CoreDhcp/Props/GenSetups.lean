/-
GEN (set-ups of the option plugins) — the definitions regenerated from the Go source on every run
(Generated/Setups.lean, written by `harness gen -unit setups` from the go/ast of the `setup4` / `setup6`
functions of plugins/{mtu,netmask,router,dns,leasetime,searchdomains,staticroute,ipv6only,autoconfigure,
sleep,serverid,nbp} and of their helpers `checkDomains`, `parseArgs`, `argMap`) are equal to the hand-written
model (Model/OptPlug.lean, `Plug.<plugin>.setup`) that property C19 ("a configuration accepted at start-up
can be encoded") is about.  Every theorem has the form

    (GenSetup.<plugin>N args).mapError (fun _ => ()) = Plug.<plugin>.setup args          for all args

— the model collapses all errors to `()`; the generated text keeps which error it is and whether the Go code
returns it with a nil handler (`failNil`) or, as router / dns / staticroute do inside their loops, with a
non-nil one (`failWithHandler`): both are `.error`, since the caller tests `err != nil` only.

Where the Go configuration has another shape than the model's `Cfg`, the statement says how the two are
related, by an explicit function of `SetupView`:

  * router, dns (v4), dns (v6): Go keeps the `[]net.IP` as parsed, the model the To4 / To16 bytes the handler
    sends — `.map SetupView.ips4` / `ips16` on the left;
  * staticroute: Go keeps `(*net.IPNet, net.IP)`, the model the RFC 3442 triple — `.map SetupView.routes`;
  * serverid (both): Go's variable may be nil, the model's cannot — `.map some` on the right;
  * nbp (both): Go keeps `dhcpv4.Option` / `dhcpv6.Option` values (code and bytes), the model the strings —
    `.map SetupView.nbp4` / `nbp6` on the right.

One equality needs a hypothesis: netmask (`SetupView.To4Len`: the To4() of the argument is four bytes long,
implied by `ArgOracle.wf`), see there; `GEN_setup_netmask4_needs_len` is an oracle outside it on which the
sides differ.  All others hold for every oracle, well-formed or not.

`GenSetup.<plugin>N` is `<plugin>NFrom` at the Go zero values of the package-level variables (first set-up of
the process); the last section states what a second set-up in the same process does instead, which the model
does not capture.

The vocabulary (`a.ip`, `ipTo4`, `a.sr`, `lowerAscii`, …) is listed in the header of gen11.go.  Note that
`strings.ToLower ↦ Plug.lowerAscii` is exact for ASCII input only: Go lowers U+0130 to `i`, so
`server_id: DUİD-LL 00:11:22:33:44:55` is ACCEPTED by the Go set-up while model and generated text (which
share `lowerAscii`) reject it.  The equality below is not affected; the tie of either side to the code is.
-/
import CoreDhcp.Generated.Setups
import CoreDhcp.Model.OptPlug
import CoreDhcp.Proofs.OptPlug
set_option linter.unusedSimpArgs false
set_option linter.unnecessarySimpa false
namespace CoreDhcp
open Plug

namespace SetupView

/-- errors collapsed: the model says `.error ()` for every failure -/
def collapse {ε α : Type} (e : Except ε α) : Except Unit α := e.mapError (fun _ => ())

@[simp] theorem collapse_error {ε α : Type} (e : ε) : collapse (.error e : Except ε α) = .error () := rfl
@[simp] theorem collapse_ok {ε α : Type} (a : α) : collapse (.ok a : Except ε α) = .ok a := rfl

end SetupView
open SetupView

@[simp] theorem mapError_error' {ε ε' α : Type} (f : ε → ε') (e : ε) : Except.mapError f (.error e : Except ε α) = .error (f e) := rfl
@[simp] theorem mapError_ok' {ε ε' α : Type} (f : ε → ε') (a : α) : Except.mapError f (.ok a : Except ε α) = .ok a := rfl
@[simp] theorem mapError_failNil {ε' α : Type} (f : GenSetup.Err → ε') (e : GenSetup.Err) :
    Except.mapError f (GenSetup.failNil e : Except GenSetup.Err α) = .error (f e) := rfl
@[simp] theorem mapError_failWithHandler {ε' α : Type} (f : GenSetup.Err → ε') (e : GenSetup.Err) :
    Except.mapError f (GenSetup.failWithHandler e : Except GenSetup.Err α) = .error (f e) := rfl

theorem strBytes_empty : strBytes "" = [] := by decide +kernel

/-! ## one argument, one parser -/

theorem GEN_setup_mtu4_eq (args : List ArgOracle) :
    (GenSetup.mtu4 args).mapError (fun _ => ()) = Plug.mtu.setup args := by
  unfold GenSetup.mtu4 Plug.mtu.setup single
  match args with
  | [] => rfl
  | [a] =>
    simp only [GenSetup.arg, List.getD_cons_zero]
    cases a.int with
    | none => rfl
    | some n => by_cases hn : n < 0 ∨ n > 65535 <;> simp only [hn, if_true, if_false] <;> rfl
  | a :: b :: rest => simp

theorem GEN_setup_sleep4_eq (args : List ArgOracle) :
    (GenSetup.sleep4 args).mapError (fun _ => ()) = Plug.sleep.setup args := by
  unfold GenSetup.sleep4 Plug.sleep.setup single
  match args with
  | [] => rfl
  | [a] => simp [GenSetup.arg]; cases a.dur <;> rfl
  | a :: b :: rest => simp

theorem GEN_setup_sleep6_eq (args : List ArgOracle) :
    (GenSetup.sleep6 args).mapError (fun _ => ()) = Plug.sleep.setup args := by
  unfold GenSetup.sleep6 Plug.sleep.setup single
  match args with
  | [] => rfl
  | [a] => simp [GenSetup.arg]; cases a.dur <;> rfl
  | a :: b :: rest => simp

theorem GEN_setup_leasetime4_eq (args : List ArgOracle) :
    (GenSetup.leasetime4 args).mapError (fun _ => ()) = Plug.leasetime.setup args := by
  unfold GenSetup.leasetime4 Plug.leasetime.setup
  match args with
  | [] => rfl
  | a :: rest =>
    simp only [GenSetup.arg, List.getD_cons_zero]
    cases a.dur with
    | none => rfl
    | some d => by_cases hd : d < 0 ∨ d > 4294967295 * 1000000000 <;> simp only [hd, if_true, if_false] <;> rfl

theorem GEN_setup_ipv6only4_eq (args : List ArgOracle) :
    (GenSetup.ipv6only4 args).mapError (fun _ => ()) = Plug.ipv6only.setup args := by
  unfold GenSetup.ipv6only4 GenSetup.ipv6only4From Plug.ipv6only.setup
  match args with
  | [] => rfl
  | [a] =>
    simp only [GenSetup.arg, List.getD_cons_zero]
    cases a.dur with
    | none => rfl
    | some d => by_cases hd : d < 0 ∨ d > 4294967295 * 1000000000 <;> simp only [hd, if_true, if_false] <;> rfl
  | a :: b :: rest =>
    simp only [GenSetup.arg, List.getD_cons_zero]
    cases a.dur with
    | none => rfl
    | some d => by_cases hd : d < 0 ∨ d > 4294967295 * 1000000000 <;> simp only [hd, if_true, if_false] <;> rfl

/-! ## autoconfigure: the look-up in `argMap` -/

theorem argMap_lookup (raw : Bytes) :
    GenSetup.lookupStr GenSetup.autoconfigure_argMap raw = Plug.autoconfigure.argValue raw := by
  have h0 : strBytes "0" = [48] := by decide +kernel
  have h1 : strBytes "1" = [49] := by decide +kernel
  unfold GenSetup.autoconfigure_argMap Plug.autoconfigure.argValue
  simp only [GenSetup.lookupStr, h0, h1]

theorem GEN_setup_autoconfigure4_eq (args : List ArgOracle) :
    (GenSetup.autoconfigure4 args).mapError (fun _ => ()) = Plug.autoconfigure.setup args := by
  unfold GenSetup.autoconfigure4 GenSetup.autoconfigure4From Plug.autoconfigure.setup
  match args with
  | [] => rfl
  | [a] => simp [GenSetup.arg, argMap_lookup]; cases Plug.autoconfigure.argValue a.raw <;> rfl
  | a :: b :: rest => simp [GenSetup.arg, argMap_lookup]; cases Plug.autoconfigure.argValue a.raw <;> rfl

/-! ## serverid -/

/-- the generated configuration is `v4ServerID : net.IP` itself (nil ↦ none, as the handler's guard
`if v4ServerID == nil` sees it); the model keeps the bytes: `some b` on the left exactly when the model has `b` -/
theorem GEN_setup_serverid4_eq (args : List ArgOracle) :
    (GenSetup.serverid4 args).mapError (fun _ => ()) = (Plug.serverid4.setup args).map some := by
  unfold GenSetup.serverid4 Plug.serverid4.setup
  match args with
  | [] => rfl
  | a :: rest =>
    simp [GenSetup.arg, GenSetup.ipTo4]
    cases h : a.ip with
    | none => simp [Except.map]
    | some ip => cases h2 : ip.to4 <;> simp [Except.map, h2]

theorem GEN_setup_serverid6_eq (args : List ArgOracle) :
    (GenSetup.serverid6 args).mapError (fun _ => ()) = (Plug.serverid6.setup args).map some := by
  unfold GenSetup.serverid6 Plug.serverid6.setup
  match args with
  | [] => rfl
  | [a] => rfl
  | t :: v :: rest =>
    have hlen : ¬ ((t :: v :: rest).length < 2) := by simp
    simp only [if_neg hlen, GenSetup.arg, strBytes_empty, List.getD_cons_zero, List.getD_cons_succ]
    by_cases ht : t.raw = []
    · simp [ht, Except.map]
    · by_cases hv : v.raw = []
      · simp [ht, hv, Except.map]
      · cases hm : v.mac with
        | none => simp [ht, hv, Except.map]
        | some mac =>
          simp only [ht, hv, or_self, if_false]
          split
          · simp [Except.map]
          · split
            · simp [Except.map]
            · split <;> simp [Except.map]

/-! ## nbp: the URL, the scheme switch, the options -/

namespace SetupView
/-- `opt66` / `opt67` as setup4 leaves them (`*dhcpv4.Option`: nil ↦ none, else code and value), from
the model's configuration: option 66 only for a TFTP URL, option 67 always -/
def nbp4 (c : Plug.nbp4.Cfg) : Option (Nat × Bytes) × Option (Nat × Bytes) :=
  (c.o66.map (fun v => (66, v)), some (67, c.o67))

/-- `opt59` / `opt60` (`dhcpv6.Option`): option 59 always; option 60 = `OptBootFileParam(params)`, one
length-prefixed parameter, when `params` is not empty (the model keeps the raw string, its handler encodes it) -/
def nbp6 (c : Plug.nbp6.Cfg) : Option (Nat × Bytes) × Option (Nat × Bytes) :=
  (some (59, c.o59), c.o60.map (fun p => (60, encBootParams [p])))
end SetupView

/-- `parseArgs`: exactly one argument, and url.Parse accepts it -/
theorem nbp_parseArgs_eq (args : List ArgOracle) :
    GenSetup.nbp_parseArgs args =
      match single args with
      | none => .error (.new "Exactly one argument must be passed to NBP plugin, got %d")
      | some a => match a.url with
        | none => .error (.lib "url.Parse")
        | some u => .ok u := by
  unfold GenSetup.nbp_parseArgs single
  match args with
  | [] => rfl
  | [a] => simp [GenSetup.arg]; cases a.url <;> rfl
  | a :: b :: rest => simp

theorem GEN_setup_nbp4_eq (args : List ArgOracle) :
    (GenSetup.nbp4 args).mapError (fun _ => ()) = (Plug.nbp4.setup args).map SetupView.nbp4 := by
  unfold GenSetup.nbp4 GenSetup.nbp4From Plug.nbp4.setup
  rw [nbp_parseArgs_eq]
  cases single args with
  | none => rfl
  | some a =>
    cases h : a.url with
    | none => simp [h, Except.map]
    | some u =>
      simp only [h]
      split <;> simp [Except.map, SetupView.nbp4]

theorem GEN_setup_nbp6_eq (args : List ArgOracle) :
    (GenSetup.nbp6 args).mapError (fun _ => ()) = (Plug.nbp6.setup args).map SetupView.nbp6 := by
  unfold GenSetup.nbp6 GenSetup.nbp6From Plug.nbp6.setup
  rw [nbp_parseArgs_eq]
  cases single args with
  | none => rfl
  | some a =>
    cases h : a.url with
    | none => simp [h, Except.map]
    | some u =>
      simp only [h, strBytes_empty]
      by_cases hp : u.params = [] <;> simp [hp, Except.map, SetupView.nbp6]

/-! ## netmask

The Go code builds the mask from the first four bytes of the To4() result, `net.IPv4Mask(ip[0], ip[1],
ip[2], ip[3])`, and the generated text says so (`ipv4Mask (byteAt b 0) …`); the model checks and keeps the
To4() bytes as the oracle gives them.  The two agree when To4() is four bytes long — which `net.IP.To4`
guarantees and `ArgOracle.wf` records — and differ on an ill-formed oracle (`GEN_setup_netmask4_needs_len`). -/

/-- the To4() of the (only) argument's literal is four bytes long -/
def SetupView.To4Len (args : List ArgOracle) : Prop :=
  ∀ a ∈ args, ∀ i b, a.ip = some i → i.to4 = some b → b.length = 4

theorem SetupView.to4Len_of_wf (args : List ArgOracle) (hwf : ∀ a ∈ args, a.wf = true) : SetupView.To4Len args :=
  fun a ha i b hi hb => to4_len i b (wf_ip a i (hwf a ha) hi) hb

theorem ipv4Mask_bytes (b : Bytes) (h : b.length = 4) :
    GenSetup.ipv4Mask (GenSetup.byteAt b 0) (GenSetup.byteAt b 1) (GenSetup.byteAt b 2) (GenSetup.byteAt b 3) = b := by
  match b, h with
  | [_, _, _, _], _ => rfl

theorem GEN_setup_netmask4_eq (args : List ArgOracle) (h4 : SetupView.To4Len args) :
    (GenSetup.netmask4 args).mapError (fun _ => ()) = Plug.netmask.setup args := by
  unfold GenSetup.netmask4 Plug.netmask.setup single
  match args, h4 with
  | [], _ => rfl
  | a :: b :: rest, _ => simp
  | [a], h4 =>
    simp only [GenSetup.arg, List.length_cons, List.length_nil, List.getD_cons_zero]
    cases hi : a.ip with
    | none => simp [GenSetup.ipIsUnspecified, GenSetup.ipTo4]
    | some ip =>
      by_cases hu : ip.isUnspecified = true
      · simp [GenSetup.ipIsUnspecified, hu]
      · cases ht : ip.to4 with
        | none => simp [GenSetup.ipIsUnspecified, hu, GenSetup.ipTo4, ht]
        | some m =>
          have hl := h4 a (List.mem_singleton.mpr rfl) ip m hi ht
          simp only [GenSetup.ipIsUnspecified, hu, GenSetup.ipTo4, ht, Option.bind_some, ipv4Mask_bytes m hl]
          by_cases hc : netmask.checkValid m = true <;> simp [hc]

theorem GEN_setup_netmask4_eq_wf (args : List ArgOracle) (hwf : ∀ a ∈ args, a.wf = true) :
    (GenSetup.netmask4 args).mapError (fun _ => ()) = Plug.netmask.setup args :=
  GEN_setup_netmask4_eq args (SetupView.to4Len_of_wf args hwf)

/-- outside the hypothesis: an oracle whose "To4()" is the two bytes 255.0 — the code pads to 255.0.0.0 (a
valid mask), the model checks the two bytes as they are (not a mask) -/
theorem GEN_setup_netmask4_needs_len :
    (GenSetup.netmask4 [{ raw := [], ip := some (.v4 [255, 0]) }]).mapError (fun _ => ()) = .ok [255, 0, 0, 0] ∧
    Plug.netmask.setup [{ raw := [], ip := some (.v4 [255, 0]) }] = .error () := by
  constructor <;> rfl

/-! ## the loops over the arguments: router, dns, staticroute

The Go set-ups keep what the standard library returned (`[]net.IP`, `*dhcpv4.Route` with an `*net.IPNet`); the
model keeps what the handlers put on the wire (To4 / To16 bytes, the RFC 3442 triple).  `SetupView.ips4`,
`ips16`, `route` are that step, written after the library's encoders: `dhcpv4.IPs.ToBytes` writes `ip.To4()` of
every element (nothing for nil), `dhcpv6.optDNS.ToBytes` writes `ip.To16()`, `dhcpv4.Route.Marshal` writes the
prefix length, `Dest.IP.To4()` and `Router.To4()`. -/

namespace SetupView
def ips4 (l : List (Option IpLit)) : List Bytes := l.map (fun ip => (GenSetup.ipTo4 ip).getD [])
def ips16 (l : List (Option IpLit)) : List Bytes := l.map (fun ip => (GenSetup.ipTo16 ip).getD [])
def route (r : GenSetup.Route) : Plug.Route :=
  ⟨(cidrTo4 r.dest.ip).getD [], r.dest.ones, (GenSetup.ipTo4 r.router).getD []⟩
def routes (l : List GenSetup.Route) : List Plug.Route := l.map route

/-- a loop `for _, x := range xs { v := f(x); if v is bad { return error }; acc = append(acc, g(x)) }`, seen
through a view `w` of the accumulated list: it fails where `allSome f` does, and appends the views -/
theorem forEach_allSome {σ α β : Type} (body : List σ → α → Except GenSetup.Err (List σ)) (f : α → Option β)
    (g : α → σ) (w : σ → β)
    (hbad : ∀ acc x, f x = none → ∃ e, body acc x = .error e)
    (hgood : ∀ acc x b, f x = some b → body acc x = .ok (acc ++ [g x]) ∧ w (g x) = b) :
    ∀ (xs : List α) (init : List σ),
      ((GenSetup.forEach body init xs).mapError (fun _ => ())).map (List.map w) =
        match allSome f xs with
        | some l => .ok (init.map w ++ l)
        | none => .error ()
  | [], init => by simp [GenSetup.forEach, allSome, Except.map]
  | x :: xs, init => by
    cases hf : f x with
    | none =>
      obtain ⟨e, he⟩ := hbad init x hf
      simp [GenSetup.forEach, he, allSome, hf, Except.map]
    | some b =>
      obtain ⟨hb, hw⟩ := hgood init x b hf
      have ih := forEach_allSome body f g w hbad hgood xs (init ++ [g x])
      simp only [GenSetup.forEach, hb, allSome, hf]
      rw [ih]
      cases allSome f xs with
      | none => rfl
      | some l => simp [hw]
end SetupView

theorem length_lt_one {α : Type} (l : List α) : l.length < 1 ↔ l = [] := by
  cases l <;> simp

/-- what the three set-ups have in common after their loop -/
theorem loop_then_ok {σ : Type} (r : Except GenSetup.Err σ) :
    (match r with | .error e => .error e | .ok l1 => .ok l1) = r := by
  cases r <;> rfl

theorem GEN_setup_router4_eq (args : List ArgOracle) :
    ((GenSetup.router4 args).mapError (fun _ => ())).map SetupView.ips4 = Plug.router.setup args := by
  unfold GenSetup.router4 GenSetup.router4From Plug.router.setup Plug.dns4.setup
  by_cases h : args = []
  · subst h; rfl
  · have hl : ¬ args.length < 1 := fun hl => h ((length_lt_one args).mp hl)
    simp only [if_neg hl, if_neg h, loop_then_ok]
    have := SetupView.forEach_allSome GenSetup.router4_loop1 (fun a => a.ip.bind IpLit.to4) (fun a => a.ip)
      (fun ip => (GenSetup.ipTo4 ip).getD [])
      (fun acc x hx => ⟨_, by simp [GenSetup.router4_loop1, GenSetup.ipTo4, hx]; rfl⟩)
      (fun acc x b hx => ⟨by simp [GenSetup.router4_loop1, GenSetup.ipTo4, hx], by simp [GenSetup.ipTo4, hx]⟩)
      args []
    generalize GenSetup.forEach GenSetup.router4_loop1 [] args = r at this ⊢
    cases hs : allSome (fun a => a.ip.bind IpLit.to4) args <;> simp only [hs] at this ⊢ <;> cases r <;> simpa [SetupView.ips4, Except.map] using this

theorem GEN_setup_dns4_eq (args : List ArgOracle) :
    ((GenSetup.dns4 args).mapError (fun _ => ())).map SetupView.ips4 = Plug.dns4.setup args := by
  unfold GenSetup.dns4 GenSetup.dns4From Plug.dns4.setup
  by_cases h : args = []
  · subst h; rfl
  · have hl : ¬ args.length < 1 := fun hl => h ((length_lt_one args).mp hl)
    simp only [if_neg hl, if_neg h, loop_then_ok]
    have := SetupView.forEach_allSome GenSetup.dns4_loop1 (fun a => a.ip.bind IpLit.to4) (fun a => a.ip)
      (fun ip => (GenSetup.ipTo4 ip).getD [])
      (fun acc x hx => ⟨_, by simp [GenSetup.dns4_loop1, GenSetup.ipTo4, hx]; rfl⟩)
      (fun acc x b hx => ⟨by simp [GenSetup.dns4_loop1, GenSetup.ipTo4, hx], by simp [GenSetup.ipTo4, hx]⟩)
      args []
    generalize GenSetup.forEach GenSetup.dns4_loop1 [] args = r at this ⊢
    cases hs : allSome (fun a => a.ip.bind IpLit.to4) args <;> simp only [hs] at this ⊢ <;> cases r <;> simpa [SetupView.ips4, Except.map] using this

/-- `server.To16() == nil` holds for nil only: every literal net.ParseIP accepts has a To16() -/
theorem GEN_setup_dns6_eq (args : List ArgOracle) :
    ((GenSetup.dns6 args).mapError (fun _ => ())).map SetupView.ips16 = Plug.dns6.setup args := by
  unfold GenSetup.dns6 GenSetup.dns6From Plug.dns6.setup
  by_cases h : args = []
  · subst h; rfl
  · have hl : ¬ args.length < 1 := fun hl => h ((length_lt_one args).mp hl)
    simp only [if_neg hl, if_neg h, loop_then_ok]
    have := SetupView.forEach_allSome GenSetup.dns6_loop1 (fun a => a.ip.map IpLit.to16) (fun a => a.ip)
      (fun ip => (GenSetup.ipTo16 ip).getD [])
      (fun acc x hx => ⟨_, by simp [GenSetup.dns6_loop1, GenSetup.ipTo16, hx]; rfl⟩)
      (fun acc x b hx => ⟨by simp [GenSetup.dns6_loop1, GenSetup.ipTo16, hx], by simp [GenSetup.ipTo16, hx]⟩)
      args []
    generalize GenSetup.forEach GenSetup.dns6_loop1 [] args = r at this ⊢
    cases hs : allSome (fun a => a.ip.map IpLit.to16) args <;> simp only [hs] at this ⊢ <;> cases r <;> simpa [SetupView.ips16, Except.map] using this

/-- one round of staticroute's loop against the model's `route`: both refuse, or the code appends the pair
(network, gateway) whose wire view is the model's route -/
theorem staticroute_loop_spec (acc : List GenSetup.Route) (x : ArgOracle) :
    (staticroute.route x = none ∧ ∃ e, GenSetup.staticroute4_loop1 acc x = .error e) ∨
    (∃ c, x.sr.cidr = some c ∧
      GenSetup.staticroute4_loop1 acc x = .ok (acc ++ [{ dest := c, router := x.sr.router }]) ∧
      staticroute.route x = some (SetupView.route { dest := c, router := x.sr.router })) := by
  unfold GenSetup.staticroute4_loop1 staticroute.route
  by_cases hf : x.sr.fields = 2
  · cases hc : x.sr.cidr with
    | none => left; simp [hf]
    | some c =>
      cases hd : cidrTo4 c.ip with
      | none => left; simp [hf, hd]
      | some d =>
        by_cases hb : c.bits = 32
        · cases hr : x.sr.router with
          | none => left; simp [hf, hd, hb]
          | some rr =>
            cases ht : rr.to4 with
            | none => left; simp [hf, hd, hb, GenSetup.ipTo4, ht]
            | some g =>
              right
              refine ⟨c, rfl, ?_, ?_⟩ <;> simp [hf, hd, hb, GenSetup.ipTo4, ht, SetupView.route]
        · left; simp [hf, hd, hb]
  · left; simp [hf]

theorem GEN_setup_staticroute4_eq (args : List ArgOracle) :
    ((GenSetup.staticroute4 args).mapError (fun _ => ())).map SetupView.routes = Plug.staticroute.setup args := by
  unfold GenSetup.staticroute4 Plug.staticroute.setup
  by_cases h : args = []
  · subst h; rfl
  · have hl : ¬ args.length < 1 := fun hl => h ((length_lt_one args).mp hl)
    simp only [if_neg hl, if_neg h]
    have := SetupView.forEach_allSome GenSetup.staticroute4_loop1 staticroute.route
      (fun a => { dest := a.sr.cidr.getD ⟨[], 0, 0⟩, router := a.sr.router }) SetupView.route
      (fun acc x hx => by
        rcases staticroute_loop_spec acc x with ⟨_, he⟩ | ⟨c, _, _, hr⟩
        · exact he
        · rw [hx] at hr; cases hr)
      (fun acc x b hx => by
        rcases staticroute_loop_spec acc x with ⟨hn, _⟩ | ⟨c, hc, hb, hr⟩
        · rw [hx] at hn; cases hn
        · rw [hx] at hr
          simp only [hc, Option.getD_some]
          exact ⟨hb, (Option.some.inj hr).symm⟩)
      args []
    generalize GenSetup.forEach GenSetup.staticroute4_loop1 [] args = r at this ⊢
    cases hs : allSome staticroute.route args <;> simp only [hs] at this ⊢ <;> cases r <;>
      simpa [SetupView.routes, Except.map] using this

/-! ## searchdomains: `checkDomains`, two nested loops without state -/

namespace SetupView
def okB {ε α : Type} : Except ε α → Bool
  | .ok _ => true
  | .error _ => false

/-- a loop that only checks: it succeeds exactly when every round does -/
theorem forEach_check {α : Type} (body : Unit → α → Except GenSetup.Err Unit) (p : α → Bool)
    (h : ∀ x, okB (body () x) = p x) : ∀ xs : List α, okB (GenSetup.forEach body () xs) = xs.all p
  | [] => rfl
  | x :: xs => by
    have hx := h x
    simp only [GenSetup.forEach, List.all_cons]
    cases hb : body () x with
    | error e => rw [hb] at hx; simp only [okB] at hx; simp [okB, ← hx]
    | ok u => rw [hb] at hx; simp only [okB] at hx; simp [← hx, forEach_check body p h xs]
end SetupView

theorem checkDomains_label (x : Bytes) :
    okB (GenSetup.searchdomains_checkDomains_loop2 () x) = (decide (1 ≤ x.length) && decide (x.length ≤ 63)) := by
  unfold GenSetup.searchdomains_checkDomains_loop2
  by_cases h : x.length = 0 ∨ x.length > 63
  · rw [if_pos h]; rcases h with h | h <;> simp [okB] <;> omega
  · rw [if_neg h]; simp [okB]; omega

theorem checkDomains_domain (x : Bytes) :
    okB (GenSetup.searchdomains_checkDomains_loop1 () x) = domainOK x := by
  unfold GenSetup.searchdomains_checkDomains_loop1 domainOK
  have hl := SetupView.forEach_check GenSetup.searchdomains_checkDomains_loop2 _ checkDomains_label (splitOn 46 x)
  by_cases h : x.length > 253
  · rw [if_pos h]; simp [okB]; omega
  · rw [if_neg h]
    have h' : decide (x.length ≤ 253) = true := by simp; omega
    rw [h', Bool.true_and, ← hl]
    cases GenSetup.forEach GenSetup.searchdomains_checkDomains_loop2 () (splitOn 46 x) <;> rfl

theorem checkDomains_eq (names : List Bytes) :
    okB (GenSetup.searchdomains_checkDomains names) = names.all domainOK := by
  unfold GenSetup.searchdomains_checkDomains
  rw [← SetupView.forEach_check GenSetup.searchdomains_checkDomains_loop1 _ checkDomains_domain names]
  cases GenSetup.forEach GenSetup.searchdomains_checkDomains_loop1 () names <;> rfl

theorem GEN_setup_searchdomains4_eq (args : List ArgOracle) :
    (GenSetup.searchdomains4 args).mapError (fun _ => ()) = Plug.search.setup args := by
  unfold GenSetup.searchdomains4 Plug.search.setup
  have h := checkDomains_eq (GenSetup.rawArgs args)
  rw [show (GenSetup.rawArgs args).all domainOK = args.all (fun a => domainOK a.raw) by
    simp [GenSetup.rawArgs, List.all_map]; rfl] at h
  cases hc : GenSetup.searchdomains_checkDomains (GenSetup.rawArgs args) <;> rw [hc] at h <;>
    simp [okB] at h <;> simp [h, GenSetup.rawArgs] <;> intro a ha <;> simpa using h a ha

theorem GEN_setup_searchdomains6_eq (args : List ArgOracle) :
    (GenSetup.searchdomains6 args).mapError (fun _ => ()) = Plug.search.setup args :=
  GEN_setup_searchdomains4_eq args

/-! ## not in the model: a second set-up in the same process

The model's `setup` is a function of the arguments alone.  The Go set-ups keep their configuration in
package-level variables, and five of them read a variable they have not (or not yet) written: the generated
`…From` definitions take that value as `init`.  With the zero value (`router4`, … above: the first set-up of a
process) they are the model; with anything else they are not: -/

/-- router (dns likewise): a second set-up APPENDS to the routers of the first -/
theorem GEN_setup_router4_accumulates (init : List (Option IpLit)) (args : List ArgOracle) :
    ((GenSetup.router4From init args).mapError (fun _ => ())).map SetupView.ips4 =
      (Plug.router.setup args).map (SetupView.ips4 init ++ ·) := by
  unfold GenSetup.router4From Plug.router.setup Plug.dns4.setup
  by_cases h : args = []
  · subst h; rfl
  · have hl : ¬ args.length < 1 := fun hl => h ((length_lt_one args).mp hl)
    simp only [if_neg hl, if_neg h]
    have := SetupView.forEach_allSome GenSetup.router4_loop1 (fun a => a.ip.bind IpLit.to4) (fun a => a.ip)
      (fun ip => (GenSetup.ipTo4 ip).getD [])
      (fun acc x hx => ⟨_, by simp [GenSetup.router4_loop1, GenSetup.ipTo4, hx]; rfl⟩)
      (fun acc x b hx => ⟨by simp [GenSetup.router4_loop1, GenSetup.ipTo4, hx], by simp [GenSetup.ipTo4, hx]⟩)
      args init
    generalize GenSetup.forEach GenSetup.router4_loop1 init args = r at this ⊢
    cases hs : allSome (fun a => a.ip.bind IpLit.to4) args <;> simp only [hs] at this ⊢ <;> cases r <;>
      simpa [SetupView.ips4, Except.map] using this

/-- ipv6only (autoconfigure likewise): without argument the value of an earlier set-up stays, the model says 0 -/
theorem GEN_setup_ipv6only4_keeps (d : Int) : GenSetup.ipv6only4From d [] = .ok d := rfl

theorem GEN_setup_autoconfigure4_keeps (v : Nat) : GenSetup.autoconfigure4From v [] = .ok v := rfl

/-- nbp, DHCPv4: an http / https / ftp URL leaves `opt66` as an earlier set-up (a TFTP URL) made it -/
theorem GEN_setup_nbp4_keeps66 (p66 p67 : Option (Nat × Bytes)) (a : ArgOracle) (u : UrlOracle)
    (hu : a.url = some u) (hs : u.scheme = strBytes "http") :
    GenSetup.nbp4From p66 p67 [a] = .ok (p66, some (67, u.str)) := by
  unfold GenSetup.nbp4From
  rw [nbp_parseArgs_eq]
  simp [single, hu, hs]

/-- nbp, DHCPv6: a URL without `params` leaves `opt60` as it was -/
theorem GEN_setup_nbp6_keeps60 (p59 p60 : Option (Nat × Bytes)) (a : ArgOracle) (u : UrlOracle)
    (hu : a.url = some u) (hp : u.params = []) :
    GenSetup.nbp6From p59 p60 [a] = .ok (some (59, u.str), p60) := by
  unfold GenSetup.nbp6From
  rw [nbp_parseArgs_eq]
  simp [single, hu, hp, strBytes_empty]

end CoreDhcp
