/-
C17 — Each option plugin adds exactly the configured value, once, in correct wire encoding, under
the condition the property names; ipv6only and autoconfigure stop / drop as stated.
Property theorems only (proofs in Proofs/OptPlug.lean). `C17.holds4` / `C17.holds6` are the
predicates the driver evaluates on the implementation; here they are proved of the model, for
every configuration, request view and response.
-/
import CoreDhcp.Proofs.OptPlug
namespace CoreDhcp
open Plug

/-! ### unconditionally: netmask, router, search domains, static routes -/

theorem C17_netmask4 (m : netmask.Cfg) (req : ReqView4) (pre : Resp4) :
    C17.holds4 (.netmask m) req pre (netmask.handle m req pre) = true := c17_netmask m req pre

theorem C17_router4 (c : router.Cfg) (req : ReqView4) (pre : Resp4) :
    C17.holds4 (.router c) req pre (router.handle c req pre) = true := c17_router c req pre

theorem C17_searchdomains4 (c : search.Cfg) (req : ReqView4) (pre : Resp4) :
    C17.holds4 (.search c) req pre (search.handle4 c req pre) = true := c17_search4 c req pre

/-- for every DHCPv6 response holding at most one domain search list already -/
theorem C17_searchdomains6 (c : search.Cfg) (req : ReqView6) (pre : Resp6) (hd : C17.dom6 (.search c) req pre = true) :
    C17.holds6 (.search c) req pre (search.handle6 c req pre) = true := c17_search6 c req pre hd

/-- an accepted configuration has at least one route, so option 121 is always sent -/
theorem C17_staticroute4 (args : List ArgOracle) (c : staticroute.Cfg) (hs : staticroute.setup args = .ok c)
    (req : ReqView4) (pre : Resp4) :
    C17.holds4 (.staticroute c) req pre (staticroute.handle c req pre) = true := c17_staticroute args c hs req pre

/-! ### only when the request list asks for them (or, DHCPv4, is absent): DNS, MTU, boot file -/

theorem C17_dns4 (c : dns4.Cfg) (req : ReqView4) (pre : Resp4) :
    C17.holds4 (.dns c) req pre (dns4.handle c req pre) = true := c17_dns4 c req pre

theorem C17_dns6 (c : dns6.Cfg) (req : ReqView6) (pre : Resp6) (hd : C17.dom6 (.dns c) req pre = true) :
    C17.holds6 (.dns c) req pre (dns6.handle c req pre) = true := c17_dns6 c req pre hd

theorem C17_mtu4 (c : mtu.Cfg) (req : ReqView4) (pre : Resp4) :
    C17.holds4 (.mtu c) req pre (mtu.handle c req pre) = true := c17_mtu c req pre

/-- TFTP server name and boot file name; the plugin ends the chain in every case -/
theorem C17_nbp4 (c : nbp4.Cfg) (req : ReqView4) (pre : Resp4) :
    C17.holds4 (.nbp c) req pre (nbp4.handle c req pre) = true := c17_nbp4 c req pre

/-- Boot file URL, and its parameters (RFC 5970 encoding) only when configured — for responses
without boot file options yet and option request lists naming each code at most once
(`C17.dom6`); the plugin appends, it does not replace. -/
theorem C17_nbp6 (c : nbp6.Cfg) (req : ReqView6) (pre : Resp6) (hd : C17.dom6 (.nbp c) req pre = true) :
    C17.holds6 (.nbp c) req pre (nbp6.handle c req pre) = true := c17_nbp6 c req pre hd

/-! ### lease time only when none is set yet; ipv6only; autoconfigure; sleep -/

theorem C17_leasetime4 (c : leasetime.Cfg) (req : ReqView4) (pre : Resp4) :
    C17.holds4 (.leasetime c) req pre (leasetime.handle c req pre) = true := c17_leasetime c req pre

/-- option 108 and a stopped chain (yiaddr untouched) for clients listing 108 explicitly; nothing
for all others, in particular for clients without a parameter request list -/
theorem C17_ipv6only4 (c : ipv6only.Cfg) (req : ReqView4) (pre : Resp4) :
    C17.holds4 (.ipv6only c) req pre (ipv6only.handle c req pre) = true := c17_ipv6only c req pre

/-- an address-less OFFER is answered (option 116 = configured value) for clients that sent
option 116 and dropped for the others; everything else passes unchanged -/
theorem C17_autoconfigure4 (c : autoconfigure.Cfg) (req : ReqView4) (pre : Resp4) :
    C17.holds4 (.autoconfigure c) req pre (autoconfigure.handle c req pre) = true := c17_autoconfigure c req pre

theorem C17_sleep4 (c : sleep.Cfg) (req : ReqView4) (pre : Resp4) :
    C17.holds4 (.sleep c) req pre (sleep.handle4 c req pre) = true := c17_sleep4 c req pre

theorem C17_sleep6 (c : sleep.Cfg) (req : ReqView6) (pre : Resp6) :
    C17.holds6 (.sleep c) req pre (sleep.handle6 c req pre) = true := c17_sleep6 c req pre

/-! ### every built-in plugin, every accepted argument vector -/

theorem C17_builtin4 (name : String) (args : List ArgOracle) (cfg : Cfg4) (req : ReqView4) (pre : Resp4)
    (h : plugSetup4 name args = some (.ok cfg)) : C17.holds4 cfg req pre (plugHandle4 cfg req pre) = true :=
  c17_builtin4 name args cfg req pre h

theorem C17_builtin6 (name : String) (args : List ArgOracle) (cfg : Cfg6) (req : ReqView6) (pre : Resp6)
    (h : plugSetup6 name args = some (.ok cfg)) (hd : C17.dom6 cfg req pre = true) :
    C17.holds6 cfg req pre (plugHandle6 cfg req pre) = true := c17_builtin6 name args cfg req pre h hd

/-! ### "exactly the configured value": numbers (MTU, lease time, V6ONLY_WAIT)

D22–D24 (repaired by three `fix:` commits): the set-ups of mtu, lease_time and ipv6only accepted every
number the standard library parses, and the handlers sent it modulo 2^16 / 2^32 — an accepted
configuration for which the plugin did NOT add the configured value. The two theorems below had the
range as a hypothesis ("outside the quantifier of C17"): that reading was too lenient, the property
says every ACCEPTED configuration. Now the set-ups test the range, and the range is a consequence of
acceptance (`C17_*_accepted_in_range`); the per-plugin statements `C17_*4_accepted` have no range
hypothesis left. -/

/-- an MTU of 0..65535 is sent as that number -/
theorem C17_inrange_mtu (n : Int) (h0 : 0 ≤ n) (h1 : n ≤ 65535) : decBe 2 (encU16 n) = some n.toNat :=
  decBe_encU16 n h0 h1

/-- a duration of 0 to 2^32-1 seconds is sent as its whole seconds -/
theorem C17_inrange_seconds (d : Int) (h0 : 0 ≤ d) (h1 : d < 4294967296 * 1000000000) :
    decBe 4 (encSecs d) = some (d / 1000000000).toNat := decBe_encSecs d h0 h1

/-- what mtu's set-up accepts is 0..65535 -/
theorem C17_mtu_accepted_in_range (args : List ArgOracle) (n : Int) (h : mtu.setup args = .ok n) :
    0 ≤ n ∧ n ≤ 65535 := mtu_accepted args n h

/-- what lease_time's set-up accepts is a duration of 0 to 2^32-1 seconds (nanoseconds; exactly 2^32-1
seconds is the last one accepted, so the whole seconds are < 2^32) -/
theorem C17_leasetime_accepted_in_range (args : List ArgOracle) (d : Int) (h : leasetime.setup args = .ok d) :
    0 ≤ d ∧ d ≤ 4294967295 * 1000000000 := leasetime_accepted args d h

/-- what ipv6only's set-up accepts is a wait of 0 to 2^32-1 seconds (0 without argument) -/
theorem C17_ipv6only_accepted_in_range (args : List ArgOracle) (d : Int) (h : ipv6only.setup args = .ok d) :
    0 ≤ d ∧ d ≤ 4294967295 * 1000000000 := ipv6only_accepted args d h

/-- every configuration a built-in DHCPv4 plugin accepts holds numbers that fit the field they are sent in -/
theorem C17_accepted_in_range (name : String) (args : List ArgOracle) (cfg : Cfg4)
    (h : plugSetup4 name args = some (.ok cfg)) : C17.inRange4 cfg = true := accepted_inRange4 name args cfg h

/-- … and so what a client decodes from the option is the configured number (`C17.exact4`: the MTU; the
whole seconds of a duration) — for EVERY accepted configuration, no range hypothesis -/
theorem C17_accepted_exact (name : String) (args : List ArgOracle) (cfg : Cfg4)
    (h : plugSetup4 name args = some (.ok cfg)) : C17.exact4 cfg = true :=
  exact_of_inRange4 cfg (accepted_inRange4 name args cfg h)

/-- the range is exactly what "announced as itself" needs: a number outside it is never what a client reads -/
theorem C17_exact_iff_in_range (cfg : Cfg4) : C17.exact4 cfg = true ↔ C17.inRange4 cfg = true :=
  ⟨inRange_of_exact4 cfg, exact_of_inRange4 cfg⟩

/-- mtu, for every ACCEPTED configuration: option 26 is added exactly when asked for (or no list), nothing
else is touched, and its two bytes read back as the configured MTU -/
theorem C17_mtu4_accepted (args : List ArgOracle) (c : mtu.Cfg) (hs : mtu.setup args = .ok c)
    (req : ReqView4) (pre : Resp4) :
    C17.holds4 (.mtu c) req pre (mtu.handle c req pre) = true ∧
    (decBe 2 (encU16 c)).map Int.ofNat = some c := by
  have hr := mtu_accepted args c hs
  have he := exact_of_inRange4 (.mtu c) (inRange_mtu c hr)
  simp only [C17.exact4, beq_iff_eq] at he
  exact ⟨c17_mtu c req pre, he⟩

/-- lease_time, for every ACCEPTED configuration: option 51 is added when no lease time is set yet, and
its four bytes read back as the configured duration cut to whole seconds (parts of a second are
accepted and not sent: the option has no room for them) -/
theorem C17_leasetime4_accepted (args : List ArgOracle) (c : leasetime.Cfg) (hs : leasetime.setup args = .ok c)
    (req : ReqView4) (pre : Resp4) :
    C17.holds4 (.leasetime c) req pre (leasetime.handle c req pre) = true ∧
    (decBe 4 (encSecs c)).map Int.ofNat = some (c / 1000000000) := by
  have hr := leasetime_accepted args c hs
  have he := exact_of_inRange4 (.leasetime c) (inRange_leasetime c hr)
  simp only [C17.exact4, beq_iff_eq] at he
  exact ⟨c17_leasetime c req pre, he⟩

/-- ipv6only, for every ACCEPTED configuration: option 108 and a stopped chain for clients listing it, and
its four bytes read back as the configured V6ONLY_WAIT cut to whole seconds -/
theorem C17_ipv6only4_accepted (args : List ArgOracle) (c : ipv6only.Cfg) (hs : ipv6only.setup args = .ok c)
    (req : ReqView4) (pre : Resp4) :
    C17.holds4 (.ipv6only c) req pre (ipv6only.handle c req pre) = true ∧
    (decBe 4 (encSecs c)).map Int.ofNat = some (c / 1000000000) := by
  have hr := ipv6only_accepted args c hs
  have he := exact_of_inRange4 (.ipv6only c) (inRange_ipv6only c hr)
  simp only [C17.exact4, beq_iff_eq] at he
  exact ⟨c17_ipv6only c req pre, he⟩

/-- D22: `mtu 70000` was accepted and announced as 4464; `mtu -1` as 65535. Now both are refused. -/
theorem C17_D22_mtu_refuted :
    let a : ArgOracle := { raw := strBytes "70000", int := some 70000 }
    let b : ArgOracle := { raw := strBytes "-1", int := some (-1) }
    mtu.setupOld [a] = .ok 70000 ∧ decBe 2 (encU16 70000) = some 4464 ∧ C17.exact4 (.mtu 70000) = false ∧
    mtu.setupOld [b] = .ok (-1) ∧ decBe 2 (encU16 (-1)) = some 65535 ∧ C17.exact4 (.mtu (-1)) = false ∧
    mtu.setup [a] = .error () ∧ mtu.setup [b] = .error () := by
  refine ⟨rfl, ?_, ?_, rfl, ?_, ?_, rfl, rfl⟩ <;> decide +kernel

/-- D23: `lease_time -1h` was accepted and announced as 4294963696 s, `lease_time 1193047h` as 1904 s.
Now both are refused. -/
theorem C17_D23_leasetime_refuted :
    let a : ArgOracle := { raw := strBytes "-1h", dur := some (-3600000000000) }
    let b : ArgOracle := { raw := strBytes "1193047h", dur := some 4294969200000000000 }
    leasetime.setupOld [a] = .ok (-3600000000000) ∧ decBe 4 (encSecs (-3600000000000)) = some 4294963696 ∧
    C17.exact4 (.leasetime (-3600000000000)) = false ∧
    leasetime.setupOld [b] = .ok 4294969200000000000 ∧ decBe 4 (encSecs 4294969200000000000) = some 1904 ∧
    C17.exact4 (.leasetime 4294969200000000000) = false ∧
    leasetime.setup [a] = .error () ∧ leasetime.setup [b] = .error () := by
  refine ⟨rfl, ?_, ?_, rfl, ?_, ?_, rfl, rfl⟩ <;> decide +kernel

/-- D24: `ipv6only -1s` was accepted and told the clients to wait 4294967295 s. Now it is refused. -/
theorem C17_D24_ipv6only_refuted :
    let a : ArgOracle := { raw := strBytes "-1s", dur := some (-1000000000) }
    let b : ArgOracle := { raw := strBytes "4294967296s", dur := some 4294967296000000000 }
    ipv6only.setupOld [a] = .ok (-1000000000) ∧ decBe 4 (encSecs (-1000000000)) = some 4294967295 ∧
    C17.exact4 (.ipv6only (-1000000000)) = false ∧
    ipv6only.setupOld [b] = .ok 4294967296000000000 ∧ decBe 4 (encSecs 4294967296000000000) = some 0 ∧
    C17.exact4 (.ipv6only 4294967296000000000) = false ∧
    ipv6only.setup [a] = .error () ∧ ipv6only.setup [b] = .error () := by
  refine ⟨rfl, ?_, ?_, rfl, ?_, ?_, rfl, rfl⟩ <;> decide +kernel

/-- the boundaries: 0 and 65535, 0 s and 2^32-1 s are accepted; a part of a second is accepted and cut
(1500 ms is announced as 1 s); -100 ms — which the library would have sent as 0 — is refused -/
example : mtu.setup [{ raw := [], int := some 0 }] = .ok 0 ∧ mtu.setup [{ raw := [], int := some 65535 }] = .ok 65535 ∧
    mtu.setup [{ raw := [], int := some 65536 }] = .error () := ⟨rfl, rfl, rfl⟩
example : leasetime.setup [{ raw := [], dur := some 0 }] = .ok 0 ∧
    leasetime.setup [{ raw := [], dur := some 4294967295000000000 }] = .ok 4294967295000000000 ∧
    leasetime.setup [{ raw := [], dur := some 4294967295000000001 }] = .error () ∧
    leasetime.setup [{ raw := [], dur := some 1500000000 }] = .ok 1500000000 ∧ decBe 4 (encSecs 1500000000) = some 1 ∧
    leasetime.setup [{ raw := [], dur := some (-100000000) }] = .error () ∧
    leasetime.setupOld [{ raw := [], dur := some (-100000000) }] = .ok (-100000000) ∧ decBe 4 (encSecs (-100000000)) = some 0 :=
  ⟨rfl, rfl, rfl, rfl, by decide +kernel, rfl, rfl, by decide +kernel⟩
example : ipv6only.setup [] = .ok 0 ∧ ipv6only.setup [{ raw := [], dur := some 4294967295000000000 }] = .ok 4294967295000000000 ∧
    ipv6only.setup [{ raw := [], dur := some (-100000000) }] = .error () ∧
    ipv6only.setup [{ raw := [], dur := some (-1000000000) }, { raw := [] }] = .error () := ⟨rfl, rfl, rfl, rfl⟩

/-! ### D17 -/

/-- D17 (repaired by a `fix:` commit): the DHCPv6 nbp handler as it was put the raw `params`
string into option 60. For `…?params=p1` and a client asking for option 60 the reply carried
`60:7031`, which is not a list of length-prefixed parameters (it does not even parse), and C17
fails; the repaired handler sends `60:00027031`. The same exchange is in the conformance corpus. -/
theorem C17_D17_prefix_refuted :
    let cfg : nbp6.Cfg := ⟨[116], some [112, 49]⟩
    let req : ReqView6 := ⟨0, 1, [(1, [254]), (6, [0, 60])]⟩
    let pre : Resp6 := ⟨2, [(1, [254])]⟩
    nbp6.setup [{ raw := [116], url := some ⟨[], [], [116], [116], [112, 49]⟩ }] = .ok cfg ∧
    C17.dom6 (.nbp cfg) req pre = true ∧
    nbp6HandlePreFix cfg req pre = (some ⟨2, [(1, [254]), (60, [112, 49])]⟩, true) ∧
    decodeBootParams [112, 49] = none ∧
    C17.holds6 (.nbp cfg) req pre (nbp6HandlePreFix cfg req pre) = false ∧
    C17.holds6 (.nbp cfg) req pre (nbp6.handle cfg req pre) = true := c17_D17

/-- non-vacuity: a DISCOVER without parameter request list gets the DNS servers, one that lists
only the router option does not -/
example : dns4.handle [[8, 8, 8, 8]] ⟨1, 1, [0, 0, 0, 0], [0, 0, 0, 0], [(53, [1])]⟩ ⟨2, [0, 0, 0, 0], [0, 0, 0, 0], [(53, [2])]⟩ =
    (some ⟨2, [0, 0, 0, 0], [0, 0, 0, 0], [(6, [8, 8, 8, 8]), (53, [2])]⟩, false) := by decide
example : dns4.handle [[8, 8, 8, 8]] ⟨1, 1, [0, 0, 0, 0], [0, 0, 0, 0], [(53, [1]), (55, [3])]⟩ ⟨2, [0, 0, 0, 0], [0, 0, 0, 0], [(53, [2])]⟩ =
    (some ⟨2, [0, 0, 0, 0], [0, 0, 0, 0], [(53, [2])]⟩, false) := by decide

end CoreDhcp
