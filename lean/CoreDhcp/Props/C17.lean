/-
C17 — Each option plugin adds exactly the configured value, once, in correct wire encoding, under
the condition the property names; ipv6only and autoconfigure stop / drop as stated.
Property theorems only (proofs in Proofs/OptPlug.lean). `C17.holds4` / `C17.holds6` are the
predicates the driver evaluates on the implementation; here they are proved of the model, for
every configuration, request view and response.
-/
import CoreDhcp.Proofs.OptPlug
namespace CoreDhcp
open Plug

/-! ### unconditionally: netmask, router, search domains, static routes -/

theorem C17_netmask4 (m : netmask.Cfg) (req : ReqView4) (pre : Resp4) :
    C17.holds4 (.netmask m) req pre (netmask.handle m req pre) = true := c17_netmask m req pre

theorem C17_router4 (c : router.Cfg) (req : ReqView4) (pre : Resp4) :
    C17.holds4 (.router c) req pre (router.handle c req pre) = true := c17_router c req pre

theorem C17_searchdomains4 (c : search.Cfg) (req : ReqView4) (pre : Resp4) :
    C17.holds4 (.search c) req pre (search.handle4 c req pre) = true := c17_search4 c req pre

/-- for every DHCPv6 response holding at most one domain search list already -/
theorem C17_searchdomains6 (c : search.Cfg) (req : ReqView6) (pre : Resp6) (hd : C17.dom6 (.search c) req pre = true) :
    C17.holds6 (.search c) req pre (search.handle6 c req pre) = true := c17_search6 c req pre hd

/-- an accepted configuration has at least one route, so option 121 is always sent -/
theorem C17_staticroute4 (args : List ArgOracle) (c : staticroute.Cfg) (hs : staticroute.setup args = .ok c)
    (req : ReqView4) (pre : Resp4) :
    C17.holds4 (.staticroute c) req pre (staticroute.handle c req pre) = true := c17_staticroute args c hs req pre

/-! ### only when the request list asks for them (or, DHCPv4, is absent): DNS, MTU, boot file -/

theorem C17_dns4 (c : dns4.Cfg) (req : ReqView4) (pre : Resp4) :
    C17.holds4 (.dns c) req pre (dns4.handle c req pre) = true := c17_dns4 c req pre

theorem C17_dns6 (c : dns6.Cfg) (req : ReqView6) (pre : Resp6) (hd : C17.dom6 (.dns c) req pre = true) :
    C17.holds6 (.dns c) req pre (dns6.handle c req pre) = true := c17_dns6 c req pre hd

theorem C17_mtu4 (c : mtu.Cfg) (req : ReqView4) (pre : Resp4) :
    C17.holds4 (.mtu c) req pre (mtu.handle c req pre) = true := c17_mtu c req pre

/-- TFTP server name and boot file name; the plugin ends the chain in every case -/
theorem C17_nbp4 (c : nbp4.Cfg) (req : ReqView4) (pre : Resp4) :
    C17.holds4 (.nbp c) req pre (nbp4.handle c req pre) = true := c17_nbp4 c req pre

/-- Boot file URL, and its parameters (RFC 5970 encoding) only when configured — for responses
without boot file options yet and option request lists naming each code at most once
(`C17.dom6`); the plugin appends, it does not replace. -/
theorem C17_nbp6 (c : nbp6.Cfg) (req : ReqView6) (pre : Resp6) (hd : C17.dom6 (.nbp c) req pre = true) :
    C17.holds6 (.nbp c) req pre (nbp6.handle c req pre) = true := c17_nbp6 c req pre hd

/-! ### lease time only when none is set yet; ipv6only; autoconfigure; sleep -/

theorem C17_leasetime4 (c : leasetime.Cfg) (req : ReqView4) (pre : Resp4) :
    C17.holds4 (.leasetime c) req pre (leasetime.handle c req pre) = true := c17_leasetime c req pre

/-- option 108 and a stopped chain (yiaddr untouched) for clients listing 108 explicitly; nothing
for all others, in particular for clients without a parameter request list -/
theorem C17_ipv6only4 (c : ipv6only.Cfg) (req : ReqView4) (pre : Resp4) :
    C17.holds4 (.ipv6only c) req pre (ipv6only.handle c req pre) = true := c17_ipv6only c req pre

/-- an address-less OFFER is answered (option 116 = configured value) for clients that sent
option 116 and dropped for the others; everything else passes unchanged -/
theorem C17_autoconfigure4 (c : autoconfigure.Cfg) (req : ReqView4) (pre : Resp4) :
    C17.holds4 (.autoconfigure c) req pre (autoconfigure.handle c req pre) = true := c17_autoconfigure c req pre

theorem C17_sleep4 (c : sleep.Cfg) (req : ReqView4) (pre : Resp4) :
    C17.holds4 (.sleep c) req pre (sleep.handle4 c req pre) = true := c17_sleep4 c req pre

theorem C17_sleep6 (c : sleep.Cfg) (req : ReqView6) (pre : Resp6) :
    C17.holds6 (.sleep c) req pre (sleep.handle6 c req pre) = true := c17_sleep6 c req pre

/-! ### every built-in plugin, every accepted argument vector -/

theorem C17_builtin4 (name : String) (args : List ArgOracle) (cfg : Cfg4) (req : ReqView4) (pre : Resp4)
    (h : plugSetup4 name args = some (.ok cfg)) : C17.holds4 cfg req pre (plugHandle4 cfg req pre) = true :=
  c17_builtin4 name args cfg req pre h

theorem C17_builtin6 (name : String) (args : List ArgOracle) (cfg : Cfg6) (req : ReqView6) (pre : Resp6)
    (h : plugSetup6 name args = some (.ok cfg)) (hd : C17.dom6 cfg req pre = true) :
    C17.holds6 cfg req pre (plugHandle6 cfg req pre) = true := c17_builtin6 name args cfg req pre h hd

/-! ### "exactly the configured value": in-range numbers decode back to themselves -/

/-- an MTU of 0..65535 is sent as that number (out of range it is truncated to 16 bits: outside
the quantifier of C17) -/
theorem C17_inrange_mtu (n : Int) (h0 : 0 ≤ n) (h1 : n ≤ 65535) : decBe 2 (encU16 n) = some n.toNat :=
  decBe_encU16 n h0 h1

/-- a duration of 0 to 2^32-1 seconds is sent as its whole seconds -/
theorem C17_inrange_seconds (d : Int) (h0 : 0 ≤ d) (h1 : d < 4294967296 * 1000000000) :
    decBe 4 (encSecs d) = some (d / 1000000000).toNat := decBe_encSecs d h0 h1

/-! ### D17 -/

/-- D17 (repaired by a `fix:` commit): the DHCPv6 nbp handler as it was put the raw `params`
string into option 60. For `…?params=p1` and a client asking for option 60 the reply carried
`60:7031`, which is not a list of length-prefixed parameters (it does not even parse), and C17
fails; the repaired handler sends `60:00027031`. The same exchange is in the conformance corpus. -/
theorem C17_D17_prefix_refuted :
    let cfg : nbp6.Cfg := ⟨[116], some [112, 49]⟩
    let req : ReqView6 := ⟨0, 1, [(1, [254]), (6, [0, 60])]⟩
    let pre : Resp6 := ⟨2, [(1, [254])]⟩
    nbp6.setup [{ raw := [116], url := some ⟨[], [], [116], [116], [112, 49]⟩ }] = .ok cfg ∧
    C17.dom6 (.nbp cfg) req pre = true ∧
    nbp6HandlePreFix cfg req pre = (some ⟨2, [(1, [254]), (60, [112, 49])]⟩, true) ∧
    decodeBootParams [112, 49] = none ∧
    C17.holds6 (.nbp cfg) req pre (nbp6HandlePreFix cfg req pre) = false ∧
    C17.holds6 (.nbp cfg) req pre (nbp6.handle cfg req pre) = true := c17_D17

/-- non-vacuity: a DISCOVER without parameter request list gets the DNS servers, one that lists
only the router option does not -/
example : dns4.handle [[8, 8, 8, 8]] ⟨1, 1, [0, 0, 0, 0], [0, 0, 0, 0], [(53, [1])]⟩ ⟨2, [0, 0, 0, 0], [0, 0, 0, 0], [(53, [2])]⟩ =
    (some ⟨2, [0, 0, 0, 0], [0, 0, 0, 0], [(6, [8, 8, 8, 8]), (53, [2])]⟩, false) := by decide
example : dns4.handle [[8, 8, 8, 8]] ⟨1, 1, [0, 0, 0, 0], [0, 0, 0, 0], [(53, [1]), (55, [3])]⟩ ⟨2, [0, 0, 0, 0], [0, 0, 0, 0], [(53, [2])]⟩ =
    (some ⟨2, [0, 0, 0, 0], [0, 0, 0, 0], [(53, [2])]⟩, false) := by decide

end CoreDhcp
