/-
GEN (IPv4 bitmap allocator) — the definitions regenerated from the Go source on every run
(Generated/Alloc4.lean, written by `harness gen -unit alloc4` from the go/ast of
plugins/allocators/bitmap/bitmap_ipv4.go: toIP, toOffset, Allocate, Free, NewIPv4Allocator) are
equal to the hand-written model (Model/Alloc4.lean over Model/Bits.lean) that the allocator
theorems (Proofs/Alloc4.lean, Props/C0x) are about.

The generated side keeps what Go returns: tuples `(value, error)`, the value next to an error, the
/32 mask of the allocated net.IPNet, the `Loc` of ErrDoubleFree, panics as an outcome of their own.
The model is coarser (`Except`, `A4Res`, `F4Res`); the `Gen3.of…` functions below embed the model's
results into the generated side's, and every theorem has the form

    generated function = embedding (model function)

so it says both that the decisions agree and what the extra components are.

The code is first-fit (`NextClear(0)`); the model takes the `choice` as an argument and yields
`none` for an inadmissible one.  `GEN_a4_allocate_eq` is the statement with `choice := a.firstFit`.

An edit of the Go logic changes the generated text, makes a statement below false and breaks this
file (or is rejected by the translator); a renamed local or reformatted source generates the same text.
-/
import CoreDhcp.Generated.Alloc4
import CoreDhcp.Model.Alloc4
import CoreDhcp.Proofs.Bits
import CoreDhcp.Proofs.Alloc4
set_option linter.unusedSimpArgs false
namespace CoreDhcp
open GenA4 (Out Err IPNet)

/-! ## the embeddings model ↪ generated -/

def Gen3.ofOffErr : Off4Err → Err
  | .invalid => .errInvalidIP
  | .notInRange => .errNotInRange

/-- `toOffset` returns `0` next to either error -/
def Gen3.ofOffset : Except Off4Err Nat → Nat × Option Err
  | .ok o => (o, none)
  | .error e => (0, some (Gen3.ofOffErr e))

/-- `Allocate`: the mask is always /32; next to ErrNoAddrAvail the IP is nil -/
def Gen3.ofA4Res : A4Res → Out (IPNet × Option Err)
  | .ok ip => .ret (⟨some ip, some (32, 32)⟩, none)
  | .noaddr => .ret (⟨none, some (32, 32)⟩, some .errNoAddrAvail)
  | .panic => .panic "BUG: offset out of bounds"

/-- the way back (forgets the mask and the message) -/
def Gen3.toA4Res : Out (IPNet × Option Err) → A4Res
  | .ret (n, none) => .ok (n.ip.getD 0#32)
  | .ret (_, some _) => .noaddr
  | .panic _ => .panic

/-- `Free(n)`: ErrDoubleFree carries `n` -/
def Gen3.ofF4Res (n : IPNet) : F4Res → Option Err
  | .ok => none
  | .notInRange => some .errNotInRange
  | .doubleFree => some (.errDoubleFree n)

def Gen3.ofNew : Except New4Err A4 → Option A4 × Option Err
  | .ok a => (some a, none)
  | .error .invalid => (none, some .errNewInvalid)
  | .error .empty => (none, some .errNewEmpty)

theorem Gen3.toA4Res_ofA4Res (r : A4Res) : Gen3.toA4Res (Gen3.ofA4Res r) = r := by
  cases r <;> rfl

/-! ## toIP -/

/-- `toIP` is exactly the tail of the model's `allocate`: the panic condition and the address. -/
theorem GEN_a4_toIP_eq (a : A4) (off : BitVec 32) :
    GenA4.toIP a off =
      if off.toNat > (a.stop - a.start).toNat then .panic "BUG: offset out of bounds"
      else .ret (a.start + off) := rfl

/-- at `uint32(next)`: the condition is the model's `n % 2^32 > (stop - start).toNat`. -/
theorem GEN_a4_toIP_ofNat (a : A4) (n : Nat) :
    GenA4.toIP a (BitVec.ofNat 32 n) =
      if n % 2^32 > (a.stop - a.start).toNat then .panic "BUG: offset out of bounds"
      else .ret (a.start + BitVec.ofNat 32 n) := by
  rw [GEN_a4_toIP_eq, BitVec.toNat_ofNat]

theorem GEN_a4_toIP_panic_iff (a : A4) (n : Nat) :
    (∃ m, GenA4.toIP a (BitVec.ofNat 32 n) = .panic m) ↔ n % 2^32 > (a.stop - a.start).toNat := by
  rw [GEN_a4_toIP_ofNat]
  constructor
  · rintro ⟨m, hm⟩
    by_cases h : n % 2^32 > (a.stop - a.start).toNat
    · exact h
    · rw [if_neg h] at hm
      cases hm
  · intro h
    exact ⟨_, by rw [if_pos h]⟩

/-- `toIP` does not look at the bitmap (it is called after `Set`). -/
theorem Gen3.toIP_bm (a : A4) (b : Bits) (off : BitVec 32) :
    GenA4.toIP { a with bm := b } off = GenA4.toIP a off := rfl

/-! ## toOffset -/

theorem GEN_a4_toOffset_eq (a : A4) (ip : Option (BitVec 32)) :
    GenA4.toOffset a ip = .ret (Gen3.ofOffset (a.toOffset ip)) := by
  unfold GenA4.toOffset A4.toOffset
  cases ip with
  | none => rfl
  | some x =>
    by_cases h : x.toNat < a.start.toNat ∨ x.toNat > a.stop.toNat
    · simp only [reduceCtorEq, if_false, if_pos h]; rfl
    · simp only [reduceCtorEq, if_false, if_neg h]; rfl

/-- the offset `Allocate` tries first is the model's -/
theorem Gen3.hintOff (a : A4) (ip : Option (BitVec 32)) :
    (Gen3.ofOffset (a.toOffset ip)).1 = a.hintOff ip := by
  unfold A4.hintOff
  cases a.toOffset ip <;> rfl

/-! ## NewIPv4Allocator -/

theorem GEN_a4_new_eq (s e : Option (BitVec 32)) :
    GenA4.newIPv4Allocator s e = .ret (Gen3.ofNew (A4.new s e)) := by
  unfold GenA4.newIPv4Allocator A4.new
  cases s with
  | none => rfl
  | some s =>
    cases e with
    | none => rfl
    | some e =>
      by_cases h : s.toNat > e.toNat
      · simp only [reduceCtorEq, or_self, if_false, if_pos h]; rfl
      · simp only [reduceCtorEq, or_self, if_false, if_neg h]; rfl

/-! ## Free -/

theorem GEN_a4_free_eq (a : A4) (n : IPNet) :
    GenA4.free a n = ((a.free n.ip).1, .ret (Gen3.ofF4Res n (a.free n.ip).2)) := by
  unfold GenA4.free A4.free
  rw [GEN_a4_toOffset_eq]
  cases a.toOffset n.ip with
  | error e => rfl
  | ok o =>
    cases ht : a.bm.test o
    · simp only [Gen3.ofOffset, ne_eq, not_true_eq_false, if_false, ht, Bool.not_false, if_true]; rfl
    · simp only [Gen3.ofOffset, ne_eq, not_true_eq_false, if_false, ht, Bool.not_true,
        Bool.false_eq_true]; rfl

/-! ## Allocate -/

/-- what `Allocate` does once `next` is known: `Set`, then `toIP` (which does not see the bitmap). -/
theorem Gen3.toIP_set (a : A4) (n : Nat) :
    GenA4.toIP { a with bm := a.bm.set n } (BitVec.ofNat 32 n) =
      if n % 2^32 > (a.stop - a.start).toNat then .panic "BUG: offset out of bounds"
      else .ret (a.start + BitVec.ofNat 32 n) := by
  rw [Gen3.toIP_bm, GEN_a4_toIP_ofNat]

/-- G-alloc: the generated `Allocate` is the model's `allocate` driven by first fit
(`a.firstFit = a.bm.nextClear`, what `NextClear(0)` returns); that choice is always admissible. -/
theorem GEN_a4_allocate_eq (a : A4) (hint : IPNet) :
    (a.allocate hint.ip a.firstFit).map (fun p => (p.1, Gen3.ofA4Res p.2))
      = some (GenA4.allocate a hint) := by
  rw [A4.allocate_eq]
  unfold GenA4.allocate A4.firstFit GenA4.nextClear0
  rw [GEN_a4_toOffset_eq]
  simp only [Gen3.hintOff]
  generalize a.hintOff hint.ip = ho
  cases ht : a.bm.test ho
  · simp only [Bool.not_false, if_true, Gen3.toIP_set]
    by_cases hp : ho % 2^32 > (a.stop - a.start).toNat
    · simp only [if_pos hp]; rfl
    · simp only [if_neg hp]; rfl
  · cases hn : a.bm.nextClear with
    | none =>
      simp only [Bool.not_true, Bool.false_eq_true, if_false, Bits.nextClear_none _ hn, if_true,
        Bool.not_false]
      rfl
    | some c =>
      obtain ⟨h1, h2⟩ := Bits.nextClear_some _ _ hn
      simp only [Bool.not_true, Bool.false_eq_true, if_false, h1, h2, Bool.not_false, and_self,
        if_true, Gen3.toIP_set]
      by_cases hp : c % 2^32 > (a.stop - a.start).toNat
      · simp only [if_pos hp]; rfl
      · simp only [if_neg hp]; rfl

/-- the same, read from the model's side: with the first-fit choice the model's answer is `some`,
namely the generated function's state and (up to the mask and the panic message) result. -/
theorem GEN_a4_allocate_eq' (a : A4) (hint : IPNet) :
    a.allocate hint.ip a.firstFit
      = some ((GenA4.allocate a hint).1, Gen3.toA4Res (GenA4.allocate a hint).2) := by
  have h := GEN_a4_allocate_eq a hint
  cases hm : a.allocate hint.ip a.firstFit with
  | none => rw [hm] at h; cases h
  | some p =>
    rw [hm] at h
    simp only [Option.map_some, Option.some.injEq] at h
    rw [← h]
    simp only [Gen3.toA4Res_ofA4Res]

end CoreDhcp
