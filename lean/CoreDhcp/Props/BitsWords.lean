/-
Refinement of the word-level model of bits-and-blooms/bitset (Model/BitsWords.lean) to the
list-of-booleans model (Model/Bits.lean) that the allocator models Alloc4/Alloc6 use.

  abstraction      `WBits.toList` / `WBits.toBits` : the first `length` bits, read from the words
  invariant        `WBits.WF` : ⌈length/64⌉ words, all bits at or beyond `length` are zero
  BITSW_new_refines, BITSW_len_refines, BITSW_test_refines, BITSW_set_refines (incl. extension),
  BITSW_clear_refines, BITSW_nextClear_refines (any start index), BITSW_nextClear0_refines (the
  call the allocators make), BITSW_nextClear_least (explicit reading), BITSW_wf_new/_set/_clear,
  BITSW_run_refines (whole sequences).

Why the invariant matters (checked in the library source, v1.22.0): `Set(i)` with i ≥ length in
the SAME last word only bumps `length`; the newly exposed positions are clear only because nothing
ever wrote beyond `length`.  `Set` writes bit i < new length, `Clear` returns early for
i ≥ length, `New`/`extendSet` add zero words — so New/Set/Clear maintain it.  (Other library
calls, which the allocators do not use, need `cleanLastWord` to restore it: Flip ranges,
Complement, Shrink/Compact, `From(words)` ….)  `example`s at the end show a non-WF value on which
the refinement fails.
-/
import CoreDhcp.Model.BitsWords
namespace CoreDhcp
namespace WBits

theorem shr6 (i : Nat) : i >>> 6 = i / 64 := by
  rw [Nat.shiftRight_eq_div_pow]
theorem and63 (i : Nat) : i &&& 63 = i % 64 := by
  have := Nat.and_two_pow_sub_one_eq_mod i 6
  simpa using this

theorem mask_bit (i k : Nat) : (mask i).getLsbD k = (decide (k < 64) && decide (k = i % 64)) := by
  unfold mask
  rw [and63]
  simp only [BitVec.getLsbD_shiftLeft, BitVec.getLsbD_one]
  have : i % 64 < 64 := Nat.mod_lt _ (by decide)
  by_cases h1 : k < 64 <;> by_cases h2 : k = i % 64 <;> simp [h1, h2] <;> omega

theorem and_mask_ne_zero (w : BitVec 64) (i : Nat) : ((w &&& mask i) != 0) = w.getLsbD (i % 64) := by
  have hk : i % 64 < 64 := Nat.mod_lt _ (by decide)
  cases h : w.getLsbD (i % 64)
  · have : w &&& mask i = 0 := by
      apply BitVec.eq_of_getLsbD_eq
      intro j hj
      simp only [BitVec.getLsbD_and, mask_bit]
      by_cases h2 : j = i % 64
      · subst h2; simp [h]
      · simp [h2]
    simp [this]
  · have h3 : (w &&& mask i).getLsbD (i % 64) = true := by
      rw [BitVec.getLsbD_and, h, mask_bit]; simp [hk]
    have : w &&& mask i ≠ 0 := by
      intro e
      rw [e] at h3
      simp at h3
    simpa using this

/-- bit `j` of the representation, read from the words (0 beyond the stored words) -/
def bit (b : WBits) (j : Nat) : Bool := (b.word (j / 64)).getLsbD (j % 64)

/-- the abstraction: the first `length` bits as a list of booleans -/
def toList (b : WBits) : List Bool := (List.range b.length).map b.bit

/-- the list model's value for a word-level bitset -/
def toBits (b : WBits) : Bits := ⟨b.toList⟩

/-- representation invariant: exactly ⌈length/64⌉ words, and every bit at or beyond `length` is 0 -/
def WF (b : WBits) : Prop :=
  b.words.length = (b.length + 63) / 64 ∧ ∀ j, b.length ≤ j → b.bit j = false

theorem toList_length (b : WBits) : b.toList.length = b.length := by
  simp [toList]

theorem toList_getElem? (b : WBits) (j : Nat) :
    b.toList[j]? = if j < b.length then some (b.bit j) else none := by
  unfold toList
  by_cases h : j < b.length
  · simp [h]
  · simp [h]

theorem wordsNeeded_eq (n : Nat) : wordsNeeded n = (n + 63) / 64 := by
  unfold wordsNeeded; rw [shr6]

theorem getD_append_zeros (ws : List (BitVec 64)) (n k : Nat) :
    (ws ++ List.replicate n (0 : BitVec 64)).getD k 0 = ws.getD k 0 := by
  simp only [List.getD_eq_getElem?_getD]
  by_cases h : k < ws.length
  · rw [List.getElem?_append_left h]
  · have h' : ws.length ≤ k := Nat.le_of_not_lt h
    rw [List.getElem?_append_right h', List.getElem?_eq_none_iff.mpr h']
    simp only [List.getElem?_replicate]
    split <;> rfl

theorem getD_set (ws : List (BitVec 64)) (x : Nat) (v : BitVec 64) (k : Nat) (hx : x < ws.length) :
    (ws.set x v).getD k 0 = if k = x then v else ws.getD k 0 := by
  simp only [List.getD_eq_getElem?_getD, List.getElem?_set]
  by_cases h : x = k
  · subst h; simp [hx]
  · have h' : ¬ k = x := fun e => h e.symm
    simp [h, h']

theorem bit_setWord (l : Nat) (ws : List (BitVec 64)) (x : Nat) (v : BitVec 64) (j : Nat)
    (hx : x < ws.length) :
    bit ⟨l, ws.set x v⟩ j = if j / 64 = x then v.getLsbD (j % 64) else bit ⟨l, ws⟩ j := by
  unfold bit word
  simp only [getD_set ws x v (j / 64) hx]
  split <;> rfl

theorem bit_extendSet (b : WBits) (i j : Nat) : (b.extendSet i).bit j = b.bit j := by
  unfold extendSet bit word
  simp only [getD_append_zeros]

theorem bit_orMask (b : WBits) (i j : Nat) (h : i / 64 < b.words.length) :
    bit ⟨b.length, b.words.set (i >>> 6) (b.word (i >>> 6) ||| mask i)⟩ j
      = (decide (j = i) || b.bit j) := by
  rw [shr6, bit_setWord _ _ _ _ _ h]
  have hj : j % 64 < 64 := Nat.mod_lt _ (by decide)
  by_cases e : j / 64 = i / 64
  · simp only [e, if_true, BitVec.getLsbD_or, mask_bit, hj, decide_true, Bool.true_and]
    unfold bit
    rw [e, Bool.or_comm]
    congr 1
    apply decide_eq_decide.mpr
    omega
  · have : ¬ j = i := fun q => e (by rw [q])
    simp [e, this]

theorem bit_andNotMask (b : WBits) (i j : Nat) (h : i / 64 < b.words.length) :
    bit ⟨b.length, b.words.set (i >>> 6) (b.word (i >>> 6) &&& ~~~ mask i)⟩ j
      = (!decide (j = i) && b.bit j) := by
  rw [shr6, bit_setWord _ _ _ _ _ h]
  have hj : j % 64 < 64 := Nat.mod_lt _ (by decide)
  by_cases e : j / 64 = i / 64
  · simp only [e, if_true, BitVec.getLsbD_and, BitVec.getLsbD_not, mask_bit, hj, decide_true, Bool.true_and]
    unfold bit
    rw [e, Bool.and_comm]
    congr 2
    apply decide_eq_decide.mpr
    omega
  · have : ¬ j = i := fun q => e (by rw [q])
    simp [e, this]


/-! ## New / Len -/

/-- `New(n)` satisfies the representation invariant (for every n, incl. 0 and non-multiples of 64). -/
theorem BITSW_wf_new (n : Nat) : (WBits.new n).WF := by
  constructor
  · simp [WBits.new, wordsNeeded_eq]
  · intro j _
    unfold bit word WBits.new
    have := getD_append_zeros [] (wordsNeeded n) (j / 64)
    simp only [List.nil_append] at this
    rw [this]; simp

/-- `New(n)` is the list model's `new n`: n clear bits. -/
theorem BITSW_new_refines (n : Nat) : (WBits.new n).toBits = Bits.new n := by
  unfold toBits Bits.new
  congr 1
  apply List.ext_getElem?
  intro j
  rw [toList_getElem?]
  have hb : (WBits.new n).bit j = false := by
    unfold bit word WBits.new
    have := getD_append_zeros [] (wordsNeeded n) (j / 64)
    simp only [List.nil_append] at this
    rw [this]; simp
  rw [hb, List.getElem?_replicate]
  rfl

/-- `Len()` is the length of the abstract list. -/
theorem BITSW_len_refines (b : WBits) : b.len = b.toBits.length := by
  simp [len, toBits, Bits.length, toList_length]

/-! ## Test -/

/-- `Test(i)` on the words is the list model's `test` (no invariant needed: the guard
`i >= length` answers before any word is read). -/
theorem BITSW_test_refines (b : WBits) (i : Nat) : b.test i = b.toBits.test i := by
  unfold test toBits Bits.test
  simp only [List.getD_eq_getElem?_getD, toList_getElem?]
  by_cases h : i < b.length
  · have : ¬ i ≥ b.length := Nat.not_le.mpr h
    simp only [this, h, if_true, if_false, Option.getD_some]
    rw [and_mask_ne_zero, shr6]; rfl
  · have : i ≥ b.length := Nat.le_of_not_lt h
    simp [this, h]

/-! ## Set (with extension) -/

theorem set_length (b : WBits) (i : Nat) : (b.set i).length = if i < b.length then b.length else i + 1 := by
  unfold set
  by_cases h : i < b.length
  · have : ¬ i ≥ b.length := Nat.not_le.mpr h
    simp [this, h]
  · have : i ≥ b.length := Nat.le_of_not_lt h
    simp [this, h, extendSet]

theorem set_bit (b : WBits) (hw : b.WF) (i j : Nat) : (b.set i).bit j = (decide (j = i) || b.bit j) := by
  unfold set
  by_cases h : i < b.length
  · have hn : ¬ i ≥ b.length := Nat.not_le.mpr h
    simp only [hn, if_false]
    apply bit_orMask
    rw [hw.1]; omega
  · have hn : i ≥ b.length := Nat.le_of_not_lt h
    simp only [hn, if_true]
    rw [bit_orMask (b.extendSet i) i j, bit_extendSet]
    simp only [extendSet, List.length_append, List.length_replicate, wordsNeeded_eq]
    omega

/-- `Set(i)` keeps the invariant — also when it extends the set, inside the last word (the new
positions were zero because of the invariant) or by whole zero words. -/
theorem BITSW_wf_set (b : WBits) (hw : b.WF) (i : Nat) : (b.set i).WF := by
  constructor
  · rw [set_length]
    unfold set
    by_cases h : i < b.length
    · have hn : ¬ i ≥ b.length := Nat.not_le.mpr h
      simp only [hn, h, if_true, if_false, List.length_set]
      exact hw.1
    · have hn : i ≥ b.length := Nat.le_of_not_lt h
      simp only [hn, h, if_true, if_false, List.length_set, extendSet, List.length_append,
        List.length_replicate, wordsNeeded_eq]
      have := hw.1
      omega
  · intro j hj
    rw [set_length] at hj
    rw [set_bit b hw]
    by_cases h : i < b.length
    · simp only [h, if_true] at hj
      have : ¬ j = i := by omega
      simp [this, hw.2 j hj]
    · simp only [h, if_false] at hj
      have : ¬ j = i := by omega
      have h2 : b.length ≤ j := by omega
      simp [this, hw.2 j h2]

/-- `Set(i)` on the words is the list model's `set`: inside the length it turns bit i on; at or
beyond the length the set grows to length i+1, the new positions below i are clear, bit i is on. -/
theorem BITSW_set_refines (b : WBits) (hw : b.WF) (i : Nat) : (b.set i).toBits = b.toBits.set i := by
  unfold toBits Bits.set
  simp only [toList_length]
  by_cases h : i < b.length
  · simp only [h, if_true]
    congr 1
    apply List.ext_getElem?
    intro j
    rw [toList_getElem?, set_length, List.getElem?_set, toList_getElem?, toList_length, set_bit b hw]
    simp only [h, if_true]
    by_cases e : i = j
    · subst e; simp [h]
    · have e' : ¬ j = i := fun q => e q.symm
      simp [e, e']
  · simp only [h, if_false]
    congr 1
    apply List.ext_getElem?
    intro j
    rw [toList_getElem?, set_length, set_bit b hw]
    simp only [h, if_false]
    by_cases h1 : j < b.length
    · have e' : ¬ j = i := by omega
      have h2 : j < i + 1 := by omega
      rw [List.append_assoc, List.getElem?_append_left (by rw [toList_length]; exact h1), toList_getElem?]
      simp [h1, h2, e']
    · have h1' : b.toList.length ≤ j := by rw [toList_length]; omega
      rw [List.append_assoc, List.getElem?_append_right h1', toList_length]
      have hz : b.bit j = false := hw.2 j (by omega)
      by_cases h2 : j < i
      · have h3 : j - b.length < i - b.length := by omega
        have e' : ¬ j = i := by omega
        rw [List.getElem?_append_left (by rw [List.length_replicate]; exact h3)]
        simp [h3, hz, e', show j < i + 1 by omega]
      · by_cases e : j = i
        · subst e
          rw [List.getElem?_append_right (by rw [List.length_replicate]; omega)]
          simp
        · have h3 : ¬ j < i + 1 := by omega
          rw [List.getElem?_append_right (by rw [List.length_replicate]; omega)]
          simp only [h3, if_false, List.length_replicate]
          have : j - b.length - (i - b.length) = (j - i - 1) + 1 := by omega
          rw [this]; rfl

/-! ## Clear -/

theorem clear_length (b : WBits) (i : Nat) : (b.clear i).length = b.length := by
  unfold clear; split <;> rfl

theorem clear_bit (b : WBits) (hw : b.WF) (i j : Nat) :
    (b.clear i).bit j = (!(decide (j = i) && decide (i < b.length)) && b.bit j) := by
  unfold clear
  by_cases h : i < b.length
  · have hn : ¬ i ≥ b.length := Nat.not_le.mpr h
    simp only [hn, if_false]
    rw [bit_andNotMask b i j (by rw [hw.1]; omega)]
    simp [h]
  · have hn : i ≥ b.length := Nat.le_of_not_lt h
    simp [hn, h]

/-- `Clear(i)` keeps the invariant. -/
theorem BITSW_wf_clear (b : WBits) (hw : b.WF) (i : Nat) : (b.clear i).WF := by
  constructor
  · rw [clear_length]
    unfold clear
    split
    · exact hw.1
    · simp only [List.length_set]; exact hw.1
  · intro j hj
    rw [clear_length] at hj
    rw [clear_bit b hw, hw.2 j hj]; simp

/-- `Clear(i)` on the words is the list model's `clear`: bit i off inside the length, nothing
at or beyond it (no extension, no panic). -/
theorem BITSW_clear_refines (b : WBits) (hw : b.WF) (i : Nat) : (b.clear i).toBits = b.toBits.clear i := by
  unfold toBits Bits.clear
  congr 1
  apply List.ext_getElem?
  intro j
  rw [toList_getElem?, clear_length, List.getElem?_set, toList_getElem?, toList_length, clear_bit b hw]
  by_cases e : i = j
  · subst e
    by_cases h : i < b.length <;> simp [h]
  · have e' : ¬ j = i := fun q => e q.symm
    simp [e, e']


/-! ## NextClear -/

/-- `r` is the right answer to "least clear position ≥ i below n" for the bit function `f`:
`some k` — k is in range, clear, and everything from i up to k is set; `none` — nothing clear
from i up to n. -/
def IsNextClear (f : Nat → Bool) (n i : Nat) : Option Nat → Prop
  | some k => i ≤ k ∧ k < n ∧ f k = false ∧ ∀ j, i ≤ j → j < k → f j = true
  | none => ∀ j, i ≤ j → j < n → f j = true

theorem IsNextClear_unique {f : Nat → Bool} {n i : Nat} {r1 r2 : Option Nat}
    (h1 : IsNextClear f n i r1) (h2 : IsNextClear f n i r2) : r1 = r2 := by
  cases r1 with
  | none =>
    cases r2 with
    | none => rfl
    | some k =>
      obtain ⟨a, b, c, _⟩ := h2
      have := h1 k a b
      rw [c] at this; cases this
  | some k1 =>
    cases r2 with
    | none =>
      obtain ⟨a, b, c, _⟩ := h1
      have := h2 k1 a b
      rw [c] at this; cases this
    | some k2 =>
      obtain ⟨a1, b1, c1, d1⟩ := h1
      obtain ⟨a2, b2, c2, d2⟩ := h2
      congr 1
      apply Nat.le_antisymm
      · apply Nat.le_of_not_lt
        intro hlt
        have := d1 k2 a2 hlt
        rw [c2] at this; cases this
      · apply Nat.le_of_not_lt
        intro hlt
        have := d2 k1 a1 hlt
        rw [c1] at this; cases this

theorem IsNextClear_lift {f : Nat → Bool} {n i i' : Nat} {r : Option Nat}
    (h : IsNextClear f n i' r) (hi : i ≤ i')
    (hset : ∀ j, i ≤ j → j < i' → j < n → f j = true) : IsNextClear f n i r := by
  cases r with
  | none =>
    intro j h1 h2
    by_cases q : j < i'
    · exact hset j h1 q h2
    · exact h j (Nat.le_of_not_lt q) h2
  | some k =>
    obtain ⟨a, b, c, d⟩ := h
    refine ⟨Nat.le_trans hi a, b, c, ?_⟩
    intro j h1 h2
    by_cases q : j < i'
    · exact hset j h1 q (Nat.lt_trans h2 b)
    · exact d j (Nat.le_of_not_lt q) h2

/-- `TrailingZeros64`: 64 when no bit is set, otherwise the position of the lowest set bit. -/
theorem ctz_spec (w : BitVec 64) :
    (ctz w = 64 ∧ ∀ k, k < 64 → w.getLsbD k = false) ∨
    (ctz w < 64 ∧ w.getLsbD (ctz w) = true ∧ ∀ j, j < ctz w → w.getLsbD j = false) := by
  unfold ctz
  cases h : (List.range 64).find? (fun k => w.getLsbD k) with
  | none =>
    left
    rw [List.find?_range_eq_none] at h
    refine ⟨rfl, ?_⟩
    intro k hk
    have := h k hk
    simpa using this
  | some k =>
    right
    rw [List.find?_range_eq_some] at h
    obtain ⟨a, b, c⟩ := h
    simp only [Option.getD_some]
    refine ⟨List.mem_range.mp b, a, ?_⟩
    intro j hj
    have := c j hj
    simpa using this

/-- the loop over the following whole words finds the least clear position from the start of
word `x` on, provided `ws` are the words from index `x` and they cover the length. -/
theorem scan_spec (f : Nat → Bool) (n : Nat) : ∀ (ws : List (BitVec 64)) (x : Nat),
    (∀ k j, j < 64 → f ((x + k) * 64 + j) = (ws.getD k 0).getLsbD j) →
    n ≤ (x + ws.length) * 64 →
    IsNextClear f n (x * 64) (scan n x ws) := by
  intro ws
  induction ws with
  | nil =>
    intro x _ hn
    unfold scan
    intro j h1 h2
    simp at hn; omega
  | cons w ws ih =>
    intro x hf hn
    have hw : ∀ j, j < 64 → f (x * 64 + j) = w.getLsbD j := by
      intro j hj
      have := hf 0 j hj
      simpa using this
    have hrec : IsNextClear f n ((x + 1) * 64) (scan n (x + 1) ws) := by
      apply ih
      · intro k j hj
        have := hf (k + 1) j hj
        simp only [List.getD_cons_succ] at this
        rw [← this]; congr 2; omega
      · simp only [List.length_cons] at hn; omega
    unfold scan
    by_cases hall : w = allBits
    · simp only [hall, bne_self_eq_false, Bool.false_eq_true, if_false]
      apply IsNextClear_lift hrec (by omega)
      intro j h1 h2 _
      have : j = x * 64 + (j - x * 64) := by omega
      rw [this, hw _ (by omega), hall]
      unfold allBits
      rw [BitVec.getLsbD_allOnes]
      apply decide_eq_true; omega
    · have hne : (w != allBits) = true := by simpa using hall
      simp only [hne, if_true]
      rcases ctz_spec (~~~ w) with ⟨_, hz⟩ | ⟨hc, hbit, hlow⟩
      · exfalso; apply hall
        apply BitVec.eq_of_getLsbD_eq
        intro k hk
        have := hz k hk
        simp only [BitVec.getLsbD_not, hk, decide_true, Bool.true_and, Bool.not_eq_false'] at this
        unfold allBits
        rw [BitVec.getLsbD_allOnes, this]
        simp [hk]
      · simp only [BitVec.getLsbD_not, hc, decide_true, Bool.true_and, Bool.not_eq_true'] at hbit
        have hlow' : ∀ j, j < ctz (~~~ w) → w.getLsbD j = true := by
          intro j hj
          have := hlow j hj
          have hj64 : j < 64 := by omega
          simpa [BitVec.getLsbD_not, hj64] using this
        by_cases hin : x * 64 + ctz (~~~ w) < n
        · simp only [hin, if_true]
          refine ⟨by omega, hin, ?_, ?_⟩
          · rw [hw _ hc]; exact hbit
          · intro j h1 h2
            have : j = x * 64 + (j - x * 64) := by omega
            rw [this, hw _ (by omega)]
            exact hlow' _ (by omega)
        · simp only [hin, if_false]
          apply IsNextClear_lift hrec (by omega)
          intro j h1 h2 h3
          have : j = x * 64 + (j - x * 64) := by omega
          rw [this, hw _ (by omega)]
          exact hlow' _ (by omega)


/-- The word-level `NextClear(i)` meets the specification on the bits of the representation:
first (partial) word shifted down by i%64 and compared with the shifted all-ones word, then the
following whole words; an index at or beyond the length is never returned; `(0,false)` exactly
when no clear bit exists from i up to the length (this includes i/64 ≥ number of words). -/
theorem nextClear_spec (b : WBits) (hw : b.WF) (i : Nat) :
    IsNextClear b.bit b.length i (b.nextClear i) := by
  unfold nextClear
  simp only [shr6, and63]
  have hlen := hw.1
  by_cases hx : i / 64 ≥ b.words.length
  · simp only [hx, if_true]
    intro j h1 h2
    omega
  · simp only [hx, if_false]
    have hx' : i / 64 < b.words.length := Nat.lt_of_not_le hx
    have hm : i % 64 < 64 := Nat.mod_lt _ (by decide)
    -- bits of the first word from position i on
    have hfirst : ∀ k, i % 64 + k < 64 → b.bit (i + k) = (b.word (i / 64) >>> (i % 64)).getLsbD k := by
      intro k hk
      rw [BitVec.getLsbD_ushiftRight]
      unfold bit
      have e1 : (i + k) / 64 = i / 64 := by omega
      have e2 : (i + k) % 64 = i % 64 + k := by omega
      rw [e1, e2]
    have hhigh : ∀ k, ¬ i % 64 + k < 64 → (b.word (i / 64) >>> (i % 64)).getLsbD k = false := by
      intro k hk
      rw [BitVec.getLsbD_ushiftRight]
      apply BitVec.getLsbD_of_ge
      omega
    have hrec : IsNextClear b.bit b.length ((i / 64 + 1) * 64)
        (scan b.length (i / 64 + 1) (b.words.drop (i / 64 + 1))) := by
      apply scan_spec
      · intro k j hj
        unfold bit word
        have e1 : ((i / 64 + 1 + k) * 64 + j) / 64 = i / 64 + 1 + k := by omega
        have e2 : ((i / 64 + 1 + k) * 64 + j) % 64 = j := by omega
        rw [e1, e2]
        simp only [List.getD_eq_getElem?_getD, List.getElem?_drop]
      · simp only [List.length_drop]; omega
    generalize hword : b.word (i / 64) >>> (i % 64) = word at hfirst hhigh
    by_cases hall : word = allBits >>> (i % 64)
    · -- every remaining bit of the first word is set
      have : (word != allBits >>> (i % 64)) = false := by simp [hall]
      simp only [this, Bool.false_and, Bool.false_eq_true, if_false]
      apply IsNextClear_lift hrec (by omega)
      intro j h1 h2 _
      have e : j = i + (j - i) := by omega
      rw [e, hfirst _ (by omega), hall, BitVec.getLsbD_ushiftRight]
      unfold allBits
      rw [BitVec.getLsbD_allOnes]
      apply decide_eq_true; omega
    · have hne : (word != allBits >>> (i % 64)) = true := by simpa using hall
      simp only [hne, Bool.true_and]
      rcases ctz_spec (~~~ word) with ⟨_, hz⟩ | ⟨hc, hbit, hlow⟩
      · exfalso; apply hall
        apply BitVec.eq_of_getLsbD_eq
        intro k hk
        have h1 := hz k hk
        simp only [BitVec.getLsbD_not, hk, decide_true, Bool.true_and, Bool.not_eq_false'] at h1
        by_cases q : i % 64 + k < 64
        · rw [h1, BitVec.getLsbD_ushiftRight]
          unfold allBits
          rw [BitVec.getLsbD_allOnes]
          symm; apply decide_eq_true; exact q
        · rw [hhigh k q] at h1; cases h1
      · simp only [BitVec.getLsbD_not, hc, decide_true, Bool.true_and, Bool.not_eq_true'] at hbit
        have hlow' : ∀ j, j < ctz (~~~ word) → word.getLsbD j = true := by
          intro j hj
          have := hlow j hj
          have hj64 : j < 64 := by omega
          simpa [BitVec.getLsbD_not, hj64] using this
        -- the lowest clear position of the shifted word is inside the word
        have hcin : i % 64 + ctz (~~~ word) < 64 := by
          apply Classical.byContradiction
          intro q
          apply hall
          apply BitVec.eq_of_getLsbD_eq
          intro k hk
          by_cases q2 : i % 64 + k < 64
          · rw [hlow' k (by omega), BitVec.getLsbD_ushiftRight]
            unfold allBits
            rw [BitVec.getLsbD_allOnes]
            symm; apply decide_eq_true; exact q2
          · rw [hhigh k q2, BitVec.getLsbD_ushiftRight]
            unfold allBits
            rw [BitVec.getLsbD_allOnes]
            symm; apply decide_eq_false; exact q2
        by_cases hin : i + ctz (~~~ word) < b.length
        · simp only [hin, decide_true, if_true]
          refine ⟨by omega, hin, ?_, ?_⟩
          · rw [hfirst _ hcin]; exact hbit
          · intro j h1 h2
            have e : j = i + (j - i) := by omega
            rw [e, hfirst _ (by omega)]
            exact hlow' _ (by omega)
        · simp only [hin, decide_false, Bool.false_eq_true, if_false]
          apply IsNextClear_lift hrec (by omega)
          intro j h1 h2 h3
          have e : j = i + (j - i) := by omega
          rw [e, hfirst _ (by omega)]
          exact hlow' _ (by omega)

theorem toList_getElem (b : WBits) (j : Nat) (h : j < b.toList.length) : b.toList[j] = b.bit j := by
  simp [toList]

/-- the list model's `nextClearFrom` meets the same specification -/
theorem nextClearFrom_spec (b : WBits) (i : Nat) :
    IsNextClear b.bit b.length i (b.toBits.nextClearFrom i) := by
  unfold Bits.nextClearFrom toBits
  cases h : (b.toList.drop i).findIdx? (fun x => !x) with
  | none =>
    rw [List.findIdx?_eq_none_iff] at h
    simp only [Option.map_none]
    intro j h1 h2
    have hj : j - i < (b.toList.drop i).length := by
      rw [List.length_drop, toList_length]; omega
    have hm := h _ (List.getElem_mem hj)
    rw [List.getElem_drop, toList_getElem] at hm
    have e : i + (j - i) = j := by omega
    rw [e] at hm
    simpa using hm
  | some k =>
    rw [List.findIdx?_eq_some_iff_getElem] at h
    obtain ⟨hk, hp, hlow⟩ := h
    simp only [Option.map_some]
    have hk' := hk
    rw [List.length_drop, toList_length] at hk'
    rw [List.getElem_drop, toList_getElem] at hp
    refine ⟨by omega, by omega, ?_, ?_⟩
    · have e : i + k = k + i := by omega
      rw [e] at hp
      simpa using hp
    · intro j h1 h2
      have hj : j - i < k := by omega
      have := hlow (j - i) hj
      rw [List.getElem_drop, toList_getElem] at this
      have e : i + (j - i) = j := by omega
      rw [e] at this
      simpa using this

/-- `NextClear(i)` on the words is the list model's answer for every start index, every length
(0, non-multiples of 64) — `some k` with k the least clear index ≥ i below the length, `none`
(the library's `(0, false)`) exactly when there is none. -/
theorem BITSW_nextClear_refines (b : WBits) (hw : b.WF) (i : Nat) :
    b.nextClear i = b.toBits.nextClearFrom i :=
  IsNextClear_unique (nextClear_spec b hw i) (nextClearFrom_spec b i)

/-- the list model's `nextClear` (what the allocator models call) is `nextClearFrom 0` -/
theorem BITSW_nextClearFrom_zero (l : Bits) : l.nextClearFrom 0 = l.nextClear := by
  unfold Bits.nextClearFrom Bits.nextClear
  simp

/-- the call the allocators make: `NextClear(0)` is the list model's `nextClear` -/
theorem BITSW_nextClear0_refines (b : WBits) (hw : b.WF) : b.nextClear 0 = b.toBits.nextClear := by
  rw [BITSW_nextClear_refines b hw, BITSW_nextClearFrom_zero]

/-- explicit reading of the answer, in terms of the abstract list -/
theorem BITSW_nextClear_least (b : WBits) (hw : b.WF) (i : Nat) :
    (∀ k, b.nextClear i = some k →
        i ≤ k ∧ k < b.length ∧ b.toBits.test k = false ∧
        ∀ j, i ≤ j → j < k → b.toBits.test j = true) ∧
    (b.nextClear i = none → ∀ j, i ≤ j → j < b.length → b.toBits.test j = true) := by
  have hs := nextClear_spec b hw i
  have ht : ∀ j, j < b.length → b.toBits.test j = b.bit j := by
    intro j hj
    unfold toBits Bits.test
    simp only [List.getD_eq_getElem?_getD, toList_getElem?, hj, if_true, Option.getD_some]
  constructor
  · intro k hk
    rw [hk] at hs
    obtain ⟨a, c, d, e⟩ := hs
    refine ⟨a, c, ?_, ?_⟩
    · rw [ht k c]; exact d
    · intro j h1 h2
      rw [ht j (by omega)]; exact e j h1 h2
  · intro hn j h1 h2
    rw [hn] at hs
    rw [ht j h2]; exact hs j h1 h2

/-- `nextClear` and `test` do not change the set; so every operation preserves `WF`
(`BITSW_wf_new`, `BITSW_wf_set`, `BITSW_wf_clear`); summary for a whole run: -/
inductive Op where
  | set (i : Nat) | clear (i : Nat)

def Op.apply (b : WBits) : Op → WBits
  | .set i => b.set i
  | .clear i => b.clear i

/-- any sequence of Set/Clear from `New(n)` keeps the invariant and stays in step with the list
model run on the same sequence. -/
theorem BITSW_run_refines (n : Nat) (ops : List Op) :
    (ops.foldl Op.apply (WBits.new n)).WF ∧
    (ops.foldl Op.apply (WBits.new n)).toBits =
      ops.foldl (fun l o => match o with | .set i => l.set i | .clear i => l.clear i) (Bits.new n) := by
  suffices h : ∀ (ops : List Op) (b : WBits) (l : Bits), b.WF → b.toBits = l →
      (ops.foldl Op.apply b).WF ∧ (ops.foldl Op.apply b).toBits =
        ops.foldl (fun l o => match o with | .set i => l.set i | .clear i => l.clear i) l from
    h ops _ _ (BITSW_wf_new n) (BITSW_new_refines n)
  intro ops
  induction ops with
  | nil => intro b l hw he; exact ⟨hw, he⟩
  | cons o ops ih =>
    intro b l hw he
    simp only [List.foldl_cons]
    cases o with
    | set i =>
      apply ih
      · exact BITSW_wf_set b hw i
      · show (b.set i).toBits = l.set i
        rw [BITSW_set_refines b hw, he]
    | clear i =>
      apply ih
      · exact BITSW_wf_clear b hw i
      · show (b.clear i).toBits = l.clear i
        rw [BITSW_clear_refines b hw, he]


/-! ## the statements are not vacuous / a broken variant violates them -/

/-- WF values exist for every length: New(n), and everything reachable from it. -/
example : (WBits.new 0).WF ∧ (WBits.new 65).WF ∧ ((WBits.new 65).set 200).WF :=
  ⟨BITSW_wf_new 0, BITSW_wf_new 65, BITSW_wf_set _ (BITSW_wf_new 65) 200⟩

/-- a full set whose length is not a multiple of 64: `(0,false)`, although the last word is not
all-ones (the index found in it is at the length, and is rejected). -/
example : (((List.range 65).foldl WBits.set (WBits.new 65)).nextClear 0) = none := by decide +kernel
/-- …and after an extension inside the last word the exposed positions are clear -/
example : ((((List.range 65).foldl WBits.set (WBits.new 65)).set 70).nextClear 0) = some 65 := by decide +kernel
/-- empty set: not ok -/
example : (WBits.new 0).nextClear 0 = none := by decide
/-- start index in the last partial word, everything from there on set → not ok; start index
beyond the words → not ok -/
example : ((WBits.new 66).set 65).nextClear 65 = none ∧ (WBits.new 66).nextClear 128 = none := by decide
/-- Set beyond the length: length i+1, one more word when a boundary is crossed -/
example : ((WBits.new 64).set 64).length = 65 ∧ ((WBits.new 64).set 64).words.length = 2 := by decide

/-- A representation that violates the invariant (bit 1 written, length 1): here `Set(2)`
exposes the stray bit — the list model says position 1 is clear after the extension, the words
say it is set.  So `BITSW_set_refines` really needs `WF`. -/
example : let bad : WBits := ⟨1, [2#64]⟩
    ¬ bad.WF ∧ (bad.set 2).toBits ≠ bad.toBits.set 2 := by
  refine ⟨?_, by decide⟩
  intro h
  have := h.2 1 (by decide)
  revert this; decide

/-- a broken `nextClear` that forgot the `index < length` test in the first word would answer 65
for the full 65-bit set (an index the allocator would hand out beyond its range). -/
example : let b := (List.range 65).foldl WBits.set (WBits.new 65)
    (64 + ctz (~~~ (b.word 1))) = 65 ∧ b.nextClear 64 = none := by decide +kernel

end WBits
end CoreDhcp
