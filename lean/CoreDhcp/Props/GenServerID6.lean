/-
GEN (decision logic) — the definitions regenerated from the Go source on every run
(Generated/Dispatch6.lean, Dispatch4.lean, ServerID6.lean, Netmask.lean, written by
`harness gen -unit …` from the go/ast of server/handle.go, plugins/serverid/plugin.go and
plugins/netmask/plugin.go) are equal to the hand-written model (Model/Dispatch.lean,
Model/OptPlug.lean) and to the specifications (Spec/Dispatch.lean, Spec/OptPlug.lean) the
property theorems are about.

The generated functions take ATOMS (what the Go conditions test) as arguments; every theorem
below instantiates the atoms with their meaning in the model:

  giaddrUnspec  = `req.giaddr == 0#32`          respMt      = `resp.mt`
  ciaddrUnspec  = `req.ciaddr == 0#32`          isBroadcast = `req.flags / 32768 % 2 == 1`
  peerIsBcast   = `peer == bcast4`              peerIsLinkLocal = `isLinkLocal4 peer` / `isLinkLocal6 src`
  bound         = index of the bound interface  oobNonNil / oobIdx = `oob.isSome` / `oob.getD 0`
  mt, rapid     = `m.mt`, `m.rapid`             hasSid / sidEqual = first option 2 present / equal to the DUID

An edit of the Go decision logic changes the generated text, makes the statements below false and
breaks this file (or is rejected by the translator); a renamed local or reformatted source
generates the same text.
-/
import CoreDhcp.Generated.ServerID6
import CoreDhcp.Model.OptPlug
import CoreDhcp.Spec.OptPlug
import CoreDhcp.Proofs.OptPlug
set_option linter.unusedSimpArgs false
namespace CoreDhcp

/-! ## serverid6 — `serverid.Handler6` -/

/-- G3 against the specification of C14 (RFC 8415 §16), for every message type -/
theorem GEN_sidDecision_spec (mt : Nat) (rel : C14.Rel) :
    C14.mustDiscard6 mt rel = Generated.sidDecision mt (rel != .absent) (rel == .same) := by
  unfold Generated.sidDecision
  cases rel <;> simp only [C14.mustDiscard6]
  · by_cases h3 : mt = 3 <;> by_cases h5 : mt = 5 <;> by_cases h8 : mt = 8 <;> by_cases h9 : mt = 9 <;>
      simp [h3, h5, h8, h9]
  · by_cases h1 : mt = 1 <;> by_cases h4 : mt = 4 <;> by_cases h6 : mt = 6 <;> simp [h1, h4, h6]
  · by_cases h1 : mt = 1 <;> by_cases h4 : mt = 4 <;> by_cases h6 : mt = 6 <;> simp [h1, h4, h6]

/-- G3, enumerated: all 256 message types × the three relations -/
theorem GEN_sidDecision_table :
    (List.range 256).all (fun t => [C14.Rel.absent, .same, .other].all (fun rel =>
      C14.mustDiscard6 t rel == Generated.sidDecision t (rel != .absent) (rel == .same))) = true := by
  decide +kernel

theorem GEN_sidDecision_all (t : Nat) (ht : t < 256) (rel : C14.Rel) :
    C14.mustDiscard6 t rel = Generated.sidDecision t (rel != .absent) (rel == .same) := by
  have h := List.all_eq_true.mp GEN_sidDecision_table t (List.mem_range.mpr ht)
  have h' := List.all_eq_true.mp h rel (by cases rel <;> simp)
  simpa using h'

/-- G3 against the model of the handler: it discards exactly when the generated decision says so,
and otherwise stamps the response. -/
theorem GEN_sidDecision_model (cfg : Plug.Bytes) (req : Plug.ReqView6) (pre : Plug.Resp6) :
    Plug.serverid6.handle cfg req pre =
      if Generated.sidDecision req.mt (Plug.lookup 2 req.opts).isSome (Plug.lookup 2 req.opts == some cfg)
      then (none, true) else (some (pre.update 2 cfg), false) := by
  unfold Plug.serverid6.handle Generated.sidDecision
  cases Plug.lookup 2 req.opts with
  | none =>
    by_cases h3 : req.mt = 3 <;> by_cases h5 : req.mt = 5 <;> by_cases h8 : req.mt = 8 <;> by_cases h9 : req.mt = 9 <;>
      simp [h3, h5, h8, h9]
  | some sid =>
    by_cases hs : sid = cfg <;> by_cases h1 : req.mt = 1 <;> by_cases h4 : req.mt = 4 <;> by_cases h6 : req.mt = 6 <;>
      simp [hs, h1, h4, h6]

/-- G3 on a request: with `hasSid` / `sidEqual` read off the first Server Identifier option, the
generated decision is the specification's `mustDiscard6` of the relation `rel6`. -/
theorem GEN_sidDecision_rel6 (duid : Plug.Bytes) (req : Plug.ReqView6) :
    C14.mustDiscard6 req.mt (C14.rel6 duid req) =
      Generated.sidDecision req.mt (Plug.lookup 2 req.opts).isSome (Plug.lookup 2 req.opts == some duid) := by
  rw [GEN_sidDecision_spec]
  unfold C14.rel6
  rw [head_filter_lookup]
  cases Plug.lookup 2 req.opts with
  | none => rfl
  | some sid =>
    have e1 : (C14.Rel.same != C14.Rel.absent) = true := by decide
    have e2 : (C14.Rel.other != C14.Rel.absent) = true := by decide
    have e3 : (C14.Rel.other == C14.Rel.same) = false := by decide
    by_cases hs : sid = duid
    · simp [hs, e1]
    · have e4 : (sid == duid) = false := by simpa using hs
      simp [hs, e2, e3, e4]

end CoreDhcp
