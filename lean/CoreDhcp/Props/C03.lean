/-
C03 — The lease database the server wrote always restores the same bindings.
Property theorems only; the invariant proof is in CoreDhcp/Proofs/Range.lean.
-/
import CoreDhcp.Proofs.Range
import CoreDhcp.Proofs.MonLemmas
namespace CoreDhcp

/-- At every restart point of every history the restart succeeds, the restarted instance serves
every client bound so far its address and gives no bound address to anybody else; and after
every reply the stored expiry is not earlier than the end of the promised lease minus the
store's one-second resolution. -/
theorem C03_holds (start stop : BitVec 32) (lease : Int)
    (loadKey : Mac → Option Mac) (order : List (Mac × Rec) → List (Mac × Rec))
    (hkey : ∀ m, loadKey m = some m) (hperm : ∀ l, (order l).Perm l)
    (s0 : RState) (hs0 : RState.setup start stop lease [] loadKey order = .ok s0)
    (ops : List ROp) (cs : List (Option Nat)) (evs : List REv) (z : RState)
    (hrun : RState.run loadKey order s0 ops cs = some (evs, z)) :
    C03.holds ⟨start, stop, lease⟩ evs = true := by
  unfold C03.holds
  exact all_of_all_imp (RState.run_verdicts start stop lease loadKey order hkey hperm s0 hs0 ops cs evs z hrun)
    (fun v hv => by unfold RVerdict.all at hv; simp only [Bool.and_eq_true] at hv; exact hv.2)

/-- Every reachable state is a crash point from which the restart succeeds and restores exactly
the same client → address map and allocator bitmap, whatever order the records are re-marked in. -/
theorem C03_restore (start stop : BitVec 32) (lease : Int)
    (loadKey : Mac → Option Mac) (order : List (Mac × Rec) → List (Mac × Rec))
    (hkey : ∀ m, loadKey m = some m) (hperm : ∀ l, (order l).Perm l)
    (s0 : RState) (hs0 : RState.setup start stop lease [] loadKey order = .ok s0)
    (ops : List ROp) (cs : List (Option Nat)) (evs : List REv) (z : RState)
    (hrun : RState.run loadKey order s0 ops cs = some (evs, z)) :
    ∃ z', z.restart loadKey order = .ok z' ∧
      (∀ m, lookupRec z'.recs m = lookupRec z.recs m) ∧
      z'.alloc.bm.length = z.alloc.bm.length ∧ (∀ i, z'.alloc.bm.test i = z.alloc.bm.test i) :=
  RState.restart_restores start stop lease loadKey order hkey hperm s0 hs0 ops cs evs z hrun

/-- D7 (repaired by a `fix:` commit): with `net.ParseMAC` as the loader of stored keys — the code
before the repair — the hypothesis `hkey` is false and one request from a 5-byte hardware address
makes the next start fail. The same history is in the conformance corpus. -/
theorem C03_D7_prefix_refuted :
    ∃ s0 s1 r, RState.setup 0x0a000001#32 0x0a000009#32 3600000000000 [] parseMACKey id = .ok s0 ∧
      s0.handle [1, 2, 3, 4, 5] 1000000000 (some 0) = some (s1, r) ∧
      s1.restart parseMACKey id = .error .loadFailed := C03_D7_refuted

/-- D19. `setupRange` keeps the lease time rounded to whole seconds (`keptLease`), and for a whole number of
seconds (below 2^32) the lease time the reply carries (option 51, `leaseOpt`) is exactly the duration the plugin
computes the stored expiry from: "the lease promised" of `C03_holds` (the configured duration) and what the
client is told are the same thing. -/
theorem C03_promise_is_kept_lease (configured : Int) (h0 : 0 ≤ configured) (h1 : configured < 4294967295 * nsPerSec) :
    (leaseOpt (keptLease configured) : Int) * nsPerSec = keptLease configured ∧
    leaseOpt (keptLease configured) = leaseOpt configured := by
  unfold keptLease leaseOpt unixRound nsPerSec at *
  have hk : 0 ≤ (configured + 500000000) / 1000000000 := by omega
  have hk2 : (configured + 500000000) / 1000000000 < 4294967296 := by omega
  have e1 : ((configured + 500000000) / 1000000000 * 1000000000 + 500000000) / 1000000000 = (configured + 500000000) / 1000000000 := by omega
  rw [e1]
  have e2 : (configured + 500000000) / 1000000000 % 4294967296 = (configured + 500000000) / 1000000000 := by omega
  rw [e2]
  constructor
  · rw [Int.toNat_of_nonneg hk]
  · trivial

/-- before the repair the two differed: 1.5 s is announced as 2 s (the failing input of D19) -/
example : leaseOpt 1500000000 = 2 ∧ (leaseOpt 1500000000 : Int) * nsPerSec ≠ 1500000000 ∧ keptLease 1500000000 = 2000000000 := by
  refine ⟨by decide, by decide, by decide⟩

end CoreDhcp
