/-
C06 — Free releases exactly the named outstanding block, or fails without effect.
Property theorems only; invariant proofs are in Proofs/Alloc6.lean and Proofs/Alloc4.lean.
The monitor this theorem is about is the `c06` component of `Mon6.step` / `Mon4.step` (Spec/Alloc.lean).
-/
import CoreDhcp.Proofs.Alloc6
import CoreDhcp.Proofs.Alloc4
import CoreDhcp.Proofs.MonLemmas
namespace CoreDhcp

theorem C06_alloc6 (p : Pool6) (hp : p.WF) (a : A6) (hnew : A6.new p = .ok a)
    (ops : List Op6) (cs : List (Option Nat)) (evs : List Ev6) (z : A6)
    (hdom : ops.all (Op6.inDomain p) = true) (hrun : A6.run a ops cs = some (evs, z)) :
    C06.holds6 p evs = true := by
  unfold C06.holds6
  exact all_of_all_imp (A6.run_verdicts p hp a hnew ops cs evs z hdom hrun)
    (fun v hv => by unfold Verdict.all at hv; simp only [Bool.and_eq_true] at hv; exact hv.1.2)

theorem C06_alloc4 (s e : BitVec 32) (a : A4) (hnew : A4.new (some s) (some e) = .ok a)
    (ops : List Op4) (cs : List (Option Nat)) (evs : List Ev4) (z : A4)
    (hrun : A4.run a ops cs = some (evs, z)) :
    C06.holds4 s e evs = true := by
  unfold C06.holds4
  exact all_of_all_imp (A4.run_verdicts s e a hnew ops cs evs z hrun)
    (fun v hv => by unfold Verdict.all at hv; simp only [Bool.and_eq_true] at hv; exact hv.1.2)

end CoreDhcp

namespace CoreDhcp
/-- a failing Free leaves the allocator exactly as it was -/
theorem C06_error_unchanged6 (a : A6) (ip : Addr) (ones : Nat) (e : FErr)
    (hr : (a.free ip ones).2 = .error e) : (a.free ip ones).1 = a := A6.free_error_unchanged a ip ones e hr
theorem C06_error_unchanged4 (a : A4) (ip : Option (BitVec 32))
    (hr : (a.free ip).2 ≠ .ok) : (a.free ip).1 = a := A4.free_error_unchanged a ip hr

/-- D2 (repaired by a `fix:` commit): `Free` as it was — no containment check, absolute distance —
releases block 2 of the pool 2001:db8:0:100::/56 when asked to free 2001:db8:0:fe::/64, two blocks
below the base. The same history is in the conformance corpus. -/
theorem C06_D2_prefix_refuted :
    let p : Pool6 := ⟨⟨0x20010db800000100#64, 0#64⟩, 56, 64⟩
    let a : A6 := ⟨p, ⟨[true, true, true] ++ List.replicate 253 false⟩⟩
    ((a.freePreFix ⟨0x20010db8000000fe#64, 0#64⟩ 64).2 = .ok ()) ∧
    ((a.freePreFix ⟨0x20010db8000000fe#64, 0#64⟩ 64).1.bm.test 2 = false) ∧
    ((a.free ⟨0x20010db8000000fe#64, 0#64⟩ 64).2 = .error .notFound) := by
  refine ⟨?_, ?_, ?_⟩ <;> rfl
end CoreDhcp
