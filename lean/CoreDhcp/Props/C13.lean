/-
C13 — Plugins run in configured order until one stops the chain.
Property theorems only (proofs in Proofs/Dispatch.lean). Handlers are arbitrary functions.
-/
import CoreDhcp.Proofs.Dispatch
namespace CoreDhcp

/-- The invocation log of the chain is positions 0..k-1 in order, each once, each receiving the
original request and the response returned by its predecessor (`chainIn`), and the result is the
response returned last. -/
theorem C13_order {Req Resp : Type} (hs : List (Req → Option Resp → Option Resp × Bool)) (req : Req) (r0 : Option Resp) :
    (runChain hs req 0 r0).2 = (List.range (chainLen hs req r0)).map (fun i => (i, chainIn hs req r0 i)) ∧
    (runChain hs req 0 r0).1 = chainIn hs req r0 (chainLen hs req r0) := C13_chain hs req r0

/-- Invocation stops after the first handler that signals stop, and not before. -/
theorem C13_stop {Req Resp : Type} (hs : List (Req → Option Resp → Option Resp × Bool)) (req : Req) (r0 : Option Resp) :
    chainLen hs req r0 ≤ hs.length ∧
    (∀ i, i + 1 < chainLen hs req r0 → chainStops hs req r0 i = false) ∧
    (chainLen hs req r0 < hs.length → chainStops hs req r0 (chainLen hs req r0 - 1) = true ∧ 0 < chainLen hs req r0) :=
  C13_chain_stops hs req r0

/-- What is sent is the response returned last; a nil response means nothing is sent. -/
theorem C13_sends_last4 (bound : Nat) (oob : Option Nat) (hs : List Handler4) (req : Req4) (r0 : Resp4)
    (h0 : stub4 req = some r0) :
    (match dispatch4 bound oob hs (some req) with
     | .send resp _ _ _ _ => (runChain hs req 0 (some r0)).1 = some resp
     | .drop => (runChain hs req 0 (some r0)).1 = none
     | .panicNoIf => (runChain hs req 0 (some r0)).1 ≠ none) := C13_sent4 bound oob hs req r0 h0

theorem C13_sends_last6 (bound : Nat) (oob : Option Nat) (src : Addr) (hs : List Handler6) (d : Pkt6) (m : Msg6) (r0 : Resp6)
    (hm : d.msg = some m) (h0 : stub6 m = some r0) :
    (match dispatch6 bound oob src hs (some d) with
     | .send _ resp _ => (runChain hs d 0 (some r0)).1 = some resp
     | .drop => (runChain hs d 0 (some r0)).1 = none ∨ ∃ l rest, d.layers = l :: rest ∧ l.mt ≠ 12) :=
  C13_sent6 bound oob src hs d m r0 hm h0

/-- Loading: on success every listed name is registered and the handlers are exactly the listed
plugins that support the protocol, in file order … -/
theorem C13_load_exact {H : Type} (reg : Registry H) (ps : List (String × List String)) (hs : List H)
    (h : loadChain reg ps = .ok hs) :
    (∀ p ∈ ps, (reg p.1).isSome = true) ∧ (supported reg ps).map (·.2) = hs.map (fun x => .ok (some x)) :=
  C13_load_ok reg ps hs h

/-- … an unknown name or any failing (or nil-returning) setup aborts start-up with an error … -/
theorem C13_load_aborts {H : Type} (reg : Registry H) (ps : List (String × List String))
    (h : (∃ p ∈ ps, reg p.1 = none) ∨ (∃ q ∈ supported reg ps, q.2 = .error () ∨ q.2 = .ok none)) :
    ∃ e, loadChain reg ps = .error e := C13_load_err reg ps h

/-- … and otherwise loading succeeds. -/
theorem C13_load_succeeds {H : Type} (reg : Registry H) (ps : List (String × List String))
    (h1 : ∀ p ∈ ps, (reg p.1).isSome = true)
    (h2 : ∀ q ∈ supported reg ps, ∃ x, q.2 = .ok (some x)) :
    ∃ hs, loadChain reg ps = .ok hs := C13_load_total reg ps h1 h2

end CoreDhcp
