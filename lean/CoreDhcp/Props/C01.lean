/-
C01 — No datagram, in any history, can crash or wedge the server.
Property theorems only. The model marks every place where the Go code (or a library encoder it
calls with repo-supplied values) can panic as an explicit outcome; "never panics" is then a
theorem about those outcomes, proved from the invariants of the stateful plugins. Termination:
every model function is a total Lean definition (structural recursion over finite lists), which
Lean checked when accepting it. Locks: every handler's mutex is released by `defer` (fact F1), so
no outcome — not even a panic — leaves a lock held.
-/
import CoreDhcp.Props.C02
import CoreDhcp.Props.C05
import CoreDhcp.Props.C15
import CoreDhcp.Props.C13
namespace CoreDhcp

/-- `HandleMsg4` ends in exactly one of: nothing sent, one reply sent — never the nil
control-message dereference — whenever the listener is bound or the kernel reported the receiving
interface (fact F5), for every parse result and every chain of handlers. "At most one reply" is
by construction: `Out4` holds at most one. -/
theorem C01_dispatch4 (bound : Nat) (oob : Option Nat) (hs : List Handler4) (input : Option Req4)
    (henv : bound ≠ 0 ∨ ∃ i, oob = some i ∧ i ≠ 0) :
    dispatch4 bound oob hs input = .drop ∨ ∃ r p port i l2, dispatch4 bound oob hs input = .send r p port i l2 := by
  have h := C15_has_interface bound oob hs input henv
  cases hd : dispatch4 bound oob hs input with
  | drop => exact Or.inl rfl
  | send r p port i l2 => exact Or.inr ⟨r, p, port, i, l2, rfl⟩
  | panicNoIf => exact absurd hd h

/-- `HandleMsg6`: nothing sent or one reply (the model has no other outcome), for every input. -/
theorem C01_dispatch6 (bound : Nat) (oob : Option Nat) (src : Addr) (hs : List Handler6) (input : Option Pkt6) :
    dispatch6 bound oob src hs input = .drop ∨ ∃ ls r i, dispatch6 bound oob src hs input = .send ls r i := by
  cases hd : dispatch6 bound oob src hs input with
  | drop => exact Or.inl rfl
  | send ls r i => exact Or.inr ⟨ls, r, i, rfl⟩

theorem no_panic_of_verdicts (c : RCfg) : ∀ (bound : List (Mac × BitVec 32)) (evs : List REv),
    (RMon.run c bound evs).all RVerdict.all = true →
    ∀ mac now st, REv.req mac now .panic st ∉ evs := by
  intro bound evs
  induction evs generalizing bound with
  | nil => intro _ mac now st h; cases h
  | cons ev rest ih =>
    intro hall mac now st hmem
    simp only [RMon.run, List.all_cons, Bool.and_eq_true] at hall
    cases hmem with
    | head => simp [RMon.step, RVerdict.all] at hall
    | tail _ hm => exact ih _ hall.2 mac now st hm

/-- The range plugin never reaches `toIP`'s "BUG: offset out of bounds" panic, in any history of
requests and restarts. -/
theorem C01_range_never_panics (start stop : BitVec 32) (lease : Int)
    (loadKey : Mac → Option Mac) (order : List (Mac × Rec) → List (Mac × Rec))
    (hkey : ∀ m, loadKey m = some m) (hperm : ∀ l, (order l).Perm l)
    (s0 : RState) (hs0 : RState.setup start stop lease [] loadKey order = .ok s0)
    (ops : List ROp) (cs : List (Option Nat)) (evs : List REv) (z : RState)
    (hrun : RState.run loadKey order s0 ops cs = some (evs, z)) :
    ∀ mac now st, REv.req mac now .panic st ∉ evs :=
  no_panic_of_verdicts ⟨start, stop, lease⟩ [] evs
    (RState.run_verdicts start stop lease loadKey order hkey hperm s0 hs0 ops cs evs z hrun)

theorem no_error_of_verdicts6 (p : Pool6) : ∀ (out : List Block) (evs : List Ev6),
    (Mon6.run p out evs).all Verdict.all = true →
    ∀ h e, e ≠ AErr.noaddr → Ev6.alloc h (.error e) ∉ evs := by
  intro out evs
  induction evs generalizing out with
  | nil => intro _ h e _ hm; cases hm
  | cons ev rest ih =>
    intro hall h e hne hmem
    simp only [Mon6.run, List.all_cons, Bool.and_eq_true] at hall
    cases hmem with
    | head => cases e <;> simp_all [Mon6.step, Verdict.all]
    | tail _ hm => exact ih _ hall.2 h e hne hm

/-- The IPv6 allocator never reaches its "BUG: could not get prefix from allocation" branch nor a
failing `toPrefix` on the hint path, in any history. -/
theorem C01_alloc6_never_bug (p : Pool6) (hp : p.WF) (a : A6) (hnew : A6.new p = .ok a)
    (ops : List Op6) (cs : List (Option Nat)) (evs : List Ev6) (z : A6)
    (hdom : ops.all (Op6.inDomain p) = true) (hrun : A6.run a ops cs = some (evs, z)) :
    ∀ h e, e ≠ AErr.noaddr → Ev6.alloc h (.error e) ∉ evs :=
  no_error_of_verdicts6 p [] evs (A6.run_verdicts p hp a hnew ops cs evs z hdom hrun)

theorem no_panic_of_verdicts4 (s e : BitVec 32) : ∀ (out : List (BitVec 32)) (evs : List Ev4),
    (Mon4.run s e out evs).all Verdict.all = true → ∀ h, Ev4.alloc h .panic ∉ evs := by
  intro out evs
  induction evs generalizing out with
  | nil => intro _ h hm; cases hm
  | cons ev rest ih =>
    intro hall h hmem
    simp only [Mon4.run, List.all_cons, Bool.and_eq_true] at hall
    cases hmem with
    | head => simp [Mon4.step, Verdict.all] at hall
    | tail _ hm => exact ih _ hall.2 h hm

/-- The IPv4 allocator never reaches `toIP`'s panic, in any history, for any range. -/
theorem C01_alloc4_never_panics (s e : BitVec 32) (a : A4) (hnew : A4.new (some s) (some e) = .ok a)
    (ops : List Op4) (cs : List (Option Nat)) (evs : List Ev4) (z : A4)
    (hrun : A4.run a ops cs = some (evs, z)) : ∀ h, Ev4.alloc h .panic ∉ evs :=
  no_panic_of_verdicts4 s e [] evs (A4.run_verdicts s e a hnew ops cs evs z hrun)

/-- The chain itself always terminates after at most `hs.length` handler invocations. -/
theorem C01_chain_bounded {Req Resp : Type} (hs : List (Req → Option Resp → Option Resp × Bool)) (req : Req) (r0 : Option Resp) :
    (runChain hs req 0 r0).2.length ≤ hs.length := by
  rw [(C13_order hs req r0).1, List.length_map, List.length_range]
  exact (C13_stop hs req r0).1

end CoreDhcp
