/-
GEN (static leases from a file) — the definitions regenerated from the Go source on every run
(Generated/FilePlugin.lean, written by `harness gen -unit fileplugin` from the go/ast of
plugins/file/plugin.go: LoadDHCPv4Records, LoadDHCPv6Records, handle4, handle6, loadFromFile, and the
table each registered handler is given) are equal to the hand-written model (Model/File.lean:
`loadFile`, `FState.load`, `FState.query4`, `FState.query6`) that C10 and the system theorems are about.

The generated side keeps what Go sees and returns:

  * a line is the record `GenFile.Line` of the answers of the library calls (`len(line) == 0`,
    `strings.HasPrefix(line, "#")`, `len(strings.Fields(line))`, `net.ParseMAC`, `net.ParseIP`), all of
    them available independently — the ORDER in which the code asks is in the generated text.  The model's
    `FLine` is the classification of such a record (`Gen7.toFLine`: empty, else comment, else fields): a
    theorem about `toFLine` says that the code asks in the model's order.
  * the loaders return `(table, error)` with WHICH error; the model returns `Option FTable`.
  * the handlers return `(response | nil, stop)` with what was put into the response (for DHCPv6 with the two
    lifetimes); the model returns `FReply4` / `FReply6`.
  * the state has the third table `StaticRecords`; the model has the two per-protocol tables.

`Gen7.of…` embed the model's results into the generated side's, and the theorems have the form

    generated function = embedding (model function)

so they say both that the decisions agree and what the extra components are.

Two statements need a hypothesis, and what happens without it is stated next to them:
  * `handle4` puts whatever the table holds into `YourIPAddr` and stops; the model's `query4` answers only
    for a `.v4` entry.  They agree on every table the DHCPv4 loader can have produced (`Gen7.Fam false`,
    an invariant of the reachable states: `Gen7.wf_load`); `GEN_file_handle4_other` is the rest.
    Likewise `handle6` / `query6` and `.v6`.
  * `handle6` returns `nil, true` when `req.GetInnerMessage()` fails; the model has no such input (the
    server decapsulates before it runs the handlers): `GEN_file_handle6_undecapsulated`.

An edit of the Go logic changes the generated text, makes a statement below false and breaks this file (or
is rejected by the translator); a renamed local, a reformatted source or a moved log statement generates
the same text.
-/
import CoreDhcp.Generated.FilePlugin
import CoreDhcp.Model.File
set_option linter.unusedSimpArgs false
namespace CoreDhcp
open GenFile (Line LoadErr Flow State Req4 Req6 Inner6 Eff4 Eff6 Out4 Out6 to4Nil to16Nil)

/-! ## lines: the generated view and the model's -/

/-- the model's `FLine` of a line: `empty` if its length is 0, else `comment` if it starts with `#`,
else its fields with the parsers' answers -/
def Gen7.toFLine (l : Line) : FLine :=
  if l.len0 then .empty else if l.hash then .comment else .fields l.nfields l.mac l.ip

/-- a view of a model line (what is not looked at is filled in arbitrarily) -/
def Gen7.ofFLine : FLine → Line
  | .empty => ⟨true, false, 0, none, .none⟩
  | .comment => ⟨false, true, 1, none, .none⟩
  | .fields n mac ip => ⟨false, false, n, mac, ip⟩

theorem Gen7.toFLine_ofFLine (l : FLine) : Gen7.toFLine (Gen7.ofFLine l) = l := by
  cases l <;> rfl

theorem Gen7.map_toFLine_ofFLine (ls : List FLine) : (ls.map Gen7.ofFLine).map Gen7.toFLine = ls := by
  induction ls with
  | nil => rfl
  | cons l rest ih => simp only [List.map_cons, Gen7.toFLine_ofFLine, ih]

/-- why a line makes a loader give up (`none`: it does not) -/
def Gen7.lineErr (v6 : Bool) (l : Line) : Option LoadErr :=
  if l.len0 = true ∨ l.hash = true then none
  else if l.nfields ≠ 2 then some .fieldCount
  else match l.mac with
    | none => some .badMAC
    | some _ =>
      match v6, l.ip with
      | false, .v4 _ => none
      | true, .v6 _ => none
      | false, _ => some .notIPv4
      | true, _ => some .notIPv6

/-- the table after a line that does not make the loader give up -/
def Gen7.lineTable (l : Line) (t : FTable) : FTable :=
  if l.len0 = true ∨ l.hash = true then t
  else match l.mac with
    | none => t
    | some m => t.put m l.ip

/-- the model's result as the loaders return it: the table and no error, or no table and the error of the
first offending line -/
def Gen7.ofLoad (v6 : Bool) (lines : List Line) : Option FTable → FTable × Option LoadErr
  | some t => (t, none)
  | none => ([], lines.findSome? (Gen7.lineErr v6))

/-- the way back (forgets which error) -/
def Gen7.toLoad : FTable × Option LoadErr → Option FTable
  | (t, none) => some t
  | (_, some _) => none

/-! ## one line -/

/-- the model, one line further -/
theorem Gen7.loadFile_cons (v6 : Bool) (l : Line) (rest : List Line) (t : FTable) :
    loadFile v6 (Gen7.toFLine l :: rest.map Gen7.toFLine) t =
      match Gen7.lineErr v6 l with
      | some _ => none
      | none => loadFile v6 (rest.map Gen7.toFLine) (Gen7.lineTable l t) := by
  rcases l with ⟨len0, hash, n, mac, ip⟩
  cases len0
  · cases hash
    · by_cases hn : n = 2
      · subst hn
        cases mac with
        | none => simp [Gen7.toFLine, Gen7.lineErr, loadFile]
        | some m =>
          cases v6 <;> cases ip <;> simp [Gen7.toFLine, Gen7.lineErr, Gen7.lineTable, loadFile]
      · simp [Gen7.toFLine, Gen7.lineErr, loadFile, hn]
    · simp [Gen7.toFLine, Gen7.lineErr, Gen7.lineTable, loadFile]
  · simp [Gen7.toFLine, Gen7.lineErr, Gen7.lineTable, loadFile]

/-- the body of the DHCPv4 line loop: the tests in the model's order, each with its error -/
theorem GEN_file_body4_eq (l : Line) (t : FTable) :
    GenFile.body4 l t =
      match Gen7.lineErr false l with
      | some e => .ret ([], some e)
      | none => .next (Gen7.lineTable l t) := by
  rcases l with ⟨len0, hash, n, mac, ip⟩
  cases len0
  · cases hash
    · by_cases hn : n = 2
      · subst hn
        cases mac with
        | none => simp [GenFile.body4, Gen7.lineErr]
        | some m => cases ip <;> simp [GenFile.body4, Gen7.lineErr, Gen7.lineTable, to4Nil]
      · simp [GenFile.body4, Gen7.lineErr, hn]
    · simp [GenFile.body4, Gen7.lineErr, Gen7.lineTable]
  · simp [GenFile.body4, Gen7.lineErr, Gen7.lineTable]

theorem GEN_file_body6_eq (l : Line) (t : FTable) :
    GenFile.body6 l t =
      match Gen7.lineErr true l with
      | some e => .ret ([], some e)
      | none => .next (Gen7.lineTable l t) := by
  rcases l with ⟨len0, hash, n, mac, ip⟩
  cases len0
  · cases hash
    · by_cases hn : n = 2
      · subst hn
        cases mac with
        | none => simp [GenFile.body6, Gen7.lineErr]
        | some m => cases ip <;> simp [GenFile.body6, Gen7.lineErr, Gen7.lineTable, to4Nil, to16Nil]
      · simp [GenFile.body6, Gen7.lineErr, hn]
    · simp [GenFile.body6, Gen7.lineErr, Gen7.lineTable]
  · simp [GenFile.body6, Gen7.lineErr, Gen7.lineTable]

/-! ## the loaders -/

theorem Gen7.ofLoad_cons_none (v6 : Bool) (l : Line) (rest : List Line) (r : Option FTable)
    (h : Gen7.lineErr v6 l = none) : Gen7.ofLoad v6 (l :: rest) r = Gen7.ofLoad v6 rest r := by
  cases r with
  | some t => rfl
  | none => simp [Gen7.ofLoad, List.findSome?_cons, h]

/-- the line loop of `LoadDHCPv4Records`, from any table -/
theorem GEN_file_loop4_eq (lines : List Line) :
    ∀ t : FTable, GenFile.loop4 lines t =
      Gen7.ofLoad false lines (loadFile false (lines.map Gen7.toFLine) t) := by
  induction lines with
  | nil => intro t; rfl
  | cons l rest ih =>
    intro t
    rw [List.map_cons, Gen7.loadFile_cons, GenFile.loop4, GEN_file_body4_eq]
    cases h : Gen7.lineErr false l with
    | some e => simp [Gen7.ofLoad, List.findSome?_cons, h]
    | none => simp only [ih, Gen7.ofLoad_cons_none _ _ _ _ h]

theorem GEN_file_loop6_eq (lines : List Line) :
    ∀ t : FTable, GenFile.loop6 lines t =
      Gen7.ofLoad true lines (loadFile true (lines.map Gen7.toFLine) t) := by
  induction lines with
  | nil => intro t; rfl
  | cons l rest ih =>
    intro t
    rw [List.map_cons, Gen7.loadFile_cons, GenFile.loop6, GEN_file_body6_eq]
    cases h : Gen7.lineErr true l with
    | some e => simp [Gen7.ofLoad, List.findSome?_cons, h]
    | none => simp only [ih, Gen7.ofLoad_cons_none _ _ _ _ h]

/-- `LoadDHCPv4Records` on a readable file is the model's `loadFile false … []` -/
theorem GEN_file_load4_eq (lines : List Line) :
    GenFile.loadDHCPv4Records (some lines) =
      Gen7.ofLoad false lines (loadFile false (lines.map Gen7.toFLine) []) :=
  GEN_file_loop4_eq lines []

/-- `LoadDHCPv6Records` on a readable file is the model's `loadFile true … []` -/
theorem GEN_file_load6_eq (lines : List Line) :
    GenFile.loadDHCPv6Records (some lines) =
      Gen7.ofLoad true lines (loadFile true (lines.map Gen7.toFLine) []) :=
  GEN_file_loop6_eq lines []

/-- a rejected file has an offending line: `loadFromFile` does return an error then -/
theorem Gen7.rejected_has_error (v6 : Bool) (lines : List Line) :
    ∀ t, loadFile v6 (lines.map Gen7.toFLine) t = none → (lines.findSome? (Gen7.lineErr v6)).isSome = true := by
  induction lines with
  | nil => intro t h; simp [loadFile] at h
  | cons l rest ih =>
    intro t h
    rw [List.map_cons, Gen7.loadFile_cons] at h
    cases hl : Gen7.lineErr v6 l with
    | some e => simp [List.findSome?_cons, hl]
    | none =>
      rw [hl] at h
      simpa [List.findSome?_cons, hl] using ih _ h

/-- the same, read from the model's side: for model lines, through any view of them -/
theorem GEN_file_load4_model (lines : List FLine) :
    Gen7.toLoad (GenFile.loadDHCPv4Records (some (lines.map Gen7.ofFLine))) = loadFile false lines [] := by
  rw [GEN_file_load4_eq, Gen7.map_toFLine_ofFLine]
  cases h : loadFile false lines [] with
  | some t => rfl
  | none =>
    have := Gen7.rejected_has_error false (lines.map Gen7.ofFLine) [] (by rw [Gen7.map_toFLine_ofFLine]; exact h)
    simp only [Gen7.ofLoad]
    cases hf : List.findSome? (Gen7.lineErr false) (lines.map Gen7.ofFLine) with
    | none => rw [hf] at this; cases this
    | some e => rfl

theorem GEN_file_load6_model (lines : List FLine) :
    Gen7.toLoad (GenFile.loadDHCPv6Records (some (lines.map Gen7.ofFLine))) = loadFile true lines [] := by
  rw [GEN_file_load6_eq, Gen7.map_toFLine_ofFLine]
  cases h : loadFile true lines [] with
  | some t => rfl
  | none =>
    have := Gen7.rejected_has_error true (lines.map Gen7.ofFLine) [] (by rw [Gen7.map_toFLine_ofFLine]; exact h)
    simp only [Gen7.ofLoad]
    cases hf : List.findSome? (Gen7.lineErr true) (lines.map Gen7.ofFLine) with
    | none => rw [hf] at this; cases this
    | some e => rfl

/-- an unreadable file: the error of `os.ReadFile`, no table (the model has no such input) -/
theorem GEN_file_load_unreadable :
    GenFile.loadDHCPv4Records none = ([], some .readFile) ∧
    GenFile.loadDHCPv6Records none = ([], some .readFile) := ⟨rfl, rfl⟩

/-! ## loadFromFile -/

/-- the model's state in the generated one -/
def Gen7.toF (S : State) : FState := ⟨S.t4, S.t6⟩

def Gen7.protver (v6 : Bool) : Nat := if v6 then 6 else 4

/-- the model's result of a load as `loadFromFile` leaves it: on success `StaticRecords` is the new table too,
on failure nothing changes and the loader's error comes back wrapped with the protocol number -/
def Gen7.ofLoadFrom (S : State) (v6 : Bool) (lines : List Line) : FState × Bool → State × Option LoadErr
  | (s, true) => (⟨s.t4, s.t6, s.table v6⟩, none)
  | (s, false) => (⟨s.t4, s.t6, S.static⟩,
      (lines.findSome? (Gen7.lineErr v6)).map (LoadErr.wrapped (Gen7.protver v6)))

theorem GEN_file_loadFromFile_eq (S : State) (v6 : Bool) (lines : List Line) :
    GenFile.loadFromFile S v6 (some lines) =
      Gen7.ofLoadFrom S v6 lines ((Gen7.toF S).load v6 (lines.map Gen7.toFLine)) := by
  unfold GenFile.loadFromFile FState.load
  cases v6
  · simp only [Bool.false_eq_true, if_false, GEN_file_load4_eq]
    cases h : loadFile false (lines.map Gen7.toFLine) [] with
    | some t => rfl
    | none =>
      have := Gen7.rejected_has_error false lines [] h
      simp only [Gen7.ofLoad, Gen7.ofLoadFrom, Gen7.toF]
      cases hf : List.findSome? (Gen7.lineErr false) lines with
      | none => rw [hf] at this; cases this
      | some e => rfl
  · simp only [if_true, GEN_file_load6_eq]
    cases h : loadFile true (lines.map Gen7.toFLine) [] with
    | some t => rfl
    | none =>
      have := Gen7.rejected_has_error true lines [] h
      simp only [Gen7.ofLoad, Gen7.ofLoadFrom, Gen7.toF]
      cases hf : List.findSome? (Gen7.lineErr true) lines with
      | none => rw [hf] at this; cases this
      | some e => rfl

/-- read from the model's side: the per-protocol tables afterwards and whether it succeeded -/
theorem GEN_file_loadFromFile_model (S : State) (v6 : Bool) (lines : List Line) :
    (Gen7.toF (GenFile.loadFromFile S v6 (some lines)).1, (GenFile.loadFromFile S v6 (some lines)).2.isNone) =
      (Gen7.toF S).load v6 (lines.map Gen7.toFLine) := by
  rw [GEN_file_loadFromFile_eq]
  unfold FState.load
  cases h : loadFile v6 (lines.map Gen7.toFLine) [] with
  | some t => rfl
  | none =>
    have := Gen7.rejected_has_error v6 lines [] h
    cases hf : List.findSome? (Gen7.lineErr v6) lines with
    | none => rw [hf] at this; cases this
    | some e => simp [Gen7.ofLoadFrom, Gen7.toF, hf]

/-- an unreadable file: nothing changes (the model has no such input; `setupFile` fails, a refresh is skipped) -/
theorem GEN_file_loadFromFile_unreadable (S : State) (v6 : Bool) :
    GenFile.loadFromFile S v6 none = (S, some (.wrapped (Gen7.protver v6) .readFile)) := by
  cases v6 <;> rfl

/-- all-or-nothing, on the generated definition alone: an error leaves all three tables as they were -/
theorem GEN_file_loadFromFile_error_unchanged (S : State) (v6 : Bool) (file : Option (List Line))
    (h : (GenFile.loadFromFile S v6 file).2 ≠ none) : (GenFile.loadFromFile S v6 file).1 = S := by
  cases file with
  | none => rw [GEN_file_loadFromFile_unreadable]
  | some lines =>
    rw [GEN_file_loadFromFile_eq] at h ⊢
    unfold FState.load at h ⊢
    cases hl : loadFile v6 (lines.map Gen7.toFLine) [] with
    | some t => rw [hl] at h; exact absurd rfl h
    | none => rfl

/-! ## the tables a loader can have produced -/

def Gen7.famOK : Bool → IPKind → Bool
  | false, .v4 _ => true
  | true, .v6 _ => true
  | _, _ => false

/-- every entry has the protocol's address family -/
def Gen7.Fam (v6 : Bool) (t : FTable) : Prop := ∀ p ∈ t, Gen7.famOK v6 p.2 = true

theorem Gen7.fam_nil (v6 : Bool) : Gen7.Fam v6 [] := by
  intro p hp; cases hp

theorem Gen7.fam_put (v6 : Bool) (t : FTable) (m : List Nat) (ip : IPKind)
    (ht : Gen7.Fam v6 t) (hip : Gen7.famOK v6 ip = true) : Gen7.Fam v6 (t.put m ip) := by
  intro p hp
  unfold FTable.put at hp
  rcases List.mem_cons.mp hp with h | h
  · subst h; exact hip
  · exact ht p (List.mem_filter.mp h).1

theorem Gen7.fam_get (v6 : Bool) (t : FTable) (m : List Nat) (ip : IPKind)
    (ht : Gen7.Fam v6 t) (h : t.get m = some ip) : Gen7.famOK v6 ip = true := by
  unfold FTable.get at h
  cases hf : t.find? (fun p => p.1 == m) with
  | none => rw [hf] at h; cases h
  | some p =>
    rw [hf] at h
    simp only [Option.map_some, Option.some.injEq] at h
    subst h
    exact ht p (List.mem_of_find?_eq_some hf)

theorem Gen7.fam_load (v6 : Bool) (lines : List FLine) :
    ∀ acc t, loadFile v6 lines acc = some t → Gen7.Fam v6 acc → Gen7.Fam v6 t := by
  induction lines with
  | nil =>
    intro acc t h hacc
    simp only [loadFile, Option.some.injEq] at h
    subst h; exact hacc
  | cons l rest ih =>
    intro acc t h hacc
    cases l with
    | empty => exact ih acc t (by simpa only [loadFile] using h) hacc
    | comment => exact ih acc t (by simpa only [loadFile] using h) hacc
    | fields n mac ip =>
      by_cases hn : n = 2
      · subst hn
        cases mac with
        | none => simp [loadFile] at h
        | some m =>
          cases v6 <;> cases ip <;> simp [loadFile] at h
          · exact ih _ t h (Gen7.fam_put _ _ _ _ hacc rfl)
          · exact ih _ t h (Gen7.fam_put _ _ _ _ hacc rfl)
      · simp [loadFile, hn] at h

/-- the invariant of the model's states: each table holds addresses of its protocol -/
def Gen7.Wf (s : FState) : Prop := Gen7.Fam false s.t4 ∧ Gen7.Fam true s.t6

theorem Gen7.wf_init : Gen7.Wf {} := ⟨Gen7.fam_nil _, Gen7.fam_nil _⟩

theorem Gen7.wf_load (s : FState) (v6 : Bool) (lines : List FLine) (h : Gen7.Wf s) :
    Gen7.Wf (s.load v6 lines).1 := by
  unfold FState.load
  cases hl : loadFile v6 lines [] with
  | none => exact h
  | some t =>
    have ht := Gen7.fam_load v6 lines [] t hl (Gen7.fam_nil _)
    cases v6
    · exact ⟨ht, h.2⟩
    · exact ⟨h.1, ht⟩

/-! ## handle4 -/

/-- `FReply4` as `handle4` returns it: the address goes into `YourIPAddr` and the chain stops; otherwise the
response comes back as it was and the chain goes on -/
def Gen7.ofReply4 : FReply4 → Out4
  | .yiaddr a => (some (.yiaddr (.v4 a)), true)
  | .pass => (some .unchanged, false)

/-- `handle4` as it is, on any table -/
theorem GEN_file_handle4_raw (t : FTable) (mac : List Nat) :
    GenFile.handle4 t ⟨mac⟩ =
      match t.get mac with
      | none => (some .unchanged, false)
      | some ip => (some (.yiaddr ip), true) := rfl

/-- `handle4` on a table of IPv4 addresses is the model's `query4` -/
theorem GEN_file_handle4_eq (s : FState) (mac : List Nat) (h : Gen7.Fam false s.t4) :
    GenFile.handle4 s.t4 ⟨mac⟩ = Gen7.ofReply4 (s.query4 mac) := by
  rw [GEN_file_handle4_raw]
  unfold FState.query4
  cases hg : s.t4.get mac with
  | none => rfl
  | some ip =>
    have hf := Gen7.fam_get false _ _ _ h hg
    cases ip with
    | v4 a => rfl
    | none => cases hf
    | v6 a => cases hf

/-- the handler `setup4` registers serves from DHCPv4Records -/
theorem GEN_file_served4_eq (S : State) (mac : List Nat) (h : Gen7.Fam false S.t4) :
    GenFile.served4 S ⟨mac⟩ = Gen7.ofReply4 ((Gen7.toF S).query4 mac) :=
  GEN_file_handle4_eq (Gen7.toF S) mac h

/-- outside the invariant code and model differ: an entry that is not an IPv4 address (no loader stores one
in DHCPv4Records) goes into `YourIPAddr` and stops the chain, the model passes -/
theorem GEN_file_handle4_other (s : FState) (mac : List Nat) (ip : IPKind)
    (hg : s.t4.get mac = some ip) (hip : Gen7.famOK false ip = false) :
    GenFile.handle4 s.t4 ⟨mac⟩ = (some (.yiaddr ip), true) ∧ s.query4 mac = .pass := by
  rw [GEN_file_handle4_raw]
  unfold FState.query4
  rw [hg]
  cases ip with
  | v4 a => cases hip
  | none => exact ⟨rfl, rfl⟩
  | v6 a => exact ⟨rfl, rfl⟩

/-! ## handle6 -/

/-- `FReply6` as `handle6` returns it: an IA_NA with the address and both lifetimes 3600 s is added; the
chain goes on in either case -/
def Gen7.ofReply6 : FReply6 → Out6
  | .iana a => (some (.iana (.v6 a) 3600 3600), false)
  | .pass => (some .unchanged, false)

theorem GEN_file_handle6_raw (t : FTable) (hasIANA : Bool) (mac : Option (List Nat)) :
    GenFile.handle6 t ⟨some ⟨hasIANA⟩, mac⟩ =
      if hasIANA = false then (some .unchanged, false)
      else match mac with
        | none => (some .unchanged, false)
        | some m =>
          match t.get m with
          | none => (some .unchanged, false)
          | some ip => (some (.iana ip 3600 3600), false) := by
  cases hasIANA <;> cases mac <;> rfl

/-- `handle6` on a decapsulated request and a table of IPv6 addresses is the model's `query6` -/
theorem GEN_file_handle6_eq (s : FState) (hasIANA : Bool) (mac : Option (List Nat)) (h : Gen7.Fam true s.t6) :
    GenFile.handle6 s.t6 ⟨some ⟨hasIANA⟩, mac⟩ = Gen7.ofReply6 (s.query6 hasIANA mac) := by
  rw [GEN_file_handle6_raw]
  unfold FState.query6
  cases hasIANA
  · rfl
  · cases mac with
    | none => rfl
    | some m =>
      simp only [Bool.true_eq_false, if_false, Bool.not_true]
      cases hg : s.t6.get m with
      | none => rfl
      | some ip =>
        have hf := Gen7.fam_get true _ _ _ h hg
        cases ip with
        | v6 a => rfl
        | none => cases hf
        | v4 a => cases hf

/-- the handler `setup6` registers serves from DHCPv6Records -/
theorem GEN_file_served6_eq (S : State) (hasIANA : Bool) (mac : Option (List Nat)) (h : Gen7.Fam true S.t6) :
    GenFile.served6 S ⟨some ⟨hasIANA⟩, mac⟩ = Gen7.ofReply6 ((Gen7.toF S).query6 hasIANA mac) :=
  GEN_file_handle6_eq (Gen7.toF S) hasIANA mac h

/-- no inner message: no response, chain stopped (the model has no such input: server/handle.go drops such a
packet before any handler runs) -/
theorem GEN_file_handle6_undecapsulated (t : FTable) (mac : Option (List Nat)) :
    GenFile.handle6 t ⟨none, mac⟩ = (none, true) := rfl

/-- outside the invariant code and model differ: an entry that is not an IPv6 address is offered, the model passes -/
theorem GEN_file_handle6_other (s : FState) (m : List Nat) (ip : IPKind)
    (hg : s.t6.get m = some ip) (hip : Gen7.famOK true ip = false) :
    GenFile.handle6 s.t6 ⟨some ⟨true⟩, some m⟩ = (some (.iana ip 3600 3600), false) ∧
      s.query6 true (some m) = .pass := by
  rw [GEN_file_handle6_raw]
  unfold FState.query6
  simp only [Bool.true_eq_false, if_false, Bool.not_true, hg]
  cases ip with
  | v6 a => cases hip
  | none => simp
  | v4 a => simp

/-! ## the exported Handler4 / Handler6 serve from the table loaded last -/

theorem GEN_file_exported (S : State) (r4 : Req4) (r6 : Req6) :
    GenFile.handler4 S r4 = GenFile.handle4 S.static r4 ∧ GenFile.handler6 S r6 = GenFile.handle6 S.static r6 :=
  ⟨rfl, rfl⟩

/-- after a successful load `StaticRecords` is the table just loaded -/
theorem GEN_file_static_after_load (S : State) (v6 : Bool) (lines : List Line) (t : FTable)
    (h : loadFile v6 (lines.map Gen7.toFLine) [] = some t) :
    (GenFile.loadFromFile S v6 (some lines)).1.static = t := by
  rw [GEN_file_loadFromFile_eq]
  unfold FState.load
  rw [h]
  cases v6 <;> rfl

end CoreDhcp
