/-
GEN (range plugin, DHCPv4 dynamic leases) — the definitions regenerated from the Go source on every
run (Generated/Range4.lean, written by `harness gen -unit range4` from the go/ast of
plugins/range/plugin.go: `(*PluginState).Handler4` and the re-marking loop at the end of
`setupRange`) are equal to the hand-written model (Model/Range.lean: `RState.handle`, `remark`) that
the lease theorems (Proofs/Range.lean, Props/C02, C03) are about.

* `GEN_range_handler4_eq`: with the allocator's choice taken first-fit (what the real allocator does,
  unit alloc4), the model's `handle` is `some` of the generated `handler4`, for every state, hardware
  address and instant.  The generated side keeps what the code does step by step: the look-up and its
  `ok` test, allocate / record / save / map store in that order, the write through the pointer into
  the map followed by the save, `Unix()` of the sum for a first lease and `Round(time.Second).Unix()`
  for a renewal, option 51 from `LeaseTime.Round(time.Second)`.  The model says the same in one
  record update; the arithmetic facts needed are `unixFloor (roundSec t) = unixRound t` and
  `secs32 (roundSec d) = leaseOpt d`.
* `GEN_range_remark_eq`: the loop of `setupRange`, folded over the records in the order the loop
  visits them (Go's map iteration order: the model's parameter `order`), is the model's `remark`;
  a panic of the allocator and either `return nil, fmt.Errorf(…)` are the model's `none`.

What the translation fixes (the vocabulary) is listed in the header of gen8.go.  A failing
`saveIPAddress` is only logged by the code; the translator checks that shape and the model takes the
save to succeed.  An edit of the Go logic changes the generated text, makes a statement below false
and breaks this file (or is rejected by the translator); a renamed local, a reformatted source or a
moved log statement generates the same text.
-/
import CoreDhcp.Generated.Range4
import CoreDhcp.Model.Range
import CoreDhcp.Proofs.Alloc4
set_option linter.unusedSimpArgs false
namespace CoreDhcp
open GenRange (allocFF goAlloc roundSec secs32 LoopOut)

/-! ## the fixed vocabulary against the model -/

/-- first fit is always an admissible choice: the `getD` default of `allocFF` is never taken -/
theorem GenRange.allocFF_eq (a : A4) (hint : Option (BitVec 32)) :
    a.allocate hint a.firstFit = some (allocFF a hint) := by
  have h := A4.firstFit_admissible a hint
  unfold GenRange.allocFF
  cases hal : a.allocate hint a.firstFit with
  | none => rw [hal] at h; cases h
  | some p => rfl

theorem GenRange.nsPerSec_ne : nsPerSec ≠ 0 := by decide

/-- `t.Round(time.Second).Unix()` is the model's `unixRound` -/
theorem GenRange.unixFloor_roundSec (t : Int) : unixFloor (roundSec t) = unixRound t := by
  unfold unixFloor GenRange.roundSec
  exact Int.mul_ediv_cancel _ GenRange.nsPerSec_ne

/-- `uint32(d.Round(time.Second) / time.Second)` is the model's `leaseOpt` -/
theorem GenRange.secs32_roundSec (d : Int) : secs32 (roundSec d) = leaseOpt d := by
  unfold GenRange.secs32 leaseOpt GenRange.roundSec
  rw [Int.mul_ediv_cancel _ GenRange.nsPerSec_ne]

/-! ## Handler4 -/

/-- G-range: the generated `Handler4` is the model's `handle` driven by first fit. -/
theorem GEN_range_handler4_eq (s : RState) (mac : Mac) (now : Int) :
    s.handle mac now s.alloc.firstFit = some (GenRange.handler4 s mac now) := by
  unfold RState.handle GenRange.handler4
  cases hl : lookupRec s.recs mac with
  | none =>
    simp only [Option.isSome_none, Bool.not_false, if_true]
    rw [GenRange.allocFF_eq]
    generalize allocFF s.alloc none = p
    obtain ⟨a', res⟩ := p
    cases res with
    | ok ip =>
      simp only [goAlloc, Bool.false_eq_true, if_false, GenRange.secs32_roundSec]
    | noaddr => simp only [goAlloc, if_true]
    | panic => simp only [goAlloc]
  | some r =>
    simp only [Option.isSome_some, Bool.not_true, Bool.false_eq_true, if_false,
      GenRange.unixFloor_roundSec, GenRange.secs32_roundSec]
    by_cases hc : r.expires * nsPerSec < now + s.lease
    · simp only [if_pos hc]
    · simp only [if_neg hc]

/-- the same, read from the generated side -/
theorem GEN_range_handler4_eq' (s : RState) (mac : Mac) (now : Int) :
    GenRange.handler4 s mac now = (s.handle mac now s.alloc.firstFit).getD (s, .panic) := by
  rw [GEN_range_handler4_eq]; rfl

/-! ## the re-marking loop of setupRange -/

/-- one pass through the body: the model's step -/
theorem GEN_range_remarkBody_eq (a : A4) (v : Rec) :
    GenRange.remarkBody a v =
      match a.allocate (some v.ip) a.firstFit with
      | some (a', .ok ip) => if ip = v.ip then (a', .next) else (a', .fail)
      | some (a', .noaddr) => (a', .fail)
      | some (a', .panic) => (a', .panic)
      | none => (a, .panic) := by
  unfold GenRange.remarkBody
  rw [GenRange.allocFF_eq]
  generalize allocFF a (some v.ip) = p
  obtain ⟨a', res⟩ := p
  cases res with
  | ok ip =>
    simp only [goAlloc, Bool.false_eq_true, if_false, ne_eq, ite_not]
  | noaddr => simp only [goAlloc, if_true]
  | panic => simp only [goAlloc]

/-- what the loop leaves: the allocator when it ran to its end, nothing when setupRange failed -/
def Gen8.ofLoop : A4 × LoopOut → Option A4
  | (a, .next) => some a
  | _ => none

/-- G-remark: the generated loop, on the order it visits the records, is the model's `remark`. -/
theorem GEN_range_remark_eq (a : A4) (l : List (Mac × Rec)) :
    remark a l = Gen8.ofLoop (GenRange.remarkLoop a l) := by
  induction l generalizing a with
  | nil => rfl
  | cons p rest ih =>
    obtain ⟨m, v⟩ := p
    unfold remark GenRange.remarkLoop
    rw [GEN_range_remarkBody_eq]
    cases hal : a.allocate (some v.ip) a.firstFit with
    | none => rfl
    | some q =>
      obtain ⟨a', res⟩ := q
      cases res with
      | ok ip =>
        by_cases he : ip = v.ip
        · simp only [he, beq_self_eq_true, if_true, ih]
        · have hb : (ip == v.ip) = false := by simp [he]
          simp only [hb, Bool.false_eq_true, if_false, if_neg he]
          rfl
      | noaddr => rfl
      | panic => rfl

/-- `RState.setup` with the generated loop in place of `remark` -/
theorem GEN_range_setup_remark (start stop : BitVec 32) (lease : Int) (db : List Row)
    (loadKey : Mac → Option Mac) (order : List (Mac × Rec) → List (Mac × Rec)) :
    RState.setup start stop lease db loadKey order =
      if start.toNat ≥ stop.toNat then .error .badRange
      else match A4.new (some start) (some stop) with
        | .error _ => .error .badRange
        | .ok a =>
          match loadRecords loadKey db with
          | none => .error .loadFailed
          | some recs =>
            match Gen8.ofLoop (GenRange.remarkLoop a (order recs)) with
            | none => .error .realloc
            | some a' => .ok ⟨a', recs, db, lease⟩ := by
  unfold RState.setup
  by_cases h : start.toNat ≥ stop.toNat
  · simp only [if_pos h]
  · simp only [if_neg h]
    cases A4.new (some start) (some stop) with
    | error e => rfl
    | ok a =>
      cases loadRecords loadKey db with
      | none => rfl
      | some recs =>
        simp only [GEN_range_remark_eq]
        cases Gen8.ofLoop (GenRange.remarkLoop a (order recs)) <;> rfl

end CoreDhcp
