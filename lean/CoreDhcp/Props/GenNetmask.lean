/-
GEN (decision logic) — the definitions regenerated from the Go source on every run
(Generated/Dispatch6.lean, Dispatch4.lean, ServerID6.lean, Netmask.lean, written by
`harness gen -unit …` from the go/ast of server/handle.go, plugins/serverid/plugin.go and
plugins/netmask/plugin.go) are equal to the hand-written model (Model/Dispatch.lean,
Model/OptPlug.lean) and to the specifications (Spec/Dispatch.lean, Spec/OptPlug.lean) the
property theorems are about.

The generated functions take ATOMS (what the Go conditions test) as arguments; every theorem
below instantiates the atoms with their meaning in the model:

  giaddrUnspec  = `req.giaddr == 0#32`          respMt      = `resp.mt`
  ciaddrUnspec  = `req.ciaddr == 0#32`          isBroadcast = `req.flags / 32768 % 2 == 1`
  peerIsBcast   = `peer == bcast4`              peerIsLinkLocal = `isLinkLocal4 peer` / `isLinkLocal6 src`
  bound         = index of the bound interface  oobNonNil / oobIdx = `oob.isSome` / `oob.getD 0`
  mt, rapid     = `m.mt`, `m.rapid`             hasSid / sidEqual = first option 2 present / equal to the DUID

An edit of the Go decision logic changes the generated text, makes the statements below false and
breaks this file (or is rejected by the translator); a renamed local or reformatted source
generates the same text.
-/
import CoreDhcp.Generated.Netmask
import CoreDhcp.Model.OptPlug
import CoreDhcp.Proofs.OptPlug
set_option linter.unusedSimpArgs false
namespace CoreDhcp

/-! ## netmask — `checkValidNetmask` -/

theorem Gen2.bv_beq_zero (v : BitVec 32) : (v == 0#32) = (v.toNat == 0) := by
  by_cases h : v = 0#32
  · subst h; rfl
  · have h' : v.toNat ≠ 0 := fun h' => h (BitVec.eq_of_toNat_eq h')
    have h1 : (v == 0#32) = false := by simpa using h
    have h2 : (v.toNat == 0) = false := by simpa using h'
    rw [h1, h2]

/-- G4: the generated uint32 computation on `binary.BigEndian.Uint32(netmask)` (the four bytes read
big-endian, `ofBe`, as a `BitVec 32`) is the model's check, which is written with `Nat` arithmetic
modulo 2^32. -/
theorem GEN_checkValidNetmask_eq (bs : Plug.Bytes) :
    Plug.netmask.checkValid bs = Generated.checkValidNetmask (BitVec.ofNat 32 (Plug.ofBe bs)) := by
  unfold Plug.netmask.checkValid Generated.checkValidNetmask
  simp only [Gen2.bv_beq_zero, BitVec.toNat_and, BitVec.toNat_add, BitVec.toNat_not, BitVec.toNat_ofNat]

/-- sanity: every prefix mask /0 … /32 passes, 255.0.255.0 and 0.0.0.1 do not -/
theorem GEN_checkValidNetmask_masks :
    (List.range 33).all (fun k => Generated.checkValidNetmask (BitVec.allOnes 32 <<< (32 - k))) = true ∧
    Generated.checkValidNetmask 0xff00ff00#32 = false ∧ Generated.checkValidNetmask 1#32 = false := by
  decide +kernel

end CoreDhcp
