/- `#print axioms` for every property theorem; machine-read by ./check -/
import CoreDhcp.Props.C20
import CoreDhcp.Props.Gen
import CoreDhcp.Props.GenDispatch4
import CoreDhcp.Props.GenDispatch6
import CoreDhcp.Props.GenServerID6
import CoreDhcp.Props.GenNetmask
import CoreDhcp.Props.C02
import CoreDhcp.Props.C03
import CoreDhcp.Props.C03Key
import CoreDhcp.Props.C04
import CoreDhcp.Props.C05
import CoreDhcp.Props.C06
import CoreDhcp.Props.C07
import CoreDhcp.Props.C08
import CoreDhcp.Props.C09
import CoreDhcp.Props.C10
import CoreDhcp.Props.C01
import CoreDhcp.Props.C16
import CoreDhcp.Props.C18
import CoreDhcp.Props.C14
import CoreDhcp.Props.C17
import CoreDhcp.Props.C19
import CoreDhcp.Props.Builtin
import CoreDhcp.Props.C11
import CoreDhcp.Props.C12
import CoreDhcp.Props.C13
import CoreDhcp.Props.C15
import CoreDhcp.Props.System
import CoreDhcp.Props.GenAlloc4
import CoreDhcp.Props.GenHandlers4
import CoreDhcp.Props.GenAlloc6
import CoreDhcp.Props.GenLoadPlugins
import CoreDhcp.Props.GenRange4
import CoreDhcp.Props.GenFilePlugin
import CoreDhcp.Props.GenConfig
import CoreDhcp.Props.GenPrefix6
import CoreDhcp.Props.GenHandlers6
import CoreDhcp.Props.GenSetups
import CoreDhcp.Props.GenStart
import CoreDhcp.Props.GenStorage
import CoreDhcp.Props.GenEthernet
import CoreDhcp.Props.GenServeLoop
import CoreDhcp.Props.GenFileSetup
import CoreDhcp.Props.GenRangeSetup
import CoreDhcp.Props.GenMainReg
open CoreDhcp
#print axioms C20_offset_exact
#print axioms C20_offset_symm
#print axioms C20_addPrefixes_exact
#print axioms C20_inverse
#print axioms C20_offset_spec
#print axioms C20_addPrefixes_spec
#print axioms C20_D1_prefix_refuted
#print axioms C02_holds
#print axioms C02_progress
#print axioms C03_holds
#print axioms C03_restore
#print axioms C03_promise_is_kept_lease
#print axioms C03_D7_prefix_refuted
#print axioms C04_alloc6
#print axioms C04_alloc4
#print axioms C05_alloc6
#print axioms C05_alloc4
#print axioms C05_noaddr_unchanged6
#print axioms C05_noaddr_unchanged4
#print axioms C05_progress6
#print axioms C05_progress4
#print axioms C06_alloc6
#print axioms C06_alloc4
#print axioms C06_error_unchanged6
#print axioms C06_error_unchanged4
#print axioms C06_D2_prefix_refuted
#print axioms C07_alloc6
#print axioms C07_alloc4
#print axioms C11_holds
#print axioms C11_never_answers_non_requests
#print axioms C12_holds
#print axioms C12_mirror
#print axioms C13_order
#print axioms C13_stop
#print axioms C13_sends_last4
#print axioms C13_sends_last6
#print axioms C13_load_exact
#print axioms C13_load_aborts
#print axioms C13_load_succeeds
#print axioms C15_holds
#print axioms C15_has_interface
#print axioms C08_holds
#print axioms C09_holds
#print axioms C09_frame
#print axioms C10_holds
#print axioms C10_accept_iff_wellformed
#print axioms C10_mapping_is_file
#print axioms C10_all_or_nothing
#print axioms C10_own_file
#print axioms C10_D8_prefix_refuted
#print axioms C01_dispatch4
#print axioms C01_dispatch6
#print axioms C01_range_never_panics
#print axioms C01_alloc6_never_bug
#print axioms C01_alloc4_never_panics
#print axioms C01_chain_bounded
#print axioms C16_alloc6_any_schedule
#print axioms C16_alloc4_any_schedule
#print axioms C16_range_any_schedule
#print axioms C16_prefix_any_schedule
#print axioms C16_file_any_schedule
#print axioms C18_holds
#print axioms C18_plugin_list_exact
#print axioms C18_rejects_bad_plugins
#print axioms C18_rejects_listen_and_interface
#print axioms C18_address_form
#print axioms C18_rejects_bad_address
#print axioms C18_needs_a_protocol
#print axioms C14_v6
#print axioms C14_v6_matrix
#print axioms C14_v6_matrix_all
#print axioms C14_v6_duid_of_setup
#print axioms C14_v4
#print axioms C14_v4_addr_of_setup
#print axioms C17_builtin4
#print axioms C17_builtin6
#print axioms C17_netmask4
#print axioms C17_router4
#print axioms C17_searchdomains4
#print axioms C17_searchdomains6
#print axioms C17_staticroute4
#print axioms C17_dns4
#print axioms C17_dns6
#print axioms C17_mtu4
#print axioms C17_nbp4
#print axioms C17_nbp6
#print axioms C17_leasetime4
#print axioms C17_ipv6only4
#print axioms C17_autoconfigure4
#print axioms C17_sleep4
#print axioms C17_sleep6
#print axioms C17_inrange_mtu
#print axioms C17_inrange_seconds
#print axioms C17_mtu_accepted_in_range
#print axioms C17_leasetime_accepted_in_range
#print axioms C17_ipv6only_accepted_in_range
#print axioms C17_accepted_in_range
#print axioms C17_accepted_exact
#print axioms C17_exact_iff_in_range
#print axioms C17_mtu4_accepted
#print axioms C17_leasetime4_accepted
#print axioms C17_ipv6only4_accepted
#print axioms C17_D22_mtu_refuted
#print axioms C17_D23_leasetime_refuted
#print axioms C17_D24_ipv6only_refuted
#print axioms C17_D17_prefix_refuted
#print axioms C11_builtin_preserve_mt
#print axioms C12_builtin_preserve_mt
#print axioms C11_builtin_preserve_echo_opts
#print axioms C12_builtin_preserve_cid
#print axioms C19_setup_wireOK
#print axioms C19_setup_wireOK4
#print axioms C19_staticroute_rejects_non_ipv4
#print axioms C19_mtu_rejects_out_of_range
#print axioms C19_leasetime_rejects_out_of_range
#print axioms C19_ipv6only_rejects_out_of_range
#print axioms C19_routes_roundtrip
#print axioms C19_labels_roundtrip
#print axioms C19_ips_roundtrip
#print axioms C19_bootparams_roundtrip
#print axioms C19_oversize6_refuted
#print axioms C13_nil_stop_builtin
#print axioms C13_nil_stop_builtin6
#print axioms C03_key_roundtrip
#print axioms C03_macString_injective
#print axioms C03_parse_macString
#print axioms C03_hkey_total
#print axioms C03_holds_concrete
#print axioms C03_restore_concrete
#print axioms GEN_offset_eq
#print axioms GEN_addPrefixes_eq
#print axioms GEN_peer4_eq
#print axioms GEN_pinIf4_eq
#print axioms GEN_woob4_eq
#print axioms GEN_stub4_eq
#print axioms GEN_stubType4_eq
#print axioms GEN_dispatch4_eq
#print axioms GEN_replyKind6_eq
#print axioms GEN_stub6_eq
#print axioms GEN_replyKind6_spec
#print axioms GEN_replyKind6_table
#print axioms GEN_replyKind6_all
#print axioms GEN_pinIf6_eq
#print axioms GEN_woob6_eq
#print axioms GEN_dispatch6_eq
#print axioms GEN_sidDecision_spec
#print axioms GEN_sidDecision_table
#print axioms GEN_sidDecision_all
#print axioms GEN_sidDecision_model
#print axioms GEN_sidDecision_rel6
#print axioms GEN_checkValidNetmask_eq
#print axioms GEN_checkValidNetmask_masks
#print axioms SYS_C11
#print axioms SYS_C15
#print axioms SYS_C12
#print axioms SYS_C14_drop4
#print axioms SYS_C14_drop6
#print axioms SYS_file_stops4
#print axioms SYS_file_address4
#print axioms SYS_frame4
#print axioms SYS_file_address4_cfg
#print axioms SYS_C17_delivered4
#print axioms SYS_frame6
#print axioms SYS_pd_delivered6
#print axioms SYS_pd_roundtrip
#print axioms SYS_pd_answers_each
#print axioms GEN_a4_toIP_eq
#print axioms GEN_a4_toIP_ofNat
#print axioms GEN_a4_toIP_panic_iff
#print axioms GEN_a4_toOffset_eq
#print axioms GEN_a4_new_eq
#print axioms GEN_a4_free_eq
#print axioms GEN_a4_allocate_eq
#print axioms GEN_a4_allocate_eq'
#print axioms GEN_h4_mtu_eq
#print axioms GEN_h4_netmask_eq
#print axioms GEN_h4_router_eq
#print axioms GEN_h4_dns_eq
#print axioms GEN_h4_leasetime_eq
#print axioms GEN_h4_searchdomains_eq
#print axioms GEN_h4_staticroute_eq
#print axioms GEN_h4_ipv6only_eq
#print axioms GEN_h4_autoconfigure_eq
#print axioms GEN_h4_sleep_eq
#print axioms GEN_h4_serverid_eq
#print axioms GEN_h4_nbp_eq
#print axioms GEN_h4_nbp_unset
#print axioms GEN_a6_toIndex_eq
#print axioms GEN_a6_toIndex_none
#print axioms GEN_a6_toPrefix_eq
#print axioms GEN_a6_contains_eq
#print axioms GEN_a6_contains_none
#print axioms GEN_a6_new_eq
#print axioms GEN_a6_new_outside_domain
#print axioms GEN_a6_new_other
#print axioms GEN_a6_free_eq
#print axioms GEN_a6_free_other
#print axioms GEN_a6_free_outside
#print axioms GEN_a6_allocate_eq
#print axioms GEN_a6_allocate_eq'
#print axioms GEN_lp_loop6_acc
#print axioms GEN_lp_loop4_acc
#print axioms GEN_lp_chain6_eq
#print axioms GEN_lp_chain4_eq
#print axioms GEN_lp_load_tagged
#print axioms GEN_lp_load_eq
#print axioms GEN_lp_load_ok
#print axioms GEN_range_handler4_eq
#print axioms GEN_range_handler4_eq'
#print axioms GEN_range_remarkBody_eq
#print axioms GEN_range_remark_eq
#print axioms GEN_range_setup_remark
#print axioms GEN_file_body4_eq
#print axioms GEN_file_body6_eq
#print axioms GEN_file_loop4_eq
#print axioms GEN_file_loop6_eq
#print axioms GEN_file_load4_eq
#print axioms GEN_file_load6_eq
#print axioms GEN_file_load4_model
#print axioms GEN_file_load6_model
#print axioms GEN_file_load_unreadable
#print axioms GEN_file_loadFromFile_eq
#print axioms GEN_file_loadFromFile_model
#print axioms GEN_file_loadFromFile_unreadable
#print axioms GEN_file_loadFromFile_error_unchanged
#print axioms GEN_file_handle4_raw
#print axioms GEN_file_handle4_eq
#print axioms GEN_file_served4_eq
#print axioms GEN_file_handle4_other
#print axioms GEN_file_handle6_raw
#print axioms GEN_file_handle6_eq
#print axioms GEN_file_served6_eq
#print axioms GEN_file_handle6_undecapsulated
#print axioms GEN_file_handle6_other
#print axioms GEN_file_exported
#print axioms GEN_file_static_after_load
#print axioms Gen7.wf_init
#print axioms Gen7.wf_load
#print axioms GEN_cfg_splitHostPort_eq
#print axioms GEN_cfg_getListenAddress_eq
#print axioms GEN_cfg_getListenAddress_no_panic
#print axioms GEN_cfg_expand_eq
#print axioms GEN_cfg_expand_no_panic
#print axioms GEN_cfg_defaultListen_eq
#print axioms GEN_cfg_defaultListen_no_panic
#print axioms GEN_cfg_listenLoop_acc
#print axioms GEN_cfg_listenLoop_eq
#print axioms GEN_cfg_listenLoop_no_panic
#print axioms GEN_cfg_parseListen_eq
#print axioms GEN_cfg_parseListen_no_panic
#print axioms GEN_cfg_pluginsLoop_acc
#print axioms GEN_cfg_pluginsLoop_no_panic
#print axioms GEN_cfg_parsePlugins_eq
#print axioms GEN_cfg_parsePlugins_no_panic
#print axioms GEN_cfg_getPlugins_eq
#print axioms GEN_cfg_getPlugins_no_panic
#print axioms GEN_cfg_parseSection_eq
#print axioms GEN_cfg_parseSection_absent
#print axioms GEN_cfg_parseConfig_no_panic
#print axioms GEN_cfg_load_eq
#print axioms GEN_cfg_load_no_panic
#print axioms GEN_cfg_bad_version
#print axioms GEN_cfg_load_v6_first
#print axioms GEN_cfg_parseConfig_plugins_first
#print axioms GEN_pd_loop1_eq
#print axioms GEN_pd_loop2_eq
#print axioms GEN_pd_loop3_model
#print axioms GEN_pd_loop3_eq
#print axioms GEN_pd_handleIAPD_model
#print axioms GEN_pd_handleIAPD_gen
#print axioms GEN_pd_handleIAPD_eq
#print axioms GEN_pd_handleMsg_model
#print axioms GEN_pd_handleMsg_gen
#print axioms GEN_pd_handleMsg_eq
#print axioms GEN_pd_handle_undecapsulated
#print axioms GEN_pd_handle_total
#print axioms GEN_pd_setup_eq
#print axioms GEN_pd_setup_arity
#print axioms GEN_h6_dns_eq
#print axioms GEN_h6_dns_undecap
#print axioms GEN_h6_searchdomains_eq
#print axioms GEN_h6_searchdomains_blind
#print axioms GEN_h6_sleep_eq
#print axioms GEN_h6_sleep_blind
#print axioms GEN_h6_nbp_loop
#print axioms GEN_h6_nbp_eq
#print axioms GEN_h6_nbp_unset
#print axioms GEN_h6_nbp_unset_differs
#print axioms GEN_h6_nbp_undecap
#print axioms GEN_h6_serverid_eq
#print axioms GEN_h6_serverid_undecap
#print axioms GEN_h6_serverid_decision
#print axioms GEN_setup_mtu4_eq
#print axioms GEN_setup_sleep4_eq
#print axioms GEN_setup_sleep6_eq
#print axioms GEN_setup_leasetime4_eq
#print axioms GEN_setup_ipv6only4_eq
#print axioms GEN_setup_autoconfigure4_eq
#print axioms GEN_setup_serverid4_eq
#print axioms GEN_setup_serverid6_eq
#print axioms GEN_setup_nbp4_eq
#print axioms GEN_setup_nbp6_eq
#print axioms GEN_setup_netmask4_eq
#print axioms GEN_setup_netmask4_eq_wf
#print axioms GEN_setup_netmask4_needs_len
#print axioms GEN_setup_router4_eq
#print axioms GEN_setup_dns4_eq
#print axioms GEN_setup_dns6_eq
#print axioms GEN_setup_staticroute4_eq
#print axioms GEN_setup_searchdomains4_eq
#print axioms GEN_setup_searchdomains6_eq
#print axioms GEN_setup_router4_accumulates
#print axioms GEN_setup_ipv6only4_keeps
#print axioms GEN_setup_autoconfigure4_keeps
#print axioms GEN_setup_nbp4_keeps66
#print axioms GEN_setup_nbp6_keeps60
#print axioms SYS_file_address4_lease
#print axioms SYS_C14_stamped4
#print axioms SYS_C14_stamped6
#print axioms SYS_C02_lease4
#print axioms SYS_C02_addr4
#print axioms GEN_start_listen4_eq
#print axioms GEN_start_listen6_eq
#print axioms GEN_start_closeLoop_acc
#print axioms GEN_start_close_eq
#print axioms GEN_start_loop6_acc
#print axioms GEN_start_loop4_acc
#print axioms GEN_start_start_eq
#print axioms START_every_section_listens
#print axioms START_whole_chain
#print axioms START_unbound_has_pktinfo
#print axioms START_cleanup
#print axioms START_failed_listen_leaks_socket
#print axioms START_load_error_opens_nothing
#print axioms GEN_storage_parseHWAddr_eq
#print axioms GEN_storage_parseHWAddr_nopanic
#print axioms GEN_storage_parseUint_probes
#print axioms GEN_storage_split_probes
#print axioms GEN_storage_loadRecords_spec
#print axioms GEN_storage_loadRecords_eq
#print axioms GEN_storage_loadRecords_concrete
#print axioms GEN_storage_query_cols
#print axioms GEN_storage_save_eq
#print axioms GEN_storage_schema
#print axioms GEN_storage_loadDB_eq
#print axioms GEN_storage_register_eq
#print axioms GEN_storage_key_roundtrip
#print axioms GEN_eth_layers
#print axioms GEN_eth_sendEthernet_eq
#print axioms C15_frame
#print axioms C15_frame_fields
#print axioms C15_frame_none_iff
#print axioms GEN_eth_frame
#print axioms GEN_eth_payload_probes
#print axioms GEN_eth_payload_not_toBytes
#print axioms GEN_serve_pool_new
#print axioms GEN_serve_iter6_eq
#print axioms GEN_serve_iter4_eq
#print axioms GEN_serve_head6_eq
#print axioms GEN_serve_head4_eq
#print axioms GEN_serve_code_eq
#print axioms SERVE_reads_full_buffer
#print axioms SERVE_spawn_own_values
#print axioms SERVE_spawn_own_values_run
#print axioms SERVE_one_spawn_per_datagram
#print axioms SERVE_one_spawn_per_datagram_run
#print axioms SERVE_buffer_back_once
#print axioms SERVE_buffer_back_once_gen
#print axioms SERVE_no_two_owners
#print axioms SERVE_no_two_owners_gen
#print axioms SERVE_no_two_owners_apart
#print axioms SERVE_read_into_unshared
#print axioms GEN_filesetup_setup_eq
#print axioms GEN_filesetup_refresh_eq
#print axioms GEN_filesetup_reg_eq
#print axioms FILESETUP_watches_the_configured_name
#print axioms FILESETUP_every_event_reloads
#print axioms FILESETUP_failed_reload_keeps_watching
#print axioms FILESETUP_serves_own_table
#print axioms FILESETUP_no_autorefresh_no_watcher
#print axioms FILESETUP_initial_load_error_aborts
#print axioms FILESETUP_refresh_is_load
#print axioms FILESETUP_later_good_version_picked_up
#print axioms FILESETUP_replaced_file_is_watched_again
#print axioms FILESETUP_watch_survives_replacements
#print axioms GEN_rangesetup_setup_eq
#print axioms GEN_rangesetup_plugin_eq
#print axioms RangeSetup.setup_handler
#print axioms RANGESETUP_no_partial_state
#print axioms RANGESETUP_accepts_iff
#print axioms RANGESETUP_argument_roles
#print axioms RANGESETUP_range_wellformed
#print axioms RANGESETUP_one_address_range_rejected
#print axioms RangeSetup.goRoundSecond_of_nonneg
#print axioms RangeSetup.goRoundSecond_of_accepted
#print axioms RangeSetup.goRoundSecond_whole
#print axioms RANGESETUP_lease_is_kept_lease
#print axioms RANGESETUP_accepted_lease_fits_wire
#print axioms RANGESETUP_extra_args_ignored
#print axioms RANGESETUP_plugin_decl
#print axioms A4.allocate_keeps_bounds
#print axioms remark_keeps_bounds
#print axioms RANGESETUP_allocator_never_refuses
#print axioms RANGESETUP_accepted_starts_handler
#print axioms RANGESETUP_accepted_serves_C02_C03
#print axioms GEN_mainreg_register_eq
#print axioms GEN_mainreg_printLoop_eq
#print axioms GEN_mainreg_regLoop_eq
#print axioms GEN_mainreg_registry0
#print axioms GEN_mainreg_main_eq
#print axioms MAINREG_flag_table
#print axioms MAINREG_log_levels
#print axioms MAINREG_names_distinct
#print axioms MAINREG_registration_never_panics
#print axioms MAINREG_registry_exact
#print axioms MAINREG_second_registration_panics
#print axioms MAINREG_view4
#print axioms MAINREG_view6
#print axioms MAINREG_unknown_name_rejected
#print axioms MAINREG_unsupported_skipped
#print axioms MAINREG_load_exact4
#print axioms MAINREG_load_exact6
#print axioms MAINREG_protocol_support
#print axioms MAINREG_protocol_support_models
#print axioms MAINREG_config_before_sockets
#print axioms MAINREG_config_before_sockets_gen
#print axioms MAINREG_run
#print axioms MAINREG_list_plugins_is_pure
