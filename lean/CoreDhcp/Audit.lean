/- `#print axioms` for every property theorem; machine-read by ./check -/
import CoreDhcp.Props.C20
import CoreDhcp.Props.C02
import CoreDhcp.Props.C03
open CoreDhcp
#print axioms C20_offset_exact
#print axioms C20_offset_symm
#print axioms C20_addPrefixes_exact
#print axioms C20_inverse
#print axioms C20_offset_spec
#print axioms C20_addPrefixes_spec
#print axioms C20_D1_prefix_refuted
#print axioms C02_holds
#print axioms C02_progress
#print axioms C03_holds
#print axioms C03_restore
#print axioms C03_D7_prefix_refuted
