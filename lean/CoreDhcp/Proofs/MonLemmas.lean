/- Small list lemmas used to project combined verdicts onto single properties. -/
namespace CoreDhcp

theorem all_of_all_imp {α : Type} {l : List α} {p q : α → Bool}
    (h : l.all p = true) (hpq : ∀ x, p x = true → q x = true) : l.all q = true := by
  rw [List.all_eq_true] at *
  intro x hx
  exact hpq x (h x hx)

end CoreDhcp
