/-
The range-plugin model passes the C02 and C03 monitors on every run; restarts restore the state.
-/
import CoreDhcp.Spec.Range
import CoreDhcp.Proofs.Alloc4
namespace CoreDhcp

/-! ### the two easy statements -/

/-- The model is never stuck: first fit (what the code does) is always an admissible choice. -/
theorem RState.firstFit_admissible (s : RState) (mac : Mac) (now : Int) :
    (s.handle mac now s.alloc.firstFit).isSome = true := by
  unfold RState.handle
  cases lookupRec s.recs mac with
  | none =>
    simp only
    have h := A4.firstFit_admissible s.alloc none
    cases hal : s.alloc.allocate none s.alloc.firstFit with
    | none => rw [hal] at h; cases h
    | some p =>
      obtain ⟨a', r⟩ := p
      cases r <;> rfl
  | some r =>
    simp only
    split <;> rfl

/-- `net.ParseMAC` as the loader of the stored key (the code before the D7 repair):
accepts 6, 8 and 20 bytes only. -/
def parseMACKey (m : Mac) : Option Mac :=
  if m.length = 6 ∨ m.length = 8 ∨ m.length = 20 then some m else none

/-- D7 (repaired by a `fix:` commit): with `net.ParseMAC` as loader, one request from a 5-byte
hardware address makes the next start fail. -/
theorem C03_D7_refuted :
    ∃ s0 s1 r, RState.setup 0x0a000001#32 0x0a000009#32 3600000000000 [] parseMACKey id = .ok s0 ∧
      s0.handle [1, 2, 3, 4, 5] 1000000000 (some 0) = some (s1, r) ∧
      s1.restart parseMACKey id = .error .loadFailed := by
  refine ⟨_, _, _, rfl, rfl, rfl⟩

/-! ### BitVec 32 arithmetic (as in `Proofs/Alloc4`, private there) -/

private theorem bvr_sub_toNat (s x : BitVec 32) (h : s.toNat ≤ x.toNat) :
    (x - s).toNat = x.toNat - s.toNat := by
  have := x.isLt; have := s.isLt
  rw [BitVec.toNat_sub]; omega

private theorem bvr_add_ofNat_toNat (s : BitVec 32) (o : Nat) (h : s.toNat + o < 2^32) :
    (s + BitVec.ofNat 32 o).toNat = s.toNat + o := by
  rw [BitVec.toNat_add, BitVec.toNat_ofNat]; omega

private theorem bvr_add_sub_cancel (s x : BitVec 32) (h : s.toNat ≤ x.toNat) :
    s + BitVec.ofNat 32 (x - s).toNat = x := by
  apply BitVec.eq_of_toNat_eq
  have := x.isLt; have := s.isLt
  rw [bvr_add_ofNat_toNat] <;> rw [bvr_sub_toNat s x h] <;> omega

/-! ### lists of pairs with distinct keys -/

/-- the keys (first components) are pairwise distinct -/
def KD {α β} (l : List (α × β)) : Prop := l.Pairwise (fun p q => p.1 ≠ q.1)

section keyed
variable {α β : Type}

theorem KD.perm {l l' : List (α × β)} (hk : KD l) (hp : l.Perm l') : KD l' :=
  hp.pairwise hk (fun h => Ne.symm h)

theorem KD.filter {l : List (α × β)} (hk : KD l) (f : α × β → Bool) : KD (l.filter f) :=
  List.Pairwise.filter f hk

theorem KD.eq_of_mem {l : List (α × β)} (hk : KD l) {p q : α × β} (hp : p ∈ l) (hq : q ∈ l)
    (h : p.1 = q.1) : p = q := by
  induction l with
  | nil => cases hp
  | cons x xs ih =>
    rw [KD, List.pairwise_cons] at hk
    rcases List.mem_cons.1 hp with rfl | hp' <;> rcases List.mem_cons.1 hq with rfl | hq'
    · rfl
    · exact absurd h (hk.1 q hq')
    · exact absurd h.symm (hk.1 p hp')
    · exact ih hk.2 hp' hq'

variable [BEq α] [LawfulBEq α]

theorem lk_none (l : List (α × β)) (m : α) :
    (l.find? (fun p => p.1 == m)).map (·.2) = none ↔ ∀ p ∈ l, p.1 ≠ m := by
  simp [List.find?_eq_none]

theorem lk_some {l : List (α × β)} (hk : KD l) (m : α) (v : β) :
    (l.find? (fun p => p.1 == m)).map (·.2) = some v ↔ (m, v) ∈ l := by
  constructor
  · intro h
    rw [Option.map_eq_some_iff] at h
    obtain ⟨p, hp, rfl⟩ := h
    have h1 := List.mem_of_find?_eq_some hp
    have h2 := List.find?_some hp
    simp only [beq_iff_eq] at h2
    subst h2
    exact h1
  · intro h
    cases hf : l.find? (fun p => p.1 == m) with
    | none =>
      rw [List.find?_eq_none] at hf
      have := hf _ h
      simp at this
    | some p =>
      have h1 := List.mem_of_find?_eq_some hf
      have h2 := List.find?_some hf
      simp only [beq_iff_eq] at h2
      have := hk.eq_of_mem h1 h (by simpa using h2)
      subst this
      rfl

theorem filter_key_ne_self (l : List (α × β)) (m : α) (h : ∀ p ∈ l, p.1 ≠ m) :
    l.filter (fun p => !(p.1 == m)) = l := by
  rw [List.filter_eq_self]
  intro p hp
  simpa using h p hp

/-- a keyed list is a permutation of one of its entries followed by the others -/
theorem KD.perm_put {l : List (α × β)} (hk : KD l) (m : α) (v : β) (hm : (m, v) ∈ l) :
    l.Perm ((m, v) :: l.filter (fun p => !(p.1 == m))) := by
  induction l with
  | nil => cases hm
  | cons q qs ih =>
    rw [KD, List.pairwise_cons] at hk
    by_cases hq : q = (m, v)
    · subst hq
      have : qs.filter (fun p => !(p.1 == m)) = qs :=
        filter_key_ne_self qs m (fun p hp => Ne.symm (hk.1 p hp))
      simp [this]
    · have hm' : (m, v) ∈ qs := by
        rcases List.mem_cons.1 hm with h | h
        · exact absurd h.symm hq
        · exact h
      have hne : q.1 ≠ m := hk.1 _ hm'
      have hb : (!(q.1 == m)) = true := by simpa using hne
      rw [List.filter_cons, if_pos hb]
      exact ((ih hk.2 hm').cons q).trans (List.Perm.swap _ _ _)

theorem KD.put {l : List (α × β)} (hk : KD l) (m : α) (v : β) :
    KD ((m, v) :: l.filter (fun p => !(p.1 == m))) := by
  rw [KD, List.pairwise_cons]
  refine ⟨?_, hk.filter _⟩
  intro p hp
  have := (List.mem_filter.1 hp).2
  simp only [Bool.not_eq_true', beq_eq_false_iff_ne] at this
  exact Ne.symm this

end keyed

/-! ### allocator facts under `Inv4` -/

theorem Inv4.perm {s e : BitVec 32} {a : A4} {out out' : List (BitVec 32)} (hI : Inv4 s e a out)
    (hp : out.Perm out') : Inv4 s e a out' :=
  ⟨hI.hs, hI.he, hI.hle, hI.hlen, hp.nodup_iff.1 hI.nodup, fun x hx => hI.range x (hp.mem_iff.2 hx),
    fun o ho => (hI.bit o ho).trans hp.mem_iff, hp.length_eq ▸ hI.cnt⟩

/-- an in-range offset never makes `toIP` panic -/
theorem Inv4.no_panic {s e : BitVec 32} {a : A4} {out : List (BitVec 32)} (hI : Inv4 s e a out)
    (n : Nat) (hlt : n < a.bm.length) : ¬ n % 2^32 > (a.stop - a.start).toNat := by
  have := hI.hlen
  have := e.isLt
  rw [hI.hs, hI.he, bvr_sub_toNat s e hI.hle]
  omega

/-- `Allocate` without a hint: no address only when the bitmap is full, else a clear offset -/
theorem Inv4.allocate_none {s e : BitVec 32} {a a' : A4} {out : List (BitVec 32)}
    (hI : Inv4 s e a out) (c : Option Nat) (r : A4Res) (hr : a.allocate none c = some (a', r)) :
    (a' = a ∧ r = .noaddr ∧ a.bm.full = true) ∨
    (∃ n, n < a.bm.length ∧ a.bm.test n = false ∧ a' = { a with bm := a.bm.set n } ∧
      r = .ok (s + BitVec.ofNat 32 n)) := by
  rcases A4.allocate_cases a a' none c r hr with ⟨h1, h2, h3, _⟩ | ⟨n, hn, hh, h1, hres⟩
  · exact Or.inl ⟨h1, h2, h3⟩
  · have hlt : n < a.bm.length := by
      rcases hh with rfl | ⟨_, hlt⟩
      · exact hI.hintOff_lt none
      · exact hlt
    rcases hres with ⟨_, hp⟩ | ⟨h2, _⟩
    · exact absurd hp (hI.no_panic n hlt)
    · exact Or.inr ⟨n, hlt, hn, h1, by rw [h2, hI.hs]⟩

/-- C07 as used by the re-marking loop: a hint naming a free address of the range is honoured -/
theorem Inv4.allocate_hint_free {s e : BitVec 32} {a : A4} {out : List (BitVec 32)}
    (hI : Inv4 s e a out) (y : BitVec 32) (h1 : s.toNat ≤ y.toNat) (h2 : y.toNat ≤ e.toNat)
    (h3 : y ∉ out) (c : Option Nat) :
    a.allocate (some y) c = some ({ a with bm := a.bm.set (y - s).toNat }, .ok y) ∧
      (y - s).toNat < a.bm.length ∧ a.bm.test (y - s).toNat = false := by
  obtain ⟨ho, ht⟩ := hI.hint_free y h1 h2 h3
  have hlt := hI.hintOff_lt (some y)
  have hnp := hI.no_panic _ hlt
  refine ⟨?_, ho ▸ hlt, ho ▸ ht⟩
  rw [A4.allocate_eq]
  simp only [ht, Bool.not_false, if_true]
  rw [if_neg hnp, ho, hI.hs, bvr_add_sub_cancel s y h1]

/-! ### the re-marking loop -/

def recIp (p : Mac × Rec) : BitVec 32 := p.2.ip
def recBound (p : Mac × Rec) : Mac × BitVec 32 := (p.1, p.2.ip)
def recRow (p : Mac × Rec) : Row := ⟨p.1, p.2.ip, p.2.expires⟩
def rowRec (r : Row) : Mac × Rec := (r.mac, ⟨r.ip, r.expiry⟩)

theorem remark_ok {s e : BitVec 32} (l : List (Mac × Rec)) :
    ∀ (a : A4) (out : List (BitVec 32)), Inv4 s e a out → (l.map recIp ++ out).Nodup →
      (∀ p ∈ l, s.toNat ≤ p.2.ip.toNat ∧ p.2.ip.toNat ≤ e.toNat) →
      ∃ a', remark a l = some a' ∧ Inv4 s e a' (l.map recIp ++ out) := by
  induction l with
  | nil => intro a out hI _ _; exact ⟨a, rfl, hI⟩
  | cons p rest ih =>
    intro a out hI hnd hr
    obtain ⟨m, r⟩ := p
    have hr0 := hr (m, r) List.mem_cons_self
    simp only [List.map_cons, recIp, List.cons_append, List.nodup_cons, List.mem_append,
      not_or] at hnd
    obtain ⟨hal, hlt, ht⟩ := hI.allocate_hint_free r.ip hr0.1 hr0.2 hnd.1.2 a.firstFit
    have hI' := hI.alloc_ok _ ht hlt
    rw [bvr_add_sub_cancel s r.ip hr0.1] at hI'
    have hnd' : (rest.map recIp ++ r.ip :: out).Nodup :=
      (List.perm_middle.nodup_iff).2 (List.nodup_cons.2 ⟨by
        simp only [List.mem_append, not_or]; exact hnd.1, hnd.2⟩)
    obtain ⟨a', h1, h2⟩ := ih _ _ hI' hnd' (fun p hp => hr p (List.mem_cons_of_mem _ hp))
    refine ⟨a', ?_, h2.perm List.perm_middle⟩
    simp only [remark, hal, beq_self_eq_true, if_true]
    exact h1

/-! ### the invariant -/

/-- relation between the plugin state and the monitor's binding list -/
structure RInv (start stop : BitVec 32) (lease : Int) (s : RState)
    (bound : List (Mac × BitVec 32)) : Prop where
  hlease : s.lease = lease
  hlt : start.toNat < stop.toNat
  a4 : Inv4 start stop s.alloc (s.recs.map recIp)
  keys : KD s.recs
  bnd : bound.Perm (s.recs.map recBound)
  db : s.db.Perm (s.recs.map recRow)

theorem KD.map_recBound {l : List (Mac × Rec)} (hk : KD l) : KD (l.map recBound) := by
  rw [KD, List.pairwise_map]; exact hk

theorem lookupRec_none {l : List (Mac × Rec)} {m : Mac} :
    lookupRec l m = none ↔ ∀ p ∈ l, p.1 ≠ m := lk_none l m

theorem lookupRec_some {l : List (Mac × Rec)} (hk : KD l) {m : Mac} {r : Rec} :
    lookupRec l m = some r ↔ (m, r) ∈ l := lk_some hk m r

theorem lookupBound_none {l : List (Mac × BitVec 32)} {m : Mac} :
    lookupBound l m = none ↔ ∀ p ∈ l, p.1 ≠ m := lk_none l m

theorem lookupBound_some {l : List (Mac × BitVec 32)} (hk : KD l) {m : Mac} {ip : BitVec 32} :
    lookupBound l m = some ip ↔ (m, ip) ∈ l := lk_some hk m ip

section inv
variable {start stop : BitVec 32} {lease : Int} {s : RState} {bound : List (Mac × BitVec 32)}

theorem RInv.bkeys (hI : RInv start stop lease s bound) : KD bound :=
  hI.keys.map_recBound.perm hI.bnd.symm

theorem RInv.bound_none (hI : RInv start stop lease s bound) {m : Mac}
    (h : lookupRec s.recs m = none) : lookupBound bound m = none := by
  rw [lookupRec_none] at h
  rw [lookupBound_none]
  intro p hp
  obtain ⟨q, hq, rfl⟩ := List.mem_map.1 (hI.bnd.mem_iff.1 hp)
  exact h q hq

theorem RInv.bound_some (hI : RInv start stop lease s bound) {m : Mac} {r : Rec}
    (h : lookupRec s.recs m = some r) : lookupBound bound m = some r.ip := by
  rw [lookupRec_some hI.keys] at h
  rw [lookupBound_some hI.bkeys]
  exact hI.bnd.mem_iff.2 (List.mem_map.2 ⟨(m, r), h, rfl⟩)

theorem RInv.bound_len (hI : RInv start stop lease s bound) :
    bound.length = s.alloc.bm.count := by
  rw [hI.bnd.length_eq, List.length_map, ← hI.a4.cnt, List.length_map]

/-- a clear offset names an address no client is bound to -/
theorem RInv.fresh (hI : RInv start stop lease s bound) (n : Nat) (hlt : n < s.alloc.bm.length)
    (hn : s.alloc.bm.test n = false) : ∀ q ∈ bound, q.2 ≠ start + BitVec.ofNat 32 n := by
  intro q hq heq
  obtain ⟨p, hp, rfl⟩ := List.mem_map.1 (hI.bnd.mem_iff.1 hq)
  have : start + BitVec.ofNat 32 n ∈ s.recs.map recIp :=
    List.mem_map.2 ⟨p, hp, heq⟩
  rw [← hI.a4.bit n hlt, hn] at this
  cases this

theorem RInv.inrange (hI : RInv start stop lease s bound) {m : Mac} {r : Rec}
    (h : (m, r) ∈ s.recs) : start.toNat ≤ r.ip.toNat ∧ r.ip.toNat ≤ stop.toNat :=
  hI.a4.range r.ip (List.mem_map.2 ⟨(m, r), h, rfl⟩)

/-- the state after a new client got the address at the clear offset `n` -/
theorem RInv.step_new (hI : RInv start stop lease s bound) (mac : Mac)
    (hl : lookupRec s.recs mac = none) (n : Nat) (hlt : n < s.alloc.bm.length)
    (hn : s.alloc.bm.test n = false) (ex : Int) :
    RInv start stop lease
      { s with alloc := { s.alloc with bm := s.alloc.bm.set n },
               recs := recsPut s.recs mac ⟨start + BitVec.ofNat 32 n, ex⟩,
               db := dbSave s.db ⟨mac, start + BitVec.ofNat 32 n, ex⟩ }
      ((mac, start + BitVec.ofNat 32 n) :: bound) := by
  rw [lookupRec_none] at hl
  have hrecs : recsPut s.recs mac ⟨start + BitVec.ofNat 32 n, ex⟩
      = (mac, ⟨start + BitVec.ofNat 32 n, ex⟩) :: s.recs := by
    unfold recsPut; rw [filter_key_ne_self s.recs mac hl]
  have hdb : dbSave s.db ⟨mac, start + BitVec.ofNat 32 n, ex⟩
      = ⟨mac, start + BitVec.ofNat 32 n, ex⟩ :: s.db := by
    unfold dbSave
    rw [List.filter_eq_self.2]
    intro x hx
    obtain ⟨p, hp, rfl⟩ := List.mem_map.1 (hI.db.mem_iff.1 hx)
    have := hl p hp
    simp [recRow, this]
  rw [hrecs, hdb]
  refine ⟨hI.hlease, hI.hlt, ?_, ?_, ?_, ?_⟩
  · exact hI.a4.alloc_ok n hn hlt
  · exact List.pairwise_cons.2 ⟨fun p hp => Ne.symm (hl p hp), hI.keys⟩
  · exact hI.bnd.cons _
  · exact hI.db.cons _

/-- the state after the lease of a known client was extended -/
theorem RInv.step_renew (hI : RInv start stop lease s bound) (mac : Mac) (r : Rec)
    (hl : lookupRec s.recs mac = some r) (ex : Int) :
    RInv start stop lease
      { s with recs := recsPut s.recs mac ⟨r.ip, ex⟩, db := dbSave s.db ⟨mac, r.ip, ex⟩ }
      bound := by
  rw [lookupRec_some hI.keys] at hl
  have hp := hI.keys.perm_put mac r hl
  have hF : ∀ p ∈ s.recs.filter (fun p => !(p.1 == mac)), p.1 ≠ mac := by
    intro p hp
    have := (List.mem_filter.1 hp).2
    simpa using this
  refine ⟨hI.hlease, hI.hlt, ?_, hI.keys.put mac _, ?_, ?_⟩
  · exact hI.a4.perm (hp.map recIp)
  · exact hI.bnd.trans (hp.map recBound)
  · show (dbSave s.db ⟨mac, r.ip, ex⟩).Perm
      (recRow (mac, ⟨r.ip, ex⟩) :: (s.recs.filter (fun p => !(p.1 == mac))).map recRow)
    unfold dbSave
    refine List.Perm.cons _ ?_
    have h1 := (hI.db.trans (hp.map recRow)).filter
      (fun x => !(x.mac == mac && x.ip == r.ip))
    refine h1.trans (List.Perm.of_eq ?_)
    simp only [List.map_cons, List.filter_cons, recRow, beq_self_eq_true, Bool.and_self,
      Bool.not_true, Bool.false_eq_true, if_false]
    rw [List.filter_eq_self]
    intro x hx
    obtain ⟨p, hp, rfl⟩ := List.mem_map.1 hx
    have hne : (recRow p).mac ≠ mac := hF p hp
    simp [hne]

/-- some row stored for `mac` carries the address served and an expiry that is late enough -/
def StoredOk (s' : RState) (mac : Mac) (now lease : Int) (ip : BitVec 32) : Prop :=
  ∃ x ∈ s'.db.filter (fun x => x.mac == mac),
    x.ip = ip ∧ x.expiry * nsPerSec ≥ now + lease - nsPerSec

theorem floor_late (t : Int) : unixFloor t * nsPerSec ≥ t - nsPerSec := by
  unfold unixFloor nsPerSec; omega

theorem round_late (t : Int) : unixRound t * nsPerSec ≥ t - nsPerSec := by
  unfold unixRound nsPerSec; omega

theorem storedOk_save (s' : RState) (db : List Row) (mac : Mac) (now lease ex : Int)
    (ip : BitVec 32) (hdb : s'.db = dbSave db ⟨mac, ip, ex⟩)
    (hex : ex * nsPerSec ≥ now + lease - nsPerSec) : StoredOk s' mac now lease ip := by
  refine ⟨⟨mac, ip, ex⟩, ?_, rfl, hex⟩
  rw [hdb, List.mem_filter]
  exact ⟨List.mem_cons_self, by simp⟩

/-- the three ways a request can be handled, as the monitor sees them -/
theorem RInv.handle_cases (hI : RInv start stop lease s bound) (mac : Mac) (now : Int)
    (c : Option Nat) (s' : RState) (r : RReply) (h : s.handle mac now c = some (s', r)) :
    (∃ ip, r = .reply ip (leaseOpt lease) ∧ lookupBound bound mac = some ip ∧
      RInv start stop lease s' bound ∧ start.toNat ≤ ip.toNat ∧ ip.toNat ≤ stop.toNat ∧
      StoredOk s' mac now lease ip) ∨
    (∃ ip, r = .reply ip (leaseOpt lease) ∧ lookupBound bound mac = none ∧
      (∀ q ∈ bound, q.2 ≠ ip) ∧
      RInv start stop lease s' ((mac, ip) :: bound) ∧ start.toNat ≤ ip.toNat ∧
      ip.toNat ≤ stop.toNat ∧ StoredOk s' mac now lease ip) ∨
    (r = .drop ∧ lookupBound bound mac = none ∧
      RCfg.size ⟨start, stop, lease⟩ ≤ bound.length ∧ RInv start stop lease s' bound) := by
  unfold RState.handle at h
  cases hl : lookupRec s.recs mac with
  | none =>
    simp only [hl] at h
    have hbn := hI.bound_none hl
    cases hal : s.alloc.allocate none c with
    | none => simp [hal] at h
    | some p =>
      obtain ⟨a', res⟩ := p
      rcases hI.a4.allocate_none c res hal with ⟨rfl, rfl, hf⟩ | ⟨n, hlt, hn, rfl, rfl⟩
      · simp only [hal, Option.some.injEq, Prod.mk.injEq] at h
        obtain ⟨rfl, rfl⟩ := h
        refine Or.inr (Or.inr ⟨rfl, hbn, ?_, hI⟩)
        rw [hI.bound_len, (Bits.full_iff_count _).1 hf, hI.a4.hlen]
        exact Nat.le_refl _
      · simp only [hal, Option.some.injEq, Prod.mk.injEq] at h
        obtain ⟨rfl, rfl⟩ := h
        have hI' := hI.step_new mac hl n hlt hn (unixFloor (now + s.lease))
        have hr := hI'.inrange (m := mac) List.mem_cons_self
        refine Or.inr (Or.inl ⟨_, by rw [hI.hlease], hbn, hI.fresh n hlt hn, hI', hr.1, hr.2, ?_⟩)
        refine storedOk_save _ s.db mac now lease _ _ rfl ?_
        rw [← hI.hlease]
        exact floor_late _
  | some r0 =>
    simp only [hl] at h
    have hbs := hI.bound_some hl
    have hmem := (lookupRec_some hI.keys).1 hl
    have hr := hI.inrange hmem
    split at h
    · simp only [Option.some.injEq, Prod.mk.injEq] at h
      obtain ⟨rfl, rfl⟩ := h
      refine Or.inl ⟨_, by rw [hI.hlease], hbs, hI.step_renew mac r0 hl _, hr.1, hr.2, ?_⟩
      refine storedOk_save _ s.db mac now lease _ _ rfl ?_
      rw [← hI.hlease]
      exact round_late _
    · next hnot =>
      simp only [Option.some.injEq, Prod.mk.injEq] at h
      obtain ⟨rfl, rfl⟩ := h
      refine Or.inl ⟨_, by rw [hI.hlease], hbs, hI, hr.1, hr.2, ?_⟩
      refine ⟨recRow (mac, r0), ?_, rfl, ?_⟩
      · rw [List.mem_filter]
        exact ⟨hI.db.mem_iff.2 (List.mem_map.2 ⟨_, hmem, rfl⟩), by simp [recRow]⟩
      · rw [← hI.hlease]
        show r0.expires * nsPerSec ≥ now + s.lease - nsPerSec
        unfold nsPerSec at hnot ⊢
        omega

/-- a handled request keeps the invariant along the monitor's step and passes both monitors -/
theorem RInv.handle_mon (hI : RInv start stop lease s bound) (mac : Mac) (now : Int)
    (c : Option Nat) (s' : RState) (r : RReply) (h : s.handle mac now c = some (s', r)) :
    RInv start stop lease s'
      (RMon.step ⟨start, stop, lease⟩ bound
        (.req mac now r (s'.db.filter (fun x => x.mac == mac)))).1 ∧
    (RMon.step ⟨start, stop, lease⟩ bound
        (.req mac now r (s'.db.filter (fun x => x.mac == mac)))).2.all = true := by
  rcases hI.handle_cases mac now c s' r h with
    ⟨ip, rfl, hb, hI', h1, h2, hst⟩ | ⟨ip, rfl, hb, hf, hI', h1, h2, hst⟩ | ⟨rfl, hb, hsz, hI'⟩
  · have hex : (s'.db.filter (fun x => x.mac == mac)).any (fun r => r.ip == ip &&
        decide (r.expiry * nsPerSec ≥ now + lease - nsPerSec)) = true := by
      rw [List.any_eq_true]
      obtain ⟨x, hx, h3, h4⟩ := hst
      exact ⟨x, hx, by simp [h3, h4]⟩
    simp only [RMon.step, hb, hex, RVerdict.all, h1, h2]
    exact ⟨hI', by simp⟩
  · have hex : (s'.db.filter (fun x => x.mac == mac)).any (fun r => r.ip == ip &&
        decide (r.expiry * nsPerSec ≥ now + lease - nsPerSec)) = true := by
      rw [List.any_eq_true]
      obtain ⟨x, hx, h3, h4⟩ := hst
      exact ⟨x, hx, by simp [h3, h4]⟩
    have hany : bound.any (fun p => p.2 == ip) = false := by
      rw [List.any_eq_false]
      intro p hp
      simpa using hf p hp
    simp only [RMon.step, hb, hex, hany, RVerdict.all, h1, h2]
    exact ⟨hI', by simp⟩
  · simp only [RMon.step, hb, RVerdict.all, hsz]
    exact ⟨hI', by simp⟩

end inv

/-! ### restart -/

theorem a4new_eq (start stop : BitVec 32) (hle : start.toNat ≤ stop.toNat) :
    A4.new (some start) (some stop) = .ok ⟨start, stop, Bits.new (A4.size start stop)⟩ := by
  unfold A4.new
  simp only
  rw [if_neg (by omega)]

theorem setup_eq (start stop : BitVec 32) (lease : Int) (db : List Row)
    (loadKey : Mac → Option Mac) (order : List (Mac × Rec) → List (Mac × Rec))
    (L : List (Mac × Rec)) (a' : A4) (hlt : start.toNat < stop.toNat)
    (hL : loadRecords loadKey db = some L)
    (hr : remark ⟨start, stop, Bits.new (A4.size start stop)⟩ (order L) = some a') :
    RState.setup start stop lease db loadKey order = .ok ⟨a', L, db, lease⟩ := by
  unfold RState.setup
  rw [if_neg (by omega)]
  simp only [a4new_eq start stop (by omega), hL, hr]

theorem loadRecords_eq (loadKey : Mac → Option Mac) (hkey : ∀ m, loadKey m = some m)
    (db : List Row) (hd : db.Pairwise (fun x y => x.mac ≠ y.mac)) :
    loadRecords loadKey db = some (db.map rowRec) := by
  induction db with
  | nil => rfl
  | cons r rows ih =>
    rw [List.pairwise_cons] at hd
    simp only [loadRecords, hkey, ih hd.2, List.map_cons]
    unfold recsPut
    rw [filter_key_ne_self]
    · rfl
    · intro p hp
      obtain ⟨x, hx, rfl⟩ := List.mem_map.1 hp
      exact Ne.symm (hd.1 x hx)

theorem lookupRec_perm {l l' : List (Mac × Rec)} (hk : KD l) (hp : l.Perm l') (m : Mac) :
    lookupRec l m = lookupRec l' m := by
  cases h : lookupRec l' m with
  | none =>
    rw [lookupRec_none] at h ⊢
    exact fun p hp' => h p (hp.mem_iff.1 hp')
  | some r =>
    rw [lookupRec_some (hk.perm hp)] at h
    rw [lookupRec_some hk]
    exact hp.mem_iff.2 h

theorem RInv.restart {start stop : BitVec 32} {lease : Int} {s : RState}
    {bound : List (Mac × BitVec 32)} (hI : RInv start stop lease s bound)
    (loadKey : Mac → Option Mac) (order : List (Mac × Rec) → List (Mac × Rec))
    (hkey : ∀ m, loadKey m = some m) (hperm : ∀ l, (order l).Perm l) :
    ∃ s', s.restart loadKey order = .ok s' ∧ RInv start stop lease s' bound ∧
      (∀ m, lookupRec s'.recs m = lookupRec s.recs m) ∧
      s'.alloc.bm.length = s.alloc.bm.length ∧
      (∀ i, s'.alloc.bm.test i = s.alloc.bm.test i) := by
  have hd : s.db.Pairwise (fun x y => x.mac ≠ y.mac) := by
    have : (s.recs.map recRow).Pairwise (fun x y => x.mac ≠ y.mac) := by
      rw [List.pairwise_map]; exact hI.keys
    exact hI.db.symm.pairwise this (fun h => Ne.symm h)
  have hload := loadRecords_eq loadKey hkey s.db hd
  have hL : (s.db.map rowRec).Perm s.recs := by
    have h1 := hI.db.map rowRec
    rw [List.map_map] at h1
    have : (rowRec ∘ recRow) = id := by funext p; rfl
    rw [this, List.map_id] at h1
    exact h1
  have hO : (order (s.db.map rowRec)).Perm s.recs := (hperm _).trans hL
  have hI0 := Inv4.init start stop _ (a4new_eq start stop (by have := hI.hlt; omega))
  obtain ⟨a', hrem, hI'⟩ := remark_ok (order (s.db.map rowRec)) _ [] hI0
    (by rw [List.append_nil]; exact (hO.map recIp).nodup_iff.2 hI.a4.nodup)
    (fun p hp => hI.inrange (m := p.1) (r := p.2) (hO.mem_iff.1 hp))
  rw [List.append_nil] at hI'
  have hI'' : Inv4 start stop a' (s.recs.map recIp) := hI'.perm (hO.map recIp)
  refine ⟨⟨a', s.db.map rowRec, s.db, s.lease⟩, ?_, ?_, ?_, ?_, ?_⟩
  · unfold RState.restart
    rw [hI.a4.hs, hI.a4.he]
    exact setup_eq start stop s.lease s.db loadKey order _ a' hI.hlt hload hrem
  · exact ⟨hI.hlease, hI.hlt, hI''.perm (hL.symm.map recIp), hI.keys.perm hL.symm,
      hI.bnd.trans (hL.symm.map recBound), hI.db.trans (hL.symm.map recRow)⟩
  · exact fun m => (lookupRec_perm hI.keys hL.symm m).symm
  · show a'.bm.length = s.alloc.bm.length
    rw [hI''.hlen, hI.a4.hlen]
  · intro i
    show a'.bm.test i = s.alloc.bm.test i
    have hlen : a'.bm.length = s.alloc.bm.length := by rw [hI''.hlen, hI.a4.hlen]
    by_cases hi : i < s.alloc.bm.length
    · rw [Bool.eq_iff_iff, hI''.bit i (hlen ▸ hi), hI.a4.bit i hi]
    · rw [Bits.test_of_ge _ i (by omega), Bits.test_of_ge _ i (by omega)]

/-! ### what a restarted instance serves -/

/-- `b` extends `bound` by clients not bound in `bound`, at addresses not bound in `bound` -/
def Ext (bound b : List (Mac × BitVec 32)) : Prop :=
  ∃ ext, b = ext ++ bound ∧
    ∀ p ∈ ext, lookupBound bound p.1 = none ∧ ∀ q ∈ bound, q.2 ≠ p.2

theorem Ext.refl (bound : List (Mac × BitVec 32)) : Ext bound bound :=
  ⟨[], rfl, fun _ h => by cases h⟩

theorem Ext.cons {bound b : List (Mac × BitVec 32)} (h : Ext bound b) (m : Mac) (ip : BitVec 32)
    (h1 : lookupBound bound m = none) (h2 : ∀ q ∈ bound, q.2 ≠ ip) : Ext bound ((m, ip) :: b) := by
  obtain ⟨ext, rfl, he⟩ := h
  refine ⟨(m, ip) :: ext, rfl, ?_⟩
  intro p hp
  rcases List.mem_cons.1 hp with rfl | hp
  · exact ⟨h1, h2⟩
  · exact he p hp

theorem Ext.mem {bound b : List (Mac × BitVec 32)} (h : Ext bound b) {q : Mac × BitVec 32}
    (hq : q ∈ bound) : q ∈ b := by
  obtain ⟨ext, rfl, _⟩ := h
  exact List.mem_append_right _ hq

/-- the served entry `q` is acceptable to the restart monitor with bindings `bound` -/
def Good (bound : List (Mac × BitVec 32)) (q : Mac × Option (BitVec 32)) : Prop :=
  (∀ ip, lookupBound bound q.1 = some ip → q.2 = some ip) ∧
  (lookupBound bound q.1 = none → ∀ ip, q.2 = some ip → ∀ p ∈ bound, p.2 ≠ ip)

theorem serve_good {start stop : BitVec 32} {lease : Int} (bound : List (Mac × BitVec 32))
    (hkb : KD bound) (now : Int) (ask : List Mac) :
    ∀ (s : RState) (b : List (Mac × BitVec 32)) (cs : List (Option Nat)) (s'' : RState)
      (served : List (Mac × Option (BitVec 32))) (cs' : List (Option Nat)),
      RInv start stop lease s b → Ext bound b →
      RState.serve s ask now cs = some (s'', served, cs') → ∀ q ∈ served, Good bound q := by
  induction ask with
  | nil =>
    intro s b cs s'' served cs' _ _ h
    simp only [RState.serve, Option.some.injEq, Prod.mk.injEq] at h
    obtain ⟨_, rfl, _⟩ := h
    intro q hq; cases hq
  | cons m ms ih =>
    intro s b cs s'' served cs' hI hE h
    cases cs with
    | nil => simp [RState.serve] at h
    | cons c cs =>
      simp only [RState.serve] at h
      cases hh : s.handle m now c with
      | none => simp [hh] at h
      | some p =>
        obtain ⟨s1, r⟩ := p
        simp only [hh] at h
        cases hs : RState.serve s1 ms now cs with
        | none => simp [hs] at h
        | some t =>
          obtain ⟨s2, l, cs2⟩ := t
          simp only [hs, Option.some.injEq, Prod.mk.injEq] at h
          obtain ⟨_, rfl, _⟩ := h
          have hkb' : KD b := hI.bkeys
          -- a binding of `bound` is a binding of `b`
          have hmono : ∀ ip, lookupBound bound m = some ip → lookupBound b m = some ip := by
            intro ip hip
            rw [lookupBound_some hkb] at hip
            rw [lookupBound_some hkb']
            exact hE.mem hip
          have hnone : lookupBound b m = none → lookupBound bound m = none := by
            intro hn
            cases hb : lookupBound bound m with
            | none => rfl
            | some ip => rw [hmono ip hb] at hn; cases hn
          rcases hI.handle_cases m now c s1 r hh with
            ⟨ip, rfl, hb, hI', _, _, _⟩ | ⟨ip, rfl, hb, hf, hI', _, _, _⟩ | ⟨rfl, hb, _, hI'⟩
          · intro q hq
            rcases List.mem_cons.1 hq with rfl | hq
            · constructor
              · intro ip0 h0
                have := hmono ip0 h0
                rw [hb] at this
                simp only [this]
              · intro h0 ip0 h1 p hp
                simp only [Option.some.injEq] at h1
                subst h1
                obtain ⟨ext, rfl, he⟩ := hE
                rw [lookupBound_some hkb'] at hb
                rcases List.mem_append.1 hb with hm | hm
                · exact (he _ hm).2 p hp
                · rw [lookupBound_none] at h0
                  exact absurd rfl (h0 _ hm)
            · exact ih s1 b cs s2 l cs2 hI' hE hs q hq
          · have hbn := hnone hb
            have hfb : ∀ q ∈ bound, q.2 ≠ ip := fun q hq => hf q (hE.mem hq)
            intro q hq
            rcases List.mem_cons.1 hq with rfl | hq
            · constructor
              · intro ip0 h0; rw [hbn] at h0; cases h0
              · intro _ ip0 h1 p hp
                simp only [Option.some.injEq] at h1
                subst h1
                exact hfb p hp
            · exact ih s1 _ cs s2 l cs2 hI' (hE.cons m ip hbn hfb) hs q hq
          · have hbn := hnone hb
            intro q hq
            rcases List.mem_cons.1 hq with rfl | hq
            · constructor
              · intro ip0 h0; rw [hbn] at h0; cases h0
              · intro _ ip0 h1; cases h1
            · exact ih s1 b cs s2 l cs2 hI' hE hs q hq

theorem restart_verdict (c : RCfg) (bound : List (Mac × BitVec 32))
    (served : List (Mac × Option (BitVec 32))) (h : ∀ q ∈ served, Good bound q) :
    (RMon.step c bound (.restart true served)).2.all = true := by
  simp only [RMon.step, RVerdict.all, Bool.true_and, Bool.and_eq_true, List.all_eq_true]
  constructor
  · intro q hq
    cases hb : lookupBound bound q.1 with
    | none => rfl
    | some ip => simp [(h q hq).1 ip hb]
  · intro q hq
    cases hb : lookupBound bound q.1 with
    | none =>
      cases hq2 : q.2 with
      | none => rfl
      | some ip =>
        have := (h q hq).2 hb ip hq2
        simp only [Bool.not_eq_true', List.any_eq_false, beq_iff_eq]
        exact this
    | some ip => rfl

/-! ### runs -/

theorem RInv.run {start stop : BitVec 32} {lease : Int}
    (loadKey : Mac → Option Mac) (order : List (Mac × Rec) → List (Mac × Rec))
    (hkey : ∀ m, loadKey m = some m) (hperm : ∀ l, (order l).Perm l) (ops : List ROp) :
    ∀ (s : RState) (bound : List (Mac × BitVec 32)) (cs : List (Option Nat)) (evs : List REv)
      (z : RState), RInv start stop lease s bound →
      RState.run loadKey order s ops cs = some (evs, z) →
      (RMon.run ⟨start, stop, lease⟩ bound evs).all RVerdict.all = true ∧
        ∃ bound', RInv start stop lease z bound' := by
  induction ops with
  | nil =>
    intro s bound cs evs z hI hrun
    simp only [RState.run, Option.some.injEq, Prod.mk.injEq] at hrun
    obtain ⟨rfl, rfl⟩ := hrun
    exact ⟨rfl, bound, hI⟩
  | cons op ops ih =>
    intro s bound cs evs z hI hrun
    cases op with
    | req mac now =>
      cases cs with
      | nil => simp [RState.run] at hrun
      | cons c cs =>
        simp only [RState.run] at hrun
        cases hh : s.handle mac now c with
        | none => simp [hh] at hrun
        | some p =>
          obtain ⟨s', r⟩ := p
          simp only [hh, Option.map_eq_some_iff] at hrun
          obtain ⟨⟨evs', z'⟩, hrun', heq⟩ := hrun
          simp only [Prod.mk.injEq] at heq
          obtain ⟨rfl, rfl⟩ := heq
          obtain ⟨hI', hv⟩ := hI.handle_mon mac now c s' r hh
          obtain ⟨h1, h2⟩ := ih s' _ cs evs' z' hI' hrun'
          refine ⟨?_, h2⟩
          simp only [RMon.run, List.all_cons, hv, Bool.true_and]
          exact h1
    | restart ask now =>
      simp only [RState.run] at hrun
      obtain ⟨s', hres, hI', _⟩ := hI.restart loadKey order hkey hperm
      simp only [hres] at hrun
      cases hs : RState.serve s' ask now cs with
      | none => simp [hs] at hrun
      | some t =>
        obtain ⟨s2, served, cs'⟩ := t
        simp only [hs, Option.map_eq_some_iff] at hrun
        obtain ⟨⟨evs', z'⟩, hrun', heq⟩ := hrun
        simp only [Prod.mk.injEq] at heq
        obtain ⟨rfl, rfl⟩ := heq
        have hg := serve_good bound hI.bkeys now ask s' bound cs s2 served cs' hI' (Ext.refl bound) hs
        have hv := restart_verdict ⟨start, stop, lease⟩ bound served hg
        have hb : (RMon.step ⟨start, stop, lease⟩ bound (.restart true served)).1 = bound := rfl
        obtain ⟨h1, h2⟩ := ih s' bound cs' evs' z' hI' hrun'
        refine ⟨?_, h2⟩
        simp only [RMon.run, List.all_cons, hv, Bool.true_and, hb]
        exact h1

/-- the state `setupRange` produces on an empty lease table -/
theorem RInv.init (start stop : BitVec 32) (lease : Int)
    (loadKey : Mac → Option Mac) (order : List (Mac × Rec) → List (Mac × Rec))
    (hperm : ∀ l, (order l).Perm l)
    (s0 : RState) (hs0 : RState.setup start stop lease [] loadKey order = .ok s0) :
    RInv start stop lease s0 [] := by
  have hlt : start.toNat < stop.toNat := by
    apply Classical.byContradiction
    intro hn
    unfold RState.setup at hs0
    rw [if_pos (by omega)] at hs0
    cases hs0
  have ho : order [] = [] := (hperm []).eq_nil
  have := setup_eq start stop lease [] loadKey order [] _ hlt rfl (by rw [ho]; rfl)
  rw [this] at hs0
  injection hs0 with hs0
  subst hs0
  exact ⟨rfl, hlt, Inv4.init start stop _ (a4new_eq start stop (by omega)), List.Pairwise.nil,
    List.Perm.refl _, List.Perm.refl _⟩

/-- Every run of the range-plugin model — any requests from any hardware addresses at any times,
restarts at any points, any admissible allocator choices, any map-iteration order in the
re-marking loop — passes the C02 and C03 monitors at every step, provided the stored form of a
hardware address is read back as the same address (`hkey`). In particular a restart never fails. -/
theorem RState.run_verdicts (start stop : BitVec 32) (lease : Int)
    (loadKey : Mac → Option Mac) (order : List (Mac × Rec) → List (Mac × Rec))
    (hkey : ∀ m, loadKey m = some m) (hperm : ∀ l, (order l).Perm l)
    (s0 : RState) (hs0 : RState.setup start stop lease [] loadKey order = .ok s0)
    (ops : List ROp) (cs : List (Option Nat)) (evs : List REv) (z : RState)
    (hrun : RState.run loadKey order s0 ops cs = some (evs, z)) :
    (RMon.run ⟨start, stop, lease⟩ [] evs).all RVerdict.all = true :=
  (RInv.run loadKey order hkey hperm ops s0 [] cs evs z
    (RInv.init start stop lease loadKey order hperm s0 hs0) hrun).1

/-- At every reachable state, restarting on the lease table succeeds and restores the same
client → address map and the same allocator bitmap, whatever the re-marking order. -/
theorem RState.restart_restores (start stop : BitVec 32) (lease : Int)
    (loadKey : Mac → Option Mac) (order : List (Mac × Rec) → List (Mac × Rec))
    (hkey : ∀ m, loadKey m = some m) (hperm : ∀ l, (order l).Perm l)
    (s0 : RState) (hs0 : RState.setup start stop lease [] loadKey order = .ok s0)
    (ops : List ROp) (cs : List (Option Nat)) (evs : List REv) (z : RState)
    (hrun : RState.run loadKey order s0 ops cs = some (evs, z)) :
    ∃ z', z.restart loadKey order = .ok z' ∧
      (∀ m, lookupRec z'.recs m = lookupRec z.recs m) ∧
      z'.alloc.bm.length = z.alloc.bm.length ∧ (∀ i, z'.alloc.bm.test i = z.alloc.bm.test i) := by
  obtain ⟨_, bound', hI⟩ := RInv.run loadKey order hkey hperm ops s0 [] cs evs z
    (RInv.init start stop lease loadKey order hperm s0 hs0) hrun
  obtain ⟨z', h1, _, h2, h3, h4⟩ := hI.restart loadKey order hkey hperm
  exact ⟨z', h1, h2, h3, h4⟩

end CoreDhcp
