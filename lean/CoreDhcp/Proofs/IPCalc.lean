/-
Helper lemmas for C20 (prefix arithmetic `offset` / `addPrefixes`).
-/
import CoreDhcp.Model.IPCalc
namespace CoreDhcp

theorem two64 : (2:Nat)^64 = 18446744073709551616 := by decide
theorem two128 : (2:Nat)^128 = 340282366920938463463374607431768211456 := by decide

/-! ### Addr ↔ Nat -/

theorem Addr.val_lt (a : Addr) : a.val < 2^128 := by
  unfold Addr.val
  have := a.hi.isLt; have := a.lo.isLt
  omega

theorem Addr.val_ofVal (n : Nat) : (Addr.ofVal n).val = n % 2^128 := by
  unfold Addr.val Addr.ofVal
  simp only [BitVec.toNat_ofNat]
  omega

theorem Addr.ext_val {a b : Addr} (h : a.val = b.val) : a = b := by
  cases a with | mk ah al => cases b with | mk bh bl =>
  unfold Addr.val at h
  simp only at h
  have h1 := ah.isLt; have h2 := al.isLt; have h3 := bh.isLt; have h4 := bl.isLt
  have e1 : ah.toNat = bh.toNat := by omega
  have e2 : al.toNat = bl.toNat := by omega
  rw [BitVec.eq_of_toNat_eq e1, BitVec.eq_of_toNat_eq e2]

theorem Addr.ofVal_val (a : Addr) : Addr.ofVal a.val = a := by
  apply Addr.ext_val
  rw [Addr.val_ofVal, Nat.mod_eq_of_lt a.val_lt]

theorem Addr.val_ofVal_of_lt {n : Nat} (h : n < 2^128) : (Addr.ofVal n).val = n := by
  rw [Addr.val_ofVal, Nat.mod_eq_of_lt h]

/-! ### pure Nat facts -/

theorem pow_split {k : Nat} (hk : k ≤ 64) : (2:Nat)^64 = 2^(64-k) * 2^k := by
  rw [← Nat.pow_add]; congr 1; omega

theorem div_pow_split (dh dl k : Nat) (hk : k ≤ 64) :
    (dh * 2^64 + dl) / 2^k = dh * 2^(64-k) + dl / 2^k := by
  rw [pow_split hk, ← Nat.mul_assoc, Nat.add_comm, Nat.add_mul_div_right _ _ (Nat.two_pow_pos k),
    Nat.add_comm]

theorem one_shl_toNat {k : Nat} (hk : k < 64) : (1#64 <<< k).toNat = 2^k := by
  rw [BitVec.toNat_shiftLeft, Nat.shiftLeft_eq]
  simp only [BitVec.toNat_ofNat]
  have : (2:Nat)^k < 2^64 := Nat.pow_lt_pow_right (by decide) hk
  have h1 : (1:Nat) % 2^64 = 1 := by decide
  rw [h1, Nat.one_mul, Nat.mod_eq_of_lt this]

/-! ### offset -/

/-- Difference of two addresses in 128-bit two-limb form. -/
theorem sub128_val (x b : Addr) (hle : b.val ≤ x.val) :
    ((sub64 x.hi b.hi (sub64 x.lo b.lo 0#64).2).1).toNat * 2^64
      + ((sub64 x.lo b.lo 0#64).1).toNat = x.val - b.val := by
  unfold Addr.val at *
  unfold sub64
  have h1 := x.hi.isLt; have h2 := x.lo.isLt; have h3 := b.hi.isLt; have h4 := b.lo.isLt
  simp only [BitVec.toNat_sub, BitVec.toNat_ofNat]
  split <;> simp only [BitVec.toNat_ofNat] <;> omega

theorem offset_unfold_of_le (x base : Addr) (p : Nat) (hp : p ≤ 128) (hne : x ≠ base)
    (hle : base.val ≤ x.val) :
    offset x base (p : Int) =
      if p ≤ 64 then .ok ((x.hi - base.hi) >>> (64 - p))
      else
        let dl := sub64 x.lo base.lo 0#64
        let dh := (sub64 x.hi base.hi dl.2).1
        if (1#64 <<< (128 - p)).toNat ≤ dh.toNat then .error .overflow
        else .ok ((dh <<< (p - 64)) + (dl.1 >>> (128 - p))) := by
  unfold offset
  have h0 : ¬ ((p : Int) > 128 ∨ (p : Int) < 0) := by omega
  have h1 : ¬ x.val < base.val := by omega
  simp only [h0, if_false, Int.toNat_natCast, hne, h1]

theorem offset_small (x base : Addr) (p : Nat) (hp : p ≤ 64)
    (hal : base.val % 2^(128 - p) = 0) (hle : base.val ≤ x.val) :
    ((x.hi - base.hi) >>> (64 - p)) = BitVec.ofNat 64 ((x.val - base.val) / 2^(128 - p)) := by
  have e : 128 - p = 64 + (64 - p) := by omega
  rw [e, Nat.pow_add] at hal ⊢
  have hlo : base.val % 2^64 = 0 := by
    have := Nat.mod_mul_right_mod base.val (2^64) (2^(64-p))
    rw [hal] at this; simpa using this.symm
  apply BitVec.eq_of_toNat_eq
  rw [BitVec.toNat_ushiftRight, Nat.shiftRight_eq_div_pow, BitVec.toNat_ofNat,
    ← Nat.div_div_eq_div_mul]
  have h1 := x.hi.isLt; have h2 := x.lo.isLt; have h3 := base.hi.isLt; have h4 := base.lo.isLt
  unfold Addr.val at *
  have d1 : (x.hi - base.hi).toNat = x.hi.toNat - base.hi.toNat := by
    rw [BitVec.toNat_sub]; omega
  have d2 : (x.hi.toNat * 2^64 + x.lo.toNat - (base.hi.toNat * 2^64 + base.lo.toNat)) / 2^64
      = x.hi.toNat - base.hi.toNat := by omega
  rw [d1, d2]
  have : (x.hi.toNat - base.hi.toNat) / 2^(64-p) ≤ x.hi.toNat - base.hi.toNat := Nat.div_le_self _ _
  rw [Nat.mod_eq_of_lt (by omega)]

theorem small_lt (x base : Addr) (p : Nat) (hp : p ≤ 64) :
    (x.val - base.val) / 2^(128 - p) < 2^64 := by
  have e : 128 - p = 64 + (64 - p) := by omega
  rw [e, Nat.pow_add, ← Nat.div_div_eq_div_mul]
  have := x.val_lt
  have : (x.val - base.val) / 2^64 < 2^64 := by omega
  exact Nat.lt_of_le_of_lt (Nat.div_le_self _ _) this

theorem offset_big_val (dh dl : BitVec 64) (p : Nat) (h64 : 64 < p) (hp : p ≤ 128) :
    ((dh <<< (p - 64)) + (dl >>> (128 - p))) =
      BitVec.ofNat 64 ((dh.toNat * 2^64 + dl.toNat) / 2^(128 - p)) := by
  apply BitVec.eq_of_toNat_eq
  have hk : 128 - p ≤ 64 := by omega
  have e : p - 64 = 64 - (128 - p) := by omega
  rw [BitVec.toNat_add, BitVec.toNat_shiftLeft, Nat.shiftLeft_eq, BitVec.toNat_ushiftRight,
    Nat.shiftRight_eq_div_pow, BitVec.toNat_ofNat, div_pow_split _ _ _ hk, e, Nat.mod_add_mod]

theorem offset_big_ovf (dh dl : BitVec 64) (k : Nat) (hk : k < 64) :
    ((1#64 <<< k).toNat ≤ dh.toNat) ↔ ¬ (dh.toNat * 2^64 + dl.toNat) / 2^k < 2^64 := by
  rw [one_shl_toNat hk, Nat.div_lt_iff_lt_mul (Nat.two_pow_pos k)]
  have := dl.isLt
  generalize (2:Nat)^k = K
  omega

theorem offset_exact (x base : Addr) (p : Nat) (hp : p ≤ 128)
    (hal : base.val % 2^(128 - p) = 0) (hle : base.val ≤ x.val) :
    offset x base (p : Int) =
      if (x.val - base.val) / 2^(128 - p) < 2^64
      then .ok (BitVec.ofNat 64 ((x.val - base.val) / 2^(128 - p)))
      else .error .overflow := by
  by_cases hxb : x = base
  · subst hxb
    have : offset x x (p : Int) = .ok 0#64 := by
      unfold offset
      have h0 : ¬ ((p : Int) > 128 ∨ (p : Int) < 0) := by omega
      simp only [h0, if_false, if_true]
    rw [this, Nat.sub_self, Nat.zero_div, if_pos (Nat.two_pow_pos 64)]
  · rw [offset_unfold_of_le x base p hp hxb hle]
    by_cases h64 : p ≤ 64
    · rw [if_pos h64, if_pos (small_lt x base p h64), offset_small x base p h64 hal hle]
    · rw [if_neg h64]
      have h64' : 64 < p := by omega
      simp only
      rw [offset_big_val _ _ p h64' hp, sub128_val x base hle]
      have := offset_big_ovf (sub64 x.hi base.hi (sub64 x.lo base.lo 0#64).2).1
        (sub64 x.lo base.lo 0#64).1 (128 - p) (by omega)
      rw [sub128_val x base hle] at this
      by_cases hc : (x.val - base.val) / 2^(128 - p) < 2^64
      · rw [if_pos hc, if_neg (by rw [this]; exact fun h => h hc)]
      · rw [if_neg hc, if_pos (this.mpr hc)]

theorem offset_symm (a b : Addr) (p : Int) : offset a b p = offset b a p := by
  unfold offset
  by_cases h0 : p > 128 ∨ p < 0
  · simp only [h0, if_true]
  · simp only [h0, if_false]
    by_cases hab : a = b
    · subst hab; rfl
    · have hba : ¬ b = a := fun h => hab h.symm
      simp only [hab, hba, if_false]
      by_cases h1 : a.val < b.val
      · have h2 : ¬ b.val < a.val := by omega
        simp only [h1, h2, if_true, if_false]
      · have h2 : b.val < a.val := by
          have : a.val ≠ b.val := fun h => hab (Addr.ext_val h)
          omega
        simp only [h1, h2, if_true, if_false]

/-! ### addPrefixes -/

/-- The two-limb add-with-carry tail of `addPrefixes`. -/
def add128 (off ip : Addr) : Except CalcErr Addr :=
  let l := add64 off.lo ip.lo 0#64
  let h := add64 off.hi ip.hi l.2
  if h.2 ≠ 0#64 then .error .overflow else .ok ⟨h.1, l.1⟩

theorem add128_exact (off ip : Addr) :
    add128 off ip =
      if ip.val + off.val < 2^128 then .ok (Addr.ofVal (ip.val + off.val))
      else .error .overflow := by
  have h1 := off.hi.isLt; have h2 := off.lo.isLt; have h3 := ip.hi.isLt; have h4 := ip.lo.isLt
  unfold add128 add64
  simp only [BitVec.toNat_ofNat, Nat.zero_mod, Nat.add_zero]
  by_cases hl : 2^64 ≤ off.lo.toNat + ip.lo.toNat
  · simp only [hl, if_true, BitVec.toNat_ofNat]
    by_cases hh : 2^64 ≤ off.hi.toNat + ip.hi.toNat + 1 % 2^64
    · have : ¬ ip.val + off.val < 2^128 := by unfold Addr.val; omega
      simp [hh, this]
    · have : ip.val + off.val < 2^128 := by unfold Addr.val; omega
      simp only [hh, this, if_true, if_false, ne_eq, not_true]
      congr 1
      apply Addr.ext_val
      rw [Addr.val_ofVal_of_lt this]
      unfold Addr.val
      simp only [BitVec.toNat_add, BitVec.toNat_ofNat]
      omega
  · simp only [hl, if_false, BitVec.toNat_ofNat, Nat.zero_mod, Nat.add_zero]
    by_cases hh : 2^64 ≤ off.hi.toNat + ip.hi.toNat
    · have : ¬ ip.val + off.val < 2^128 := by unfold Addr.val; omega
      simp [hh, this]
    · have : ip.val + off.val < 2^128 := by unfold Addr.val; omega
      simp only [hh, this, if_true, if_false, ne_eq, not_true]
      congr 1
      apply Addr.ext_val
      rw [Addr.val_ofVal_of_lt this]
      unfold Addr.val
      simp only [BitVec.toNat_add, BitVec.toNat_ofNat]
      omega

theorem addPrefixes_unfold (ip : Addr) (n unit : BitVec 64) :
    addPrefixes ip n unit =
      if unit = 0#64 ∧ n ≠ 0#64 then .error .overflow
      else if n = 0#64 then .ok ip
      else if unit.toNat < 64 ∧ (n >>> unit.toNat) ≠ 0#64 then .error .overflow
      else add128
        (if unit.toNat ≤ 64 then ⟨n <<< (64 - unit.toNat), 0#64⟩
         else ⟨(mul64 n (1#64 <<< (128#64 - unit).toNat)).1,
               (mul64 n (1#64 <<< (128#64 - unit).toNat)).2⟩) ip := by
  unfold addPrefixes add128
  split
  · rfl
  · split
    · rfl
    · split
      · rfl
      · split <;> rfl

theorem ushr_ne_zero (n : BitVec 64) (u : Nat) : (n >>> u) ≠ 0#64 ↔ 2^u ≤ n.toNat := by
  rw [ne_eq, ← BitVec.toNat_inj, BitVec.toNat_ushiftRight, Nat.shiftRight_eq_div_pow]
  simp only [BitVec.toNat_ofNat, Nat.zero_mod]
  rw [Nat.div_eq_zero_iff_lt (Nat.two_pow_pos u)]
  omega

/-- the offset pair for `unit ≤ 64` -/
theorem off_small (n : BitVec 64) (u : Nat) (hu : u ≤ 64) (hn : n.toNat < 2^u) :
    (⟨n <<< (64 - u), 0#64⟩ : Addr) = Addr.ofVal (n.toNat * 2^(128 - u)) := by
  have e : 128 - u = (64 - u) + 64 := by omega
  have hlt : n.toNat * 2^(64-u) < 2^64 := by
    rw [pow_split hu, Nat.mul_comm]
    exact Nat.mul_lt_mul_of_pos_left hn (Nat.two_pow_pos _)
  apply Addr.ext_val
  rw [Addr.val_ofVal, e, Nat.pow_add, ← Nat.mul_assoc]
  unfold Addr.val
  simp only [BitVec.toNat_shiftLeft, Nat.shiftLeft_eq, BitVec.toNat_ofNat, Nat.zero_mod,
    Nat.add_zero]
  rw [Nat.mod_eq_of_lt hlt]
  generalize n.toNat * 2^(64-u) = m at hlt
  omega

/-- the offset pair for `unit > 64` -/
theorem off_big (n : BitVec 64) (k : Nat) (hk : k < 64) :
    (⟨(mul64 n (1#64 <<< k)).1, (mul64 n (1#64 <<< k)).2⟩ : Addr)
      = Addr.ofVal (n.toNat * 2^k) := by
  unfold mul64 Addr.ofVal
  rw [one_shl_toNat hk]

theorem mul_pow_lt (n : BitVec 64) (k : Nat) (hk : k ≤ 64) : n.toNat * 2^k < 2^128 := by
  have h1 : (2:Nat)^k ≤ 2^64 := Nat.pow_le_pow_right (by decide) hk
  have h2 : n.toNat * 2^k ≤ n.toNat * 2^64 := Nat.mul_le_mul_left _ h1
  have := n.isLt
  omega

theorem addPrefixes_exact (base : Addr) (n unit : BitVec 64) (hu : unit.toNat ≤ 128) :
    addPrefixes base n unit =
      if base.val + n.toNat * 2^(128 - unit.toNat) < 2^128
      then .ok (Addr.ofVal (base.val + n.toNat * 2^(128 - unit.toNat)))
      else .error .overflow := by
  rw [addPrefixes_unfold]
  by_cases h1 : unit = 0#64 ∧ n ≠ 0#64
  · rw [if_pos h1]
    obtain ⟨hu0, hn0⟩ := h1
    subst hu0
    have : n.toNat ≠ 0 := fun h => hn0 (BitVec.eq_of_toNat_eq h)
    have h2 : 2^128 ≤ n.toNat * 2^128 := Nat.le_mul_of_pos_left _ (by omega)
    rw [if_neg]
    simp only [BitVec.toNat_ofNat, Nat.zero_mod, Nat.sub_zero]
    omega
  · rw [if_neg h1]
    by_cases h2 : n = 0#64
    · subst h2
      rw [if_pos rfl]
      simp only [BitVec.toNat_ofNat, Nat.zero_mod, Nat.zero_mul, Nat.add_zero]
      rw [if_pos base.val_lt, Addr.ofVal_val]
    · rw [if_neg h2]
      by_cases h3 : unit.toNat < 64 ∧ (n >>> unit.toNat) ≠ 0#64
      · rw [if_pos h3]
        obtain ⟨hlt, hsh⟩ := h3
        rw [ushr_ne_zero] at hsh
        have e : (2:Nat)^128 = 2^unit.toNat * 2^(128 - unit.toNat) := by
          rw [← Nat.pow_add]; congr 1; omega
        have : 2^128 ≤ n.toNat * 2^(128 - unit.toNat) := by
          rw [e]; exact Nat.mul_le_mul_right _ hsh
        rw [if_neg (by omega)]
      · rw [if_neg h3, add128_exact]
        by_cases h4 : unit.toNat ≤ 64
        · have hn : n.toNat < 2^unit.toNat := by
            by_cases h5 : unit.toNat < 64
            · have : ¬ (n >>> unit.toNat) ≠ 0#64 := fun h => h3 ⟨h5, h⟩
              rw [ushr_ne_zero] at this; omega
            · have : unit.toNat = 64 := by omega
              rw [this]; exact n.isLt
          have hlt : n.toNat * 2^(128 - unit.toNat) < 2^128 := by
            have e : (2:Nat)^128 = 2^unit.toNat * 2^(128 - unit.toNat) := by
              rw [← Nat.pow_add]; congr 1; omega
            rw [e]; exact Nat.mul_lt_mul_of_pos_right hn (Nat.two_pow_pos _)
          rw [if_pos h4, off_small n _ h4 hn, Addr.val_ofVal_of_lt hlt]
        · have hk : (128#64 - unit).toNat = 128 - unit.toNat := by
            rw [BitVec.toNat_sub]; simp only [BitVec.toNat_ofNat]; omega
          rw [if_neg h4, hk, off_big n _ (by omega),
            Addr.val_ofVal_of_lt (mul_pow_lt n _ (by omega))]

/-! ### inverse -/

theorem inverse (base y : Addr) (n : BitVec 64) (p : Nat) (hp : p ≤ 128)
    (hal : base.val % 2^(128 - p) = 0)
    (h : addPrefixes base n (BitVec.ofNat 64 p) = .ok y) :
    offset y base (p : Int) = .ok n := by
  have hpn : (BitVec.ofNat 64 p).toNat = p := by
    rw [BitVec.toNat_ofNat]; omega
  rw [addPrefixes_exact base n _ (by omega), hpn] at h
  split at h
  · rename_i hlt
    injection h with h
    subst h
    have hv := Addr.val_ofVal_of_lt hlt
    rw [offset_exact _ base p hp hal (by omega), hv, Nat.add_sub_cancel_left,
      Nat.mul_div_cancel _ (Nat.two_pow_pos _), if_pos n.isLt, BitVec.ofNat_toNat,
      BitVec.setWidth_eq]
  · cases h

end CoreDhcp
