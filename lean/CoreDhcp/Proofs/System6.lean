/-
Lemmas behind the DHCPv6 part of Props/System.lean that concerns `prefix` in the composed server
(Model/System.lean): frame, "the IA_PD options `prefix` built are the ones on the wire", the
round trip of the IA_PD encoding, and the link to the state machine of Model/Prefix.lean.
-/
import CoreDhcp.Proofs.System
import CoreDhcp.Proofs.Prefix
set_option linter.unusedSimpArgs false
set_option linter.unusedVariables false
namespace CoreDhcp
open Sys
open Plug (Bytes Opts lookup upd4 upd6)

/-! ## definitions -/

/-- the option codes a DHCPv6 element may add, replace or remove in the reply -/
def Sys.owned6 : Elem6 → List Nat
  | .plug (.dns _) => [23] | .plug (.search _) => [24] | .plug (.nbp _) => [59, 60]
  | .plug (.sleep _) => [] | .plug (.serverid _) => [2] | .file _ => [3] | .pd _ => [25]

-- `Sys.neverStops6` (dns, searchdomains, sleep, file) and `Sys.isPd` are in Model/System.lean

-- so are `Sys.secsOf` and `Sys.pdOf`

/-! ## frame -/

theorem filter_append_single (c k : Nat) (v : Bytes) (l : Opts) (h : c ≠ k) :
    (l ++ [(k, v)]).filter (fun o => o.1 == c) = l.filter (fun o => o.1 == c) := by
  rw [List.filter_append]
  have : ([(k, v)] : Opts).filter (fun o => o.1 == c) = [] := by
    apply List.filter_eq_nil_iff.mpr
    intro o ho
    rw [List.mem_singleton] at ho
    subst ho
    simp only [beq_iff_eq]
    exact fun e => h e.symm
  rw [this, List.append_nil]

/-- every built-in DHCPv6 plugin touches only the options of the codes it owns -/
theorem plug_frame6 (cfg : Plug.Cfg6) (req : Plug.ReqView6) (pre r : Plug.Resp6) (stop : Bool)
    (h : Plug.plugHandle6 cfg req pre = (some r, stop)) (c : Nat) (hc : c ∉ owned6 (.plug cfg)) :
    r.opts.filter (fun o => o.1 == c) = pre.opts.filter (fun o => o.1 == c) := by
  open Plug in
  cases cfg <;> simp only [plugHandle6, dns6.handle, search.handle6, nbp6.handle, sleep.handle6, serverid6.handle] at h
  all_goals (repeat' split at h)
  all_goals (try (simp at h; done))
  all_goals
    simp only [Prod.mk.injEq, Option.some.injEq] at h
    obtain ⟨rfl, _⟩ := h
    simp only [owned6, List.mem_cons, List.not_mem_nil, or_false, not_or, not_false_eq_true] at hc
  · exact filter_other_upd6 23 c _ _ hc
  · rfl
  · exact filter_other_upd6 24 c _ _ hc
  · show (pre.opts ++ nbp6.added _ _).filter _ = _
    rw [List.filter_append, nbp6_added_keep _ _ c hc.1 hc.2, List.append_nil]
  · rfl
  · exact filter_other_upd6 2 c _ _ hc
  · exact filter_other_upd6 2 c _ _ hc

/-- what one element of the DHCPv6 chain does to the options of a code it does not own: nothing -/
theorem handle6_frame (e : Elem6) (d : Sys.Pkt6) (r x : Sys.Resp6)
    (h : (handle6 e d (some r)).1 = some x) (c : Nat) (hc : c ∉ owned6 e) :
    x.opts.filter (fun o => o.1 == c) = r.opts.filter (fun o => o.1 == c) := by
  cases e with
  | plug cfg =>
    rw [handle6_plug] at h
    cases hm : d.msg with
    | none => rw [hm] at h; cases h
    | some m =>
      rw [hm] at h
      dsimp only at h
      cases hp : Plug.plugHandle6 cfg ⟨d.layers.length, m.mt, m.opts⟩ ⟨r.mt, r.opts⟩ with
      | mk o stop =>
        rw [hp] at h
        cases o with
        | none => cases h
        | some p =>
          dsimp only at h
          cases h
          exact plug_frame6 cfg _ _ p stop hp c hc
  | file t =>
    have hne : c ≠ 3 := by
      intro h3; subst h3; exact hc (by simp [owned6])
    rw [handle6_file] at h
    repeat' split at h
    all_goals (first | (cases h; done) | (cases h; rfl) | (cases h; exact filter_append_single c 3 _ _ hne))
  | pd out =>
    have hne : c ≠ 25 := by
      intro h3; subst h3; exact hc (by simp [owned6])
    rw [handle6_pd] at h
    repeat' split at h
    all_goals (first | (cases h; done) | (cases h; exact filter_append_pd c hne _ _))

theorem chain6_frame (chain : List Elem6) (d : Sys.Pkt6) (r0 resp : Sys.Resp6)
    (hrun : (runChain (chain.map handle6) d 0 (some r0)).1 = some resp) (c : Nat)
    (hc : ∀ e ∈ chain, c ∉ owned6 e) :
    resp.opts.filter (fun o => o.1 == c) = r0.opts.filter (fun o => o.1 == c) := by
  have hinv := runChain_invariant
    (fun r => ∀ x, r = some x → x.opts.filter (fun o => o.1 == c) = r0.opts.filter (fun o => o.1 == c))
    d (chain.map handle6)
    (by
      intro h hm r hr x hx
      obtain ⟨e, he, rfl⟩ := List.mem_map.mp hm
      cases r with
      | none => rw [handle6_none] at hx; cases hx
      | some y => exact (handle6_frame e d y x hx c (hc e he)).trans (hr y rfl))
    0 (some r0) (by intro x hx; cases hx; rfl)
  exact hinv resp hrun

theorem deliverS6_send (bound : Nat) (oob : Option Nat) (src : Addr) (d : Sys.Pkt6) (resp resp' : Sys.Resp6)
    (layers : List Layer6) (ifidx : Option Nat)
    (h : deliverS6 bound oob src d resp = .send layers resp' ifidx) : resp' = resp := by
  rcases deliverS6_cases bound oob src d resp with hd | hd
  · rw [hd] at h; cases h
  · rw [hd] at h
    injection h with _ e _
    exact e.symm

/-- a reply that is sent is what the chain made of the prepared reply -/
theorem serve6_send (bound : Nat) (oob : Option Nat) (src : Addr) (chain : List Elem6) (d : Sys.Pkt6)
    (layers : List Layer6) (resp : Sys.Resp6) (ifidx : Option Nat)
    (h : serve6 bound oob src chain (some d) = .send layers resp ifidx) :
    ∃ m r0, d.msg = some m ∧ Sys.stub6 m = some r0 ∧
      (runChain (chain.map handle6) d 0 (some r0)).1 = some resp := by
  cases hm : d.msg with
  | none => simp [serve6, hm] at h
  | some m =>
    cases h0 : Sys.stub6 m with
    | none => simp [serve6, hm, h0] at h
    | some r0 =>
      rw [serve6_eq bound oob src chain d m r0 hm h0] at h
      cases hc : (runChain (chain.map handle6) d 0 (some r0)).1 with
      | none => rw [hc] at h; cases h
      | some resp' =>
        rw [hc] at h
        dsimp only at h
        have := deliverS6_send bound oob src d resp' resp layers ifidx h
        subst this
        exact ⟨m, r0, rfl, h0, hc⟩

theorem sys_frame6 (bound : Nat) (oob : Option Nat) (src : Addr) (chain : List Elem6) (d : Sys.Pkt6) (m : Sys.Msg6)
    (r0 : Sys.Resp6) (hm : d.msg = some m) (h0 : Sys.stub6 m = some r0)
    (layers : List Layer6) (resp : Sys.Resp6) (ifidx : Option Nat)
    (hs : serve6 bound oob src chain (some d) = .send layers resp ifidx) (c : Nat)
    (hc : ∀ e ∈ chain, c ∉ owned6 e) :
    resp.opts.filter (fun o => o.1 == c) = r0.opts.filter (fun o => o.1 == c) := by
  obtain ⟨m', r0', hm', h0', hrun⟩ := serve6_send bound oob src chain d layers resp ifidx hs
  rw [hm] at hm'
  cases hm'
  rw [h0] at h0'
  cases h0'
  exact chain6_frame chain d r0 resp hrun c hc

/-! ## `prefix` reached: its IA_PD options are the ones sent -/

/-- the elements `neverStops6` names hand a response on and never end the chain (for a datagram
`HandleMsg6` could decapsulate) -/
theorem sys_neverStops6 (e : Elem6) (he : neverStops6 e = true) (d : Sys.Pkt6) (m : Sys.Msg6) (hm : d.msg = some m)
    (r : Sys.Resp6) : ∃ r', handle6 e d (some r) = (some r', false) := by
  cases e with
  | pd o => simp [neverStops6] at he
  | file t =>
    rw [handle6_file, hm]
    dsimp only
    repeat' split
    all_goals exact ⟨_, rfl⟩
  | plug c =>
    cases c <;> simp only [neverStops6] at he <;> try (exact absurd he (by decide))
    all_goals
      rw [handle6_plug, hm]
      simp only [Plug.plugHandle6, Plug.dns6.handle, Plug.search.handle6, Plug.sleep.handle6]
      exact ⟨_, rfl⟩

theorem not_pd_owned (e : Elem6) (h : isPd e = false) : 25 ∉ owned6 e := by
  cases e with
  | plug c => cases c <;> simp [owned6]
  | file t => simp [owned6]
  | pd o => simp [isPd] at h

theorem stub6_no_pd (m : Sys.Msg6) (r0 : Sys.Resp6) (h0 : Sys.stub6 m = some r0) :
    (∃ c, lookup 1 m.opts = some c) ∧ r0.opts.filter (fun o => o.1 == 25) = [] := by
  unfold Sys.stub6 at h0
  repeat' split at h0
  all_goals (first | (cases h0; done) | (cases h0; exact ⟨⟨_, by assumption⟩, by simp⟩))

theorem go_handle6_none (d : Sys.Pkt6) (l : List Elem6) (i : Nat) :
    (runChain.go d (l.map handle6) i none).1 = none := by
  cases l with
  | nil => rfl
  | cons e rest => simp [runChain.go, handle6_none]

theorem filter_map_pd (out : List PdAns) :
    (out.map (fun a => ((25 : Nat), encIAPD a))).filter (fun o => o.1 == 25) = out.map (fun a => (25, encIAPD a)) := by
  apply List.filter_eq_self.mpr
  intro o ho
  obtain ⟨a, _, rfl⟩ := List.mem_map.mp ho
  simp

theorem sys_pd_delivered6 (bound : Nat) (oob : Option Nat) (src : Addr) (pre post : List Elem6) (out : List PdAns)
    (d : Sys.Pkt6) (hpre : pre.all neverStops6 = true)
    (hone : (pre ++ post).all (fun e => !isPd e) = true)
    (layers : List Layer6) (resp : Sys.Resp6) (ifidx : Option Nat)
    (hs : serve6 bound oob src (pre ++ .pd out :: post) (some d) = .send layers resp ifidx) :
    resp.opts.filter (fun o => o.1 == 25) = out.map (fun a => (25, encIAPD a)) := by
  obtain ⟨m, r0, hm, h0, hc⟩ := serve6_send bound oob src _ d layers resp ifidx hs
  obtain ⟨⟨cid, hcid⟩, hr0⟩ := stub6_no_pd m r0 h0
  have hnp : ∀ e ∈ pre ++ post, 25 ∉ owned6 e := by
    intro e he
    have := List.all_eq_true.mp hone e he
    exact not_pd_owned e (by simpa using this)
  rw [runChain_eq] at hc
  simp only [List.map_append, List.map_cons] at hc
  obtain ⟨mid, hm1, hm2⟩ := go_through d (pre.map handle6) (by
      intro g hg r
      obtain ⟨e, he, rfl⟩ := List.mem_map.mp hg
      exact sys_neverStops6 e (List.all_eq_true.mp hpre e he) d m hm r) 0 r0
  have hmid : mid.opts.filter (fun o => o.1 == 25) = [] := by
    rw [chain6_frame pre d r0 mid (by rw [runChain_eq]; exact hm1) 25
      (fun e he => hnp e (List.mem_append_left _ he))]
    exact hr0
  rw [hm2] at hc
  have hpd : handle6 (.pd out) d (some mid) =
      (some { mid with opts := mid.opts ++ out.map (fun a => (25, encIAPD a)) }, false) := by
    rw [handle6_pd, hm]
    dsimp only
    rw [hcid]
  simp only [runChain.go, hpd, Bool.false_eq_true, if_false] at hc
  rw [chain6_frame post d _ resp (by rw [runChain_eq, go_fst_idx d _ 0 (0 + 1)]; exact hc) 25
    (fun e he => hnp e (List.mem_append_right _ he))]
  show (mid.opts ++ out.map (fun a => ((25 : Nat), encIAPD a))).filter (fun o => o.1 == 25) = _
  rw [List.filter_append, hmid, List.nil_append, filter_map_pd]

/-! ## the IA_PD body read back -/

theorem be_length (k n : Nat) : (Plug.be k n).length = k := by
  induction k with
  | zero => rfl
  | succ k ih => simp only [Plug.be, List.length_cons, ih]

theorem beNat_be4 (n : Nat) (h : n < 2 ^ 32) : beNat (Plug.be 4 n) = n := by
  simp only [beNat, Plug.be, List.foldl_cons, List.foldl_nil, Nat.reducePow]
  omega

theorem range8 : List.range 8 = [0, 1, 2, 3, 4, 5, 6, 7] := by decide

/-- eight bytes, big endian, of a number below 2^64, read back -/
theorem beNat_bytes8 (n : Nat) (h : n < 2 ^ 64) :
    beNat ((List.range 8).map (fun i => n / 256 ^ (7 - i) % 256)) = n := by
  rw [range8]
  simp only [beNat, List.map_cons, List.map_nil, List.foldl_cons, List.foldl_nil, Nat.reduceSub, Nat.reducePow]
  omega

theorem addrOfBe16_be16 (a : Addr) : addrOfBe16 (be16 a) = a := by
  have hl : ∀ n : Nat, ((List.range 8).map (fun i => n / 256 ^ (7 - i) % 256)).length = 8 := by
    intro n; simp
  have e1 : (be16 a).take 8 = (List.range 8).map (fun i => a.hi.toNat / 256 ^ (7 - i) % 256) :=
    List.take_left' (hl _)
  have e2 : ((be16 a).drop 8).take 8 = (List.range 8).map (fun i => a.lo.toNat / 256 ^ (7 - i) % 256) := by
    unfold be16
    rw [List.drop_left' (hl _)]
    exact List.take_of_length_le (by rw [hl]; omega)
  unfold addrOfBe16
  rw [e1, e2, beNat_bytes8 _ a.hi.isLt, beNat_bytes8 _ a.lo.isLt]
  cases a with
  | mk hi lo => simp

theorem decPdSubs_nil (fuel : Nat) : decPdSubs (fuel + 1) [] = some [] := by
  simp [decPdSubs]

/-- one IAPrefix sub-option at the head is decoded to its block and lifetime -/
theorem decPdSubs_prefix (fuel : Nat) (b : Block) (life : Nat) (hl : life < 2 ^ 32) (tail : Bytes) :
    decPdSubs (fuel + 1) (encIAPrefix b life ++ tail) = (decPdSubs fuel tail).map (fun ps => (b, life) :: ps) := by
  have h4 := be_length 4 life
  have h16 : (be16 b.base).length = 16 := by simp [be16]
  obtain ⟨x0, x1, x2, x3, hx⟩ : ∃ x0 x1 x2 x3, Plug.be 4 life = [x0, x1, x2, x3] := ⟨_, _, _, _, rfl⟩
  have hbody : encIAPrefix b life ++ tail =
      0 :: 26 :: 0 :: 25 :: ((Plug.be 4 life ++ Plug.be 4 life ++ [b.len] ++ be16 b.base) ++ tail) := by
    simp [encIAPrefix]
  have hlen : (Plug.be 4 life ++ Plug.be 4 life ++ [b.len] ++ be16 b.base).length = 25 := by
    simp [h4, h16]
  rw [hbody]
  simp only [decPdSubs]
  have e1 : ¬ ((Plug.be 4 life ++ Plug.be 4 life ++ [b.len] ++ be16 b.base) ++ tail).length < 0 * 256 + 25 := by
    rw [List.length_append, hlen]; omega
  rw [if_neg e1]
  rw [if_pos True.intro]
  have e3 : ¬ (0 * 256 + 25 ≠ 25) := by decide
  rw [if_neg e3]
  have e4 : (0 * 256 + 25) = (Plug.be 4 life ++ Plug.be 4 life ++ [b.len] ++ be16 b.base).length := by rw [hlen]
  rw [e4, List.take_left, List.drop_left]
  have a1 : addrOfBe16 ((Plug.be 4 life ++ Plug.be 4 life ++ [b.len] ++ be16 b.base).drop 9) = b.base := by
    rw [hx]
    show addrOfBe16 (be16 b.base) = b.base
    exact addrOfBe16_be16 _
  have a2 : (Plug.be 4 life ++ Plug.be 4 life ++ [b.len] ++ be16 b.base).getD 8 0 = b.len := by
    rw [hx]; rfl
  have a3 : beNat (((Plug.be 4 life ++ Plug.be 4 life ++ [b.len] ++ be16 b.base).drop 4).take 4) = life := by
    have : ((Plug.be 4 life ++ Plug.be 4 life ++ [b.len] ++ be16 b.base).drop 4).take 4 = Plug.be 4 life := by
      rw [hx]; rfl
    rw [this]
    exact beNat_be4 life hl
  rw [a1, a2, a3]
  cases decPdSubs fuel tail <;> rfl

theorem decPdSubs_prefixes (ps : List (Block × Nat)) (hb : ∀ p ∈ ps, p.2 < 2 ^ 32) :
    ∀ fuel, ps.length < fuel → decPdSubs fuel (ps.flatMap (fun p => encIAPrefix p.1 p.2)) = some ps := by
  induction ps with
  | nil =>
    intro fuel hf
    cases fuel with
    | zero => omega
    | succ f => exact decPdSubs_nil f
  | cons p rest ih =>
    intro fuel hf
    cases fuel with
    | zero => omega
    | succ f =>
      rw [List.flatMap_cons, decPdSubs_prefix f p.1 p.2 (hb p (by simp)),
        ih (fun q hq => hb q (by simp [hq])) f (by simpa using hf)]
      rfl

theorem encIAPrefix_length (b : Block) (life : Nat) : (encIAPrefix b life).length = 29 := by
  simp [encIAPrefix, be_length, be16]

theorem flatMap_encIAPrefix_length (ps : List (Block × Nat)) :
    (ps.flatMap (fun p => encIAPrefix p.1 p.2)).length = 29 * ps.length := by
  induction ps with
  | nil => rfl
  | cons p rest ih =>
    rw [List.flatMap_cons, List.length_append, ih, encIAPrefix_length, List.length_cons]
    omega

theorem sys_pd_roundtrip (a : PdAns) (hi : a.iaid.length = 4)
    (hb : ∀ p ∈ a.pfxs, p.1.len < 256 ∧ p.2 < 2 ^ 32) : decIAPD (encIAPD a) = some a := by
  obtain ⟨iaid, pfxs⟩ := a
  dsimp only at hi hb
  have h12 : (iaid ++ [0, 0, 0, 0, 0, 0, 0, 0]).length = 12 := by simp [hi]
  unfold decIAPD encIAPD
  dsimp only
  have hlen : ∀ t : Bytes, ¬ (iaid ++ [0, 0, 0, 0, 0, 0, 0, 0] ++ t).length < 12 := by
    intro t; rw [List.length_append, h12]; omega
  rw [if_neg (hlen _)]
  have hdrop : ∀ t : Bytes, (iaid ++ [0, 0, 0, 0, 0, 0, 0, 0] ++ t).drop 12 = t := by
    intro t; rw [← h12, List.drop_left]
  have htake : ∀ t : Bytes, (iaid ++ [0, 0, 0, 0, 0, 0, 0, 0] ++ t).take 4 = iaid := by
    intro t; rw [List.append_assoc, ← hi, List.take_left]
  rw [hdrop, htake]
  cases pfxs with
  | nil =>
    have : decPdSubs (iaid ++ [0, 0, 0, 0, 0, 0, 0, 0] ++ [0, 13, 0, 2, 0, 6]).length [0, 13, 0, 2, 0, 6] = some [] := by
      rw [List.length_append, h12]
      rfl
    simp only [List.isEmpty_nil, if_true]
    rw [this]
    rfl
  | cons p rest =>
    simp only [List.isEmpty_cons, Bool.false_eq_true, if_false]
    rw [decPdSubs_prefixes (p :: rest) (fun q hq => (hb q hq).2)]
    · rfl
    · rw [List.length_append, h12, flatMap_encIAPrefix_length]
      omega

/-! ## the link to the state machine of Model/Prefix.lean -/

theorem handleIAPD_iaid (s s' : PState) (c : ClientKey) (q : IAPDReq) (now : Int) (cs cs' : List (Option Nat))
    (r : IAPDResp) (h : s.handleIAPD c q now cs = some (s', r, cs')) : r.iaid = q.iaid := by
  unfold PState.handleIAPD at h
  dsimp only at h
  split at h
  · cases h
  · simp only [Option.some.injEq, Prod.mk.injEq] at h
    obtain ⟨_, rfl, _⟩ := h
    rfl

theorem go_iaids (now : Int) (c : ClientKey) :
    ∀ (qs : List IAPDReq) (s : PState) (acc : List IAPDResp) (cs : List (Option Nat)) (s' : PState)
      (rs : List IAPDResp) (cs' : List (Option Nat)),
      PState.handleMsg.go now c s acc cs qs = some (s', some rs, cs') →
      rs.map (·.iaid) = acc.map (·.iaid) ++ qs.map (·.iaid) := by
  intro qs
  induction qs with
  | nil =>
    intro s acc cs s' rs cs' h
    rw [PrefixProof.go_nil] at h
    simp only [Option.some.injEq, Prod.mk.injEq] at h
    obtain ⟨_, rfl, _⟩ := h
    simp
  | cons q qs ih =>
    intro s acc cs s' rs cs' h
    rw [PrefixProof.go_cons] at h
    split at h
    · cases h
    · rename_i s1 r cs1 h1
      rw [ih s1 _ cs1 s' rs cs' h, List.map_append, List.append_assoc,
        List.map_cons, List.map_nil, handleIAPD_iaid s s1 c q now cs cs1 r h1]
      rfl

/-- `handleMsg` answers every IA_PD of the request by one `IAPDResp` with the same IAID, in order -/
theorem handleMsg_iaids (s s' : PState) (c : ClientKey) (iapds : List IAPDReq) (now : Int) (cs cs' : List (Option Nat))
    (rs : List IAPDResp) (hh : s.handleMsg (some c) iapds now cs = some (s', some rs, cs')) :
    rs.map (·.iaid) = iapds.map (·.iaid) := by
  have : s.handleMsg (some c) iapds now cs = PState.handleMsg.go now c s [] cs iapds := rfl
  rw [this] at hh
  have := go_iaids now c iapds s [] cs s' rs cs' hh
  simpa using this

theorem sys_pd_answers_each (bound : Nat) (oob : Option Nat) (src : Addr) (pre post : List Elem6)
    (s s' : PState) (c : ClientKey) (iapds : List IAPDReq) (now : Int) (cs cs' : List (Option Nat)) (rs : List IAPDResp)
    (hh : s.handleMsg (some c) iapds now cs = some (s', some rs, cs'))
    (d : Sys.Pkt6) (hpre : pre.all neverStops6 = true) (hone : (pre ++ post).all (fun e => !isPd e) = true)
    (layers : List Layer6) (resp : Sys.Resp6) (ifidx : Option Nat)
    (hs : serve6 bound oob src (pre ++ .pd (pdOf rs) :: post) (some d) = .send layers resp ifidx) :
    (resp.opts.filter (fun o => o.1 == 25)).map (fun o => o.2.take 4) = iapds.map (fun q => Plug.be 4 q.iaid) := by
  rw [sys_pd_delivered6 bound oob src pre post (pdOf rs) d hpre hone layers resp ifidx hs]
  have h1 : ((pdOf rs).map (fun a => ((25 : Nat), encIAPD a))).map (fun o => o.2.take 4) =
      (rs.map (·.iaid)).map (fun n => Plug.be 4 n) := by
    unfold pdOf
    rw [List.map_map, List.map_map, List.map_map]
    apply List.map_congr_left
    intro r _
    show (encIAPD _).take 4 = Plug.be 4 r.iaid
    unfold encIAPD
    dsimp only
    rw [List.append_assoc]
    exact List.take_left' (be_length 4 r.iaid)
  rw [h1, handleMsg_iaids s s' c iapds now cs cs' rs hh, List.map_map]
  rfl

end CoreDhcp
