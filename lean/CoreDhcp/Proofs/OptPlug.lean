/-
Lemmas behind Props/C14, C17, C19: the option containers, the request-list vocabulary of the
specification against the model's, and the per-plugin facts.
-/
import CoreDhcp.Spec.OptPlug
set_option linter.unusedSimpArgs false
namespace CoreDhcp
open Plug

/-! ### DHCPv4 option map -/

theorem lookup_upd4_same (c : Nat) (v : Bytes) (l : Opts) : lookup c (upd4 c v l) = some v := by
  induction l with
  | nil => simp [upd4, lookup]
  | cons o rest ih =>
    obtain ⟨c', v'⟩ := o
    unfold upd4
    by_cases h1 : c' < c
    · have : c' ≠ c := by omega
      simp [h1, lookup, this, ih]
    · by_cases h2 : c' = c
      · simp [h1, h2, lookup]
      · simp [h1, h2, lookup]

theorem lookup_upd4_other (c c' : Nat) (v : Bytes) (l : Opts) (h : c' ≠ c) :
    lookup c' (upd4 c v l) = lookup c' l := by
  induction l with
  | nil => simp [upd4, lookup, Ne.symm h]
  | cons o rest ih =>
    obtain ⟨d, w⟩ := o
    unfold upd4
    by_cases h1 : d < c
    · simp only [h1, if_true, lookup, ih]
    · by_cases h2 : d = c
      · subst h2
        simp [lookup, Ne.symm h]
      · simp [h1, h2, lookup, Ne.symm h]

theorem sameExcept_of (codes : List Nat) (pre out : Opts)
    (h : ∀ c, c ∉ codes → lookup c out = lookup c pre) : sameExcept codes pre out = true := by
  unfold sameExcept
  rw [List.all_eq_true]
  intro o _
  by_cases hc : o.1 ∈ codes
  · simp [hc]
  · simp [h o.1 hc]

theorem setOnly4_of (want : Opts) (pre r : Resp4) (hmt : r.mt = pre.mt) (hy : r.yiaddr = pre.yiaddr)
    (hs : r.siaddr = pre.siaddr) (hw : ∀ o ∈ want, lookup o.1 r.opts = some o.2)
    (ho : ∀ c, c ∉ want.map (·.1) → lookup c r.opts = lookup c pre.opts) : setOnly4 want pre r = true := by
  unfold setOnly4
  simp only [hmt, hy, hs, beq_self_eq_true, Bool.true_and, Bool.and_eq_true]
  refine ⟨?_, sameExcept_of _ _ _ ho⟩
  rw [List.all_eq_true]
  intro o ho'
  simp [hw o ho']

theorem setOnly4_nil (pre : Resp4) : setOnly4 [] pre pre = true :=
  setOnly4_of [] pre pre rfl rfl rfl (by simp) (by simp)

theorem setOnly4_update (pre : Resp4) (c : Nat) (v : Bytes) : setOnly4 [(c, v)] pre (pre.update c v) = true := by
  apply setOnly4_of
  · rfl
  · rfl
  · rfl
  · intro o ho
    simp at ho
    subst ho
    exact lookup_upd4_same c v pre.opts
  · intro c' hc'
    simp at hc'
    exact lookup_upd4_other c c' v pre.opts hc'

/-! ### DHCPv6 option list -/

theorem filter_ne_upd6 (c : Nat) (v : Bytes) (l : Opts) :
    (upd6 c v l).filter (fun o => o.1 != c) = l.filter (fun o => o.1 != c) := by
  induction l with
  | nil => simp [upd6]
  | cons o rest ih =>
    obtain ⟨d, w⟩ := o
    unfold upd6
    by_cases h : d = c
    · subst h; simp
    · simp [h, List.filter_cons, ih]

theorem filter_eq_upd6 (c : Nat) (v : Bytes) (l : Opts) (h : C17.count c l ≤ 1) :
    (upd6 c v l).filter (fun o => o.1 == c) = [(c, v)] := by
  induction l with
  | nil => simp [upd6]
  | cons o rest ih =>
    obtain ⟨d, w⟩ := o
    unfold upd6
    by_cases hd : d = c
    · subst hd
      simp only [C17.count, List.filter_cons, beq_self_eq_true, if_true, List.length_cons] at h
      have h0 : (rest.filter (fun x => x.1 == d)).length = 0 := by omega
      simp [List.filter_cons, List.length_eq_zero_iff.mp h0]
    · have h' : C17.count c rest ≤ 1 := by
        simpa [C17.count, List.filter_cons, hd] using h
      simp [hd, List.filter_cons, ih h']

theorem setOnly6_update (pre : Resp6) (c : Nat) (v : Bytes) (h : C17.count c pre.opts ≤ 1) :
    setOnly6 c [v] pre (pre.update c v) = true := by
  simp [setOnly6, Resp6.update, filter_ne_upd6, filter_eq_upd6 c v pre.opts h]

theorem head_filter_lookup (c : Nat) (l : Opts) :
    (l.filter (fun o => o.1 == c)).head? = (lookup c l).map (fun v => (c, v)) := by
  induction l with
  | nil => simp [lookup]
  | cons o rest ih =>
    obtain ⟨d, w⟩ := o
    by_cases hd : d = c
    · subst hd; simp [lookup, List.filter_cons]
    · simp [lookup, List.filter_cons, hd, ih]

/-! ### the request list -/

theorem reqList_eq (req : ReqView4) : C17.reqList req = prl4 req := by
  unfold C17.reqList prl4
  cases h : lookup 55 req.opts with
  | none => rfl
  | some l => cases l <;> rfl

theorem asks4_eq (req : ReqView4) (c : Nat) : C17.asks4 req c = requested4 req c := by
  unfold C17.asks4 requested4
  rw [reqList_eq]
  cases prl4 req <;> simp

theorem lists4_eq (req : ReqView4) (c : Nat) : C17.lists4 req c = listed4 req c := by
  unfold C17.lists4 listed4
  rw [reqList_eq]
  cases prl4 req <;> simp

theorem sentAutoConfigure_eq (req : ReqView4) : C17.sentAutoConfigure req = autoconfigure.clientSent req := by
  unfold C17.sentAutoConfigure autoconfigure.clientSent
  cases h : lookup 116 req.opts with
  | none => rfl
  | some l =>
    match l with
    | [] => rfl
    | [_] => rfl
    | _ :: _ :: _ => simp

/-! ### C17, DHCPv4 -/

theorem c17_netmask (m : netmask.Cfg) (req : ReqView4) (pre : Resp4) :
    C17.holds4 (.netmask m) req pre (netmask.handle m req pre) = true := by
  simp [C17.holds4, netmask.handle, continues, setOnly4_update]

theorem c17_router (c : router.Cfg) (req : ReqView4) (pre : Resp4) :
    C17.holds4 (.router c) req pre (router.handle c req pre) = true := by
  simp [C17.holds4, router.handle, continues, setOnly4_update]

theorem c17_search4 (c : search.Cfg) (req : ReqView4) (pre : Resp4) :
    C17.holds4 (.search c) req pre (search.handle4 c req pre) = true := by
  simp [C17.holds4, search.handle4, continues, setOnly4_update]

theorem allSome_length {α β : Type} (f : α → Option β) (l : List α) (r : List β) (h : allSome f l = some r) :
    r.length = l.length := by
  induction l generalizing r with
  | nil => simp [allSome] at h; subst h; rfl
  | cons a as ih =>
    unfold allSome at h
    split at h
    · rename_i b bs _ hbs
      simp at h; subst h
      simp [ih bs hbs]
    · simp at h

theorem allSome_mem {α β : Type} (f : α → Option β) (l : List α) (r : List β) (h : allSome f l = some r) :
    ∀ b ∈ r, ∃ a ∈ l, f a = some b := by
  induction l generalizing r with
  | nil => simp [allSome] at h; subst h; simp
  | cons a as ih =>
    unfold allSome at h
    split at h
    · rename_i b bs hb hbs
      simp at h; subst h
      intro x hx
      simp at hx
      rcases hx with rfl | hx
      · exact ⟨a, by simp, hb⟩
      · obtain ⟨a', ha', hf⟩ := ih bs hbs x hx
        exact ⟨a', by simp [ha'], hf⟩
    · simp at h

theorem staticroute_setup_ne (args : List ArgOracle) (cfg : staticroute.Cfg)
    (h : staticroute.setup args = .ok cfg) : cfg ≠ [] := by
  unfold staticroute.setup at h
  split at h
  · simp at h
  · rename_i hne
    split at h
    · rename_i l hl
      simp at h; subst h
      have := allSome_length _ _ _ hl
      intro hnil
      subst hnil
      simp at this
      exact hne (List.length_eq_zero_iff.mp this.symm)
    · simp at h

theorem c17_staticroute (args : List ArgOracle) (c : staticroute.Cfg) (hs : staticroute.setup args = .ok c)
    (req : ReqView4) (pre : Resp4) :
    C17.holds4 (.staticroute c) req pre (staticroute.handle c req pre) = true := by
  have hne := staticroute_setup_ne args c hs
  simp [C17.holds4, staticroute.handle, continues, setOnly4_update, hne]

theorem c17_dns4 (c : dns4.Cfg) (req : ReqView4) (pre : Resp4) :
    C17.holds4 (.dns c) req pre (dns4.handle c req pre) = true := by
  simp only [C17.holds4, dns4.handle, continues, asks4_eq, C17.when]
  cases requested4 req 6 <;> simp [setOnly4_update, setOnly4_nil]

theorem c17_mtu (c : mtu.Cfg) (req : ReqView4) (pre : Resp4) :
    C17.holds4 (.mtu c) req pre (mtu.handle c req pre) = true := by
  simp only [C17.holds4, mtu.handle, continues, asks4_eq, C17.when]
  cases requested4 req 26 <;> simp [setOnly4_update, setOnly4_nil]

theorem c17_leasetime (c : leasetime.Cfg) (req : ReqView4) (pre : Resp4) :
    C17.holds4 (.leasetime c) req pre (leasetime.handle c req pre) = true := by
  unfold C17.holds4 leasetime.handle
  by_cases hop : req.op = 1
  · simp only [hop, continues, C17.when]
    cases h : lookup 51 pre.opts <;> simp [setOnly4_update, setOnly4_nil]
  · simp [hop]

theorem c17_ipv6only (c : ipv6only.Cfg) (req : ReqView4) (pre : Resp4) :
    C17.holds4 (.ipv6only c) req pre (ipv6only.handle c req pre) = true := by
  simp only [C17.holds4, ipv6only.handle, lists4_eq]
  cases listed4 req 108 <;> simp [stops, continues, setOnly4_update, setOnly4_nil]

theorem c17_autoconfigure (c : autoconfigure.Cfg) (req : ReqView4) (pre : Resp4) :
    C17.holds4 (.autoconfigure c) req pre (autoconfigure.handle c req pre) = true := by
  simp only [C17.holds4, autoconfigure.handle, sentAutoConfigure_eq]
  by_cases h1 : pre.mt = 2 <;> by_cases h2 : pre.yiaddr = [0, 0, 0, 0] <;>
    cases h3 : autoconfigure.clientSent req <;>
    simp [h1, h2, h3, continues, setOnly4_update, setOnly4_nil]

theorem c17_sleep4 (c : sleep.Cfg) (req : ReqView4) (pre : Resp4) :
    C17.holds4 (.sleep c) req pre (sleep.handle4 c req pre) = true := by
  simp [C17.holds4, sleep.handle4]

theorem c17_nbp4 (c : nbp4.Cfg) (req : ReqView4) (pre : Resp4) :
    C17.holds4 (.nbp c) req pre (nbp4.handle c req pre) = true := by
  simp only [C17.holds4, nbp4.handle, stops, asks4_eq, C17.when]
  rw [Bool.or_eq_true]
  right
  obtain ⟨o66, o67⟩ := c
  cases o66 with
  | none =>
    cases requested4 req 66 <;> cases requested4 req 67 <;> simp [setOnly4_update, setOnly4_nil]
  | some h =>
    cases h66 : requested4 req 66 <;> cases h67 : requested4 req 67 <;>
      simp [setOnly4_update, setOnly4_nil]
    -- both options set
    apply setOnly4_of
    · rfl
    · rfl
    · rfl
    · intro o ho
      simp at ho
      rcases ho with rfl | rfl
      · show lookup 66 (upd4 67 o67 (upd4 66 h pre.opts)) = some h
        rw [lookup_upd4_other _ _ _ _ (by decide), lookup_upd4_same]
      · exact lookup_upd4_same _ _ _
    · intro c' hc'
      simp at hc'
      show lookup c' (upd4 67 o67 (upd4 66 h pre.opts)) = lookup c' pre.opts
      rw [lookup_upd4_other _ _ _ _ hc'.2, lookup_upd4_other _ _ _ _ hc'.1]

/-! ### C17, DHCPv6 -/

theorem c17_dns6 (c : dns6.Cfg) (req : ReqView6) (pre : Resp6) (hd : C17.dom6 (.dns c) req pre = true) :
    C17.holds6 (.dns c) req pre (dns6.handle c req pre) = true := by
  have hc : C17.count 23 pre.opts ≤ 1 := by simpa [C17.dom6] using hd
  simp only [C17.holds6, dns6.handle]
  cases (oro6 req).contains 23 <;> simp [continues, setOnly6_update _ _ _ hc]

theorem c17_search6 (c : search.Cfg) (req : ReqView6) (pre : Resp6) (hd : C17.dom6 (.search c) req pre = true) :
    C17.holds6 (.search c) req pre (search.handle6 c req pre) = true := by
  have hc : C17.count 24 pre.opts ≤ 1 := by simpa [C17.dom6] using hd
  simp [C17.holds6, search.handle6, continues, setOnly6_update _ _ _ hc]

theorem c17_sleep6 (c : sleep.Cfg) (req : ReqView6) (pre : Resp6) :
    C17.holds6 (.sleep c) req pre (sleep.handle6 c req pre) = true := by
  simp [C17.holds6, sleep.handle6]

theorem nbp6_added_other (c : nbp6.Cfg) (l : List Nat) :
    (nbp6.added c l).filter (fun o => o.1 != 59 && o.1 != 60) = [] := by
  induction l with
  | nil => simp [nbp6.added]
  | cons x rest ih =>
    unfold nbp6.added
    split
    · simp [ih]
    · split
      · split <;> simp [ih]
      · exact ih

theorem nbp6_added_59 (c : nbp6.Cfg) (l : List Nat) :
    (nbp6.added c l).filter (fun o => o.1 == 59) = List.replicate (l.count 59) (59, c.o59) := by
  induction l with
  | nil => simp [nbp6.added]
  | cons x rest ih =>
    unfold nbp6.added
    split
    · rename_i h; subst h; simp [ih, List.replicate_succ]
    · rename_i h
      have hx : (x == 59) = false := by simp [h]
      split
      · split <;> simp [ih, List.count_cons, hx]
      · simp [ih, List.count_cons, hx]

theorem nbp6_added_60_none (u : Bytes) (l : List Nat) :
    (nbp6.added ⟨u, none⟩ l).filter (fun o => o.1 == 60) = [] := by
  induction l with
  | nil => simp [nbp6.added]
  | cons x rest ih =>
    unfold nbp6.added
    split
    · simp [ih]
    · split
      · simp [ih]
      · exact ih

theorem nbp6_added_60_some (u p : Bytes) (l : List Nat) :
    (nbp6.added ⟨u, some p⟩ l).filter (fun o => o.1 == 60) = List.replicate (l.count 60) (60, encBootParams [p]) := by
  induction l with
  | nil => simp [nbp6.added]
  | cons x rest ih =>
    unfold nbp6.added
    split
    · rename_i h; subst h; simp [ih, List.count_cons]
    · split
      · rename_i h; subst h; simp [ih, List.replicate_succ]
      · rename_i h59 h60
        have hx : (x == 60) = false := by simp [h60]
        simp [ih, List.count_cons, hx]

theorem nbp6_added_60 (c : nbp6.Cfg) (l : List Nat) :
    (nbp6.added c l).filter (fun o => o.1 == 60) =
      match c.o60 with
      | some p => List.replicate (l.count 60) (60, encBootParams [p])
      | none => [] := by
  obtain ⟨u, o60⟩ := c
  cases o60 with
  | none => exact nbp6_added_60_none u l
  | some p => exact nbp6_added_60_some u p l

theorem count_le_one_replicate {α : Type} [BEq α] [LawfulBEq α] (l : List α) (a : α) (b : Nat × Bytes) (h : l.count a ≤ 1) :
    List.replicate (l.count a) b = if l.contains a then [b] else [] := by
  by_cases hm : a ∈ l
  · have : 0 < l.count a := List.count_pos_iff.mpr hm
    have h1 : l.count a = 1 := by omega
    simp [h1, hm]
  · have : l.count a = 0 := List.count_eq_zero.mpr hm
    simp [this, hm]

theorem filter_eq_nil_of_count {c : Nat} {l : Opts} (h : C17.count c l = 0) : l.filter (fun o => o.1 == c) = [] :=
  List.length_eq_zero_iff.mp h

theorem filter_not_of_count (l : Opts) (h59 : C17.count 59 l = 0) (h60 : C17.count 60 l = 0) :
    l.filter (fun o => o.1 != 59 && o.1 != 60) = l := by
  rw [List.filter_eq_self]
  intro o ho
  have a := filter_eq_nil_of_count h59
  have b := filter_eq_nil_of_count h60
  rw [List.filter_eq_nil_iff] at a b
  have := a o ho
  have := b o ho
  simp_all

theorem c17_nbp6 (c : nbp6.Cfg) (req : ReqView6) (pre : Resp6) (hd : C17.dom6 (.nbp c) req pre = true) :
    C17.holds6 (.nbp c) req pre (nbp6.handle c req pre) = true := by
  simp only [C17.dom6, Bool.and_eq_true, beq_iff_eq, decide_eq_true_eq] at hd
  obtain ⟨⟨⟨h59, h60⟩, ho59⟩, ho60⟩ := hd
  simp only [C17.holds6, nbp6.handle, stops, List.filter_append, nbp6_added_other, nbp6_added_59, nbp6_added_60,
    filter_eq_nil_of_count h59, filter_eq_nil_of_count h60, filter_not_of_count _ h59 h60, List.append_nil, List.nil_append,
    beq_self_eq_true, Bool.true_and, Bool.and_eq_true]
  refine ⟨?_, ?_⟩
  · rw [count_le_one_replicate _ _ _ ho59]; simp
  · cases c.o60 with
    | none => simp
    | some p => simp only []; rw [count_le_one_replicate _ _ _ ho60]; simp

/-- D17 (repaired by a `fix:` commit): the DHCPv6 nbp handler as it was — option 60 carried the raw
`params` string instead of length-prefixed parameters (RFC 5970 §3.2). -/
def nbp6AddedPreFix (cfg : nbp6.Cfg) : List Nat → Opts
  | [] => []
  | c :: rest =>
    if c = 59 then (59, cfg.o59) :: nbp6AddedPreFix cfg rest
    else if c = 60 then
      match cfg.o60 with
      | some p => (60, p) :: nbp6AddedPreFix cfg rest
      | none => nbp6AddedPreFix cfg rest
    else nbp6AddedPreFix cfg rest

def nbp6HandlePreFix (cfg : nbp6.Cfg) (req : ReqView6) (pre : Resp6) : Out6 :=
  (some { pre with opts := pre.opts ++ nbp6AddedPreFix cfg (oro6 req) }, true)

/-! ### C14 -/

theorem c14_v6 (duid : Bytes) (req : ReqView6) (pre : Resp6) (hd : C17.count 2 pre.opts ≤ 1) :
    C14.holds6 duid req pre (serverid6.handle duid req pre) = true := by
  unfold C14.holds6 C14.rel6 serverid6.handle
  rw [head_filter_lookup]
  have hst : C14.stamped6 duid pre (pre.update 2 duid) = true := setOnly6_update pre 2 duid hd
  cases h : lookup 2 req.opts with
  | none =>
    simp only [Option.map_none, C14.mustDiscard6]
    by_cases h3 : req.mt = 3 <;> by_cases h5 : req.mt = 5 <;> by_cases h8 : req.mt = 8 <;> by_cases h9 : req.mt = 9 <;>
      simp [h3, h5, h8, h9, hst]
  | some sid =>
    simp only [Option.map_some]
    by_cases hs : sid = duid
    · subst hs
      simp only [beq_self_eq_true, if_true, C14.mustDiscard6]
      by_cases h1 : req.mt = 1 <;> by_cases h4 : req.mt = 4 <;> by_cases h6 : req.mt = 6 <;>
        simp [h1, h4, h6, hst]
    · have : (sid == duid) = false := by simp [hs]
      simp only [this, C14.mustDiscard6]
      by_cases h1 : req.mt = 1 <;> by_cases h4 : req.mt = 4 <;> by_cases h6 : req.mt = 6 <;>
        simp [h1, h4, h6, hs]

theorem stamped4_update (addr : Bytes) (pre : Resp4) :
    C14.stamped4 addr pre ({ pre with siaddr := addr }.update 54 addr) = true := by
  unfold C14.stamped4 Resp4.update
  simp only [beq_self_eq_true, Bool.true_and, lookup_upd4_same, Bool.and_eq_true]
  exact sameExcept_of _ _ _ (fun c hc => lookup_upd4_other 54 c addr pre.opts (by simpa using hc))

theorem c14_v4 (addr : Bytes) (req : ReqView4) (pre : Resp4) :
    C14.holds4 addr req pre (serverid4.handle addr req pre) = true := by
  unfold C14.holds4 C14.namesOther4 serverid4.handle serverid4.sid54
  by_cases hop : req.op = 1
  · simp only [hop, beq_self_eq_true, Bool.true_and, ne_eq, not_true_eq_false, if_false]
    by_cases hs : req.siaddr ≠ [0, 0, 0, 0] ∧ req.siaddr ≠ addr
    · simp [hs]
    · have hs' : (req.siaddr != [0, 0, 0, 0] && req.siaddr != addr) = false := by
        simp only [ne_eq, not_and, Classical.not_not] at hs
        by_cases h0 : req.siaddr = [0, 0, 0, 0]
        · simp [h0]
        · simp [h0, hs h0]
      simp only [hs, hs', if_false, Bool.false_or]
      cases h54 : lookup 54 req.opts with
      | none => simp [stamped4_update]
      | some v =>
        by_cases hl : v.length = 4
        · simp only [hl, if_true, beq_self_eq_true, Bool.true_and]
          by_cases hv : v ≠ [0, 0, 0, 0] ∧ v ≠ addr
          · simp [hv]
          · have hv' : (v != [0, 0, 0, 0] && v != addr) = false := by
              simp only [ne_eq, not_and, Classical.not_not] at hv
              by_cases h0 : v = [0, 0, 0, 0]
              · simp [h0]
              · simp [h0, hv h0]
            simp [hv, hv', stamped4_update]
        · simp [hl, stamped4_update]
  · simp [hop]

/-! ### facts used by the chain properties -/

theorem nil_stop4 (cfg : Cfg4) (req : ReqView4) (pre : Resp4) (stop : Bool)
    (h : plugHandle4 cfg req pre = (none, stop)) : stop = true := by
  cases cfg <;> simp only [plugHandle4, dns4.handle, mtu.handle, netmask.handle, router.handle, leasetime.handle,
    search.handle4, staticroute.handle, ipv6only.handle, autoconfigure.handle, nbp4.handle, sleep.handle4,
    serverid4.handle] at h
  all_goals (repeat' split at h) <;> simp_all

theorem nil_stop6 (cfg : Cfg6) (req : ReqView6) (pre : Resp6) (stop : Bool)
    (h : plugHandle6 cfg req pre = (none, stop)) : stop = true := by
  cases cfg <;> simp only [plugHandle6, dns6.handle, search.handle6, nbp6.handle, sleep.handle6, serverid6.handle] at h
  all_goals (repeat' split at h) <;> simp_all

theorem preserve_mt4 (cfg : Cfg4) (req : ReqView4) (pre r : Resp4) (stop : Bool)
    (h : plugHandle4 cfg req pre = (some r, stop)) : r.mt = pre.mt := by
  cases cfg <;> simp only [plugHandle4, dns4.handle, mtu.handle, netmask.handle, router.handle, leasetime.handle,
    search.handle4, staticroute.handle, ipv6only.handle, autoconfigure.handle, nbp4.handle, sleep.handle4,
    serverid4.handle, Resp4.update] at h
  all_goals (repeat' split at h) <;> simp_all <;> (try (obtain ⟨h1, _⟩ := h; subst h1; rfl))

theorem preserve_mt6 (cfg : Cfg6) (req : ReqView6) (pre r : Resp6) (stop : Bool)
    (h : plugHandle6 cfg req pre = (some r, stop)) : r.mt = pre.mt := by
  cases cfg <;> simp only [plugHandle6, dns6.handle, search.handle6, nbp6.handle, sleep.handle6, serverid6.handle,
    Resp6.update] at h
  all_goals (repeat' split at h) <;> simp_all <;> (try (obtain ⟨h1, _⟩ := h; subst h1; rfl))

/-! ### C19: what setup accepts can be put on the wire -/

theorem to4_len (i : IpLit) (b : Bytes) (hw : i.wf = true) (h : i.to4 = some b) : b.length = 4 := by
  cases i <;> simp [IpLit.to4, IpLit.wf] at hw h
  · subst h; exact hw.1
  · subst h; exact hw.1

theorem to16_len (i : IpLit) (hw : i.wf = true) : i.to16.length = 16 := by
  cases i <;> simp [IpLit.to16, IpLit.wf] at hw ⊢
  · omega
  · omega
  · exact hw.1

theorem wf_ip (a : ArgOracle) (i : IpLit) (hw : a.wf = true) (h : a.ip = some i) : i.wf = true := by
  unfold ArgOracle.wf at hw
  simp only [h, Bool.and_eq_true] at hw
  exact hw.1.1.1

theorem dns4_wire (args : List ArgOracle) (cfg : dns4.Cfg) (hwf : ∀ a ∈ args, a.wf = true)
    (h : dns4.setup args = .ok cfg) : (!cfg.isEmpty && cfg.all (·.length == 4)) = true := by
  unfold dns4.setup at h
  split at h
  · simp at h
  · rename_i hne
    split at h
    · rename_i l hl
      simp at h; subst h
      have hlen := allSome_length _ _ _ hl
      have hmem := allSome_mem _ _ _ hl
      simp only [Bool.and_eq_true, Bool.not_eq_true', List.all_eq_true, beq_iff_eq]
      constructor
      · cases l with
        | nil => simp at hlen; exact absurd (List.length_eq_zero_iff.mp hlen.symm) hne
        | cons _ _ => rfl
      · intro b hb
        obtain ⟨a, ha, hf⟩ := hmem b hb
        cases hip : a.ip with
        | none => simp [hip] at hf
        | some i =>
          simp [hip] at hf
          exact to4_len i b (wf_ip a i (hwf a ha) hip) hf
    · simp at h

theorem dns6_wire (args : List ArgOracle) (cfg : dns6.Cfg) (hwf : ∀ a ∈ args, a.wf = true)
    (h : dns6.setup args = .ok cfg) : cfg.all (·.length == 16) = true := by
  unfold dns6.setup at h
  split at h
  · simp at h
  · split at h
    · rename_i l hl
      simp at h; subst h
      have hmem := allSome_mem _ _ _ hl
      simp only [List.all_eq_true, beq_iff_eq]
      intro b hb
      obtain ⟨a, ha, hf⟩ := hmem b hb
      cases hip : a.ip with
      | none => simp [hip] at hf
      | some i =>
        simp [hip] at hf
        subst hf
        exact to16_len i (wf_ip a i (hwf a ha) hip)
    · simp at h

theorem netmask_wire (args : List ArgOracle) (cfg : netmask.Cfg) (hwf : ∀ a ∈ args, a.wf = true)
    (h : netmask.setup args = .ok cfg) : cfg.length = 4 := by
  unfold netmask.setup at h
  split at h
  · simp at h
  · rename_i a hsingle
    have ha : a ∈ args := by
      unfold single at hsingle
      split at hsingle
      · simp at hsingle; subst hsingle; simp
      · simp at hsingle
    split at h
    · simp at h
    · rename_i ip hip
      split at h
      · simp at h
      · split at h
        · simp at h
        · rename_i m hm
          split at h
          · simp at h; subst h
            exact to4_len ip m (wf_ip a ip (hwf a ha) hip) hm
          · simp at h

theorem serverid4_wire (args : List ArgOracle) (cfg : serverid4.Cfg) (hwf : ∀ a ∈ args, a.wf = true)
    (h : serverid4.setup args = .ok cfg) : cfg.length = 4 := by
  unfold serverid4.setup at h
  split at h
  · simp at h
  · rename_i a rest
    split at h
    · simp at h
    · rename_i ip hip
      split at h
      · rename_i b hb
        simp at h; subst h
        exact to4_len ip b (wf_ip a ip (hwf a (by simp)) hip) hb
      · simp at h

theorem nameOK_eq (n : Bytes) : C19.nameOK n = domainOK n := by
  unfold C19.nameOK domainOK
  congr 1
  congr 1
  funext p
  rw [Bool.eq_iff_iff]
  simp only [Bool.and_eq_true, decide_eq_true_eq]
  omega

theorem search_wire (args : List ArgOracle) (cfg : search.Cfg) (h : search.setup args = .ok cfg) :
    cfg.all C19.nameOK = true := by
  unfold search.setup at h
  split at h
  · rename_i hall
    simp at h; subst h
    simp only [List.all_map, List.all_eq_true] at hall ⊢
    intro a ha
    simp only [Function.comp_apply, nameOK_eq]
    exact hall a ha
  · simp at h

theorem cidrTo4_len4 (ip : Bytes) (h : ip.length = 4) : cidrTo4 ip = some ip := by simp [cidrTo4, h]

theorem route_wire (a : ArgOracle) (r : Route) (hw : a.wf = true) (h : staticroute.route a = some r) :
    C19.routeOK r = true := by
  unfold staticroute.route at h
  split at h
  · simp at h
  · split at h
    · simp at h
    · rename_i c hc
      have hcw : c.wf = true := by
        unfold ArgOracle.wf at hw
        simp only [hc, Bool.and_eq_true] at hw
        exact hw.1.2
      split at h
      · simp at h
      · rename_i d hd
        split at h
        · simp at h
        · rename_i hbits
          simp only [ne_eq, Classical.not_not] at hbits
          split at h
          · simp at h
          · rename_i rt hrt
            have hrw : rt.wf = true := by
              unfold ArgOracle.wf at hw
              simp only [hrt, Bool.and_eq_true] at hw
              exact hw.2
            split at h
            · simp at h
            · rename_i g hg
              simp at h; subst h
              unfold Cidr.wf at hcw
              simp only [hbits, Bool.and_eq_true, decide_eq_true_eq, beq_self_eq_true, Bool.true_and, Bool.or_eq_true,
                beq_iff_eq] at hcw
              obtain ⟨⟨⟨_, hones⟩, hlen⟩, hz⟩ := hcw
              have hl4 : c.ip.length = 4 := by
                rcases hlen with h4 | h16
                · exact h4
                · exact absurd h16.1 (by decide)
              rw [cidrTo4_len4 _ hl4] at hd
              simp at hd; subst hd
              simp [C19.routeOK, hones, hl4, hz, to4_len rt g hrw hg]

theorem staticroute_wire (args : List ArgOracle) (cfg : staticroute.Cfg) (hwf : ∀ a ∈ args, a.wf = true)
    (h : staticroute.setup args = .ok cfg) : (!cfg.isEmpty && cfg.all C19.routeOK) = true := by
  have hne := staticroute_setup_ne args cfg h
  unfold staticroute.setup at h
  split at h
  · simp at h
  · split at h
    · rename_i l hl
      simp at h; subst h
      have hmem := allSome_mem _ _ _ hl
      simp only [Bool.and_eq_true, Bool.not_eq_true', List.all_eq_true]
      constructor
      · cases l with
        | nil => exact absurd rfl hne
        | cons _ _ => rfl
      · intro r hr
        obtain ⟨a, ha, hf⟩ := hmem r hr
        exact route_wire a r (hwf a ha) hf
    · simp at h

theorem autoconfigure_wire (args : List ArgOracle) (cfg : Nat)
    (h : autoconfigure.setup args = .ok cfg) : cfg < 256 := by
  unfold autoconfigure.setup at h
  split at h
  · injection h with h; subst h; decide
  · split at h
    · simp at h
    · rename_i v hv
      split at h
      · simp at h; subst h
        unfold autoconfigure.argValue at hv
        repeat' split at hv
        all_goals simp at hv
        all_goals omega
      · simp at h

theorem serverid6_wire (args : List ArgOracle) (cfg : serverid6.Cfg) (hwf : ∀ a ∈ args, a.wf = true)
    (h : serverid6.setup args = .ok cfg) : cfg.length ≤ 65535 := by
  unfold serverid6.setup at h
  split at h
  · rename_i t v rest
    split at h
    · simp at h
    · split at h
      · simp at h
      · rename_i mac hmac
        have hw := hwf v (by simp)
        unfold ArgOracle.wf at hw
        simp only [hmac, Bool.and_eq_true, Bool.or_eq_true, beq_iff_eq] at hw
        have hl := hw.1.1.2.2
        simp only at h
        split at h
        · simp at h; subst h; simp [encDuidLL]; omega
        · split at h
          · simp at h; subst h; simp [encDuidLLT]; omega
          · simp at h
  · simp at h

theorem except_map_ok {α β : Type} (f : α → β) (e : Except Unit α) (c : β) (h : e.map f = .ok c) :
    ∃ x, e = .ok x ∧ c = f x := by
  cases e with
  | error _ => simp [Except.map] at h
  | ok x => simp [Except.map] at h; exact ⟨x, rfl, h.symm⟩


theorem ite_some_ok {α : Type} {c : Prop} [Decidable c] (a : Except Unit α) (b : Option (Except Unit α)) (x : α)
    (h : (if c then some a else b) = some (.ok x)) : a = .ok x ∨ b = some (.ok x) := by
  by_cases hc : c
  · rw [if_pos hc] at h; exact .inl (Option.some.inj h)
  · rw [if_neg hc] at h; exact .inr h

/-! ### what the set-ups of mtu, lease_time and ipv6only accept fits the field it is sent in (D22–D24) -/

theorem mtu_accepted (args : List ArgOracle) (n : Int) (h : mtu.setup args = .ok n) : 0 ≤ n ∧ n ≤ 65535 := by
  unfold mtu.setup at h
  split at h
  · split at h
    · split at h
      · cases h
      · cases h; omega
    · cases h
  · cases h

theorem leasetime_accepted (args : List ArgOracle) (d : Int) (h : leasetime.setup args = .ok d) :
    0 ≤ d ∧ d ≤ 4294967295 * 1000000000 := by
  unfold leasetime.setup at h
  split at h
  · cases h
  · split at h
    · split at h
      · cases h
      · cases h; omega
    · cases h

theorem ipv6only_accepted (args : List ArgOracle) (d : Int) (h : ipv6only.setup args = .ok d) :
    0 ≤ d ∧ d ≤ 4294967295 * 1000000000 := by
  unfold ipv6only.setup at h
  split at h
  · cases h; omega
  · split at h
    · cases h
    · split at h
      · cases h
      · split at h
        · cases h; omega
        · cases h

theorem inRange_mtu (n : Int) (h : 0 ≤ n ∧ n ≤ 65535) : C17.inRange4 (.mtu n) = true := by
  simp only [C17.inRange4, Bool.and_eq_true, decide_eq_true_eq]; exact h

theorem inRange_leasetime (d : Int) (h : 0 ≤ d ∧ d ≤ 4294967295 * 1000000000) : C17.inRange4 (.leasetime d) = true := by
  simp only [C17.inRange4, Bool.and_eq_true, decide_eq_true_eq]; exact ⟨h.1, Int.lt_of_le_of_lt h.2 (by decide)⟩

theorem inRange_ipv6only (d : Int) (h : 0 ≤ d ∧ d ≤ 4294967295 * 1000000000) : C17.inRange4 (.ipv6only d) = true := by
  simp only [C17.inRange4, Bool.and_eq_true, decide_eq_true_eq]; exact ⟨h.1, Int.lt_of_le_of_lt h.2 (by decide)⟩

theorem setup4_wireOK (name : String) (args : List ArgOracle) (cfg : Cfg4) (hwf : ∀ a ∈ args, a.wf = true)
    (h : plugSetup4 name args = some (.ok cfg)) : C19.wireOK (.v4 cfg) = true := by
  unfold plugSetup4 at h
  rcases ite_some_ok _ _ _ h with h | h
  · obtain ⟨x, hx, rfl⟩ := except_map_ok _ _ _ h
    exact dns4_wire args x hwf hx
  rcases ite_some_ok _ _ _ h with h | h
  · obtain ⟨x, hx, rfl⟩ := except_map_ok _ _ _ h
    exact inRange_mtu x (mtu_accepted args x hx)
  rcases ite_some_ok _ _ _ h with h | h
  · obtain ⟨x, hx, rfl⟩ := except_map_ok _ _ _ h
    simpa [C19.wireOK] using netmask_wire args x hwf hx
  rcases ite_some_ok _ _ _ h with h | h
  · obtain ⟨x, hx, rfl⟩ := except_map_ok _ _ _ h
    exact dns4_wire args x hwf hx
  rcases ite_some_ok _ _ _ h with h | h
  · obtain ⟨x, hx, rfl⟩ := except_map_ok _ _ _ h
    exact inRange_leasetime x (leasetime_accepted args x hx)
  rcases ite_some_ok _ _ _ h with h | h
  · obtain ⟨x, hx, rfl⟩ := except_map_ok _ _ _ h
    exact search_wire args x hx
  rcases ite_some_ok _ _ _ h with h | h
  · obtain ⟨x, hx, rfl⟩ := except_map_ok _ _ _ h
    exact staticroute_wire args x hwf hx
  rcases ite_some_ok _ _ _ h with h | h
  · obtain ⟨x, hx, rfl⟩ := except_map_ok _ _ _ h
    exact inRange_ipv6only x (ipv6only_accepted args x hx)
  rcases ite_some_ok _ _ _ h with h | h
  · obtain ⟨x, hx, rfl⟩ := except_map_ok _ _ _ h
    simpa [C19.wireOK] using autoconfigure_wire args x hx
  rcases ite_some_ok _ _ _ h with h | h
  · obtain ⟨x, hx, rfl⟩ := except_map_ok _ _ _ h
    rfl
  rcases ite_some_ok _ _ _ h with h | h
  · obtain ⟨x, hx, rfl⟩ := except_map_ok _ _ _ h
    rfl
  rcases ite_some_ok _ _ _ h with h | h
  · obtain ⟨x, hx, rfl⟩ := except_map_ok _ _ _ h
    simpa [C19.wireOK] using serverid4_wire args x hwf hx
  exact absurd h (by simp)

theorem setup6_wireOK (name : String) (args : List ArgOracle) (cfg : Cfg6) (hwf : ∀ a ∈ args, a.wf = true)
    (h : plugSetup6 name args = some (.ok cfg)) (hfit : C19.fits (.v6 cfg) = true) : C19.wireOK (.v6 cfg) = true := by
  unfold plugSetup6 at h
  rcases ite_some_ok _ _ _ h with h | h
  · obtain ⟨x, hx, rfl⟩ := except_map_ok _ _ _ h
    have := dns6_wire args x hwf hx; simp only [C19.wireOK, C19.fits] at hfit ⊢; rw [this, hfit]; rfl
  rcases ite_some_ok _ _ _ h with h | h
  · obtain ⟨x, hx, rfl⟩ := except_map_ok _ _ _ h
    have := search_wire args x hx; simp only [C19.wireOK, C19.fits] at hfit ⊢; rw [this, hfit]; rfl
  rcases ite_some_ok _ _ _ h with h | h
  · obtain ⟨x, hx, rfl⟩ := except_map_ok _ _ _ h
    exact hfit
  rcases ite_some_ok _ _ _ h with h | h
  · obtain ⟨x, hx, rfl⟩ := except_map_ok _ _ _ h
    rfl
  rcases ite_some_ok _ _ _ h with h | h
  · obtain ⟨x, hx, rfl⟩ := except_map_ok _ _ _ h
    simpa [C19.wireOK, C19.fits6] using serverid6_wire args x hwf hx
  exact absurd h (by simp)

theorem c19_setup_wireOK (proto : Nat) (name : String) (args : List ArgOracle) (cfg : PlugCfg)
    (hwf : ∀ a ∈ args, a.wf = true) (h : plugSetup proto name args = some (.ok cfg))
    (hfit : C19.fits cfg = true) : C19.wireOK cfg = true := by
  unfold plugSetup at h
  split at h
  · cases h4 : plugSetup4 name args with
    | none => simp [h4] at h
    | some e =>
      simp only [h4, Option.map_some, Option.some.injEq] at h
      obtain ⟨x, hx, rfl⟩ := except_map_ok _ _ _ h
      exact setup4_wireOK name args x hwf (by rw [h4, hx])
  · split at h
    · cases h6 : plugSetup6 name args with
      | none => simp [h6] at h
      | some e =>
        simp only [h6, Option.map_some, Option.some.injEq] at h
        obtain ⟨x, hx, rfl⟩ := except_map_ok _ _ _ h
        exact setup6_wireOK name args x hwf (by rw [h6, hx]) hfit
    · simp at h


/-! ### numbers on the wire -/

theorem ofBe_be2 (v : Nat) : ofBe (be 2 v) = v % 65536 := by
  simp [be, ofBe]
  omega

theorem ofBe_be4 (v : Nat) : ofBe (be 4 v) = v % 4294967296 := by
  simp [be, ofBe]
  omega

theorem decBe_encU16 (n : Int) (h0 : 0 ≤ n) (h1 : n ≤ 65535) : decBe 2 (encU16 n) = some n.toNat := by
  unfold decBe encU16
  have : n % 65536 = n := Int.emod_eq_of_lt h0 (by omega)
  rw [this]
  simp [be, ofBe]
  omega

theorem decBe_encSecs (d : Int) (h0 : 0 ≤ d) (h1 : d < 4294967296 * 1000000000) :
    decBe 4 (encSecs d) = some (d / 1000000000).toNat := by
  unfold decBe encSecs
  rw [Int.tdiv_eq_ediv_of_nonneg h0]
  have h2 : 0 ≤ d / 1000000000 := by omega
  have h3 : d / 1000000000 < 4294967296 := by omega
  have : d / 1000000000 % 4294967296 = d / 1000000000 := Int.emod_eq_of_lt h2 h3
  rw [this]
  simp [be, ofBe]
  omega

/-! ### RFC 3442 routes -/

theorem decRoutes_enc (rs : List Route) (h : rs.all C19.routeOK = true) :
    ∀ fuel, (encRoutes rs).length ≤ fuel → decRoutes fuel (encRoutes rs) = some rs := by
  induction rs with
  | nil => intro fuel _; cases fuel <;> simp [encRoutes, decRoutes]
  | cons r rs ih =>
    intro fuel hf
    simp only [List.all_cons, Bool.and_eq_true] at h
    obtain ⟨hr, hrs⟩ := h
    obtain ⟨dest, ones, router⟩ := r
    simp only [C19.routeOK, Bool.and_eq_true, decide_eq_true_eq, beq_iff_eq] at hr
    obtain ⟨⟨⟨hones, hd⟩, hro⟩, hz⟩ := hr
    match dest, hd with
    | [a, b, c, d], _ =>
    match router, hro with
    | [e, f, g, i], _ =>
    have hm : ones % 256 = ones := by omega
    have hcons : encRoutes (⟨[a, b, c, d], ones, [e, f, g, i]⟩ :: rs) =
        ones :: (([a, b, c, d].take ((ones + 7) / 8) ++ [e, f, g, i]) ++ encRoutes rs) := by
      simp [encRoutes, encRoute, hm]
    rw [hcons] at hf ⊢
    cases fuel with
    | zero => simp at hf
    | succ fuel =>
      have hn : (ones + 7) / 8 = 0 ∨ (ones + 7) / 8 = 1 ∨ (ones + 7) / 8 = 2 ∨ (ones + 7) / 8 = 3 ∨ (ones + 7) / 8 = 4 := by omega
      have hle : ¬ ones > 32 := by omega
      rcases hn with hn | hn | hn | hn | hn <;> rw [hn] at hz hf ⊢ <;>
        simp [allZero] at hz <;>
        simp only [decRoutes, hle, hn, if_false] <;>
        simp at hf ⊢ <;>
        (have := ih hrs fuel (by omega)) <;> simp_all

/-! ### RFC 1035 labels -/

def encParts (ps : List Bytes) : Bytes := (ps.map (fun p => (p.length % 256) :: p)).flatten

def joinLabel (label : Bytes) : List Bytes → Bytes
  | [] => label
  | p :: ps => joinLabel (if label = [] then p else label ++ 46 :: p) ps

theorem decLabels_parts (buf : Bytes) (ps : List Bytes) (hps : ∀ p ∈ ps, 1 ≤ p.length ∧ p.length ≤ 63) :
    ∀ (tail old label : Bytes) (acc : List Bytes) (k : Nat),
      decLabelsGo buf (ps.length + k) (encParts ps ++ tail) old label false acc =
      decLabelsGo buf k tail old (joinLabel label ps) false acc := by
  induction ps with
  | nil => intro tail old label acc k; simp [encParts, joinLabel]
  | cons p ps ih =>
    intro tail old label acc k
    have hp := hps p (by simp)
    have hps' : ∀ q ∈ ps, 1 ≤ q.length ∧ q.length ≤ 63 := fun q hq => hps q (by simp [hq])
    have hfuel : (p :: ps).length + k = (ps.length + k) + 1 := by simp; omega
    have henc : encParts (p :: ps) ++ tail = p.length :: (p ++ (encParts ps ++ tail)) := by
      have : p.length % 256 = p.length := by omega
      simp [encParts, this]
    rw [hfuel, henc]
    conv => lhs; unfold decLabelsGo
    have h0 : ¬ p.length = 0 := by omega
    have h3 : ¬ p.length / 64 % 4 = 3 := by omega
    have hlen : ¬ (p ++ (encParts ps ++ tail)).length < p.length := by simp
    simp only [h0, h3, hlen, if_false, List.take_left', List.drop_left']
    exact ih hps' tail old _ acc k

theorem joinLabel_ne (label : Bytes) (ps : List Bytes) (h : label ≠ []) :
    joinLabel label ps = label ++ (ps.map (46 :: ·)).flatten := by
  induction ps generalizing label with
  | nil => simp [joinLabel]
  | cons p ps ih =>
    simp only [joinLabel, h, if_false]
    rw [ih _ (by simp)]
    simp

theorem split_join (name : Bytes) :
    ∃ p ps, splitOn 46 name = p :: ps ∧ name = p ++ (ps.map (46 :: ·)).flatten := by
  induction name with
  | nil => exact ⟨[], [], rfl, rfl⟩
  | cons b rest ih =>
    obtain ⟨p, ps, hsp, hj⟩ := ih
    unfold splitOn
    by_cases hb : b = 46
    · subst hb
      refine ⟨[], p :: ps, by simp [hsp], ?_⟩
      simp [← hj]
    · refine ⟨b :: p, ps, by simp [hb, hsp], ?_⟩
      simp [← hj]

theorem joinLabel_split (name : Bytes) (h : ∀ p ∈ splitOn 46 name, 1 ≤ p.length ∧ p.length ≤ 63) :
    joinLabel [] (splitOn 46 name) = name := by
  obtain ⟨p, ps, hsp, hj⟩ := split_join name
  rw [hsp] at h ⊢
  have hp : p ≠ [] := by
    have := (h p (by simp)).1
    intro hnil; subst hnil; simp at this
  simp only [joinLabel, if_true]
  rw [joinLabel_ne p ps hp]
  exact hj.symm

def nameParts (name : Bytes) : Prop := ∀ p ∈ splitOn 46 name, 1 ≤ p.length ∧ p.length ≤ 63

theorem nameParts_ne (name : Bytes) (h : nameParts name) : name ≠ [] := by
  intro hn; subst hn
  have := (h [] (by simp [splitOn])).1
  simp at this

theorem decLabels_name (buf name : Bytes) (h : nameParts name) (tail old : Bytes) (acc : List Bytes) (k : Nat) :
    decLabelsGo buf ((splitOn 46 name).length + (k + 1)) (encLabel name ++ tail) old [] false acc =
    decLabelsGo buf k tail old [] false (acc ++ [name]) := by
  have hne := nameParts_ne name h
  have henc : encLabel name ++ tail = encParts (splitOn 46 name) ++ (0 :: tail) := by
    simp [encLabel, hne, encParts]
  rw [henc, decLabels_parts buf _ h, joinLabel_split name h]
  conv => lhs; unfold decLabelsGo
  simp

def steps (names : List Bytes) : Nat := (names.map (fun n => (splitOn 46 n).length + 1)).sum

theorem decLabels_names (buf : Bytes) (names : List Bytes) (h : ∀ n ∈ names, nameParts n) :
    ∀ (old : Bytes) (acc : List Bytes) (k : Nat),
      decLabelsGo buf (steps names + (k + 1)) (encLabels names) old [] false acc = some (acc ++ names) := by
  induction names with
  | nil =>
    intro old acc k
    simp [steps, encLabels, decLabelsGo]
  | cons n ns ih =>
    intro old acc k
    have hn := h n (by simp)
    have hns : ∀ m ∈ ns, nameParts m := fun m hm => h m (by simp [hm])
    have hfuel : steps (n :: ns) + (k + 1) = (splitOn 46 n).length + ((steps ns + (k + 1)) + 1) := by
      simp [steps]; omega
    have henc : encLabels (n :: ns) = encLabel n ++ encLabels ns := by simp [encLabels]
    rw [hfuel, henc, decLabels_name buf n hn, ih hns]
    simp

theorem encParts_length (ps : List Bytes) : ps.length ≤ (encParts ps).length := by
  induction ps with
  | nil => simp [encParts]
  | cons p ps ih => simp [encParts] at ih ⊢; omega

theorem steps_le (names : List Bytes) (h : ∀ n ∈ names, nameParts n) : steps names ≤ (encLabels names).length := by
  induction names with
  | nil => simp [steps, encLabels]
  | cons n ns ih =>
    have hne := nameParts_ne n (h n (by simp))
    have := ih (fun m hm => h m (by simp [hm]))
    have hp := encParts_length (splitOn 46 n)
    simp [steps, encLabels, encLabel, hne] at this ⊢
    simp [encParts] at hp
    omega

theorem labels_roundtrip (names : List Bytes) (h : ∀ n ∈ names, nameParts n) :
    decodeLabels (encLabels names) = some names := by
  unfold decodeLabels
  have hs := steps_le names h
  generalize hL : (encLabels names).length = L at hs
  have : (L + 1) * (L + 1) = steps names + (((L + 1) * (L + 1) - steps names - 1) + 1) := by
    have : L + 1 ≤ (L + 1) * (L + 1) := Nat.le_mul_of_pos_right _ (by omega)
    omega
  rw [this, decLabels_names _ names h]
  simp


theorem nameParts_of_nameOK (n : Bytes) (h : C19.nameOK n = true) : nameParts n := by
  unfold C19.nameOK at h
  simp only [Bool.and_eq_true, List.all_eq_true, decide_eq_true_eq] at h
  intro p hp
  have := h.2 p hp
  omega

/-! ### further encoders, the RFC 8415 table, the findings -/

theorem decBootParams_enc (ps : List Bytes) (h : ∀ p ∈ ps, p.length < 65536) :
    ∀ fuel, (encBootParams ps).length ≤ fuel → decBootParams fuel (encBootParams ps) = some ps := by
  induction ps with
  | nil => intro fuel _; simp [encBootParams, decBootParams]
  | cons p ps ih =>
    intro fuel hf
    have hp := h p (by simp)
    have hps : ∀ q ∈ ps, q.length < 65536 := fun q hq => h q (by simp [hq])
    have henc : encBootParams (p :: ps) = (p.length / 256 % 256) :: (p.length % 256) :: (p ++ encBootParams ps) := by
      simp [encBootParams, hp, be]
    rw [henc] at hf ⊢
    cases fuel with
    | zero => simp at hf
    | succ fuel =>
      simp only [decBootParams]
      have hn : p.length / 256 % 256 * 256 + p.length % 256 = p.length := by omega
      simp only [hn, List.length_append, List.take_left', List.drop_left']
      have : ¬ (p.length + (encBootParams ps).length < p.length) := by omega
      simp only [this, if_false]
      rw [ih hps fuel (by simp at hf; omega)]
      simp

theorem bootParams_roundtrip (ps : List Bytes) (h : ∀ p ∈ ps, p.length < 65536) :
    decodeBootParams (encBootParams ps) = some ps := decBootParams_enc ps h _ (Nat.le_refl _)

theorem ips4_roundtrip (ips : List Bytes) (hne : ips ≠ []) (h : ∀ ip ∈ ips, ip.length = 4) :
    decIPs4 (encIPs ips) = some ips := by
  induction ips with
  | nil => exact absurd rfl hne
  | cons x rest ih =>
    have hx := h x (by simp)
    match x, hx with
    | [a, b, c, d], _ =>
    cases rest with
    | nil => simp [encIPs, decIPs4]
    | cons y rest' =>
      have hy := h y (by simp)
      match y, hy with
      | [e, f, g, i], _ =>
      have := ih (by simp) (fun ip hip => h ip (by simp [hip]))
      simp [encIPs] at this ⊢
      simp [decIPs4, this]

theorem c14_v6_matrix :
    (List.range 256).all (fun t =>
      let own : Bytes := [0, 3, 0, 1, 0, 17, 34, 51, 68, 85]
      let other : Bytes := [0, 3, 0, 1, 0, 1, 2, 3, 4, 9]
      let pre : Resp6 := ⟨7, [(1, [254])]⟩
      let drops (sid : Option Bytes) : Bool :=
        (serverid6.handle own ⟨0, t, (1, [254]) :: (match sid with | some s => [(2, s)] | none => [])⟩ pre).1.isNone
      (drops none == [3, 5, 8, 9].contains t) && (drops (some own) == [1, 4, 6].contains t) && drops (some other)) = true := by
  decide +kernel

theorem c17_D17 :
    let cfg : nbp6.Cfg := ⟨[116], some [112, 49]⟩
    let req : ReqView6 := ⟨0, 1, [(1, [254]), (6, [0, 60])]⟩
    let pre : Resp6 := ⟨2, [(1, [254])]⟩
    nbp6.setup [{ raw := [116], url := some ⟨[], [], [116], [116], [112, 49]⟩ }] = .ok cfg ∧
    C17.dom6 (.nbp cfg) req pre = true ∧
    nbp6HandlePreFix cfg req pre = (some ⟨2, [(1, [254]), (60, [112, 49])]⟩, true) ∧
    decodeBootParams [112, 49] = none ∧
    C17.holds6 (.nbp cfg) req pre (nbp6HandlePreFix cfg req pre) = false ∧
    C17.holds6 (.nbp cfg) req pre (nbp6.handle cfg req pre) = true := by
  refine ⟨rfl, ?_, ?_, ?_, ?_, ?_⟩ <;> decide +kernel

theorem c19_oversize6 (u : Bytes) (hu : 65535 < u.length) :
    let a : ArgOracle := { raw := u, url := some ⟨[], [], [], u, []⟩ }
    a.wf = true ∧ plugSetup 6 "nbp" [a] = some (.ok (.v6 (.nbp ⟨u, none⟩))) ∧
    C19.wireOK (.v6 (.nbp ⟨u, none⟩)) = false := by
  refine ⟨rfl, rfl, ?_⟩
  simp [C19.wireOK, C19.fits6]
  omega

theorem allSome_none {α β : Type} (f : α → Option β) (l : List α) (a : α) (ha : a ∈ l) (h : f a = none) :
    allSome f l = none := by
  induction l with
  | nil => simp at ha
  | cons x xs ih =>
    unfold allSome
    simp only [List.mem_cons] at ha
    rcases ha with rfl | ha
    · simp [h]
    · rw [ih ha]
      cases f x <;> rfl

/-! ### C17 for whatever `plugSetup` accepts -/

theorem c17_builtin4 (name : String) (args : List ArgOracle) (cfg : Cfg4) (req : ReqView4) (pre : Resp4)
    (h : plugSetup4 name args = some (.ok cfg)) : C17.holds4 cfg req pre (plugHandle4 cfg req pre) = true := by
  unfold plugSetup4 at h
  rcases ite_some_ok _ _ _ h with h | h
  · obtain ⟨x, hx, rfl⟩ := except_map_ok _ _ _ h
    exact c17_dns4 x req pre
  rcases ite_some_ok _ _ _ h with h | h
  · obtain ⟨x, hx, rfl⟩ := except_map_ok _ _ _ h
    exact c17_mtu x req pre
  rcases ite_some_ok _ _ _ h with h | h
  · obtain ⟨x, hx, rfl⟩ := except_map_ok _ _ _ h
    exact c17_netmask x req pre
  rcases ite_some_ok _ _ _ h with h | h
  · obtain ⟨x, hx, rfl⟩ := except_map_ok _ _ _ h
    exact c17_router x req pre
  rcases ite_some_ok _ _ _ h with h | h
  · obtain ⟨x, hx, rfl⟩ := except_map_ok _ _ _ h
    exact c17_leasetime x req pre
  rcases ite_some_ok _ _ _ h with h | h
  · obtain ⟨x, hx, rfl⟩ := except_map_ok _ _ _ h
    exact c17_search4 x req pre
  rcases ite_some_ok _ _ _ h with h | h
  · obtain ⟨x, hx, rfl⟩ := except_map_ok _ _ _ h
    exact c17_staticroute args x hx req pre
  rcases ite_some_ok _ _ _ h with h | h
  · obtain ⟨x, hx, rfl⟩ := except_map_ok _ _ _ h
    exact c17_ipv6only x req pre
  rcases ite_some_ok _ _ _ h with h | h
  · obtain ⟨x, hx, rfl⟩ := except_map_ok _ _ _ h
    exact c17_autoconfigure x req pre
  rcases ite_some_ok _ _ _ h with h | h
  · obtain ⟨x, hx, rfl⟩ := except_map_ok _ _ _ h
    exact c17_nbp4 x req pre
  rcases ite_some_ok _ _ _ h with h | h
  · obtain ⟨x, hx, rfl⟩ := except_map_ok _ _ _ h
    exact c17_sleep4 x req pre
  rcases ite_some_ok _ _ _ h with h | h
  · obtain ⟨x, hx, rfl⟩ := except_map_ok _ _ _ h
    simp [C17.holds4]
  exact absurd h (by simp)

theorem c17_builtin6 (name : String) (args : List ArgOracle) (cfg : Cfg6) (req : ReqView6) (pre : Resp6)
    (h : plugSetup6 name args = some (.ok cfg)) (hd : C17.dom6 cfg req pre = true) :
    C17.holds6 cfg req pre (plugHandle6 cfg req pre) = true := by
  unfold plugSetup6 at h
  rcases ite_some_ok _ _ _ h with h | h
  · obtain ⟨x, hx, rfl⟩ := except_map_ok _ _ _ h
    exact c17_dns6 x req pre hd
  rcases ite_some_ok _ _ _ h with h | h
  · obtain ⟨x, hx, rfl⟩ := except_map_ok _ _ _ h
    exact c17_search6 x req pre hd
  rcases ite_some_ok _ _ _ h with h | h
  · obtain ⟨x, hx, rfl⟩ := except_map_ok _ _ _ h
    exact c17_nbp6 x req pre hd
  rcases ite_some_ok _ _ _ h with h | h
  · obtain ⟨x, hx, rfl⟩ := except_map_ok _ _ _ h
    exact c17_sleep6 x req pre
  rcases ite_some_ok _ _ _ h with h | h
  · obtain ⟨x, hx, rfl⟩ := except_map_ok _ _ _ h
    simp [C17.holds6]
  exact absurd h (by simp)

/-! ### options the built-in plugins never touch -/

theorem filter_other_upd6 (c k : Nat) (v : Bytes) (l : Opts) (h : k ≠ c) :
    (upd6 c v l).filter (fun o => o.1 == k) = l.filter (fun o => o.1 == k) := by
  induction l with
  | nil => simp [upd6, Ne.symm h]
  | cons o rest ih =>
    obtain ⟨d, w⟩ := o
    unfold upd6
    by_cases hd : d = c
    · subst hd
      have : (d == k) = false := by simp [Ne.symm h]
      simp [List.filter_cons, this]
    · simp [hd, List.filter_cons, ih]

theorem nbp6_added_keep (c : nbp6.Cfg) (l : List Nat) (k : Nat) (h59 : k ≠ 59) (h60 : k ≠ 60) :
    (nbp6.added c l).filter (fun o => o.1 == k) = [] := by
  induction l with
  | nil => simp [nbp6.added]
  | cons x rest ih =>
    unfold nbp6.added
    split
    · simp [ih, Ne.symm h59]
    · split
      · split
        · simp [ih, Ne.symm h60]
        · exact ih
      · exact ih

theorem preserve_echo_opts4 (cfg : Cfg4) (req : ReqView4) (pre r : Resp4) (stop : Bool)
    (h : plugHandle4 cfg req pre = (some r, stop)) :
    lookup 82 r.opts = lookup 82 pre.opts ∧ lookup 61 r.opts = lookup 61 pre.opts ∧
    lookup 53 r.opts = lookup 53 pre.opts := by
  cases cfg <;> simp only [plugHandle4, dns4.handle, mtu.handle, netmask.handle, router.handle, leasetime.handle,
    search.handle4, staticroute.handle, ipv6only.handle, autoconfigure.handle, nbp4.handle, sleep.handle4,
    serverid4.handle] at h
  all_goals (repeat' split at h)
  all_goals (try (simp at h; done))
  all_goals
    simp only [Prod.mk.injEq, Option.some.injEq] at h
    obtain ⟨rfl, _⟩ := h
    simp [Resp4.update, lookup_upd4_other]

theorem preserve_cid6 (cfg : Cfg6) (req : ReqView6) (pre r : Resp6) (stop : Bool)
    (h : plugHandle6 cfg req pre = (some r, stop)) :
    r.opts.filter (fun o => o.1 == 1) = pre.opts.filter (fun o => o.1 == 1) ∧
    r.opts.filter (fun o => o.1 == 14) = pre.opts.filter (fun o => o.1 == 14) := by
  cases cfg <;> simp only [plugHandle6, dns6.handle, search.handle6, nbp6.handle, sleep.handle6, serverid6.handle] at h
  all_goals (repeat' split at h)
  all_goals (try (simp at h; done))
  all_goals
    simp only [Prod.mk.injEq, Option.some.injEq] at h
    obtain ⟨rfl, _⟩ := h
    simp [Resp6.update, filter_other_upd6, nbp6_added_keep]

/-! ### every accepted number fits its field and is announced as itself (D22–D24) -/

theorem accepted_inRange4 (name : String) (args : List ArgOracle) (cfg : Cfg4)
    (h : plugSetup4 name args = some (.ok cfg)) : C17.inRange4 cfg = true := by
  unfold plugSetup4 at h
  rcases ite_some_ok _ _ _ h with h | h
  · obtain ⟨x, hx, rfl⟩ := except_map_ok _ _ _ h
    rfl
  rcases ite_some_ok _ _ _ h with h | h
  · obtain ⟨x, hx, rfl⟩ := except_map_ok _ _ _ h
    exact inRange_mtu x (mtu_accepted args x hx)
  rcases ite_some_ok _ _ _ h with h | h
  · obtain ⟨x, hx, rfl⟩ := except_map_ok _ _ _ h
    rfl
  rcases ite_some_ok _ _ _ h with h | h
  · obtain ⟨x, hx, rfl⟩ := except_map_ok _ _ _ h
    rfl
  rcases ite_some_ok _ _ _ h with h | h
  · obtain ⟨x, hx, rfl⟩ := except_map_ok _ _ _ h
    exact inRange_leasetime x (leasetime_accepted args x hx)
  rcases ite_some_ok _ _ _ h with h | h
  · obtain ⟨x, hx, rfl⟩ := except_map_ok _ _ _ h
    rfl
  rcases ite_some_ok _ _ _ h with h | h
  · obtain ⟨x, hx, rfl⟩ := except_map_ok _ _ _ h
    rfl
  rcases ite_some_ok _ _ _ h with h | h
  · obtain ⟨x, hx, rfl⟩ := except_map_ok _ _ _ h
    exact inRange_ipv6only x (ipv6only_accepted args x hx)
  rcases ite_some_ok _ _ _ h with h | h
  · obtain ⟨x, hx, rfl⟩ := except_map_ok _ _ _ h
    rfl
  rcases ite_some_ok _ _ _ h with h | h
  · obtain ⟨x, hx, rfl⟩ := except_map_ok _ _ _ h
    rfl
  rcases ite_some_ok _ _ _ h with h | h
  · obtain ⟨x, hx, rfl⟩ := except_map_ok _ _ _ h
    rfl
  rcases ite_some_ok _ _ _ h with h | h
  · obtain ⟨x, hx, rfl⟩ := except_map_ok _ _ _ h
    rfl
  exact absurd h (by simp)

theorem exact_mtu (n : Int) (h0 : 0 ≤ n) (h1 : n ≤ 65535) : C17.exact4 (.mtu n) = true := by
  simp only [C17.exact4, decBe_encU16 n h0 h1, Option.map_some, Int.ofNat_eq_natCast, Int.toNat_of_nonneg h0, beq_self_eq_true]

theorem exact_secs (d : Int) (h0 : 0 ≤ d) (h1 : d < 4294967296 * 1000000000) :
    ((decBe 4 (encSecs d)).map Int.ofNat == some (d / 1000000000)) = true := by
  have h2 : 0 ≤ d / 1000000000 := Int.ediv_nonneg h0 (by decide)
  simp only [decBe_encSecs d h0 h1, Option.map_some, Int.ofNat_eq_natCast, Int.toNat_of_nonneg h2, beq_self_eq_true]

theorem exact_of_inRange4 (cfg : Cfg4) (h : C17.inRange4 cfg = true) : C17.exact4 cfg = true := by
  cases cfg with
  | mtu n =>
    simp only [C17.inRange4, Bool.and_eq_true, decide_eq_true_eq] at h
    exact exact_mtu n h.1 h.2
  | leasetime d =>
    simp only [C17.inRange4, Bool.and_eq_true, decide_eq_true_eq] at h
    exact exact_secs d h.1 h.2
  | ipv6only d =>
    simp only [C17.inRange4, Bool.and_eq_true, decide_eq_true_eq] at h
    exact exact_secs d h.1 h.2
  | _ => rfl

theorem decBe_be2 (v : Nat) : decBe 2 (be 2 v) = some (v % 65536) := by
  unfold decBe
  have hl : (be 2 v).length = 2 := by simp [be]
  rw [if_pos hl, ofBe_be2]

theorem decBe_be4 (v : Nat) : decBe 4 (be 4 v) = some (v % 4294967296) := by
  unfold decBe
  have hl : (be 4 v).length = 4 := by simp [be]
  rw [if_pos hl, ofBe_be4]

theorem secs_exact_inRange (d : Int)
    (h : ((decBe 4 (encSecs d)).map Int.ofNat == some (d / 1000000000)) = true) :
    0 ≤ d ∧ d < 4294967296 * 1000000000 := by
  unfold encSecs at h
  rw [decBe_be4] at h
  simp only [Option.map_some, beq_iff_eq, Option.some.injEq, Int.ofNat_eq_natCast] at h
  have h0 : 0 ≤ d := by omega
  rw [Int.tdiv_eq_ediv_of_nonneg h0] at h
  have : d / 1000000000 < 4294967296 := by omega
  exact ⟨h0, by omega⟩

theorem u16_exact_inRange (n : Int) (h : ((decBe 2 (encU16 n)).map Int.ofNat == some n) = true) :
    0 ≤ n ∧ n ≤ 65535 := by
  unfold encU16 at h
  rw [decBe_be2] at h
  simp only [Option.map_some, beq_iff_eq, Option.some.injEq, Int.ofNat_eq_natCast] at h
  omega

/-- the converse: a number outside the range is NOT what a client reads -/
theorem inRange_of_exact4 (cfg : Cfg4) (h : C17.exact4 cfg = true) : C17.inRange4 cfg = true := by
  cases cfg with
  | mtu n =>
    simp only [C17.inRange4, Bool.and_eq_true, decide_eq_true_eq]
    exact u16_exact_inRange n h
  | leasetime d =>
    simp only [C17.inRange4, Bool.and_eq_true, decide_eq_true_eq]
    exact secs_exact_inRange d h
  | ipv6only d =>
    simp only [C17.inRange4, Bool.and_eq_true, decide_eq_true_eq]
    exact secs_exact_inRange d h
  | _ => rfl

end CoreDhcp
