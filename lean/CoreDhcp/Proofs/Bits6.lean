/-
Contract lemmas of the abstract bitset (`CoreDhcp.Bits`), as used by the IPv6 allocator
proof.  Isolated in `namespace CoreDhcp.Bits6` so that they can later be merged with the
shared Proofs/Bits.lean.
-/
import CoreDhcp.Model.Bits
namespace CoreDhcp.Bits6
open CoreDhcp

/-! ### list level -/

theorem list_count_set_true (l : List Bool) (i : Nat) (hi : i < l.length)
    (h : l.getD i false = false) : (l.set i true).count true = l.count true + 1 := by
  induction l generalizing i with
  | nil => simp at hi
  | cons x xs ih =>
    cases i with
    | zero =>
      simp at h
      subst h
      simp
    | succ j =>
      simp at hi h
      have := ih j hi (by simpa using h)
      simp [List.count_cons, this]
      omega

theorem list_count_set_false (l : List Bool) (i : Nat)
    (h : l.getD i false = true) : (l.set i false).count true + 1 = l.count true := by
  induction l generalizing i with
  | nil => simp at h
  | cons x xs ih =>
    cases i with
    | zero =>
      simp at h
      subst h
      simp
    | succ j =>
      simp at h
      have := ih j (by simpa using h)
      simp [List.count_cons]
      omega

theorem list_all_iff (l : List Bool) :
    l.all (fun x => x) = true ↔ ∀ i, i < l.length → l.getD i false = true := by
  induction l with
  | nil => simp
  | cons x xs ih =>
    simp only [List.all_cons, Bool.and_eq_true, ih, List.length_cons]
    constructor
    · rintro ⟨hx, h⟩ i hi
      cases i with
      | zero => simpa using hx
      | succ j => simpa using h j (by omega)
    · intro h
      refine ⟨by simpa using h 0 (by omega), fun i hi => ?_⟩
      simpa using h (i + 1) (by omega)

theorem list_count_of_all (l : List Bool) (h : l.all (fun x => x) = true) :
    l.count true = l.length := by
  induction l with
  | nil => rfl
  | cons x xs ih =>
    simp only [List.all_cons, Bool.and_eq_true] at h
    obtain ⟨hx, h⟩ := h
    subst hx
    simp [ih h]

theorem list_findIdx?_not_some (l : List Bool) (i : Nat)
    (h : l.findIdx? (fun x => !x) = some i) :
    i < l.length ∧ l.getD i false = false ∧ ∀ j, j < i → l.getD j false = true := by
  induction l generalizing i with
  | nil => simp at h
  | cons x xs ih =>
    rw [List.findIdx?_cons] at h
    cases x with
    | false =>
      simp at h
      subst h
      simp
    | true =>
      simp at h
      obtain ⟨k, hk, rfl⟩ := h
      obtain ⟨h1, h2, h3⟩ := ih k hk
      refine ⟨by simpa using h1, by simpa using h2, fun j hj => ?_⟩
      cases j with
      | zero => simp
      | succ j' => simpa using h3 j' (by omega)

theorem list_findIdx?_not_none (l : List Bool) :
    l.findIdx? (fun x => !x) = none ↔ l.all (fun x => x) = true := by
  induction l with
  | nil => simp
  | cons x xs ih =>
    rw [List.findIdx?_cons]
    cases x <;> simp [ih]

/-! ### `Bits` level -/

@[simp] theorem length_new (n : Nat) : (Bits.new n).length = n := by
  simp [Bits.new, Bits.length]

@[simp] theorem test_new (n i : Nat) : (Bits.new n).test i = false := by
  simp [Bits.new, Bits.test, List.getD_eq_getElem?_getD, List.getElem?_replicate]
  split <;> simp

@[simp] theorem count_new (n : Nat) : (Bits.new n).count = 0 := by
  simp [Bits.new, Bits.count, List.count_replicate]

theorem test_of_ge (b : Bits) (i : Nat) (h : b.length ≤ i) : b.test i = false := by
  simp only [Bits.length] at h
  simp [Bits.test, List.getD_eq_getElem?_getD, List.getElem?_eq_none h]

theorem lt_length_of_test (b : Bits) (i : Nat) (h : b.test i = true) : i < b.length := by
  apply Decidable.byContradiction
  intro hn
  rw [test_of_ge b i (by omega)] at h
  cases h

theorem length_set_of_lt (b : Bits) (i : Nat) (h : i < b.length) :
    (b.set i).length = b.length := by
  simp only [Bits.length] at h
  simp [Bits.set, Bits.length, h]

theorem test_set_self (b : Bits) (i : Nat) : (b.set i).test i = true := by
  unfold Bits.set Bits.test
  split
  · rename_i h
    simp [List.getD_eq_getElem?_getD, h]
  · rename_i h
    have hl : (b.bits ++ List.replicate (i - b.bits.length) false).length = i := by
      simp; omega
    simp only [List.getD_eq_getElem?_getD]
    rw [List.getElem?_append_right (by omega), hl]
    simp

/-- for an index inside the set (the only way the allocator uses `Set`) -/
theorem test_set_of_ne (b : Bits) (i j : Nat) (hi : i < b.length) (h : j ≠ i) :
    (b.set i).test j = b.test j := by
  simp only [Bits.length] at hi
  have h' : ¬ i = j := fun e => h e.symm
  simp [Bits.set, Bits.test, hi, List.getD_eq_getElem?_getD, h']

@[simp] theorem length_clear (b : Bits) (i : Nat) : (b.clear i).length = b.length := by
  simp [Bits.clear, Bits.length]

theorem test_clear_self (b : Bits) (i : Nat) : (b.clear i).test i = false := by
  simp [Bits.clear, Bits.test, List.getD_eq_getElem?_getD, List.getElem?_set]
  split <;> simp

theorem test_clear_of_ne (b : Bits) (i j : Nat) (h : j ≠ i) :
    (b.clear i).test j = b.test j := by
  have h' : ¬ i = j := fun e => h e.symm
  simp [Bits.clear, Bits.test, List.getD_eq_getElem?_getD, h']

theorem full_iff (b : Bits) : b.full = true ↔ ∀ i, i < b.length → b.test i = true := by
  simp only [Bits.full, Bits.length, Bits.test]
  exact list_all_iff b.bits

theorem nextClear_some (b : Bits) (i : Nat) (h : b.nextClear = some i) :
    i < b.length ∧ b.test i = false ∧ ∀ j, j < i → b.test j = true := by
  simp only [Bits.length, Bits.test]
  exact list_findIdx?_not_some b.bits i h

theorem nextClear_none (b : Bits) : b.nextClear = none ↔ b.full = true := by
  simp only [Bits.nextClear, Bits.full]
  exact list_findIdx?_not_none b.bits

theorem count_set_of_clear (b : Bits) (i : Nat) (hi : i < b.length) (h : b.test i = false) :
    (b.set i).count = b.count + 1 := by
  simp only [Bits.length] at hi
  simp only [Bits.set, Bits.count, hi, if_true]
  exact list_count_set_true b.bits i hi h

theorem count_clear_of_set (b : Bits) (i : Nat) (h : b.test i = true) :
    (b.clear i).count + 1 = b.count := by
  simp only [Bits.clear, Bits.count]
  exact list_count_set_false b.bits i h

theorem count_of_full (b : Bits) (h : b.full = true) : b.count = b.length := by
  simp only [Bits.count, Bits.length]
  exact list_count_of_all b.bits h

end CoreDhcp.Bits6
