/-
Invariant proof for the prefix-delegation plugin model against the C08/C09 history monitors.
-/
import CoreDhcp.Spec.Prefix
import CoreDhcp.Proofs.Alloc6
namespace CoreDhcp

/-- hints as the library can deliver them: a `pfx` hint has prefix-length 1..128 -/
def IAPDReq.wf (q : IAPDReq) : Bool :=
  q.hints.all (fun h => match h with
    | .pfx _ _ len => decide (1 ≤ len) && decide (len ≤ 128)
    | _ => true)

namespace PrefixProof

/-! ### generic -/

theorem foldl_inv_mem {α β : Type} (f : β → α → β) (P : β → Prop) :
    ∀ (l : List α) (b : β), (∀ b a, a ∈ l → P b → P (f b a)) → P b → P (l.foldl f b) := by
  intro l
  induction l with
  | nil => intro b _ hb; exact hb
  | cons x xs ih =>
    intro b hstep hb
    rw [List.foldl_cons]
    apply ih
    · intro b' a ha hb'
      exact hstep b' a (List.mem_cons_of_mem _ ha) hb'
    · exact hstep b x List.mem_cons_self hb

theorem disjoint_symm (a b : Block) : a.disjoint b = b.disjoint a := by
  unfold Block.disjoint
  exact Bool.or_comm _ _

theorem leaseDur_pos : 0 < leaseDur := by decide

/-! ### `Lease.extend` -/

theorem extend_pfx (l : Lease) (now : Int) : (l.extend now).pfx = l.pfx := by
  unfold Lease.extend
  split <;> rfl

theorem extend_ge (l : Lease) (now : Int) : l.expire ≤ (l.extend now).expire := by
  unfold Lease.extend
  split
  · simp only; omega
  · exact Int.le_refl _

theorem extend_eq (l : Lease) (now : Int) (h : l.expire ≤ now + leaseDur) :
    (l.extend now).expire = now + leaseDur := by
  unfold Lease.extend
  split
  · rfl
  · omega

theorem extend_self (l : Lease) (now : Int) (h : l.expire = now + leaseDur) :
    l.extend now = l := by
  unfold Lease.extend
  rw [if_neg (by omega)]

/-! ### records -/

theorem leasesOf_mk (a : A6) (recs : List (ClientKey × List Lease)) (c : ClientKey) :
    PState.leasesOf ⟨a, recs⟩ c =
      match recs.find? (fun p => p.1 == c) with
      | some p => p.2
      | none => [] := rfl

theorem find_filter_ne (recs : List (ClientKey × List Lease)) (c c' : ClientKey) (hne : c' ≠ c) :
    (recs.filter (fun p => !(p.1 == c))).find? (fun p => p.1 == c') =
      recs.find? (fun p => p.1 == c') := by
  induction recs with
  | nil => rfl
  | cons x xs ih =>
    by_cases hx : x.1 = c
    · have h1 : (!(x.1 == c)) = false := by simp [hx]
      have h2 : (x.1 == c') = false := by
        rw [hx]; simpa using (fun e => hne e.symm)
      rw [List.filter_cons_of_neg (by simp [hx]), List.find?_cons, h2]
      exact ih
    · rw [List.filter_cons_of_pos (by simpa using hx), List.find?_cons, List.find?_cons, ih]

theorem leasesOf_put_self (s : PState) (a : A6) (c : ClientKey) (ls : List Lease) :
    PState.leasesOf ⟨a, s.put c ls⟩ c = ls := by
  rw [leasesOf_mk]
  unfold PState.put
  rw [List.find?_cons]
  simp

theorem leasesOf_put_ne (s : PState) (a : A6) (c c' : ClientKey) (ls : List Lease) (hne : c' ≠ c) :
    PState.leasesOf ⟨a, s.put c ls⟩ c' = s.leasesOf c' := by
  rw [leasesOf_mk]
  unfold PState.put
  have h2 : (c == c') = false := by simpa using (fun e => hne e.symm)
  rw [List.find?_cons]
  simp only [h2]
  rw [find_filter_ne _ _ _ hne]
  rfl

/-! ### the loops of one IA_PD -/

def GoodBlk (p : Pool6) (b : Block) : Prop :=
  b.within p.block = true ∧ b.base.val % 2^(128 - p.page) = 0 ∧ p.page ≤ b.len ∧ b.len ≤ 128

/-- what the allocator sees of a well-formed hint -/
def HintOK (h : HintP) : Prop := h.toHint6.bits = 128 → h.toHint6.ones ≤ 128

/-- invariant of the three loops: `K` the client's leases before, `out0` the allocator's
outstanding blocks before, `R0` a set of leases already promised in the reply -/
structure LI (p : Pool6) (now : Int) (K : List Lease) (out0 : List Block) (R0 : List Lease)
    (a : A6) (ls : List (Lease × Bool)) (reply : List Lease) (fresh : Bool) : Prop where
  out : ∃ out, Inv6 p a out ∧ (∀ b, b ∈ out0 → b ∈ out) ∧ ∀ q, q ∈ ls → q.1.pfx ∈ out
  src : ∀ q, q ∈ ls → q.1.expire ≤ now + leaseDur ∧
    ((∃ k, k ∈ K ∧ k.pfx = q.1.pfx) ∨
      (q.1 ∈ reply ∧ GoodBlk p q.1.pfx ∧ ∀ o, o ∈ out0 → q.1.pfx.disjoint o = true))
  keep : ∀ k, k ∈ K → ∃ q, q ∈ ls ∧ q.1.pfx = k.pfx ∧ k.expire ≤ q.1.expire
  rep : ∀ l, l ∈ reply → (l, true) ∈ ls ∧ l.expire = now + leaseDur
  nofresh : fresh = false → ls.length = K.length
  known : fresh = false → ∀ q, q ∈ ls → ∃ k, k ∈ K ∧ k.pfx = q.1.pfx
  mono : ∀ l, l ∈ R0 → l ∈ reply

/-- handing out (with extension) the leases selected by `C` -/
theorem LI.give {p : Pool6} {now : Int} {K : List Lease} {out0 : List Block} {R0 : List Lease}
    {a : A6} {ls : List (Lease × Bool)} {reply : List Lease} {fresh : Bool}
    (I : LI p now K out0 R0 a ls reply fresh) (C : Lease × Bool → Bool) (extra : List Lease)
    (hex : ∀ l, l ∈ extra → ∃ q, q ∈ ls ∧ C q = true ∧ l = q.1.extend now) :
    LI p now K out0 R0 a (ls.map (fun q => if C q then (q.1.extend now, true) else q))
      (reply ++ extra) fresh := by
  have hpfx : ∀ q : Lease × Bool, (if C q then (q.1.extend now, true) else q).1.pfx = q.1.pfx := by
    intro q
    split
    · exact extend_pfx _ _
    · rfl
  refine ⟨?_, ?_, ?_, ?_, ?_, ?_, ?_⟩
  · obtain ⟨out, I6, h0, hls⟩ := I.out
    refine ⟨out, I6, h0, ?_⟩
    intro q' hq'
    obtain ⟨q, hq, rfl⟩ := List.mem_map.mp hq'
    rw [hpfx]
    exact hls q hq
  · intro q' hq'
    obtain ⟨q, hq, rfl⟩ := List.mem_map.mp hq'
    obtain ⟨he, hs⟩ := I.src q hq
    rw [hpfx]
    refine ⟨?_, ?_⟩
    · split
      · exact Int.le_of_eq (extend_eq _ _ he)
      · exact he
    · rcases hs with hs | ⟨hr, hg, hd⟩
      · exact Or.inl hs
      · refine Or.inr ⟨?_, hg, hd⟩
        have := (I.rep _ hr).2
        rw [extend_self _ _ this]
        have e : (if C q then (q.1, true) else q).1 = q.1 := by split <;> rfl
        rw [e]
        exact List.mem_append_left _ hr
  · intro k hk
    obtain ⟨q, hq, h1, h2⟩ := I.keep k hk
    refine ⟨_, List.mem_map.mpr ⟨q, hq, rfl⟩, ?_, ?_⟩
    · rw [hpfx]; exact h1
    · split
      · exact Int.le_trans h2 (extend_ge _ _)
      · exact h2
  · intro l hl
    rcases List.mem_append.mp hl with hl | hl
    · obtain ⟨h1, h2⟩ := I.rep l hl
      refine ⟨List.mem_map.mpr ⟨(l, true), h1, ?_⟩, h2⟩
      show (if C (l, true) then (l.extend now, true) else (l, true)) = (l, true)
      rw [extend_self _ _ h2]
      exact ite_self _
    · obtain ⟨q, hq, hC, rfl⟩ := hex l hl
      refine ⟨List.mem_map.mpr ⟨q, hq, ?_⟩, extend_eq _ _ (I.src q hq).1⟩
      rw [if_pos hC]
  · intro hf
    rw [List.length_map]
    exact I.nofresh hf
  · intro hf q' hq'
    obtain ⟨q, hq, rfl⟩ := List.mem_map.mp hq'
    rw [hpfx]
    exact I.known hf q hq
  · intro l hl
    exact List.mem_append_left _ (I.mono l hl)

theorem LI.setR0 {p : Pool6} {now : Int} {K : List Lease} {out0 : List Block} {R0 : List Lease}
    {a : A6} {ls : List (Lease × Bool)} {reply : List Lease} {fresh : Bool}
    (I : LI p now K out0 R0 a ls reply fresh) :
    LI p now K out0 reply a ls reply fresh :=
  ⟨I.out, I.src, I.keep, I.rep, I.nofresh, I.known, fun _ h => h⟩

/-- loop 1 -/
theorem LI.loop1 {p : Pool6} {now : Int} {K : List Lease} {out0 : List Block} {R0 : List Lease}
    {st : LoopSt} (I : LI p now K out0 R0 st.alloc st.ls st.reply st.fresh) :
    LI p now K out0 R0 (loop1 now st).alloc (loop1 now st).ls (loop1 now st).reply
      (loop1 now st).fresh := by
  unfold CoreDhcp.loop1
  simp only
  apply I.give (fun q => (st.hs.map (·.1)).any (fun h => h.same q.1))
  intro l hl
  obtain ⟨h, hh, hl⟩ := List.mem_flatMap.mp hl
  obtain ⟨q, hq, rfl⟩ := List.mem_map.mp hl
  obtain ⟨hq1, hq2⟩ := List.mem_filter.mp hq
  exact ⟨q, hq1, List.any_eq_true.mpr ⟨h, hh, hq2⟩, rfl⟩

theorem loop1_hs (now : Int) (st : LoopSt) : ∀ q, q ∈ (loop1 now st).hs → ∃ q', q' ∈ st.hs ∧ q'.1 = q.1 := by
  intro q hq
  unfold CoreDhcp.loop1 at hq
  simp only at hq
  obtain ⟨q', hq', rfl⟩ := List.mem_map.mp hq
  exact ⟨q', hq', rfl⟩

theorem loop1_alloc (now : Int) (st : LoopSt) : (loop1 now st).alloc = st.alloc := rfl

/-- loop 1 answers every exactly matching hint -/
theorem loop1_match (now : Int) (st : LoopSt) (h : HintP × Bool) (hh : h ∈ st.hs)
    (q : Lease × Bool) (hq : q ∈ st.ls) (hs : h.1.same q.1 = true) :
    q.1.extend now ∈ (loop1 now st).reply := by
  unfold CoreDhcp.loop1
  simp only
  apply List.mem_append_right
  apply List.mem_flatMap.mpr
  refine ⟨h.1, List.mem_map.mpr ⟨h, hh, rfl⟩, ?_⟩
  exact List.mem_map.mpr ⟨q, List.mem_filter.mpr ⟨hq, hs⟩, rfl⟩

/-- loop 2, one hint -/
theorem LI.loop2Step {p : Pool6} {now : Int} {K : List Lease} {out0 : List Block} {R0 : List Lease}
    {a : A6} {fresh : Bool} (acc : List (Lease × Bool) × List Lease × List (HintP × Bool))
    (q : HintP × Bool) (I : LI p now K out0 R0 a acc.1 acc.2.1 fresh) :
    LI p now K out0 R0 a (loop2Step now acc q).1 (loop2Step now acc q).2.1 fresh := by
  obtain ⟨ls, reply, done⟩ := acc
  unfold CoreDhcp.loop2Step
  simp only
  split
  · exact I
  · apply I.give (loop2Eligible q.1)
    intro l hl
    obtain ⟨q', hq', rfl⟩ := List.mem_map.mp hl
    obtain ⟨h1, h2⟩ := List.mem_filter.mp hq'
    exact ⟨q', h1, h2, rfl⟩

theorem loop2Step_done (now : Int) (acc : List (Lease × Bool) × List Lease × List (HintP × Bool))
    (q : HintP × Bool) : ∃ b, (loop2Step now acc q).2.2 = acc.2.2 ++ [(q.1, b)] := by
  obtain ⟨ls, reply, done⟩ := acc
  unfold CoreDhcp.loop2Step
  simp only
  split
  · exact ⟨q.2, rfl⟩
  · exact ⟨_, rfl⟩

theorem loop2_fold {p : Pool6} {now : Int} {K : List Lease} {out0 : List Block} {R0 : List Lease}
    {a : A6} {fresh : Bool} (hs : List (HintP × Bool))
    (acc : List (Lease × Bool) × List Lease × List (HintP × Bool))
    (I : LI p now K out0 R0 a acc.1 acc.2.1 fresh) (Q : HintP → Prop)
    (hd : ∀ q, q ∈ acc.2.2 → Q q.1) (hq : ∀ q, q ∈ hs → Q q.1) :
    LI p now K out0 R0 a (hs.foldl (loop2Step now) acc).1 (hs.foldl (loop2Step now) acc).2.1 fresh ∧
      ∀ q, q ∈ (hs.foldl (loop2Step now) acc).2.2 → Q q.1 := by
  apply foldl_inv_mem (loop2Step now)
    (fun acc => LI p now K out0 R0 a acc.1 acc.2.1 fresh ∧ ∀ q, q ∈ acc.2.2 → Q q.1) hs acc
  · intro b x hx ⟨h1, h2⟩
    refine ⟨h1.loop2Step b x, ?_⟩
    obtain ⟨bb, e⟩ := loop2Step_done now b x
    rw [e]
    intro q hq'
    rcases List.mem_append.mp hq' with hq' | hq'
    · exact h2 q hq'
    · rw [List.mem_singleton] at hq'
      subst hq'
      exact hq x hx
  · exact ⟨I, hd⟩

/-- loop 2 -/
theorem LI.loop2 {p : Pool6} {now : Int} {K : List Lease} {out0 : List Block} {R0 : List Lease}
    {st : LoopSt} (I : LI p now K out0 R0 st.alloc st.ls st.reply st.fresh) (Q : HintP → Prop)
    (hq : ∀ q, q ∈ st.hs → Q q.1) :
    LI p now K out0 R0 (loop2 now st).alloc (loop2 now st).ls (loop2 now st).reply
      (loop2 now st).fresh ∧ ∀ q, q ∈ (loop2 now st).hs → Q q.1 := by
  unfold CoreDhcp.loop2
  simp only
  exact loop2_fold st.hs (st.ls, st.reply, []) I Q (fun _ h => nomatch h) hq

/-! ### what a successful `Allocate` guarantees -/

theorem alloc_ok_facts {p : Pool6} {a : A6} {out : List Block} (g : Geo p) (I : Inv6 p a out)
    (h : Hint6) (hh : h.bits = 128 → h.ones ≤ 128) (c : Option Nat) (a' : A6) (b : Block)
    (hr : a.allocate h c = some (a', .ok b)) :
    Inv6 p a' (b :: out) ∧ (∀ o, o ∈ out → b.disjoint o = true) ∧ GoodBlk p b := by
  obtain ⟨I', hv⟩ := step_alloc g I h hh c a' (.ok b) hr
  refine ⟨I', ?_⟩
  unfold Mon6.step Verdict.all at hv
  simp only [Bool.and_eq_true, Bool.and_true, beq_iff_eq, decide_eq_true_eq, List.all_eq_true] at hv
  obtain ⟨⟨h4, ⟨⟨⟨⟨_, h5b⟩, h5c⟩, h5d⟩, h5e⟩⟩, _⟩ := hv
  exact ⟨h4, h5c, h5b, h5d, h5e⟩

theorem alloc_err_facts {p : Pool6} {a : A6} {out : List Block} (g : Geo p) (I : Inv6 p a out)
    (h : Hint6) (hh : h.bits = 128 → h.ones ≤ 128) (c : Option Nat) (a' : A6) (e : AErr)
    (hr : a.allocate h c = some (a', .error e)) : Inv6 p a' out := by
  obtain ⟨I', _⟩ := step_alloc g I h hh c a' (.error e) hr
  cases e <;> exact I'

/-! ### loop 3 -/

theorem LI.allocErr {p : Pool6} {now : Int} {K : List Lease} {out0 : List Block} {R0 : List Lease}
    {a : A6} {ls : List (Lease × Bool)} {reply : List Lease} {fresh : Bool} (g : Geo p)
    (I : LI p now K out0 R0 a ls reply fresh)
    (h : Hint6) (hh : h.bits = 128 → h.ones ≤ 128) (c : Option Nat) (a' : A6) (e : AErr)
    (hr : a.allocate h c = some (a', .error e)) : LI p now K out0 R0 a' ls reply fresh := by
  obtain ⟨out, I6, h0, hls⟩ := I.out
  exact ⟨⟨out, alloc_err_facts g I6 h hh c a' e hr, h0, hls⟩, I.src, I.keep, I.rep, I.nofresh, I.known, I.mono⟩

theorem LI.allocOk {p : Pool6} {now : Int} {K : List Lease} {out0 : List Block} {R0 : List Lease}
    {a : A6} {ls : List (Lease × Bool)} {reply : List Lease} {fresh : Bool} (g : Geo p)
    (I : LI p now K out0 R0 a ls reply fresh)
    (h : Hint6) (hh : h.bits = 128 → h.ones ≤ 128) (c : Option Nat) (a' : A6) (b : Block)
    (hr : a.allocate h c = some (a', .ok b)) :
    LI p now K out0 R0 a' (ls ++ [(⟨b, now + leaseDur⟩, true)]) (reply ++ [⟨b, now + leaseDur⟩]) true := by
  obtain ⟨out, I6, h0, hls⟩ := I.out
  obtain ⟨I6', hdis, hgood⟩ := alloc_ok_facts g I6 h hh c a' b hr
  refine ⟨⟨b :: out, I6', fun x hx => List.mem_cons_of_mem _ (h0 x hx), ?_⟩, ?_, ?_, ?_, ?_, ?_, ?_⟩
  · intro q hq
    rcases List.mem_append.mp hq with hq | hq
    · exact List.mem_cons_of_mem _ (hls q hq)
    · rw [List.mem_singleton] at hq
      subst hq
      exact List.mem_cons_self
  · intro q hq
    rcases List.mem_append.mp hq with hq | hq
    · obtain ⟨he, hs⟩ := I.src q hq
      refine ⟨he, ?_⟩
      rcases hs with hs | ⟨hr', hg, hd⟩
      · exact Or.inl hs
      · exact Or.inr ⟨List.mem_append_left _ hr', hg, hd⟩
    · rw [List.mem_singleton] at hq
      subst hq
      exact ⟨Int.le_refl _, Or.inr ⟨List.mem_append_right _ (List.mem_singleton.mpr rfl), hgood,
        fun o ho => hdis o (h0 o ho)⟩⟩
  · intro k hk
    obtain ⟨q, hq, h1, h2⟩ := I.keep k hk
    exact ⟨q, List.mem_append_left _ hq, h1, h2⟩
  · intro l hl
    rcases List.mem_append.mp hl with hl | hl
    · obtain ⟨h1, h2⟩ := I.rep l hl
      exact ⟨List.mem_append_left _ h1, h2⟩
    · rw [List.mem_singleton] at hl
      subst hl
      exact ⟨List.mem_append_right _ (List.mem_singleton.mpr rfl), rfl⟩
  · intro hf
    cases hf
  · intro hf
    cases hf
  · intro l hl
    exact List.mem_append_left _ (I.mono l hl)

/-- the loop-3 accumulator satisfies the loop invariant (when defined) -/
def L3P (p : Pool6) (now : Int) (K : List Lease) (out0 : List Block) (R0 : List Lease)
    (acc : Option (LoopSt × List (Option Nat))) : Prop :=
  ∀ st cs, acc = some (st, cs) → LI p now K out0 R0 st.alloc st.ls st.reply st.fresh

theorem L3P.step {p : Pool6} {now : Int} {K : List Lease} {out0 : List Block} {R0 : List Lease}
    (g : Geo p) (acc : Option (LoopSt × List (Option Nat))) (q : HintP × Bool) (hq : HintOK q.1)
    (I : L3P p now K out0 R0 acc) : L3P p now K out0 R0 (loop3Step now acc q) := by
  intro st' cs' he
  unfold loop3Step at he
  split at he
  · cases he
  · rename_i st cs
    have J := I st cs rfl
    clear I
    split at he
    · cases he; exact J
    · split at he
      · cases he; exact J
      · split at he
        · cases he
        · rename_i c cs2
          split at he
          · cases he
          · rename_i a' e hal
            cases he
            exact J.allocErr g _ hq c a' e hal
          · rename_i a' b hal
            cases he
            exact J.allocOk g _ hq c a' b hal

theorem LI.loop3 {p : Pool6} {now : Int} {K : List Lease} {out0 : List Block} {R0 : List Lease}
    (g : Geo p) {st : LoopSt} (I : LI p now K out0 R0 st.alloc st.ls st.reply st.fresh)
    (hq : ∀ q, q ∈ st.hs → HintOK q.1) (cs : List (Option Nat)) (st' : LoopSt)
    (cs' : List (Option Nat)) (h : loop3 now st cs = some (st', cs')) :
    LI p now K out0 R0 st'.alloc st'.ls st'.reply st'.fresh := by
  unfold CoreDhcp.loop3 at h
  have := foldl_inv_mem (loop3Step now) (L3P p now K out0 R0) st.hs (some (st, cs))
    (fun b a ha hb => L3P.step g b a (hq a ha) hb)
    (by intro st2 cs2 e; cases e; exact I)
  exact this st' cs' h

/-! ### one IA_PD -/

/-- the hints the handler works on -/
def hintsOf (q : IAPDReq) : List HintP := if q.hints.isEmpty then [HintP.empty] else q.hints

/-- the loop state an IA_PD starts from -/
def st0 (s : PState) (c : ClientKey) (q : IAPDReq) : LoopSt :=
  ⟨s.alloc, (s.leasesOf c).map (fun l => (l, false)), (hintsOf q).map (fun h => (h, false)), [], false⟩

theorem handleIAPD_eq (s : PState) (c : ClientKey) (q : IAPDReq) (now : Int) (cs : List (Option Nat)) :
    s.handleIAPD c q now cs =
      match loop3 now (loop2 now (loop1 now (st0 s c q))) cs with
      | none => none
      | some (st, cs') =>
        some (⟨st.alloc, if st.fresh || !(s.leasesOf c).isEmpty then s.put c (st.ls.map (·.1)) else s.recs⟩,
          ⟨q.iaid, st.reply.map (fun l => (l.pfx, l.expire - now))⟩, cs') := rfl

theorem hintOK_of_wf (q : IAPDReq) (hq : q.wf = true) : ∀ h, h ∈ hintsOf q → HintOK h := by
  intro h hh
  unfold hintsOf at hh
  split at hh
  · rw [List.mem_singleton] at hh
    subst hh
    intro hb
    cases hb
  · unfold IAPDReq.wf at hq
    rw [List.all_eq_true] at hq
    have := hq h hh
    cases h with
    | empty => intro hb; cases hb
    | nomask ip v4 => intro hb; cases hb
    | pfx ip v4 len =>
      simp only [Bool.and_eq_true, decide_eq_true_eq] at this
      intro _
      exact this.2

theorem mem_hintsOf (q : IAPDReq) (h : HintP) (hh : h ∈ q.hints) : h ∈ hintsOf q := by
  unfold hintsOf
  cases hq : q.hints with
  | nil => rw [hq] at hh; cases hh
  | cons x xs => rw [← hq]; simpa [hq] using hh

theorem LI.init {p : Pool6} {now : Int} {s : PState} {c : ClientKey} {q : IAPDReq} {out0 : List Block}
    (I6 : Inv6 p s.alloc out0) (hout : ∀ l, l ∈ s.leasesOf c → l.pfx ∈ out0)
    (hexp : ∀ l, l ∈ s.leasesOf c → l.expire ≤ now + leaseDur) :
    LI p now (s.leasesOf c) out0 [] (st0 s c q).alloc (st0 s c q).ls (st0 s c q).reply
      (st0 s c q).fresh := by
  unfold st0
  simp only
  refine ⟨⟨out0, I6, fun _ h => h, ?_⟩, ?_, ?_, ?_, ?_, ?_, ?_⟩
  · intro x hx
    obtain ⟨l, hl, rfl⟩ := List.mem_map.mp hx
    exact hout l hl
  · intro x hx
    obtain ⟨l, hl, rfl⟩ := List.mem_map.mp hx
    exact ⟨hexp l hl, Or.inl ⟨l, hl, rfl⟩⟩
  · intro k hk
    exact ⟨(k, false), List.mem_map.mpr ⟨k, hk, rfl⟩, rfl, Int.le_refl _⟩
  · intro l hl
    cases hl
  · intro _
    exact List.length_map _
  · intro _ x hx
    obtain ⟨l, hl, rfl⟩ := List.mem_map.mp hx
    exact ⟨l, hl, rfl⟩
  · intro l hl
    cases hl

/-- what one IA_PD does, in terms of the loop invariant -/
theorem handleIAPD_spec {p : Pool6} (g : Geo p) {now : Int} {s : PState} {c : ClientKey}
    {q : IAPDReq} (hq : q.wf = true) {out0 : List Block}
    (I6 : Inv6 p s.alloc out0) (hout : ∀ l, l ∈ s.leasesOf c → l.pfx ∈ out0)
    (hexp : ∀ l, l ∈ s.leasesOf c → l.expire ≤ now + leaseDur)
    {cs : List (Option Nat)} {s' : PState} {r : IAPDResp} {cs' : List (Option Nat)}
    (h : s.handleIAPD c q now cs = some (s', r, cs')) :
    ∃ st : LoopSt, ∃ R0 : List Lease,
      LI p now (s.leasesOf c) out0 R0 st.alloc st.ls st.reply st.fresh ∧
      loop3 now (loop2 now (loop1 now (st0 s c q))) cs = some (st, cs') ∧
      s'.alloc = st.alloc ∧ s'.leasesOf c = st.ls.map (·.1) ∧
      (∀ c', c' ≠ c → s'.leasesOf c' = s.leasesOf c') ∧
      r = ⟨q.iaid, st.reply.map (fun l => (l.pfx, l.expire - now))⟩ ∧
      (∀ hint k, hint ∈ q.hints → k ∈ s.leasesOf c → hint.same k = true → k.extend now ∈ R0) := by
  rw [handleIAPD_eq] at h
  split at h
  · cases h
  · rename_i st cs2 h3
    simp only [Option.some.injEq, Prod.mk.injEq] at h
    obtain ⟨hs', hr, hcs⟩ := h
    subst hcs
    have I0 := LI.init (q := q) I6 hout hexp
    have I1 := I0.loop1.setR0
    have hk1 : ∀ x, x ∈ (loop1 now (st0 s c q)).hs → HintOK x.1 := by
      intro x hx
      obtain ⟨x', hx', e⟩ := loop1_hs now _ x hx
      rw [← e]
      unfold st0 at hx'
      simp only at hx'
      obtain ⟨h0, hh0, rfl⟩ := List.mem_map.mp hx'
      exact hintOK_of_wf q hq h0 hh0
    obtain ⟨I2, hk2⟩ := I1.loop2 HintOK hk1
    have I3 := I2.loop3 g hk2 cs st cs2 h3
    refine ⟨st, _, I3, h3, ?_, ?_, ?_, hr.symm, ?_⟩
    · rw [← hs']
    · rw [← hs']
      by_cases hc : (st.fresh || !(s.leasesOf c).isEmpty) = true
      · rw [if_pos hc]
        exact leasesOf_put_self s _ c _
      · rw [if_neg hc]
        simp only [Bool.or_eq_true, Bool.not_eq_true', not_or, Bool.not_eq_true, Bool.not_eq_false,
          List.isEmpty_iff] at hc
        have hl := I3.nofresh hc.1
        rw [hc.2, List.length_nil, List.length_eq_zero_iff] at hl
        rw [hl]
        exact hc.2
    · intro c' hne
      rw [← hs']
      by_cases hc : (st.fresh || !(s.leasesOf c).isEmpty) = true
      · rw [if_pos hc]
        exact leasesOf_put_ne s _ c c' _ hne
      · rw [if_neg hc]
        rfl
    · intro hint k hh hk hs
      have hh' : (hint, false) ∈ (st0 s c q).hs := by
        unfold st0
        simp only
        exact List.mem_map.mpr ⟨hint, mem_hintsOf q hint hh, rfl⟩
      have hk' : (k, false) ∈ (st0 s c q).ls := by
        unfold st0
        simp only
        exact List.mem_map.mpr ⟨k, hk, rfl⟩
      exact loop1_match now (st0 s c q) (hint, false) hh' (k, false) hk' hs

/-! ### the hint-less IA_PD of a known client, computed exactly -/

theorem loop1_noop (now : Int) (st : LoopSt) (h : ∀ q, q ∈ st.hs → q.1 = HintP.empty) :
    loop1 now st = st := by
  have hsame : ∀ x, x ∈ st.hs.map (·.1) → ∀ l, HintP.same x l = false := by
    intro x hx l
    obtain ⟨q, hq, rfl⟩ := List.mem_map.mp hx
    rw [h q hq]
    rfl
  have h1 : (st.hs.map (·.1)).flatMap
      (fun h => (st.ls.filter (fun p => h.same p.1)).map (fun p => p.1.extend now)) = [] := by
    rw [List.flatMap_eq_nil_iff]
    intro x hx
    have : st.ls.filter (fun p => x.same p.1) = [] := by
      rw [List.filter_eq_nil_iff]
      intro a _
      rw [hsame x hx]
      exact Bool.false_ne_true
    rw [this]
    rfl
  have h2 : st.ls.map (fun p => if (st.hs.map (·.1)).any (fun h => h.same p.1) then (p.1.extend now, true) else p)
      = st.ls := by
    have : ∀ p : Lease × Bool, (st.hs.map (·.1)).any (fun h => h.same p.1) = false := by
      intro p
      rw [List.any_eq_false]
      intro x hx
      rw [hsame x hx]
      exact Bool.false_ne_true
    simp only [this, Bool.false_eq_true, if_false, List.map_id']
  have h3 : st.hs.map (fun q => (q.1, q.2 || st.ls.any (fun p => q.1.same p.1))) = st.hs := by
    have : ∀ q, q ∈ st.hs → (q.1, q.2 || st.ls.any (fun p => q.1.same p.1)) = q := by
      intro q hq
      have : st.ls.any (fun p => q.1.same p.1) = false := by
        rw [List.any_eq_false]
        intro x _
        rw [h q hq]
        exact Bool.false_ne_true
      rw [this, Bool.or_false]
    rw [List.map_congr_left this, List.map_id']
  unfold CoreDhcp.loop1
  simp only
  rw [h1, h2, h3, List.append_nil]

theorem loop2_fold_given (now : Int) (ls : List (Lease × Bool)) (hg : ∀ p, p ∈ ls → p.2 = true) :
    ∀ (hs : List (HintP × Bool)) (reply : List Lease) (done : List (HintP × Bool)),
      hs.foldl (loop2Step now) (ls, reply, done) = (ls, reply, done ++ hs) := by
  have hel : ∀ h p, p ∈ ls → loop2Eligible h p = false := by
    intro h p hp
    unfold loop2Eligible
    rw [hg p hp]
    rfl
  intro hs
  induction hs with
  | nil => intro reply done; rw [List.append_nil]; rfl
  | cons q qs ih =>
    intro reply done
    rw [List.foldl_cons]
    have : loop2Step now (ls, reply, done) q = (ls, reply, done ++ [q]) := by
      unfold loop2Step
      simp only
      split
      · rfl
      · rename_i hc
        simp only [Bool.or_eq_true, Bool.not_eq_true', not_or, Bool.not_eq_true, Bool.not_eq_false] at hc
        have e1 : ls.map (fun p => if loop2Eligible q.1 p then (p.1.extend now, true) else p) = ls := by
          have : ∀ p, p ∈ ls → (if loop2Eligible q.1 p then (p.1.extend now, true) else p) = p := by
            intro p hp
            rw [hel q.1 p hp]
            rfl
          rw [List.map_congr_left this, List.map_id']
        have e2 : ls.filter (loop2Eligible q.1) = [] := by
          rw [List.filter_eq_nil_iff]
          intro p hp
          rw [hel q.1 p hp]
          exact Bool.false_ne_true
        have e3 : ls.any (loop2Eligible q.1) = false := by
          rw [List.any_eq_false]
          intro p hp
          rw [hel q.1 p hp]
          exact Bool.false_ne_true
        rw [e1, e2, e3, List.map_nil, List.append_nil, ← hc.1]
    rw [this, ih, List.append_assoc]
    rfl

theorem loop2_hintless (now : Int) (st : LoopSt) (rest : List (HintP × Bool))
    (hhs : st.hs = (HintP.empty, false) :: rest) (hls : ∀ p, p ∈ st.ls → p.2 = false) :
    loop2 now st = { st with
      ls := st.ls.map (fun p => (p.1.extend now, true))
      reply := st.reply ++ st.ls.map (fun p => p.1.extend now)
      hs := (HintP.empty, st.ls.any (loop2Eligible HintP.empty)) :: rest } := by
  have hel : ∀ p, p ∈ st.ls → loop2Eligible HintP.empty p = true := by
    intro p hp
    unfold loop2Eligible
    rw [hls p hp]
    rfl
  have first : loop2Step now (st.ls, st.reply, []) (HintP.empty, false) =
      (st.ls.map (fun p => (p.1.extend now, true)), st.reply ++ st.ls.map (fun p => p.1.extend now),
        [(HintP.empty, st.ls.any (loop2Eligible HintP.empty))]) := by
    unfold loop2Step
    simp only
    rw [if_neg (by simp [HintP.unspecified])]
    have e1 : st.ls.map (fun p => if loop2Eligible HintP.empty p then (p.1.extend now, true) else p) =
        st.ls.map (fun p => (p.1.extend now, true)) := by
      apply List.map_congr_left
      intro p hp
      rw [hel p hp]
      rfl
    have e2 : st.ls.filter (loop2Eligible HintP.empty) = st.ls := by
      rw [List.filter_eq_self]
      exact hel
    rw [e1, e2]
    rfl
  unfold CoreDhcp.loop2
  simp only
  rw [hhs, List.foldl_cons, first, loop2_fold_given]
  · rfl
  · intro p hp
    obtain ⟨p', _, rfl⟩ := List.mem_map.mp hp
    rfl

theorem loop3_skip (now : Int) (st : LoopSt) (cs : List (Option Nat)) (hr : st.reply ≠ []) :
    ∀ (hs : List (HintP × Bool)), (∀ q, q ∈ hs → q.2 = true ∨ q.1 = HintP.empty) →
      hs.foldl (loop3Step now) (some (st, cs)) = some (st, cs) := by
  intro hs
  induction hs with
  | nil => intro _; rfl
  | cons q qs ih =>
    intro hq
    rw [List.foldl_cons]
    have : loop3Step now (some (st, cs)) q = some (st, cs) := by
      unfold loop3Step
      simp only
      rcases hq q List.mem_cons_self with h | h
      · rw [if_pos h]
      · split
        · rfl
        · rw [if_pos]
          rw [h]
          simp [hr]
    rw [this]
    exact ih (fun q' hq' => hq q' (List.mem_cons_of_mem _ hq'))

theorem hintsOf_hintless (q : IAPDReq) (hl : q.hintless = true) :
    ∃ rest, hintsOf q = HintP.empty :: rest ∧ ∀ h, h ∈ rest → h = HintP.empty := by
  unfold IAPDReq.hintless at hl
  unfold hintsOf
  cases hq : q.hints with
  | nil => exact ⟨[], rfl, fun _ h => nomatch h⟩
  | cons x xs =>
    rw [hq, List.all_cons, Bool.and_eq_true, beq_iff_eq, List.all_eq_true] at hl
    refine ⟨xs, ?_, ?_⟩
    · rw [hl.1]; rfl
    · intro h hh
      have := hl.2 h hh
      rwa [beq_iff_eq] at this

/-- a known client's hint-less IA_PD is answered with exactly its leases, extended -/
theorem hintless_loops (now : Int) (s : PState) (c : ClientKey) (q : IAPDReq) (cs : List (Option Nat))
    (hl : q.hintless = true) (hK : s.leasesOf c ≠ []) :
    ∃ st, loop3 now (loop2 now (loop1 now (st0 s c q))) cs = some (st, cs) ∧
      st.reply = (s.leasesOf c).map (fun l => l.extend now) ∧ st.fresh = false := by
  obtain ⟨rest, hh, hrest⟩ := hintsOf_hintless q hl
  have hhs : (st0 s c q).hs = (HintP.empty, false) :: rest.map (fun h => (h, false)) := by
    unfold st0
    simp only
    rw [hh]
    rfl
  have hall : ∀ x, x ∈ (st0 s c q).hs → x.1 = HintP.empty := by
    intro x hx
    rw [hhs] at hx
    rcases List.mem_cons.mp hx with rfl | hx
    · rfl
    · obtain ⟨h, hh', rfl⟩ := List.mem_map.mp hx
      exact hrest h hh'
  have hls : ∀ x, x ∈ (st0 s c q).ls → x.2 = false := by
    intro x hx
    unfold st0 at hx
    simp only at hx
    obtain ⟨l, _, rfl⟩ := List.mem_map.mp hx
    rfl
  rw [loop1_noop now _ hall, loop2_hintless now _ _ hhs hls]
  refine ⟨_, loop3_skip now _ cs ?_ _ ?_, ?_, rfl⟩
  · show (st0 s c q).reply ++ (st0 s c q).ls.map (fun p => p.1.extend now) ≠ []
    unfold st0
    simp only [List.nil_append, List.map_map]
    intro he
    exact hK (List.map_eq_nil_iff.mp he)
  · intro x hx
    right
    rcases List.mem_cons.mp hx with rfl | hx
    · rfl
    · obtain ⟨h, hh', rfl⟩ := List.mem_map.mp hx
      exact hrest h hh'
  · show (st0 s c q).reply ++ (st0 s c q).ls.map (fun p => p.1.extend now) = _
    unfold st0
    simp only [List.nil_append, List.map_map]
    rfl

/-! ### an IA_PD all of whose hints are unspecified or name a lease exactly allocates nothing -/

theorem loop2Step_done' (now : Int) (acc : List (Lease × Bool) × List Lease × List (HintP × Bool))
    (q : HintP × Bool) : (loop2Step now acc q).2.2 = acc.2.2 ++ [q] ∨
      (q.2 = false ∧ ∃ b, (loop2Step now acc q).2.2 = acc.2.2 ++ [(q.1, b)]) := by
  obtain ⟨ls, reply, done⟩ := acc
  unfold CoreDhcp.loop2Step
  simp only
  split
  · exact Or.inl rfl
  · rename_i hc
    simp only [Bool.or_eq_true, not_or, Bool.not_eq_true] at hc
    exact Or.inr ⟨hc.1, _, rfl⟩

theorem loop2Step_reply (now : Int) (acc : List (Lease × Bool) × List Lease × List (HintP × Bool))
    (q : HintP × Bool) (l : Lease) (h : l ∈ acc.2.1) : l ∈ (loop2Step now acc q).2.1 := by
  obtain ⟨ls, reply, done⟩ := acc
  unfold CoreDhcp.loop2Step
  simp only
  split
  · exact h
  · exact List.mem_append_left _ h

theorem loop2_reply_mono (now : Int) (st : LoopSt) (l : Lease) (h : l ∈ st.reply) :
    l ∈ (loop2 now st).reply := by
  unfold CoreDhcp.loop2
  simp only
  exact foldl_inv_mem (loop2Step now) (fun acc => l ∈ acc.2.1) st.hs (st.ls, st.reply, [])
    (fun b a _ hb => loop2Step_reply now b a l hb) h

theorem loop2_hs_sat (now : Int) (st : LoopSt)
    (h : ∀ q, q ∈ st.hs → q.2 = true ∨ q.1 = HintP.empty) :
    ∀ q, q ∈ (loop2 now st).hs → q.2 = true ∨ q.1 = HintP.empty := by
  unfold CoreDhcp.loop2
  simp only
  apply foldl_inv_mem (loop2Step now)
    (fun acc => ∀ q, q ∈ acc.2.2 → q.2 = true ∨ q.1 = HintP.empty) st.hs (st.ls, st.reply, [])
  · intro b x hx hb q hq
    rcases loop2Step_done' now b x with e | ⟨hx2, bb, e⟩
    · rw [e] at hq
      rcases List.mem_append.mp hq with hq | hq
      · exact hb q hq
      · rw [List.mem_singleton] at hq
        subst hq
        exact h q hx
    · rw [e] at hq
      rcases List.mem_append.mp hq with hq | hq
      · exact hb q hq
      · rw [List.mem_singleton] at hq
        subst hq
        right
        rcases h x hx with h' | h'
        · rw [hx2] at h'; cases h'
        · exact h'
  · intro q hq
    cases hq

theorem exact_loops (now : Int) (s : PState) (c : ClientKey) (q : IAPDReq) (cs : List (Option Nat))
    (hall : ∀ hint, hint ∈ q.hints → hint = HintP.empty ∨ ∃ k, k ∈ s.leasesOf c ∧ hint.same k = true)
    (hsome : ∃ hint, hint ∈ q.hints ∧ ∃ k, k ∈ s.leasesOf c ∧ hint.same k = true) :
    ∃ st, loop3 now (loop2 now (loop1 now (st0 s c q))) cs = some (st, cs) ∧ st.fresh = false := by
  have hls : ∀ k, k ∈ s.leasesOf c → (k, false) ∈ (st0 s c q).ls := by
    intro k hk
    unfold st0
    simp only
    exact List.mem_map.mpr ⟨k, hk, rfl⟩
  have hhints : hintsOf q = q.hints := by
    obtain ⟨hint, hh, _⟩ := hsome
    unfold hintsOf
    cases hq : q.hints with
    | nil => rw [hq] at hh; cases hh
    | cons x xs => rfl
  -- after loop 1 every hint is satisfied or unspecified
  have hs1 : ∀ x, x ∈ (loop1 now (st0 s c q)).hs → x.2 = true ∨ x.1 = HintP.empty := by
    intro x hx
    unfold CoreDhcp.loop1 at hx
    simp only at hx
    obtain ⟨x0, hx0, rfl⟩ := List.mem_map.mp hx
    have hx0' : x0.1 ∈ q.hints := by
      unfold st0 at hx0
      simp only at hx0
      obtain ⟨h0, hh0, rfl⟩ := List.mem_map.mp hx0
      rw [hhints] at hh0
      exact hh0
    rcases hall x0.1 hx0' with he | ⟨k, hk, hs⟩
    · exact Or.inr he
    · left
      have : (st0 s c q).ls.any (fun p => x0.1.same p.1) = true :=
        List.any_eq_true.mpr ⟨(k, false), hls k hk, hs⟩
      simp only [this, Bool.or_true]
  have hs2 := loop2_hs_sat now _ hs1
  have hrep : (loop2 now (loop1 now (st0 s c q))).reply ≠ [] := by
    obtain ⟨hint, hh, k, hk, hs⟩ := hsome
    have hh' : (hint, false) ∈ (st0 s c q).hs := by
      unfold st0
      simp only
      exact List.mem_map.mpr ⟨hint, mem_hintsOf q hint hh, rfl⟩
    have := loop1_match now (st0 s c q) (hint, false) hh' (k, false) (hls k hk) hs
    exact List.ne_nil_of_mem (loop2_reply_mono now _ _ this)
  exact ⟨_, loop3_skip now _ cs hrep _ hs2, rfl⟩

/-! ### the monitor's `heldAdd` -/

def heldStep (c : ClientKey) (t0 : Int) (acc : List Held) (x : Block × Int) : List Held :=
  if acc.any (fun h => h.client == c && h.pfx == x.1)
  then acc.map (fun h => if h.client == c && h.pfx == x.1 && h.until_ < t0 + x.2 then { h with until_ := t0 + x.2 } else h)
  else ⟨c, x.1, t0 + x.2⟩ :: acc

theorem heldAdd_eq (held : List Held) (c : ClientKey) (t0 : Int) (r : IAPDResp) :
    heldAdd held c t0 r = r.pfxs.foldl (heldStep c t0) held := rfl

theorem heldStep_P (c : ClientKey) (t0 : Int) (P : Held → Prop) (acc : List Held) (x : Block × Int)
    (hacc : ∀ h, h ∈ acc → P h) (hnew : P ⟨c, x.1, t0 + x.2⟩) :
    ∀ h, h ∈ heldStep c t0 acc x → P h := by
  intro h hh
  unfold heldStep at hh
  split at hh
  · obtain ⟨h0, hh0, rfl⟩ := List.mem_map.mp hh
    split
    · rename_i hc
      simp only [Bool.and_eq_true, beq_iff_eq, decide_eq_true_eq] at hc
      obtain ⟨⟨h1, h2⟩, _⟩ := hc
      have : ({ h0 with until_ := t0 + x.2 } : Held) = ⟨c, x.1, t0 + x.2⟩ := by
        rw [← h1, ← h2]
      rw [this]
      exact hnew
    · exact hacc h0 hh0
  · rcases List.mem_cons.mp hh with rfl | hh
    · exact hnew
    · exact hacc h hh

theorem heldStep_keep (c : ClientKey) (t0 : Int) (acc : List Held) (x : Block × Int)
    (c' : ClientKey) (b' : Block) (h : ∃ h, h ∈ acc ∧ h.client = c' ∧ h.pfx = b') :
    ∃ h, h ∈ heldStep c t0 acc x ∧ h.client = c' ∧ h.pfx = b' := by
  obtain ⟨h0, hh0, h1, h2⟩ := h
  unfold heldStep
  split
  · refine ⟨_, List.mem_map.mpr ⟨h0, hh0, rfl⟩, ?_⟩
    split
    · exact ⟨h1, h2⟩
    · exact ⟨h1, h2⟩
  · exact ⟨h0, List.mem_cons_of_mem _ hh0, h1, h2⟩

theorem heldStep_new (c : ClientKey) (t0 : Int) (acc : List Held) (x : Block × Int) :
    ∃ h, h ∈ heldStep c t0 acc x ∧ h.client = c ∧ h.pfx = x.1 := by
  by_cases ha : acc.any (fun h => h.client == c && h.pfx == x.1) = true
  · apply heldStep_keep
    obtain ⟨h0, hh0, hc⟩ := List.any_eq_true.mp ha
    simp only [Bool.and_eq_true, beq_iff_eq] at hc
    exact ⟨h0, hh0, hc.1, hc.2⟩
  · unfold heldStep
    rw [if_neg ha]
    exact ⟨_, List.mem_cons_self, rfl, rfl⟩

theorem heldAdd_P (held : List Held) (c : ClientKey) (t0 : Int) (r : IAPDResp) (P : Held → Prop)
    (hacc : ∀ h, h ∈ held → P h) (hnew : ∀ x, x ∈ r.pfxs → P ⟨c, x.1, t0 + x.2⟩) :
    ∀ h, h ∈ heldAdd held c t0 r → P h := by
  rw [heldAdd_eq]
  apply foldl_inv_mem (heldStep c t0) (fun acc => ∀ h, h ∈ acc → P h) r.pfxs held
  · intro b x hx hb
    exact heldStep_P c t0 P b x hb (hnew x hx)
  · exact hacc

theorem heldAdd_keep (held : List Held) (c : ClientKey) (t0 : Int) (r : IAPDResp)
    (c' : ClientKey) (b' : Block) (h : ∃ h, h ∈ held ∧ h.client = c' ∧ h.pfx = b') :
    ∃ h, h ∈ heldAdd held c t0 r ∧ h.client = c' ∧ h.pfx = b' := by
  rw [heldAdd_eq]
  apply foldl_inv_mem (heldStep c t0) (fun acc => ∃ h, h ∈ acc ∧ h.client = c' ∧ h.pfx = b') r.pfxs held
  · intro b x _ hb
    exact heldStep_keep c t0 b x c' b' hb
  · exact h

theorem heldAdd_new (c : ClientKey) (t0 : Int) (pfxs : List (Block × Int)) :
    ∀ (held : List Held) (x : Block × Int), x ∈ pfxs →
      ∃ h, h ∈ pfxs.foldl (heldStep c t0) held ∧ h.client = c ∧ h.pfx = x.1 := by
  induction pfxs with
  | nil => intro _ x hx; cases hx
  | cons y ys ih =>
    intro held x hx
    rw [List.foldl_cons]
    rcases List.mem_cons.mp hx with rfl | hx
    · exact heldAdd_keep _ c t0 ⟨0, ys⟩ c x.1 (heldStep_new c t0 held x)
    · exact ih _ x hx

/-! ### the invariant between IA_PDs -/

structure PInv (p : Pool6) (now : Int) (s : PState) (held : List Held) : Prop where
  out : ∃ out, Inv6 p s.alloc out ∧ ∀ c l, l ∈ s.leasesOf c → l.pfx ∈ out
  good : ∀ c l, l ∈ s.leasesOf c → GoodBlk p l.pfx
  exp : ∀ c l, l ∈ s.leasesOf c → l.expire ≤ now + leaseDur
  cross : ∀ c c' l l', c ≠ c' → l ∈ s.leasesOf c → l' ∈ s.leasesOf c' → l.pfx.disjoint l'.pfx = true
  h1 : ∀ h, h ∈ held → ∃ l, l ∈ s.leasesOf h.client ∧ l.pfx = h.pfx ∧ h.until_ ≤ l.expire
  h2 : ∀ c l, l ∈ s.leasesOf c → ∃ h, h ∈ held ∧ h.client = c ∧ h.pfx = l.pfx

theorem PInv.later {p : Pool6} {now now' : Int} {s : PState} {held : List Held}
    (I : PInv p now s held) (h : now ≤ now') : PInv p now' s held :=
  ⟨I.out, I.good, fun c l hl => by have := I.exp c l hl; omega, I.cross, I.h1, I.h2⟩

/-- every lease in the loop state is a good block, disjoint from every other client's leases -/
theorem LI.lsFacts {p : Pool6} {now : Int} {s : PState} {held : List Held} {c : ClientKey}
    {out0 : List Block} {R0 : List Lease} {st : LoopSt}
    (I : PInv p now s held) (hout : ∀ c l, l ∈ s.leasesOf c → l.pfx ∈ out0)
    (L : LI p now (s.leasesOf c) out0 R0 st.alloc st.ls st.reply st.fresh)
    (q : Lease × Bool) (hq : q ∈ st.ls) :
    GoodBlk p q.1.pfx ∧
      ∀ c' l', c' ≠ c → l' ∈ s.leasesOf c' → q.1.pfx.disjoint l'.pfx = true := by
  rcases (L.src q hq).2 with ⟨k, hk, e⟩ | ⟨_, hg, hd⟩
  · rw [← e]
    exact ⟨I.good c k hk, fun c' l' hne hl' => I.cross c c' k l' (fun e => hne e.symm) hk hl'⟩
  · exact ⟨hg, fun c' l' _ hl' => hd _ (hout c' l' hl')⟩

theorem mem_heldOf (held : List Held) (c : ClientKey) (h : Held) :
    h ∈ heldOf held c ↔ h ∈ held ∧ h.client = c := by
  unfold heldOf
  rw [List.mem_filter, beq_iff_eq]

/-- the reply repeats held prefix `h` with at least the promised lifetime -/
theorem again_of (now : Int) (reply : List Lease) (h : Held) (k : Lease)
    (hk : k.pfx = h.pfx) (hu : h.until_ ≤ k.expire) (hr : k.extend now ∈ reply) :
    (reply.map (fun l => (l.pfx, l.expire - now))).any
      (fun (x : Block × Int) => x.1 == h.pfx && decide (h.until_ - now ≤ x.2)) = true := by
  rw [List.any_eq_true]
  refine ⟨_, List.mem_map.mpr ⟨_, hr, rfl⟩, ?_⟩
  simp only [Bool.and_eq_true, beq_iff_eq, decide_eq_true_eq]
  refine ⟨by rw [extend_pfx, hk], ?_⟩
  have := extend_ge k now
  omega

theorem c08_of {p : Pool6} {now : Int} {s : PState} {held : List Held} {c : ClientKey}
    {out0 : List Block} {R0 : List Lease} {st : LoopSt} (q : IAPDReq)
    (I : PInv p now s held) (hout : ∀ c l, l ∈ s.leasesOf c → l.pfx ∈ out0)
    (L : LI p now (s.leasesOf c) out0 R0 st.alloc st.ls st.reply st.fresh) :
    c08IAPD p held c q ⟨q.iaid, st.reply.map (fun l => (l.pfx, l.expire - now))⟩ = true := by
  unfold c08IAPD
  rw [Bool.and_eq_true]
  refine ⟨beq_self_eq_true _, ?_⟩
  rw [List.all_eq_true]
  intro x hx
  obtain ⟨l, hl, rfl⟩ := List.mem_map.mp hx
  obtain ⟨hls, hexp⟩ := L.rep l hl
  obtain ⟨⟨g1, g2, g3, g4⟩, hcross⟩ := L.lsFacts I hout (l, true) hls
  have hpos := leaseDur_pos
  simp only [Bool.and_eq_true, decide_eq_true_eq, beq_iff_eq, List.all_eq_true, Bool.or_eq_true]
  refine ⟨⟨⟨⟨⟨⟨g1, g2⟩, g3⟩, g4⟩, by omega⟩, by omega⟩, ?_⟩
  intro h hh
  by_cases hc : h.client = c
  · exact Or.inl hc
  · right
    obtain ⟨l', hl', e, _⟩ := I.h1 h hh
    rw [← e]
    exact hcross h.client l' hc hl'

theorem imp_bool (X Y : Bool) (h : X = true → Y = true) : (!X || Y) = true := by
  cases X
  · rfl
  · exact h rfl

theorem c09_of {p : Pool6} {now : Int} {s : PState} {held : List Held} {c : ClientKey}
    {out0 : List Block} {R0 : List Lease} {st : LoopSt} (q : IAPDReq)
    (I : PInv p now s held)
    (L : LI p now (s.leasesOf c) out0 R0 st.alloc st.ls st.reply st.fresh)
    (hmatch : ∀ hint k, hint ∈ q.hints → k ∈ s.leasesOf c → hint.same k = true → k.extend now ∈ R0)
    (hless : q.hintless = true → s.leasesOf c ≠ [] →
      st.reply = (s.leasesOf c).map (fun l => l.extend now))
    (hnof : (∀ hint, hint ∈ q.hints →
        hint = HintP.empty ∨ ∃ k, k ∈ s.leasesOf c ∧ hint.same k = true) →
      s.leasesOf c ≠ [] → st.fresh = false) :
    c09IAPD held c now q ⟨q.iaid, st.reply.map (fun l => (l.pfx, l.expire - now))⟩ = true := by
  unfold c09IAPD
  simp only []
  rw [Bool.and_eq_true, Bool.and_eq_true]
  have hKne : (!(heldOf held c).isEmpty) = true → s.leasesOf c ≠ [] := by
    intro hne
    cases hm : heldOf held c with
    | nil => rw [hm] at hne; cases hne
    | cons h0 t =>
      have : h0 ∈ heldOf held c := by rw [hm]; exact List.mem_cons_self
      obtain ⟨hm1, hm2⟩ := (mem_heldOf held c h0).mp this
      obtain ⟨k, hk, _, _⟩ := I.h1 h0 hm1
      rw [hm2] at hk
      exact List.ne_nil_of_mem hk
  have hagain : ∀ h, h ∈ heldOf held c → ∀ k, k ∈ s.leasesOf c → k.pfx = h.pfx →
      h.until_ ≤ k.expire → k.extend now ∈ st.reply →
      (List.map (fun l => (l.pfx, l.expire - now)) st.reply).any
        (fun x => x.fst == h.pfx && decide (h.until_ - now ≤ x.snd)) = true :=
    fun h _ k _ e hu hr => again_of now st.reply h k e hu hr
  refine ⟨⟨?_, ?_⟩, ?_⟩
  · rw [List.all_eq_true]
    intro hint hh
    cases hint with
    | empty => rfl
    | nomask ip v4 => rfl
    | pfx ip v4 len =>
      simp only
      rw [List.all_eq_true]
      intro h hm
      by_cases hp : h.pfx = ⟨ip, len⟩
      · obtain ⟨hm1, hm2⟩ := (mem_heldOf held c h).mp hm
        obtain ⟨k, hk, e, hu⟩ := I.h1 h hm1
        rw [hm2] at hk
        have hs : (HintP.pfx ip v4 len).same k = true := by
          unfold HintP.same
          rw [e, hp]
          simp
        rw [hagain h hm k hk e hu (L.mono _ (hmatch _ k hh hk hs))]
        exact Bool.or_true _
      · have : (h.pfx == ⟨ip, len⟩) = false := by simpa using hp
        rw [this]
        rfl
  · cases hc : (q.hintless && !(heldOf held c).isEmpty)
    · rfl
    · rw [Bool.and_eq_true] at hc
      obtain ⟨hl, hne⟩ := hc
      have hK : s.leasesOf c ≠ [] := by
        cases hm : heldOf held c with
        | nil => rw [hm] at hne; cases hne
        | cons h0 t =>
          have : h0 ∈ heldOf held c := by rw [hm]; exact List.mem_cons_self
          obtain ⟨hm1, hm2⟩ := (mem_heldOf held c h0).mp this
          obtain ⟨k, hk, _, _⟩ := I.h1 h0 hm1
          rw [hm2] at hk
          exact List.ne_nil_of_mem hk
      have hrep := hless hl hK
      simp only [Bool.not_true, Bool.false_or, Bool.and_eq_true]
      constructor
      · rw [List.all_eq_true]
        intro h hm
        obtain ⟨hm1, hm2⟩ := (mem_heldOf held c h).mp hm
        obtain ⟨k, hk, e, hu⟩ := I.h1 h hm1
        rw [hm2] at hk
        apply hagain h hm k hk e hu
        rw [hrep]
        exact List.mem_map.mpr ⟨k, hk, rfl⟩
      · rw [List.all_eq_true]
        intro x hx
        obtain ⟨l, hl', rfl⟩ := List.mem_map.mp hx
        rw [hrep] at hl'
        obtain ⟨k, hk, rfl⟩ := List.mem_map.mp hl'
        obtain ⟨h, hh1, hh2, hh3⟩ := I.h2 c k hk
        rw [List.any_eq_true]
        refine ⟨h, (mem_heldOf held c h).mpr ⟨hh1, hh2⟩, ?_⟩
        simp only [beq_iff_eq]
        rw [hh3, extend_pfx]
  · apply imp_bool
    intro hc
    rw [Bool.and_eq_true] at hc
    have hK := hKne hc.2
    have hall : ∀ hint, hint ∈ q.hints →
        hint = HintP.empty ∨ ∃ k, k ∈ s.leasesOf c ∧ hint.same k = true := by
      intro hint hh
      have := List.all_eq_true.mp hc.1 hint hh
      cases hint with
      | empty => exact Or.inl rfl
      | nomask ip v4 => cases this
      | pfx ip v4 len =>
        right
        simp only at this
        obtain ⟨h, hm, hp⟩ := List.any_eq_true.mp this
        rw [beq_iff_eq] at hp
        obtain ⟨hm1, hm2⟩ := (mem_heldOf held c h).mp hm
        obtain ⟨k, hk, e, _⟩ := I.h1 h hm1
        rw [hm2] at hk
        refine ⟨k, hk, ?_⟩
        unfold HintP.same
        rw [e, hp]
        simp
    have hf := hnof hall hK
    rw [List.all_eq_true]
    intro x hx
    obtain ⟨l, hl', rfl⟩ := List.mem_map.mp hx
    obtain ⟨k, hk, e⟩ := L.known hf (l, true) (L.rep l hl').1
    obtain ⟨h, hh1, hh2, hh3⟩ := I.h2 c k hk
    rw [List.any_eq_true]
    refine ⟨h, (mem_heldOf held c h).mpr ⟨hh1, hh2⟩, ?_⟩
    simp only [beq_iff_eq]
    rw [hh3, e]

/-- the invariant after one IA_PD, with the monitor's `held` updated from the reply -/
theorem PInv.afterIAPD {p : Pool6} {now : Int} {s s' : PState} {held : List Held} {c : ClientKey}
    {out0 : List Block} {R0 : List Lease} {st : LoopSt} (iaid : Nat)
    (I : PInv p now s held) (hout : ∀ c l, l ∈ s.leasesOf c → l.pfx ∈ out0)
    (L : LI p now (s.leasesOf c) out0 R0 st.alloc st.ls st.reply st.fresh)
    (ha : s'.alloc = st.alloc) (hlc : s'.leasesOf c = st.ls.map (·.1))
    (hframe : ∀ c', c' ≠ c → s'.leasesOf c' = s.leasesOf c') :
    PInv p now s' (heldAdd held c now ⟨iaid, st.reply.map (fun l => (l.pfx, l.expire - now))⟩) := by
  have hmem : ∀ l, l ∈ s'.leasesOf c → ∃ q, q ∈ st.ls ∧ q.1 = l := by
    intro l hl
    rw [hlc] at hl
    exact List.mem_map.mp hl
  have hmem' : ∀ q, q ∈ st.ls → q.1 ∈ s'.leasesOf c := by
    intro q hq
    rw [hlc]
    exact List.mem_map.mpr ⟨q, hq, rfl⟩
  obtain ⟨out', I6', h0, hls⟩ := L.out
  refine ⟨⟨out', ?_, ?_⟩, ?_, ?_, ?_, ?_, ?_⟩
  · rw [ha]; exact I6'
  · intro c1 l hl
    by_cases hc : c1 = c
    · subst hc
      obtain ⟨q, hq, rfl⟩ := hmem l hl
      exact hls q hq
    · rw [hframe c1 hc] at hl
      exact h0 _ (hout c1 l hl)
  · intro c1 l hl
    by_cases hc : c1 = c
    · subst hc
      obtain ⟨q, hq, rfl⟩ := hmem l hl
      exact (L.lsFacts I hout q hq).1
    · rw [hframe c1 hc] at hl
      exact I.good c1 l hl
  · intro c1 l hl
    by_cases hc : c1 = c
    · subst hc
      obtain ⟨q, hq, rfl⟩ := hmem l hl
      exact (L.src q hq).1
    · rw [hframe c1 hc] at hl
      exact I.exp c1 l hl
  · intro c1 c2 l l' hne hl hl'
    by_cases hc1 : c1 = c
    · subst hc1
      have hc2 : c2 ≠ c1 := fun e => hne e.symm
      obtain ⟨q, hq, rfl⟩ := hmem l hl
      rw [hframe c2 hc2] at hl'
      exact (L.lsFacts I hout q hq).2 c2 l' hc2 hl'
    · rw [hframe c1 hc1] at hl
      by_cases hc2 : c2 = c
      · subst hc2
        obtain ⟨q, hq, rfl⟩ := hmem l' hl'
        rw [disjoint_symm]
        exact (L.lsFacts I hout q hq).2 c1 l hc1 hl
      · rw [hframe c2 hc2] at hl'
        exact I.cross c1 c2 l l' hne hl hl'
  · apply heldAdd_P
    · intro h hh
      obtain ⟨k, hk, e, hu⟩ := I.h1 h hh
      by_cases hc : h.client = c
      · rw [hc] at hk ⊢
        obtain ⟨q, hq, e1, e2⟩ := L.keep k hk
        exact ⟨q.1, hmem' q hq, e1.trans e, Int.le_trans hu e2⟩
      · rw [hframe _ hc]
        exact ⟨k, hk, e, hu⟩
    · intro x hx
      obtain ⟨l, hl, rfl⟩ := List.mem_map.mp hx
      refine ⟨l, hmem' _ (L.rep l hl).1, rfl, ?_⟩
      show now + (l.expire - now) ≤ l.expire
      omega
  · intro c1 l hl
    by_cases hc : c1 = c
    · subst hc
      obtain ⟨q, hq, rfl⟩ := hmem l hl
      rcases (L.src q hq).2 with ⟨k, hk, e⟩ | ⟨hr, _, _⟩
      · rw [← e]
        exact heldAdd_keep _ _ _ _ _ _ (I.h2 c1 k hk)
      · rw [heldAdd_eq]
        exact heldAdd_new c1 now _ held (q.1.pfx, q.1.expire - now)
          (List.mem_map.mpr ⟨q.1, hr, rfl⟩)
    · rw [hframe c1 hc] at hl
      exact heldAdd_keep _ _ _ _ _ _ (I.h2 c1 l hl)

/-- one IA_PD: both verdicts hold and the invariant is re-established -/
theorem iapd_ok {p : Pool6} (g : Geo p) {now : Int} {s s' : PState} {held : List Held}
    {c : ClientKey} {q : IAPDReq} (hq : q.wf = true) (I : PInv p now s held)
    {cs cs' : List (Option Nat)} {r : IAPDResp}
    (h : s.handleIAPD c q now cs = some (s', r, cs')) :
    c08IAPD p held c q r = true ∧ c09IAPD held c now q r = true ∧
      PInv p now s' (heldAdd held c now r) := by
  obtain ⟨out0, I6, hout⟩ := I.out
  obtain ⟨st, R0, L, h3, ha, hlc, hframe, hr, hmatch⟩ :=
    handleIAPD_spec g hq I6 (hout c) (I.exp c) h
  subst hr
  refine ⟨c08_of q I hout L, c09_of q I L hmatch ?_ ?_, PInv.afterIAPD q.iaid I hout L ha hlc hframe⟩
  · intro hl hK
    obtain ⟨st2, e, hrep, _⟩ := hintless_loops now s c q cs hl hK
    rw [h3] at e
    simp only [Option.some.injEq, Prod.mk.injEq] at e
    rw [e.1]
    exact hrep
  · intro hall hK
    by_cases hl : q.hintless = true
    · obtain ⟨st2, e, _, hf⟩ := hintless_loops now s c q cs hl hK
      rw [h3] at e
      simp only [Option.some.injEq, Prod.mk.injEq] at e
      rw [e.1]
      exact hf
    · have hsome : ∃ hint, hint ∈ q.hints ∧ ∃ k, k ∈ s.leasesOf c ∧ hint.same k = true := by
        unfold IAPDReq.hintless at hl
        rw [List.all_eq_true] at hl
        apply Classical.byContradiction
        intro hno
        apply hl
        intro hint hh
        rcases hall hint hh with he | hk
        · rw [he]; rfl
        · exact absurd ⟨hint, hh, hk⟩ hno
      obtain ⟨st2, e, hf⟩ := exact_loops now s c q cs hall hsome
      rw [h3] at e
      simp only [Option.some.injEq, Prod.mk.injEq] at e
      rw [e.1]
      exact hf

/-! ### one message -/

theorem go_nil (now : Int) (c : ClientKey) (s : PState) (acc : List IAPDResp) (cs : List (Option Nat)) :
    PState.handleMsg.go now c s acc cs [] = some (s, some acc, cs) := rfl

theorem go_cons (now : Int) (c : ClientKey) (s : PState) (acc : List IAPDResp) (cs : List (Option Nat))
    (i : IAPDReq) (rest : List IAPDReq) :
    PState.handleMsg.go now c s acc cs (i :: rest) =
      match s.handleIAPD c i now cs with
      | none => none
      | some (s', r, cs') => PState.handleMsg.go now c s' (acc ++ [r]) cs' rest := rfl

theorem go_ok {p : Pool6} (g : Geo p) (now : Int) (c : ClientKey) :
    ∀ (qs : List IAPDReq) (s : PState) (held : List Held) (acc : List IAPDResp)
      (cs : List (Option Nat)) (s' : PState) (resp : Option (List IAPDResp)) (cs' : List (Option Nat)),
      PInv p now s held → qs.all IAPDReq.wf = true →
      PState.handleMsg.go now c s acc cs qs = some (s', resp, cs') →
      ∃ rs, resp = some (acc ++ rs) ∧ (PMon.goIAPDs p c now now held qs rs).2.all = true ∧
        PInv p now s' (PMon.goIAPDs p c now now held qs rs).1 := by
  intro qs
  induction qs with
  | nil =>
    intro s held acc cs s' resp cs' I _ h
    rw [go_nil] at h
    simp only [Option.some.injEq, Prod.mk.injEq] at h
    obtain ⟨rfl, rfl, _⟩ := h
    exact ⟨[], by rw [List.append_nil], rfl, I⟩
  | cons q qs ih =>
    intro s held acc cs s' resp cs' I hwf h
    rw [List.all_cons, Bool.and_eq_true] at hwf
    rw [go_cons] at h
    split at h
    · cases h
    · rename_i s1 r cs1 h1
      obtain ⟨v8, v9, I1⟩ := iapd_ok g hwf.1 I h1
      obtain ⟨rs, e, hv, I2⟩ := ih s1 _ _ cs1 s' resp cs' I1 hwf.2 h
      refine ⟨r :: rs, ?_, ?_, ?_⟩
      · rw [e, List.append_assoc]; rfl
      · unfold PVerdict.all at hv ⊢
        rw [Bool.and_eq_true] at hv
        show (c08IAPD p held c q r && _ && (c09IAPD held c now q r && _)) = true
        rw [v8, v9, hv.1, hv.2]
        rfl
      · exact I2

theorem msg_ok {p : Pool6} (g : Geo p) {now : Int} {s s' : PState} {held : List Held}
    (client : Option ClientKey) (iapds : List IAPDReq) (hwf : iapds.all IAPDReq.wf = true)
    (I : PInv p now s held) {cs cs' : List (Option Nat)} {resp : Option (List IAPDResp)}
    (h : s.handleMsg client iapds now cs = some (s', resp, cs')) :
    (PMon.step p held ⟨client, iapds, now, now, resp⟩).2.all = true ∧
      PInv p now s' (PMon.step p held ⟨client, iapds, now, now, resp⟩).1 := by
  cases client with
  | none =>
    have : s.handleMsg none iapds now cs = some (s, none, cs) := rfl
    rw [this] at h
    simp only [Option.some.injEq, Prod.mk.injEq] at h
    obtain ⟨rfl, rfl, _⟩ := h
    exact ⟨rfl, I⟩
  | some c =>
    have : s.handleMsg (some c) iapds now cs = PState.handleMsg.go now c s [] cs iapds := rfl
    rw [this] at h
    obtain ⟨rs, e, hv, I'⟩ := go_ok g now c iapds s held [] cs s' resp cs' I hwf h
    rw [List.nil_append] at e
    subst e
    exact ⟨hv, I'⟩

/-! ### runs -/

theorem run_nil (s : PState) (cs : List (Option Nat)) : PState.run s [] cs = some ([], s) := rfl

theorem run_cons (s : PState) (op : POp) (ops : List POp) (cs : List (Option Nat)) :
    PState.run s (op :: ops) cs =
      match s.handleMsg op.client op.iapds op.now cs with
      | none => none
      | some (s', resp, cs') =>
        (PState.run s' ops cs').map
          (fun (evs, z) => (⟨op.client, op.iapds, op.now, op.now, resp⟩ :: evs, z)) := rfl

theorem monotone_tail (a : POp) (l : List POp) (h : POp.monotone (a :: l) = true) :
    POp.monotone l = true ∧ ∀ b, b ∈ l.head? → a.now ≤ b.now := by
  cases l with
  | nil => exact ⟨rfl, fun _ hb => nomatch hb⟩
  | cons b rest =>
    unfold POp.monotone at h
    rw [Bool.and_eq_true, decide_eq_true_eq] at h
    refine ⟨h.2, ?_⟩
    intro b' hb'
    simp only [List.head?_cons, Option.mem_def, Option.some.injEq] at hb'
    subst hb'
    exact h.1

theorem run_ok {p : Pool6} (g : Geo p) :
    ∀ (ops : List POp) (s : PState) (held : List Held) (t : Int) (cs : List (Option Nat))
      (evs : List PEv) (z : PState),
      PInv p t s held → (∀ op, op ∈ ops.head? → t ≤ op.now) →
      ops.all (fun op => op.iapds.all IAPDReq.wf) = true → POp.monotone ops = true →
      PState.run s ops cs = some (evs, z) →
      (PMon.run p held evs).all PVerdict.all = true := by
  intro ops
  induction ops with
  | nil =>
    intro s held t cs evs z _ _ _ _ h
    rw [run_nil] at h
    simp only [Option.some.injEq, Prod.mk.injEq] at h
    rw [← h.1]
    rfl
  | cons op ops ih =>
    intro s held t cs evs z I ht hwf hmono h
    rw [List.all_cons, Bool.and_eq_true] at hwf
    obtain ⟨hm1, hm2⟩ := monotone_tail op ops hmono
    have I0 := I.later (ht op rfl)
    rw [run_cons] at h
    split at h
    · cases h
    · rename_i s1 resp cs1 h1
      obtain ⟨hv, I1⟩ := msg_ok g op.client op.iapds hwf.1 I0 h1
      rw [Option.map_eq_some_iff] at h
      obtain ⟨⟨evs', z'⟩, hrun, e⟩ := h
      simp only [Prod.mk.injEq] at e
      obtain ⟨rfl, rfl⟩ := e
      simp only [PMon.run, List.all_cons, Bool.and_eq_true]
      exact ⟨hv, ih s1 _ op.now cs1 evs' z' I1 hm2 hwf.2 hm1 hrun⟩

theorem PInv.init {p : Pool6} {a : A6} (hnew : A6.new p = .ok a) (t : Int) : PInv p t ⟨a, []⟩ [] := by
  have hl : ∀ c, PState.leasesOf ⟨a, []⟩ c = [] := fun _ => rfl
  refine ⟨⟨[], Inv6.init hnew, ?_⟩, ?_, ?_, ?_, ?_, ?_⟩
  · intro c l hl'; rw [hl] at hl'; cases hl'
  · intro c l hl'; rw [hl] at hl'; cases hl'
  · intro c l hl'; rw [hl] at hl'; cases hl'
  · intro c c' l l' _ hl'; rw [hl] at hl'; cases hl'
  · intro h hh; cases hh
  · intro c l hl'; rw [hl] at hl'; cases hl'

end PrefixProof

/-- Every run of the prefix-plugin model from a freshly set-up well-formed IPv6 pool — any
messages from any clients with any IA_PDs and hints, any admissible allocator choices, a clock
that does not run backwards — passes the C08 and C09 monitors at every step. -/
theorem PState.run_verdicts (pool : Pool6) (hp : pool.WF) (a : A6) (hnew : A6.new pool = .ok a)
    (ops : List POp) (hwf : ops.all (fun op => op.iapds.all IAPDReq.wf) = true)
    (hmono : POp.monotone ops = true)
    (cs : List (Option Nat)) (evs : List PEv) (z : PState)
    (hrun : PState.run ⟨a, []⟩ ops cs = some (evs, z)) :
    (PMon.run pool [] evs).all PVerdict.all = true := by
  cases ops with
  | nil =>
    exact PrefixProof.run_ok (Geo.of_WF hp) [] ⟨a, []⟩ [] 0 cs evs z (PrefixProof.PInv.init hnew 0)
      (fun _ h => nomatch h) hwf hmono hrun
  | cons op ops =>
    refine PrefixProof.run_ok (Geo.of_WF hp) (op :: ops) ⟨a, []⟩ [] op.now cs evs z
      (PrefixProof.PInv.init hnew op.now) ?_ hwf hmono hrun
    intro op' h
    simp only [List.head?_cons, Option.mem_def, Option.some.injEq] at h
    subst h
    exact Int.le_refl _

/-- a message never changes the records of another client -/
theorem PState.handleMsg_frame (s s' : PState) (c c' : ClientKey) (iapds : List IAPDReq) (now : Int)
    (cs cs' : List (Option Nat)) (resp : Option (List IAPDResp)) (hne : c' ≠ c)
    (h : s.handleMsg (some c) iapds now cs = some (s', resp, cs')) :
    s'.leasesOf c' = s.leasesOf c' := by
  have hgo : ∀ (qs : List IAPDReq) (s : PState) (acc : List IAPDResp) (cs : List (Option Nat)),
      PState.handleMsg.go now c s acc cs qs = some (s', resp, cs') →
      s'.leasesOf c' = s.leasesOf c' := by
    intro qs
    induction qs with
    | nil =>
      intro s acc cs h
      rw [PrefixProof.go_nil] at h
      simp only [Option.some.injEq, Prod.mk.injEq] at h
      rw [h.1]
    | cons q qs ih =>
      intro s acc cs h
      rw [PrefixProof.go_cons] at h
      split at h
      · cases h
      · rename_i s1 r cs1 h1
        rw [ih s1 _ cs1 h]
        rw [PrefixProof.handleIAPD_eq] at h1
        split at h1
        · cases h1
        · simp only [Option.some.injEq, Prod.mk.injEq] at h1
          rw [← h1.1]
          split
          · exact PrefixProof.leasesOf_put_ne s _ c c' _ hne
          · rfl
  exact hgo iapds s [] cs h

end CoreDhcp
