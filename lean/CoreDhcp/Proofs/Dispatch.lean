import CoreDhcp.Spec.Dispatch
set_option linter.unusedSimpArgs false
namespace CoreDhcp

/-! ## helpers: the chain -/

section chainLemmas
variable {Req Resp : Type}

theorem chainLen_spec (hs : List (Req → Option Resp → Option Resp × Bool)) (req : Req) (r0 : Option Resp) :
    chainLen hs req r0 ≤ hs.length ∧
    (∀ i, i + 1 < chainLen hs req r0 → chainStops hs req r0 i = false) ∧
    (chainLen hs req r0 < hs.length → chainStops hs req r0 (chainLen hs req r0 - 1) = true ∧ 0 < chainLen hs req r0) := by
  unfold chainLen
  split
  · next i hi =>
    rw [List.find?_range_eq_some] at hi
    obtain ⟨h1, h2, h3⟩ := hi
    rw [List.mem_range] at h2
    refine ⟨by omega, ?_, ?_⟩
    · intro j hj
      have := h3 j (by omega)
      simpa using this
    · intro _
      exact ⟨by simpa using h1, by omega⟩
  · next hn =>
    rw [List.find?_range_eq_none] at hn
    refine ⟨Nat.le_refl _, ?_, ?_⟩
    · intro j hj
      have := hn j (by omega)
      simpa using this
    · intro h; omega

theorem go_spec (hs : List (Req → Option Resp → Option Resp × Bool)) (req : Req) (r0 : Option Resp) (L : Nat)
    (hL1 : L ≤ hs.length)
    (hL2 : ∀ i, i + 1 < L → chainStops hs req r0 i = false)
    (hL3 : L < hs.length → chainStops hs req r0 (L - 1) = true ∧ 0 < L) :
    ∀ (suf : List (Req → Option Resp → Option Resp × Bool)) (k : Nat), hs.drop k = suf → k ≤ L →
      (∀ j, j < k → chainStops hs req r0 j = false) →
      runChain.go req suf k (chainIn hs req r0 k) =
        (chainIn hs req r0 L, (List.range' k (L - k)).map (fun i => (i, chainIn hs req r0 i))) := by
  intro suf
  induction suf with
  | nil =>
    intro k hdrop hk hns
    have hlen : hs.length ≤ k := by simpa using hdrop
    have : k = L := by omega
    subst this
    simp [runChain.go]
  | cons h rest ih =>
    intro k hdrop hk hns
    have hklt : k < hs.length := by
      apply Nat.lt_of_not_le
      intro hle
      rw [List.drop_of_length_le hle] at hdrop
      cases hdrop
    have hget : hs[k]? = some h := by
      have := congrArg List.head? hdrop
      simpa [List.head?_drop] using this
    have hdrop' : hs.drop (k + 1) = rest := by
      have := congrArg List.tail hdrop
      simpa using this
    have hstop : chainStops hs req r0 k = (h req (chainIn hs req r0 k)).2 := by
      simp [chainStops, hget]
    have hin : chainIn hs req r0 (k + 1) = (h req (chainIn hs req r0 k)).1 := by
      simp [chainIn, hget]
    have hkL : k < L := by
      apply Nat.lt_of_not_le
      intro hle
      have hkeq : k = L := by omega
      subst hkeq
      have := hL3 hklt
      have h2 := hns (k - 1) (by omega)
      rw [h2] at this
      exact absurd this.1 (by simp)
    unfold runChain.go
    by_cases hs2 : (h req (chainIn hs req r0 k)).2 = true
    · simp only [hs2, if_true]
      have hLk : L = k + 1 := by
        apply Nat.le_antisymm
        · apply Nat.le_of_not_lt
          intro hlt
          have := hL2 k hlt
          rw [hstop, hs2] at this
          cases this
        · omega
      subst hLk
      have : k + 1 - k = 1 := by omega
      simp [this, hin]
    · have hs2' : (h req (chainIn hs req r0 k)).2 = false := by simpa using hs2
      simp only [hs2']
      have ihk := ih (k + 1) hdrop' (by omega) (by
        intro j hj
        by_cases hjk : j = k
        · subst hjk; rw [hstop, hs2']
        · exact hns j (by omega))
      rw [hin] at ihk
      have : L - k = (L - (k + 1)) + 1 := by omega
      simp [ihk, this, List.range'_succ]

theorem runChain_eq (hs : List (Req → Option Resp → Option Resp × Bool)) (req : Req) (n : Nat) (r : Option Resp) :
    runChain hs req n r = runChain.go req hs 0 r := rfl

/-- generic invariant of the chain -/
theorem go_invariant (P : Option Resp → Prop) (req : Req)
    (hs : List (Req → Option Resp → Option Resp × Bool))
    (hP : ∀ h ∈ hs, ∀ r, P r → P (h req r).1) :
    ∀ i r, P r → P (runChain.go req hs i r).1 := by
  induction hs with
  | nil => intro i r hr; simpa [runChain.go] using hr
  | cons h rest ih =>
    intro i r hr
    unfold runChain.go
    have hh := hP h (by simp) r hr
    by_cases hs2 : (h req r).2 = true
    · simpa [hs2] using hh
    · have hs2' : (h req r).2 = false := by simpa using hs2
      simp only [hs2']
      exact ih (fun h' hm => hP h' (by simp [hm])) (i + 1) _ hh

theorem runChain_invariant (P : Option Resp → Prop) (req : Req)
    (hs : List (Req → Option Resp → Option Resp × Bool))
    (hP : ∀ h ∈ hs, ∀ r, P r → P (h req r).1) (n : Nat) (r : Option Resp) (hr : P r) :
    P (runChain hs req n r).1 := by
  rw [runChain_eq]
  exact go_invariant P req hs hP 0 r hr

end chainLemmas

/-! C13 : the fold -/
theorem C13_chain {Req Resp : Type} (hs : List (Req → Option Resp → Option Resp × Bool)) (req : Req) (r0 : Option Resp) :
    (runChain hs req 0 r0).2 = (List.range (chainLen hs req r0)).map (fun i => (i, chainIn hs req r0 i)) ∧
    (runChain hs req 0 r0).1 = chainIn hs req r0 (chainLen hs req r0) := by
  obtain ⟨h1, h2, h3⟩ := chainLen_spec hs req r0
  have := go_spec hs req r0 (chainLen hs req r0) h1 h2 h3 hs 0 (by simp) (Nat.zero_le _) (by intro j hj; omega)
  have h0 : chainIn hs req r0 0 = r0 := by simp [chainIn]
  rw [h0] at this
  rw [runChain_eq, this]
  simp [List.range_eq_range']

/-- nobody before the last invoked handler stopped; if the chain was cut short, the last one did -/
theorem C13_chain_stops {Req Resp : Type} (hs : List (Req → Option Resp → Option Resp × Bool)) (req : Req) (r0 : Option Resp) :
    chainLen hs req r0 ≤ hs.length ∧
    (∀ i, i + 1 < chainLen hs req r0 → chainStops hs req r0 i = false) ∧
    (chainLen hs req r0 < hs.length → chainStops hs req r0 (chainLen hs req r0 - 1) = true ∧ 0 < chainLen hs req r0) :=
  chainLen_spec hs req r0

/-! ## DHCPv4 -/

theorem stub4_some (req : Req4) (r0 : Resp4) (h : stub4 req = some r0) :
    req.op = 1 ∧ (req.mt = 1 ∨ req.mt = 3) ∧ echo4 req r0 = true ∧ typeOk4 req r0 = true := by
  unfold stub4 at h
  split at h
  · cases h
  · next hop =>
    have hop' : req.op = 1 := by simpa using hop
    split at h
    · next hmt =>
      cases h
      simp [echo4, typeOk4, hop', hmt]
    · split at h
      · next hmt =>
        cases h
        simp [echo4, typeOk4, hop', hmt]
      · cases h

theorem pin_eq (bound : Nat) (oob : Option Nat) :
    pin bound oob = (if bound != 0 then some bound else oob.bind (fun i => if i != 0 then some i else none)) := by
  unfold pin
  cases oob <;> simp

theorem ite_send {c : Prop} [Decidable c] {a a' : Resp4} {b b' : BitVec 32} {p p' : Nat}
    {w w' : Option Nat} {l l' : Bool}
    (h : (if c then Out4.panicNoIf else Out4.send a b p w l) = Out4.send a' b' p' w' l') :
    ¬c ∧ a = a' ∧ b = b' ∧ p = p' ∧ w = w' ∧ l = l' := by
  split at h
  · cases h
  · next hc =>
    injection h with e1 e2 e3 e4 e5
    exact ⟨hc, e1, e2, e3, e4, e5⟩

theorem dispatch4_send (bound : Nat) (oob : Option Nat) (hs : List Handler4) (input : Option Req4)
    (resp : Resp4) (peer : BitVec 32) (port : Nat) (ifidx : Option Nat) (l2 : Bool)
    (h : dispatch4 bound oob hs input = .send resp peer port ifidx l2) :
    ∃ req r0, input = some req ∧ stub4 req = some r0 ∧ (runChain hs req 0 (some r0)).1 = some resp := by
  unfold dispatch4 at h
  split at h
  · cases h
  · next req =>
    split at h
    · cases h
    · next r0 h0 =>
      split at h
      · cases h
      · next resp' hc =>
        have e1 := (ite_send h).2.1
        subst e1
        exact ⟨req, r0, rfl, h0, hc⟩

/-- non-requests are never answered, whatever the handlers do -/
theorem C11_only_requests (bound : Nat) (oob : Option Nat) (hs : List Handler4) (input : Option Req4)
    (resp : Resp4) (peer : BitVec 32) (port : Nat) (ifidx : Option Nat) (l2 : Bool)
    (h : dispatch4 bound oob hs input = .send resp peer port ifidx l2) :
    ∃ req, input = some req ∧ req.op = 1 ∧ (req.mt = 1 ∨ req.mt = 3) := by
  obtain ⟨req, r0, hi, h0, _⟩ := dispatch4_send bound oob hs input resp peer port ifidx l2 h
  obtain ⟨h1, h2, _⟩ := stub4_some req r0 h0
  exact ⟨req, hi, h1, h2⟩

/-! C11 -/
theorem C11_dispatch (bound : Nat) (oob : Option Nat) (hs : List Handler4) (input : Option Req4)
    (hpres : ∀ h ∈ hs, Handler4.Preserving h ∧ Handler4.NilPreserving h) :
    C11.holds input (dispatch4 bound oob hs input) = true := by
  generalize hout : dispatch4 bound oob hs input = out
  cases out with
  | drop => simp [C11.holds]
  | panicNoIf => simp [C11.holds]
  | send resp peer port ifidx l2 =>
    obtain ⟨req, r0, hi, h0, hc⟩ := dispatch4_send bound oob hs input resp peer port ifidx l2 hout
    obtain ⟨h1, h2, h3, h4⟩ := stub4_some req r0 h0
    subst hi
    have hinv := runChain_invariant
      (fun r => ∀ x, r = some x → echo4 req x = true ∧ typeOk4 req x = true) req hs
      (by
        intro h hm r hr x hx
        obtain ⟨hp, hn⟩ := hpres h hm
        cases r with
        | none =>
          have := hn req (h req none).2 (h req none).1 rfl
          rw [this] at hx; cases hx
        | some y =>
          obtain ⟨e, t⟩ := hr y rfl
          have := hp req y x (h req (some y)).2 (by rw [← hx])
          exact ⟨this.1 e, this.2 t⟩)
      0 (some r0) (by intro x hx; cases hx; exact ⟨h3, h4⟩)
    obtain ⟨e, t⟩ := hinv resp hc
    simp only [C11.holds, e, t, h1, Bool.and_true]
    rcases h2 with h2 | h2 <;> simp [h2]

/-- the part of `dispatch4` after the chain returned `some resp` -/
def deliver4 (bound : Nat) (oob : Option Nat) (req : Req4) (resp : Resp4) : Out4 :=
  let p := peer4 req resp
  let needPin := p.1 == bcast4 || isLinkLocal4 p.1 || p.2.2
  let woob := if needPin then pin bound oob else none
  if p.2.2 && woob.isNone then .panicNoIf
  else .send resp p.1 p.2.1 woob p.2.2

theorem dispatch4_eq (bound : Nat) (oob : Option Nat) (hs : List Handler4) (req : Req4) (r0 : Resp4)
    (h0 : stub4 req = some r0) :
    dispatch4 bound oob hs (some req) =
      match (runChain hs req 0 (some r0)).1 with
      | none => .drop
      | some resp => deliver4 bound oob req resp := by
  cases hc : (runChain hs req 0 (some r0)).1 <;> simp only [dispatch4, h0, deliver4, hc]

theorem pin_none (bound : Nat) (oob : Option Nat) (h : pin bound oob = none) :
    bound = 0 ∧ oob.getD 0 = 0 := by
  unfold pin at h
  split at h
  · cases h
  · next hb =>
    refine ⟨by omega, ?_⟩
    cases oob with
    | none => rfl
    | some i =>
      simp only at h
      split at h
      · cases h
      · simp; omega

theorem C15_deliver (bound : Nat) (oob : Option Nat) (req : Req4) (resp : Resp4) :
    C15.holds bound oob (some req) (deliver4 bound oob req resp) = true := by
  have hpin : (if bound = 0 then oob.bind fun i => if i = 0 then none else some i else some bound)
      = pin bound oob := by
    rw [pin_eq]; cases oob <;> by_cases hb : bound = 0 <;> simp [hb]
  unfold deliver4 peer4
  by_cases hg : req.giaddr = 0#32
  · have hg' : (req.giaddr != 0#32) = false := by simp [hg]
    by_cases hn : resp.mt = 6
    · have hn' : (resp.mt == 6) = true := by simp [hn]
      simp [hg, hn, C15.holds, C15.expected, bcast4, hpin]
    · have hn' : (resp.mt == 6) = false := by simp [hn]
      by_cases hc : req.ciaddr = 0#32
      · have hc' : (req.ciaddr != 0#32) = false := by simp [hc]
        by_cases hf : req.flags / 32768 % 2 = 1
        · have hf' : (req.flags / 32768 % 2 == 1) = true := by simp [hf]
          simp [hg, hg', hn, hn', hc, hc', hf, hf', C15.holds, C15.expected, bcast4, hpin]
        · have hf' : (req.flags / 32768 % 2 == 1) = false := by simp [hf]
          cases hp : pin bound oob with
          | none =>
            have := pin_none bound oob hp
            simp [hg, hn, hc, hf, C15.holds, hp, this]
          | some w =>
            simp [hg, hg', hn, hn', hc, hc', hf, hf', C15.holds, C15.expected, hpin, hp]
      · have hc' : (req.ciaddr != 0#32) = true := by simp [hc]
        simp [hg, hg', hn, hn', hc, hc', C15.holds, C15.expected, bcast4, hpin, or_comm]
  · have hg' : (req.giaddr != 0#32) = true := by simp [hg]
    simp [hg, hg', C15.holds, C15.expected, bcast4, hpin, or_comm]

theorem C15_dispatch (bound : Nat) (oob : Option Nat) (hs : List Handler4) (input : Option Req4) :
    C15.holds bound oob input (dispatch4 bound oob hs input) = true := by
  cases input with
  | none => simp [dispatch4, C15.holds]
  | some req =>
    cases h0 : stub4 req with
    | none => simp [dispatch4, h0, C15.holds]
    | some r0 =>
      rw [dispatch4_eq bound oob hs req r0 h0]
      split
      · simp [C15.holds]
      · exact C15_deliver bound oob req _

theorem pin_some (bound : Nat) (oob : Option Nat) (henv : bound ≠ 0 ∨ ∃ i, oob = some i ∧ i ≠ 0) :
    (pin bound oob).isNone = false := by
  unfold pin
  by_cases hb : bound = 0
  · rcases henv with h | ⟨i, rfl, hi⟩
    · exact absurd hb h
    · simp [hb, hi]
  · simp [hb]

theorem deliver4_no_panic (bound : Nat) (oob : Option Nat) (req : Req4) (resp : Resp4)
    (henv : bound ≠ 0 ∨ ∃ i, oob = some i ∧ i ≠ 0) : deliver4 bound oob req resp ≠ .panicNoIf := by
  have hp := pin_some bound oob henv
  unfold deliver4
  dsimp only
  by_cases hl : (peer4 req resp).2.2 = true
  · simp [hl, hp]
  · simp [hl]

/-- within the property's configuration space (listener bound, or the kernel reported the receiving
interface) the link-layer path always has an interface -/
theorem C15_no_panic (bound : Nat) (oob : Option Nat) (hs : List Handler4) (input : Option Req4)
    (henv : bound ≠ 0 ∨ ∃ i, oob = some i ∧ i ≠ 0) : dispatch4 bound oob hs input ≠ .panicNoIf := by
  cases input with
  | none => simp [dispatch4]
  | some req =>
    cases h0 : stub4 req with
    | none => simp [dispatch4, h0]
    | some r0 =>
      rw [dispatch4_eq bound oob hs req r0 h0]
      split
      · simp
      · exact deliver4_no_panic bound oob req _ henv

theorem deliver4_cases (bound : Nat) (oob : Option Nat) (req : Req4) (resp : Resp4) :
    deliver4 bound oob req resp = .panicNoIf ∨
    ∃ peer port ifidx l2, deliver4 bound oob req resp = .send resp peer port ifidx l2 := by
  unfold deliver4
  dsimp only
  generalize ((peer4 req resp).2.2 && _) = c
  cases c
  · exact Or.inr ⟨_, _, _, _, rfl⟩
  · exact Or.inl rfl

/-- what is sent is the response the chain returned; a nil response means nothing is sent -/
theorem C13_sent4 (bound : Nat) (oob : Option Nat) (hs : List Handler4) (req : Req4) (r0 : Resp4)
    (h0 : stub4 req = some r0) :
    (match dispatch4 bound oob hs (some req) with
     | .send resp _ _ _ _ => (runChain hs req 0 (some r0)).1 = some resp
     | .drop => (runChain hs req 0 (some r0)).1 = none
     | .panicNoIf => (runChain hs req 0 (some r0)).1 ≠ none) := by
  rw [dispatch4_eq bound oob hs req r0 h0]
  cases hc : (runChain hs req 0 (some r0)).1 with
  | none => simp
  | some resp =>
    dsimp only
    rcases deliver4_cases bound oob req resp with h | ⟨a, b, c, d, h⟩ <;> rw [h] <;> simp

/-! ## DHCPv6 -/

/-- the part of `dispatch6` after the chain returned `some resp` -/
def deliver6 (bound : Nat) (oob : Option Nat) (src : Addr) (d : Pkt6) (resp : Resp6) : Out6 :=
  let woob := if isLinkLocal6 src then pin bound oob else none
  match d.layers with
  | [] => .send [] resp woob
  | l :: _ =>
    if l.mt ≠ 12 then .drop
    else .send (mirror d.layers) resp woob

theorem dispatch6_eq (bound : Nat) (oob : Option Nat) (src : Addr) (hs : List Handler6) (d : Pkt6) (m : Msg6)
    (r0 : Resp6) (hm : d.msg = some m) (h0 : stub6 m = some r0) :
    dispatch6 bound oob src hs (some d) =
      match (runChain hs d 0 (some r0)).1 with
      | none => .drop
      | some resp => deliver6 bound oob src d resp := by
  cases hc : (runChain hs d 0 (some r0)).1 <;> simp only [dispatch6, hm, h0, deliver6, hc]
  generalize d.layers = ls
  cases ls <;> rfl

theorem deliver6_cases (bound : Nat) (oob : Option Nat) (src : Addr) (d : Pkt6) (resp : Resp6) :
    (deliver6 bound oob src d resp = .drop ∧ ∃ l rest, d.layers = l :: rest ∧ l.mt ≠ 12) ∨
    deliver6 bound oob src d resp =
      .send (mirror d.layers) resp (if isLinkLocal6 src then pin bound oob else none) := by
  unfold deliver6
  dsimp only
  cases hl : d.layers with
  | nil => right; simp [mirror]
  | cons l rest =>
    dsimp only
    by_cases h12 : l.mt = 12
    · right; simp [h12]
    · left; simp [h12]

theorem dispatch6_send (bound : Nat) (oob : Option Nat) (src : Addr) (hs : List Handler6) (input : Option Pkt6)
    (layers : List Layer6) (resp : Resp6) (ifidx : Option Nat)
    (h : dispatch6 bound oob src hs input = .send layers resp ifidx) :
    ∃ d m r0, input = some d ∧ d.msg = some m ∧ stub6 m = some r0 ∧
      (runChain hs d 0 (some r0)).1 = some resp ∧ layers = mirror d.layers ∧
      ifidx = (if isLinkLocal6 src then pin bound oob else none) := by
  cases input with
  | none => simp [dispatch6] at h
  | some d =>
    cases hm : d.msg with
    | none => simp [dispatch6, hm] at h
    | some m =>
      cases h0 : stub6 m with
      | none => simp [dispatch6, hm, h0] at h
      | some r0 =>
        rw [dispatch6_eq bound oob src hs d m r0 hm h0] at h
        cases hc : (runChain hs d 0 (some r0)).1 with
        | none => simp [hc] at h
        | some resp' =>
          rw [hc] at h
          dsimp only at h
          rcases deliver6_cases bound oob src d resp' with ⟨hd, _⟩ | hd
          · rw [hd] at h; cases h
          · rw [hd] at h
            injection h with e1 e2 e3
            subst e2
            exact ⟨d, m, r0, rfl, hm, h0, hc, e1.symm, e3.symm⟩

theorem stub6_some (m : Msg6) (r0 : Resp6) (h : stub6 m = some r0) :
    replyType6 m = some r0.mt ∧ r0.xid = m.xid ∧ m.cid.isSome = true ∧ r0.cid = m.cid ∧
      r0.rapid = (m.mt == 1 && m.rapid) := by
  unfold stub6 at h
  split at h
  · cases h
  · next c hcid =>
    split at h
    · next h1 =>
      split at h
      · next hr => cases h; simp [replyType6, h1, hr, hcid]
      · next hr => cases h; simp [replyType6, h1, hr, hcid]
    · next h1 =>
      split at h
      · next h2 =>
        cases h
        have : (m.mt == 1) = false := by simp [h1]
        simp [replyType6, h1, h2, hcid]
      · cases h

theorem mirror_zip_all (ls : List Layer6) :
    ((mirror ls).zip ls).all
      (fun (a, b) => a.mt == 13 && a.link == b.link && a.peer == b.peer && a.iid == b.iid) = true := by
  induction ls with
  | nil => simp [mirror]
  | cons l rest ih =>
    simp only [mirror, List.map_cons, List.zip_cons_cons, List.all_cons] at ih ⊢
    simp [ih]

theorem mirror_length (ls : List Layer6) : (mirror ls).length = ls.length := by simp [mirror]

/-! C12 -/
theorem C12_dispatch (bound : Nat) (oob : Option Nat) (src : Addr) (hs : List Handler6) (input : Option Pkt6)
    (hpres : ∀ h ∈ hs, Handler6.Preserving h ∧ Handler6.NilPreserving h) :
    C12.holds bound oob src input (dispatch6 bound oob src hs input) = true := by
  generalize hout : dispatch6 bound oob src hs input = out
  cases out with
  | drop => simp [C12.holds]
  | send layers resp ifidx =>
    obtain ⟨d, m, r0, hi, hm, h0, hc, hl, hif⟩ := dispatch6_send bound oob src hs input layers resp ifidx hout
    obtain ⟨s1, s2, s3, s4, s5⟩ := stub6_some m r0 h0
    subst hi hl hif
    have hinv := runChain_invariant
      (fun r => ∀ x, r = some x → x.mt = r0.mt ∧ x.xid = r0.xid ∧ x.cid = r0.cid ∧ x.rapid = r0.rapid) d hs
      (by
        intro h hmem r hr x hx
        obtain ⟨hp, hn⟩ := hpres h hmem
        cases r with
        | none =>
          have := hn d (h d none).2 (h d none).1 rfl
          rw [this] at hx; cases hx
        | some y =>
          obtain ⟨a1, a2, a3, a4⟩ := hr y rfl
          obtain ⟨b1, b2, b3, b4⟩ := hp d y x (h d (some y)).2 (by rw [← hx])
          exact ⟨b1.trans a1, b2.trans a2, b3.trans a3, b4.trans a4⟩)
      0 (some r0) (by intro x hx; cases hx; exact ⟨rfl, rfl, rfl, rfl⟩)
    obtain ⟨a1, a2, a3, a4⟩ := hinv resp hc
    have hz := mirror_zip_all d.layers
    have hpin := pin_eq bound oob
    simp only [C12.holds, hm, a1, a2, a3, a4, s1, s2, s3, s4, s5, mirror_length, hz, ← hpin]
    simp

/-- any nesting depth: the reply has exactly as many layers as the request, each mirrored -/
theorem C12_relay_mirror (bound : Nat) (oob : Option Nat) (src : Addr) (hs : List Handler6) (d : Pkt6)
    (layers : List Layer6) (resp : Resp6) (ifidx : Option Nat)
    (h : dispatch6 bound oob src hs (some d) = .send layers resp ifidx) :
    layers.length = d.layers.length ∧
    ∀ i (hi : i < layers.length) (hj : i < d.layers.length),
      layers[i].mt = 13 ∧ layers[i].link = d.layers[i].link ∧ layers[i].peer = d.layers[i].peer ∧
      layers[i].iid = d.layers[i].iid ∧ layers[i].rid = d.layers[i].rid := by
  obtain ⟨d', m, r0, hi, hm, h0, hc, hl, hif⟩ := dispatch6_send bound oob src hs _ layers resp ifidx h
  cases hi
  subst hl
  refine ⟨mirror_length _, ?_⟩
  intro i hi hj
  simp [mirror]

theorem C13_sent6 (bound : Nat) (oob : Option Nat) (src : Addr) (hs : List Handler6) (d : Pkt6) (m : Msg6) (r0 : Resp6)
    (hm : d.msg = some m) (h0 : stub6 m = some r0) :
    (match dispatch6 bound oob src hs (some d) with
     | .send _ resp _ => (runChain hs d 0 (some r0)).1 = some resp
     | .drop => (runChain hs d 0 (some r0)).1 = none ∨ ∃ l rest, d.layers = l :: rest ∧ l.mt ≠ 12) := by
  rw [dispatch6_eq bound oob src hs d m r0 hm h0]
  cases hc : (runChain hs d 0 (some r0)).1 with
  | none => simp
  | some resp =>
    dsimp only
    rcases deliver6_cases bound oob src d resp with ⟨h, hl⟩ | h <;> rw [h]
    exact Or.inr hl

/-! C13 : loading -/
/-- the plugins of the list that the registry supports for this protocol, with their setup result -/
def supported {H : Type} (reg : Registry H) (ps : List (String × List String)) : List (String × Except Unit (Option H)) :=
  ps.filterMap (fun p => match reg p.1 with | some (some f) => some (p.1, f p.2) | _ => none)

theorem supported_nil {H : Type} (reg : Registry H) : supported reg [] = [] := rfl

theorem supported_cons {H : Type} (reg : Registry H) (name : String) (args : List String)
    (rest : List (String × List String)) :
    supported reg ((name, args) :: rest) =
      match reg name with
      | some (some f) => (name, f args) :: supported reg rest
      | _ => supported reg rest := by
  unfold supported
  rw [List.filterMap_cons]
  dsimp only
  rcases reg name with _ | _ | f <;> rfl

theorem C13_load_ok {H : Type} (reg : Registry H) (ps : List (String × List String)) (hs : List H)
    (h : loadChain reg ps = .ok hs) :
    (∀ p ∈ ps, (reg p.1).isSome = true) ∧ (supported reg ps).map (·.2) = hs.map (fun x => .ok (some x)) := by
  induction ps generalizing hs with
  | nil =>
    simp only [loadChain] at h
    cases h
    simp [supported_nil]
  | cons p rest ih =>
    obtain ⟨name, args⟩ := p
    rw [supported_cons]
    unfold loadChain at h
    cases hr : reg name with
    | none => rw [hr] at h; cases h
    | some o =>
      rw [hr] at h
      cases o with
      | none =>
        dsimp only at h ⊢
        obtain ⟨i1, i2⟩ := ih hs h
        refine ⟨?_, i2⟩
        intro p hp
        rcases List.mem_cons.mp hp with rfl | hp
        · simp [hr]
        · exact i1 p hp
      | some f =>
        dsimp only at h ⊢
        cases hf : f args with
        | error e => rw [hf] at h; cases h
        | ok oh =>
          rw [hf] at h
          cases oh with
          | none => cases h
          | some x =>
            dsimp only at h
            cases hl : loadChain reg rest with
            | error e => rw [hl] at h; cases h
            | ok hs' =>
              rw [hl] at h
              dsimp only at h
              cases h
              obtain ⟨i1, i2⟩ := ih hs' hl
              refine ⟨?_, ?_⟩
              · intro p hp
                rcases List.mem_cons.mp hp with rfl | hp
                · simp [hr]
                · exact i1 p hp
              · simp [i2]

theorem C13_load_total {H : Type} (reg : Registry H) (ps : List (String × List String))
    (h1 : ∀ p ∈ ps, (reg p.1).isSome = true)
    (h2 : ∀ q ∈ supported reg ps, ∃ x, q.2 = .ok (some x)) :
    ∃ hs, loadChain reg ps = .ok hs := by
  induction ps with
  | nil => exact ⟨[], rfl⟩
  | cons p rest ih =>
    obtain ⟨name, args⟩ := p
    have hh := h1 (name, args) (by simp)
    rw [supported_cons] at h2
    unfold loadChain
    cases hr : reg name with
    | none => rw [hr] at hh; cases hh
    | some o =>
      rw [hr] at h2
      cases o with
      | none =>
        dsimp only at h2 ⊢
        exact ih (fun p hp => h1 p (by simp [hp])) h2
      | some f =>
        dsimp only at h2 ⊢
        obtain ⟨x, hx⟩ := h2 (name, f args) (by simp)
        dsimp only at hx
        obtain ⟨hs', hl⟩ := ih (fun p hp => h1 p (by simp [hp])) (fun q hq => h2 q (by simp [hq]))
        rw [hx, hl]
        exact ⟨x :: hs', rfl⟩

theorem C13_load_err {H : Type} (reg : Registry H) (ps : List (String × List String))
    (h : (∃ p ∈ ps, reg p.1 = none) ∨ (∃ q ∈ supported reg ps, q.2 = .error () ∨ q.2 = .ok none)) :
    ∃ e, loadChain reg ps = .error e := by
  cases hl : loadChain reg ps with
  | error e => exact ⟨e, rfl⟩
  | ok hs =>
    exfalso
    obtain ⟨i1, i2⟩ := C13_load_ok reg ps hs hl
    rcases h with ⟨p, hp, hn⟩ | ⟨q, hq, hq2⟩
    · have := i1 p hp
      rw [hn] at this; cases this
    · have hm : q.2 ∈ (supported reg ps).map (·.2) := List.mem_map.mpr ⟨q, hq, rfl⟩
      rw [i2] at hm
      obtain ⟨x, _, hx⟩ := List.mem_map.mp hm
      rcases hq2 with hq2 | hq2 <;> rw [hq2] at hx <;> cases hx

end CoreDhcp
