/-
General lemmas about the abstract bitset model `Bits` (List Bool).
-/
import CoreDhcp.Model.Bits
namespace CoreDhcp
namespace Bits

@[simp] theorem length_new (n : Nat) : (Bits.new n).length = n := by
  simp [Bits.new, Bits.length]

@[simp] theorem test_new (n i : Nat) : (Bits.new n).test i = false := by
  simp [Bits.new, Bits.test, List.getD_eq_getElem?_getD, List.getElem?_replicate]
  split <;> rfl

@[simp] theorem count_new (n : Nat) : (Bits.new n).count = 0 := by
  simp [Bits.new, Bits.count, List.count_replicate]

theorem test_of_ge (b : Bits) (i : Nat) (h : b.length ≤ i) : b.test i = false := by
  simp only [Bits.length] at h
  simp [Bits.test, List.getD_eq_getElem?_getD, List.getElem?_eq_none h]

theorem lt_length_of_test (b : Bits) (i : Nat) (h : b.test i = true) : i < b.length := by
  apply Classical.byContradiction
  intro hn
  rw [test_of_ge b i (by omega)] at h
  cases h

theorem length_set_of_lt (b : Bits) (i : Nat) (h : i < b.length) : (b.set i).length = b.length := by
  simp only [Bits.length] at h
  simp [Bits.set, Bits.length, h]

theorem length_set_of_ge (b : Bits) (i : Nat) (h : b.length ≤ i) : (b.set i).length = i + 1 := by
  simp only [Bits.length] at h
  have : ¬ i < b.bits.length := by omega
  simp [Bits.set, Bits.length, this]
  omega

@[simp] theorem test_set_self (b : Bits) (i : Nat) : (b.set i).test i = true := by
  unfold Bits.set
  split
  · next h => simp [Bits.test, List.getD_eq_getElem?_getD, h]
  · next h =>
    have h1 : (b.bits ++ List.replicate (i - b.bits.length) false).length = i := by
      simp; omega
    simp only [Bits.test, List.getD_eq_getElem?_getD]
    rw [List.getElem?_append_right (by omega)]
    simp [h1]

theorem test_set_of_ne (b : Bits) (i j : Nat) (h : i ≠ j) : (b.set i).test j = b.test j := by
  unfold Bits.set
  split
  · next hi => simp [Bits.test, List.getD_eq_getElem?_getD, h]
  · next hi =>
    simp only [Bits.test, List.getD_eq_getElem?_getD]
    by_cases hj : j < b.bits.length
    · rw [List.append_assoc, List.getElem?_append_left hj]
    · rw [List.getElem?_eq_none (l := b.bits) (by omega)]
      by_cases hj2 : j < i
      · rw [List.getElem?_append_left (by simp; omega),
          List.getElem?_append_right (by omega)]
        simp only [List.getElem?_replicate]
        split <;> rfl
      · rw [List.getElem?_eq_none (by simp; omega)]

@[simp] theorem length_clear (b : Bits) (i : Nat) : (b.clear i).length = b.length := by
  simp [Bits.clear, Bits.length]

@[simp] theorem test_clear_self (b : Bits) (i : Nat) : (b.clear i).test i = false := by
  simp only [Bits.clear, Bits.test, List.getD_eq_getElem?_getD, List.getElem?_set]
  simp
  split <;> rfl

theorem test_clear_of_ne (b : Bits) (i j : Nat) (h : i ≠ j) : (b.clear i).test j = b.test j := by
  simp [Bits.clear, Bits.test, List.getD_eq_getElem?_getD, h]

theorem nextClear_some (b : Bits) (c : Nat) (h : b.nextClear = some c) :
    c < b.length ∧ b.test c = false := by
  unfold Bits.nextClear at h
  rw [List.findIdx?_eq_some_iff_getElem] at h
  obtain ⟨hc, h1, _⟩ := h
  refine ⟨hc, ?_⟩
  simp only [Bits.test, List.getD_eq_getElem?_getD, List.getElem?_eq_getElem hc]
  simpa using h1

/-- `NextClear(0)` returns the least clear index. -/
theorem nextClear_some_min (b : Bits) (c : Nat) (h : b.nextClear = some c) :
    ∀ j < c, b.test j = true := by
  unfold Bits.nextClear at h
  rw [List.findIdx?_eq_some_iff_getElem] at h
  obtain ⟨hc, _, h2⟩ := h
  intro j hj
  have := h2 j hj
  have hjl : j < b.bits.length := by omega
  simp only [Bits.test, List.getD_eq_getElem?_getD, List.getElem?_eq_getElem hjl]
  simpa using this

theorem full_iff (b : Bits) : b.full = true ↔ ∀ i < b.length, b.test i = true := by
  simp only [Bits.full, Bits.length, Bits.test, List.all_eq_true]
  constructor
  · intro h i hi
    simp only [List.getD_eq_getElem?_getD, List.getElem?_eq_getElem hi, Option.getD_some]
    exact h _ (List.getElem_mem hi)
  · intro h x hx
    obtain ⟨i, hi, rfl⟩ := List.getElem_of_mem hx
    have := h i hi
    simpa [List.getD_eq_getElem?_getD, List.getElem?_eq_getElem hi] using this

theorem nextClear_none (b : Bits) (h : b.nextClear = none) : b.full = true := by
  unfold Bits.nextClear at h
  rw [List.findIdx?_eq_none_iff] at h
  simp only [Bits.full, List.all_eq_true]
  intro x hx
  simpa using h x hx

theorem nextClear_eq_none_iff (b : Bits) : b.nextClear = none ↔ b.full = true := by
  constructor
  · exact nextClear_none b
  · intro h
    unfold Bits.nextClear
    rw [List.findIdx?_eq_none_iff]
    simp only [Bits.full, List.all_eq_true] at h
    intro x hx
    simp [h x hx]

theorem not_full_of_test_false (b : Bits) (i : Nat) (hi : i < b.length) (h : b.test i = false) :
    b.full = false := by
  cases hf : b.full
  · rfl
  · rw [(full_iff b).1 hf i hi] at h
    cases h

/-- Setting an already set bit (below the length) is a no-op. -/
theorem set_of_test (b : Bits) (i : Nat) (h : b.test i = true) : b.set i = b := by
  have hi := lt_length_of_test b i h
  simp only [Bits.length] at hi
  cases b with
  | mk l =>
    simp only [Bits.set, hi, if_true, Bits.mk.injEq]
    simp only [Bits.test, List.getD_eq_getElem?_getD, List.getElem?_eq_getElem hi,
      Option.getD_some] at h
    simp only at hi
    rw [← h]
    exact List.set_getElem_self hi

/-- Clearing an already clear bit is a no-op. -/
theorem clear_of_not_test (b : Bits) (i : Nat) (h : b.test i = false) : b.clear i = b := by
  cases b with
  | mk l =>
    simp only [Bits.clear, Bits.mk.injEq]
    by_cases hi : i < l.length
    · simp only [Bits.test, List.getD_eq_getElem?_getD, List.getElem?_eq_getElem hi,
        Option.getD_some] at h
      rw [← h]
      exact List.set_getElem_self hi
    · exact List.set_eq_of_length_le (by omega)

/-- `Set` then `Clear` of a bit that was clear and in range restores the set. -/
theorem set_clear_of_not_test (b : Bits) (i : Nat) (hi : i < b.length) (h : b.test i = false) :
    (b.set i).clear i = b := by
  simp only [Bits.length] at hi
  cases b with
  | mk l =>
    simp only at hi
    simp only [Bits.set, hi, if_true, Bits.clear, Bits.mk.injEq, List.set_set]
    simp only [Bits.test, List.getD_eq_getElem?_getD, List.getElem?_eq_getElem hi,
      Option.getD_some] at h
    rw [← h]
    exact List.set_getElem_self hi

/-- `Clear` then `Set` of a bit that was set restores the set. -/
theorem clear_set_of_test (b : Bits) (i : Nat) (h : b.test i = true) :
    (b.clear i).set i = b := by
  have hi := lt_length_of_test b i h
  simp only [Bits.length] at hi
  cases b with
  | mk l =>
    simp only at hi
    simp only [Bits.clear, Bits.set, List.length_set, hi, if_true, Bits.mk.injEq, List.set_set]
    simp only [Bits.test, List.getD_eq_getElem?_getD, List.getElem?_eq_getElem hi,
      Option.getD_some] at h
    rw [← h]
    exact List.set_getElem_self hi

/-! ### counting -/

private theorem list_count_set (l : List Bool) (i : Nat) (hi : i < l.length) (v : Bool) :
    (l.set i v).count true + (if l[i] = true then 1 else 0)
      = l.count true + (if v = true then 1 else 0) := by
  induction l generalizing i with
  | nil => simp at hi
  | cons x xs ih =>
    cases i with
    | zero =>
      simp only [List.set_cons_zero, List.count_cons, List.getElem_cons_zero]
      cases x <;> cases v <;> simp
    | succ k =>
      simp only [List.length_cons, Nat.add_lt_add_iff_right] at hi
      have := ih k hi
      simp only [List.set_cons_succ, List.count_cons, List.getElem_cons_succ]
      omega

theorem count_set_of_not_test (b : Bits) (i : Nat) (hi : i < b.length) (h : b.test i = false) :
    (b.set i).count = b.count + 1 := by
  simp only [Bits.length] at hi
  simp only [Bits.test, List.getD_eq_getElem?_getD, List.getElem?_eq_getElem hi,
    Option.getD_some] at h
  have := list_count_set b.bits i hi true
  simp only [h] at this
  simp only [Bits.set, hi, if_true, Bits.count]
  simpa using this

theorem count_clear_of_test (b : Bits) (i : Nat) (h : b.test i = true) :
    (b.clear i).count + 1 = b.count := by
  have hi := lt_length_of_test b i h
  simp only [Bits.length] at hi
  simp only [Bits.test, List.getD_eq_getElem?_getD, List.getElem?_eq_getElem hi,
    Option.getD_some] at h
  have := list_count_set b.bits i hi false
  simp only [h] at this
  simp only [Bits.clear, Bits.count]
  simpa using this

theorem count_le_length (b : Bits) : b.count ≤ b.length := by
  simp only [Bits.count, Bits.length]
  exact List.count_le_length

theorem full_iff_count (b : Bits) : b.full = true ↔ b.count = b.length := by
  simp only [Bits.full, Bits.count, Bits.length, List.all_eq_true, List.count_eq_length]
  constructor
  · intro h x hx; exact (h x hx).symm
  · intro h x hx; exact (h x hx).symm

end Bits
end CoreDhcp
