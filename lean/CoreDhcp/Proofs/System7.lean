/-
Lemmas behind four more end-to-end statements of Props/System.lean about the composed server
(Model/System.lean): `file` behind `range` (C10), `server_id` first in the chain stamps every reply
(C14, both protocols), the lease time of `range` wins over `lease_time` (C02).
-/
import CoreDhcp.Proofs.System6
set_option linter.unusedSimpArgs false
set_option linter.unusedVariables false
namespace CoreDhcp
open Sys
open Plug (Bytes Opts lookup upd4 upd6)

/-! ## the chain, one step -/

section chain3
variable {Req Resp : Type}

/-- a first handler that hands `x` on without stopping: the chain is the rest run on `x` -/
theorem go_cons_continue (req : Req) (h : Req → Option Resp → Option Resp × Bool)
    (rest : List (Req → Option Resp → Option Resp × Bool)) (i : Nat) (r x : Option Resp)
    (hh : h req r = (x, false)) :
    (runChain.go req (h :: rest) i r).1 = (runChain.go req rest 0 x).1 := by
  simp only [runChain.go, hh, Bool.false_eq_true, if_false]
  exact go_fst_idx req rest (i + 1) 0 x

/-- a first handler that stops: the chain returns what it returned -/
theorem go_cons_stop (req : Req) (h : Req → Option Resp → Option Resp × Bool)
    (rest : List (Req → Option Resp → Option Resp × Bool)) (i : Nat) (r x : Option Resp)
    (hh : h req r = (x, true)) :
    (runChain.go req (h :: rest) i r).1 = x := by
  simp only [runChain.go, hh, if_true]

end chain3

/-! ## 1. `file` behind `range` -/

/-- `range` either drops the request (nil response, chain ended) or hands a response on: it never
ends the chain with a response -/
theorem lease_never_stops_with_resp (o : Option (BitVec 32 × Nat)) (req : Sys.Req4) (r r' : Sys.Resp4) :
    handle4 (.lease o) req (some r) ≠ (some r', true) := by
  cases o with
  | none =>
    intro h
    simp only [handle4] at h
    cases h
  | some p =>
    obtain ⟨ip, o51⟩ := p
    intro h
    simp only [handle4] at h
    cases h

theorem sys_file_address4_lease (bound : Nat) (oob : Option Nat) (pre post : List Elem4) (t : FTable) (req : Sys.Req4)
    (a : BitVec 32) (h : t.get req.chaddr = some (.v4 a)) (hpre : pre.all (fun e => neverStops4 e || isLease e) = true)
    (resp : Sys.Resp4) (peer : BitVec 32) (port : Nat) (ifidx : Option Nat) (l2 : Bool)
    (hs : serve4 bound oob (pre ++ .file t :: post) (some req) = .send resp peer port ifidx l2) :
    resp.yiaddr = be4 a := by
  refine sys_file_address4 bound oob pre post t req a h ?_ resp peer port ifidx l2 hs
  intro e he r r' hc
  have hb := List.all_eq_true.mp hpre e he
  rw [Bool.or_eq_true] at hb
  rcases hb with hn | hl
  · obtain ⟨r'', hr⟩ := sys_neverStops4 e hn req r
    rw [hr] at hc
    cases hc
  · cases e with
    | plug c => simp [isLease] at hl
    | file t' => simp [isLease] at hl
    | lease o => exact lease_never_stops_with_resp o req r r' hc

/-! ## 2. `server_id` first (DHCPv4) -/

/-- no built-in plugin writes `yiaddr`; none but `server_id` writes `siaddr` -/
theorem plug_addrs4 (cfg : Plug.Cfg4) (req : Plug.ReqView4) (pre r : Plug.Resp4) (stop : Bool)
    (h : Plug.plugHandle4 cfg req pre = (some r, stop)) :
    r.yiaddr = pre.yiaddr ∧ ((∀ c, cfg ≠ .serverid c) → r.siaddr = pre.siaddr) := by
  open Plug in
  cases cfg <;> simp only [plugHandle4, dns4.handle, mtu.handle, netmask.handle, router.handle, leasetime.handle,
    search.handle4, staticroute.handle, ipv6only.handle, autoconfigure.handle, nbp4.handle, sleep.handle4,
    serverid4.handle] at h
  all_goals (repeat' split at h)
  all_goals (try (simp at h; done))
  all_goals
    simp only [Prod.mk.injEq, Option.some.injEq] at h
    obtain ⟨rfl, _⟩ := h
    first
      | exact ⟨rfl, fun _ => rfl⟩
      | exact ⟨rfl, fun hne => absurd rfl (hne _)⟩

theorem not_serverid_54 (e : Elem4) (h : isServerId4 e = false) : 54 ∉ owned4 e := by
  cases e with
  | plug c => cases c <;> first | (simp [isServerId4] at h; done) | simp [owned4]
  | file t => simp [owned4]
  | lease o => simp [owned4]

/-- an element other than `server_id` leaves `siaddr` alone -/
theorem handle4_siaddr (e : Elem4) (hns : isServerId4 e = false) (req : Sys.Req4) (r x : Sys.Resp4)
    (h : (handle4 e req (some r)).1 = some x) : x.siaddr = r.siaddr := by
  cases e with
  | plug cfg =>
    rw [handle4_plug] at h
    cases hp : Plug.plugHandle4 cfg (viewReq4 req) (viewResp4 r) with
    | mk o stop =>
      rw [hp] at h
      cases o with
      | none => cases h
      | some p =>
        dsimp only at h
        cases h
        refine (plug_addrs4 cfg _ _ p stop hp).2 ?_
        intro c hc
        subst hc
        simp [isServerId4] at hns
  | file t =>
    rw [handle4_file] at h
    split at h <;> (cases h; rfl)
  | lease out =>
    cases out with
    | none => simp only [handle4] at h; cases h
    | some p =>
      obtain ⟨ip, o51⟩ := p
      simp only [handle4] at h
      cases h
      rfl

theorem chain4_siaddr (chain : List Elem4) (hall : chain.all (fun e => !isServerId4 e) = true)
    (req : Sys.Req4) (r0 resp : Sys.Resp4)
    (hc : (runChain (chain.map handle4) req 0 (some r0)).1 = some resp) :
    resp.siaddr = r0.siaddr ∧ lookup 54 resp.opts = lookup 54 r0.opts := by
  have hns : ∀ e ∈ chain, isServerId4 e = false := by
    intro e he
    have := List.all_eq_true.mp hall e he
    simpa using this
  refine ⟨?_, (chain4_inv chain req r0 resp hc).2.2.2.2.2.2 54 (fun e he => not_serverid_54 e (hns e he))⟩
  have hinv := runChain_invariant (fun r => ∀ x, r = some x → x.siaddr = r0.siaddr) req (chain.map handle4)
    (by
      intro h hm r hr x hx
      obtain ⟨e, he, rfl⟩ := List.mem_map.mp hm
      cases r with
      | none => rw [handle4_none] at hx; cases hx
      | some y => exact (handle4_siaddr e (hns e he) req y x hx).trans (hr y rfl))
    0 (some r0) (by intro x hx; cases hx; rfl)
  exact hinv resp hc

/-- `server_id` on a BOOTREQUEST: the request is dropped, or the response is stamped and handed on -/
theorem serverid4_handle_cases (c : Plug.serverid4.Cfg) (req : Plug.ReqView4) (pre : Plug.Resp4) (hop : req.op = 1) :
    Plug.serverid4.handle c req pre = (none, true) ∨
    Plug.serverid4.handle c req pre = (some (({ pre with siaddr := c } : Plug.Resp4).update 54 c), false) := by
  unfold Plug.serverid4.handle
  rw [if_neg (by simp [hop])]
  repeat' split
  all_goals first | exact Or.inl rfl | exact Or.inr rfl

theorem sys_C14_stamped4 (bound : Nat) (oob : Option Nat) (c : Plug.serverid4.Cfg) (rest : List Elem4) (req : Sys.Req4)
    (hrest : rest.all (fun e => !isServerId4 e) = true)
    (resp : Sys.Resp4) (peer : BitVec 32) (port : Nat) (ifidx : Option Nat) (l2 : Bool)
    (hs : serve4 bound oob (.plug (.serverid c) :: rest) (some req) = .send resp peer port ifidx l2) :
    lookup 54 resp.opts = some c ∧ resp.siaddr = c := by
  obtain ⟨r0, h0, hc⟩ := serve4_send bound oob _ req resp peer port ifidx l2 hs
  have hop : (viewReq4 req).op = 1 := (stub4_sys_some req r0 h0).1
  rw [runChain_eq, List.map_cons] at hc
  rcases serverid4_handle_cases c (viewReq4 req) (viewResp4 r0) hop with hh | hh
  · have hh' : handle4 (.plug (.serverid c)) req (some r0) = (none, true) := by
      rw [handle4_plug]; simp only [Plug.plugHandle4, hh]
    rw [go_cons_stop req _ _ 0 _ _ hh'] at hc
    cases hc
  · have hh' : handle4 (.plug (.serverid c)) req (some r0) =
        (some (putResp4 r0 (({ viewResp4 r0 with siaddr := c } : Plug.Resp4).update 54 c)), false) := by
      rw [handle4_plug]; simp only [Plug.plugHandle4, hh]
    rw [go_cons_continue req _ _ 0 _ _ hh'] at hc
    obtain ⟨h1, h2⟩ := chain4_siaddr rest hrest req _ resp (by rw [runChain_eq]; exact hc)
    refine ⟨?_, ?_⟩
    · rw [h2]
      exact lookup_upd4_same 54 c _
    · rw [h1]
      rfl

/-! ## 3. `server_id` first (DHCPv6) -/

theorem serverid6_handle_cases (c : Plug.serverid6.Cfg) (req : Plug.ReqView6) (pre : Plug.Resp6) :
    Plug.serverid6.handle c req pre = (none, true) ∨
    Plug.serverid6.handle c req pre = (some (pre.update 2 c), false) := by
  unfold Plug.serverid6.handle
  repeat' split
  all_goals first | exact Or.inl rfl | exact Or.inr rfl

/-- the prepared reply has no Server Identifier; `server_id` appends exactly one -/
theorem stub6_stamped (m : Sys.Msg6) (r0 : Sys.Resp6) (h0 : Sys.stub6 m = some r0) (c : Bytes) :
    (upd6 2 c r0.opts).filter (fun o => o.1 == 2) = [(2, c)] := by
  unfold Sys.stub6 at h0
  repeat' split at h0
  all_goals (first | (cases h0; done) | (cases h0; simp [upd6]))

theorem not_serverid_2 (e : Elem6) (h : (match e with | .plug (.serverid _) => false | _ => true) = true) :
    2 ∉ owned6 e := by
  cases e with
  | plug c => cases c <;> first | (simp at h; done) | simp [owned6]
  | file t => simp [owned6]
  | pd o => simp [owned6]

theorem sys_C14_stamped6 (bound : Nat) (oob : Option Nat) (src : Addr) (c : Plug.serverid6.Cfg) (rest : List Elem6)
    (hrest : rest.all (fun e => match e with | .plug (.serverid _) => false | _ => true) = true)
    (d : Sys.Pkt6) (layers : List Layer6) (resp : Sys.Resp6) (ifidx : Option Nat)
    (hs : serve6 bound oob src (.plug (.serverid c) :: rest) (some d) = .send layers resp ifidx) :
    resp.opts.filter (fun o => o.1 == 2) = [(2, c)] := by
  obtain ⟨m, r0, hm, h0, hc⟩ := serve6_send bound oob src _ d layers resp ifidx hs
  rw [runChain_eq, List.map_cons] at hc
  rcases serverid6_handle_cases c ⟨d.layers.length, m.mt, m.opts⟩ ⟨r0.mt, r0.opts⟩ with hh | hh
  · have hh' : handle6 (.plug (.serverid c)) d (some r0) = (none, true) := by
      rw [handle6_plug, hm]; simp only [Plug.plugHandle6, hh]
    rw [go_cons_stop d _ _ 0 _ _ hh'] at hc
    cases hc
  · have hh' : handle6 (.plug (.serverid c)) d (some r0) =
        (some { r0 with mt := r0.mt, opts := upd6 2 c r0.opts }, false) := by
      rw [handle6_plug, hm]; simp only [Plug.plugHandle6, hh, Plug.Resp6.update]
    rw [go_cons_continue d _ _ 0 _ _ hh'] at hc
    rw [chain6_frame rest d _ resp (by rw [runChain_eq]; exact hc) 2
      (fun e he => not_serverid_2 e (List.all_eq_true.mp hrest e he))]
    exact stub6_stamped m r0 h0 c

/-! ## 4. `range` in the chain: its lease time and its address -/

/-- `lease_time` keeps an option 51 that is already there -/
theorem leasetime_keeps (cfg : Plug.leasetime.Cfg) (req : Plug.ReqView4) (pre r : Plug.Resp4) (stop : Bool)
    (h : Plug.leasetime.handle cfg req pre = (some r, stop)) (v : Bytes) (hv : lookup 51 pre.opts = some v) :
    lookup 51 r.opts = some v := by
  unfold Plug.leasetime.handle at h
  split at h
  · cases h; exact hv
  · rw [hv] at h
    cases h
    exact hv

/-- an element other than `range` keeps an option 51 that is already there -/
theorem handle4_keeps51 (e : Elem4) (hnl : isLease e = false) (req : Sys.Req4) (r x : Sys.Resp4)
    (h : (handle4 e req (some r)).1 = some x) (v : Bytes) (hv : lookup 51 r.opts = some v) :
    lookup 51 x.opts = some v := by
  cases e with
  | lease o => simp [isLease] at hnl
  | file t =>
    rw [handle4_file] at h
    split at h <;> (cases h; exact hv)
  | plug cfg =>
    by_cases hlt : ∃ c, cfg = .leasetime c
    · obtain ⟨c, rfl⟩ := hlt
      rw [handle4_plug] at h
      cases hp : Plug.plugHandle4 (.leasetime c) (viewReq4 req) (viewResp4 r) with
      | mk o stop =>
        rw [hp] at h
        cases o with
        | none => cases h
        | some p =>
          dsimp only at h
          cases h
          exact leasetime_keeps c _ _ p stop hp v hv
    · have hno : 51 ∉ owned4 (.plug cfg) := by
        cases cfg <;> first | (exact absurd ⟨_, rfl⟩ hlt) | simp [owned4]
      rw [(handle4_some (.plug cfg) req r x h).2.2.2.2.2.2 51 hno]
      exact hv

theorem chain4_keeps51 (chain : List Elem4) (hall : chain.all (fun e => !isLease e) = true)
    (req : Sys.Req4) (r0 resp : Sys.Resp4) (v : Bytes) (hv : lookup 51 r0.opts = some v)
    (hc : (runChain (chain.map handle4) req 0 (some r0)).1 = some resp) :
    lookup 51 resp.opts = some v := by
  have hnl : ∀ e ∈ chain, isLease e = false := by
    intro e he
    have := List.all_eq_true.mp hall e he
    simpa using this
  have hinv := runChain_invariant (fun r => ∀ x, r = some x → lookup 51 x.opts = some v) req (chain.map handle4)
    (by
      intro h hm r hr x hx
      obtain ⟨e, he, rfl⟩ := List.mem_map.mp hm
      cases r with
      | none => rw [handle4_none] at hx; cases hx
      | some y => exact handle4_keeps51 e (hnl e he) req y x hx v (hr y rfl))
    0 (some r0) (by intro x hx; cases hx; exact hv)
  exact hinv resp hc

/-- the chain up to and including `range`: what `post` is run on -/
theorem chain4_reaches_lease (pre post : List Elem4) (ip : BitVec 32) (o51 : Nat) (req : Sys.Req4) (r0 resp : Sys.Resp4)
    (hpre : pre.all neverStops4 = true)
    (hc : (runChain ((pre ++ .lease (some (ip, o51)) :: post).map handle4) req 0 (some r0)).1 = some resp) :
    ∃ mid : Sys.Resp4,
      (runChain (post.map handle4) req 0
        (some { mid with yiaddr := be4 ip, opts := upd4 51 (Plug.be 4 o51) mid.opts })).1 = some resp := by
  rw [runChain_eq] at hc
  simp only [List.map_append, List.map_cons] at hc
  obtain ⟨mid, hm1, hm2⟩ := go_through req (pre.map handle4) (by
      intro g hg r
      obtain ⟨e, he, rfl⟩ := List.mem_map.mp hg
      exact sys_neverStops4 e (List.all_eq_true.mp hpre e he) req r) 0 r0
  rw [hm2] at hc
  have hh : handle4 (.lease (some (ip, o51))) req (some mid) =
      (some { mid with yiaddr := be4 ip, opts := upd4 51 (Plug.be 4 o51) mid.opts }, false) := by
    simp only [handle4]
  rw [go_cons_continue req _ _ 0 _ _ hh] at hc
  exact ⟨mid, by rw [runChain_eq]; exact hc⟩

theorem sys_C02_lease4 (bound : Nat) (oob : Option Nat) (pre post : List Elem4) (ip : BitVec 32) (o51 : Nat) (req : Sys.Req4)
    (hpre : pre.all neverStops4 = true)
    (hpost : post.all (fun e => !isLease e) = true)
    (resp : Sys.Resp4) (peer : BitVec 32) (port : Nat) (ifidx : Option Nat) (l2 : Bool)
    (hs : serve4 bound oob (pre ++ .lease (some (ip, o51)) :: post) (some req) = .send resp peer port ifidx l2) :
    lookup 51 resp.opts = some (Plug.be 4 o51) := by
  obtain ⟨r0, h0, hc⟩ := serve4_send bound oob _ req resp peer port ifidx l2 hs
  obtain ⟨mid, hmid⟩ := chain4_reaches_lease pre post ip o51 req r0 resp hpre hc
  exact chain4_keeps51 post hpost req _ resp _ (lookup_upd4_same 51 _ _) hmid

/-- an element other than `file` and `range` leaves `yiaddr` alone -/
theorem handle4_yiaddr (e : Elem4) (hn : (match e with | .plug _ => true | _ => false) = true)
    (req : Sys.Req4) (r x : Sys.Resp4)
    (h : (handle4 e req (some r)).1 = some x) : x.yiaddr = r.yiaddr := by
  cases e with
  | file t => simp at hn
  | lease o => simp at hn
  | plug cfg =>
    rw [handle4_plug] at h
    cases hp : Plug.plugHandle4 cfg (viewReq4 req) (viewResp4 r) with
    | mk o stop =>
      rw [hp] at h
      cases o with
      | none => cases h
      | some p =>
        dsimp only at h
        cases h
        exact (plug_addrs4 cfg _ _ p stop hp).1

theorem chain4_yiaddr (chain : List Elem4) (hall : chain.all (fun e => match e with | .plug _ => true | _ => false) = true)
    (req : Sys.Req4) (r0 resp : Sys.Resp4)
    (hc : (runChain (chain.map handle4) req 0 (some r0)).1 = some resp) :
    resp.yiaddr = r0.yiaddr := by
  have hinv := runChain_invariant (fun r => ∀ x, r = some x → x.yiaddr = r0.yiaddr) req (chain.map handle4)
    (by
      intro h hm r hr x hx
      obtain ⟨e, he, rfl⟩ := List.mem_map.mp hm
      cases r with
      | none => rw [handle4_none] at hx; cases hx
      | some y => exact (handle4_yiaddr e (List.all_eq_true.mp hall e he) req y x hx).trans (hr y rfl))
    0 (some r0) (by intro x hx; cases hx; rfl)
  exact hinv resp hc

/-- no `file` and no second `range` after `range`: the address sent is the one `range` chose -/
theorem sys_C02_addr4 (bound : Nat) (oob : Option Nat) (pre post : List Elem4) (ip : BitVec 32) (o51 : Nat) (req : Sys.Req4)
    (hpre : pre.all neverStops4 = true)
    (hpost : post.all (fun e => !isLease e) = true)
    (hfile : post.all (fun e => match e with | .file _ => false | _ => true) = true)
    (resp : Sys.Resp4) (peer : BitVec 32) (port : Nat) (ifidx : Option Nat) (l2 : Bool)
    (hs : serve4 bound oob (pre ++ .lease (some (ip, o51)) :: post) (some req) = .send resp peer port ifidx l2) :
    resp.yiaddr = be4 ip := by
  obtain ⟨r0, h0, hc⟩ := serve4_send bound oob _ req resp peer port ifidx l2 hs
  obtain ⟨mid, hmid⟩ := chain4_reaches_lease pre post ip o51 req r0 resp hpre hc
  refine chain4_yiaddr post ?_ req _ resp hmid
  apply List.all_eq_true.mpr
  intro e he
  have h1 := List.all_eq_true.mp hpost e he
  have h2 := List.all_eq_true.mp hfile e he
  cases e with
  | plug c => rfl
  | file t => simp at h2
  | lease o => simp [isLease] at h1

end CoreDhcp
