/-
C18 (configuration loader): the model (`CoreDhcp/Model/Config.lean`) against the specification
(`CoreDhcp/Spec/Config.lean`).

Part 1 (`CoreDhcp.ZS`): the legacy `String.splitOn s "%"` computes `List.splitOn '%'` on the
characters (proved from the reference implementations of `Pos.Raw.get`/`next`/`extract`), hence the
spec's zone split (`splitOn`/`intercalate`) agrees with the model's split at the last '%'.
Part 2: model = spec function by function, then the C18 theorems.
-/
import CoreDhcp.Spec.Config
namespace CoreDhcp
namespace ZS
open String

def ulen (cs : List Char) : Nat := (cs.map Char.utf8Size).sum

@[simp] theorem ulen_nil : ulen [] = 0 := rfl
@[simp] theorem ulen_cons (c : Char) (cs : List Char) : ulen (c :: cs) = c.utf8Size + ulen cs := by
  simp [ulen]
@[simp] theorem ulen_append (a b : List Char) : ulen (a ++ b) = ulen a + ulen b := by
  simp [ulen]

theorem byteSize_ofList (cs : List Char) : (String.ofList cs).utf8ByteSize = ulen cs := by
  induction cs with
  | nil => simp
  | cons c cs ih => simp [String.ofList_cons, String.utf8ByteSize_append, ih]

theorem byteSize_eq (s : String) : s.utf8ByteSize = ulen s.toList := by
  rw [← byteSize_ofList, String.ofList_toList]

theorem getAux_valid (pre : List Char) (c : Char) (post : List Char) (i : Nat) :
    Pos.Raw.utf8GetAux (pre ++ c :: post) ⟨i⟩ ⟨i + ulen pre⟩ = c := by
  induction pre generalizing i with
  | nil => simp [Pos.Raw.utf8GetAux]
  | cons d pre ih =>
    have hd : 0 < d.utf8Size := Char.utf8Size_pos d
    simp only [List.cons_append, Pos.Raw.utf8GetAux]
    rw [if_neg]
    · have := ih (i + d.utf8Size)
      have e : (⟨i⟩ : Pos.Raw) + d = ⟨i + d.utf8Size⟩ := rfl
      rw [e]
      simpa [Nat.add_assoc] using this
    · simp [Pos.Raw.ext_iff]; omega

theorem go2_valid (mid post : List Char) (i : Nat) :
    Pos.Raw.extract.go₂ (mid ++ post) ⟨i⟩ ⟨i + ulen mid⟩ = mid := by
  induction mid generalizing i with
  | nil => cases post <;> simp [Pos.Raw.extract.go₂]
  | cons d mid ih =>
    have hd : 0 < d.utf8Size := Char.utf8Size_pos d
    simp only [List.cons_append, Pos.Raw.extract.go₂]
    rw [if_neg]
    · have := ih (i + d.utf8Size)
      have e : (⟨i⟩ : Pos.Raw) + d = ⟨i + d.utf8Size⟩ := rfl
      rw [e]
      simpa [Nat.add_assoc] using this
    · simp [Pos.Raw.ext_iff]; omega

theorem go1_valid (pre mid post : List Char) (i : Nat) :
    Pos.Raw.extract.go₁ (pre ++ mid ++ post) ⟨i⟩ ⟨i + ulen pre⟩ ⟨i + ulen pre + ulen mid⟩ = mid := by
  induction pre generalizing i with
  | nil =>
    simp only [List.nil_append, ulen_nil, Nat.add_zero]
    cases h : mid ++ post with
    | nil => simp at h; simp [h.1, Pos.Raw.extract.go₁]
    | cons x xs => rw [Pos.Raw.extract.go₁, if_pos rfl, ← h, go2_valid]
  | cons d pre ih =>
    have hd : 0 < d.utf8Size := Char.utf8Size_pos d
    simp only [List.cons_append, Pos.Raw.extract.go₁]
    rw [if_neg]
    · have := ih (i + d.utf8Size)
      have e : (⟨i⟩ : Pos.Raw) + d = ⟨i + d.utf8Size⟩ := rfl
      rw [e]
      simpa [Nat.add_assoc] using this
    · simp [Pos.Raw.ext_iff]; omega

theorem extract_valid (s : String) (pre mid post : List Char) (hs : s.toList = pre ++ mid ++ post) :
    Pos.Raw.extract s ⟨ulen pre⟩ ⟨ulen pre + ulen mid⟩ = String.ofList mid := by
  show (if (ulen pre) ≥ (ulen pre + ulen mid) then "" else String.ofList (Pos.Raw.extract.go₁ s.toList 0 ⟨ulen pre⟩ ⟨ulen pre + ulen mid⟩)) = _
  by_cases hm : mid = []
  · subst hm; simp
  · have : 0 < ulen mid := by
      cases mid with
      | nil => exact absurd rfl hm
      | cons c cs => have := Char.utf8Size_pos c; simp; omega
    rw [if_neg (by omega), hs]
    have := go1_valid pre mid post 0
    simp only [Nat.zero_add] at this
    rw [show (0 : Pos.Raw) = ⟨0⟩ from rfl, this]


theorem get_valid (s : String) (pre : List Char) (c : Char) (post : List Char)
    (hs : s.toList = pre ++ c :: post) : Pos.Raw.get s ⟨ulen pre⟩ = c := by
  show Pos.Raw.utf8GetAux s.toList 0 ⟨ulen pre⟩ = c
  rw [hs]
  have := getAux_valid pre c post 0
  simpa using this

theorem splitOnAux_valid (s : String) (post : List Char) : ∀ (pre mid : List Char) (r : List String),
    s.toList = pre ++ mid ++ post →
    s.splitOnAux "%" ⟨ulen pre⟩ ⟨ulen pre + ulen mid⟩ 0 r =
      r.reverse ++ (List.splitOnPPrepend (· == '%') post mid.reverse).map String.ofList := by
  induction post with
  | nil =>
    intro pre mid r hs
    rw [String.splitOnAux]
    have hsz : s.utf8ByteSize = ulen pre + ulen mid := by rw [byteSize_eq, hs]; simp
    have hend : Pos.Raw.atEnd s ⟨ulen pre + ulen mid⟩ = true := by
      show decide (_ ≥ _) = true
      simp [hsz]
    rw [if_pos hend, extract_valid s pre mid [] hs]
    simp
  | cons c post ih =>
    intro pre mid r hs
    rw [String.splitOnAux]
    have hc := Char.utf8Size_pos c
    have hsz : s.utf8ByteSize = ulen pre + ulen mid + (c.utf8Size + ulen post) := by
      rw [byteSize_eq, hs]; simp; omega
    have hend : ¬ Pos.Raw.atEnd s ⟨ulen pre + ulen mid⟩ = true := by
      show ¬ decide (_ ≥ _) = true
      simp [hsz]; omega
    rw [if_neg hend]
    have hget : Pos.Raw.get s ⟨ulen pre + ulen mid⟩ = c := by
      have := get_valid s (pre ++ mid) c post (by simpa using hs)
      simpa using this
    have hsep : Pos.Raw.get "%" 0 = '%' := by decide
    have hnext : Pos.Raw.next s ⟨ulen pre + ulen mid⟩ = ⟨ulen pre + ulen mid + c.utf8Size⟩ := by
      show (⟨ulen pre + ulen mid⟩ : Pos.Raw) + Pos.Raw.get s ⟨ulen pre + ulen mid⟩ = _
      rw [hget]; rfl
    rw [hget, hsep]
    by_cases hp : c = '%'
    · subst hp
      rw [if_pos (by decide)]
      have hj : Pos.Raw.next "%" 0 = ⟨1⟩ := by decide
      simp only [hj, hnext]
      rw [if_pos (by decide)]
      have h1 : ('%' : Char).utf8Size = 1 := by decide
      have hu : (⟨ulen pre + ulen mid + ('%' : Char).utf8Size⟩ : Pos.Raw).unoffsetBy ⟨1⟩ = ⟨ulen pre + ulen mid⟩ := by
        simp [Pos.Raw.unoffsetBy, h1]
      rw [hu, extract_valid s pre mid _ hs]
      have := ih (pre ++ mid ++ ['%']) [] (String.ofList mid :: r) (by simpa using hs)
      simp only [ulen_append, ulen_cons, ulen_nil, Nat.add_zero] at this
      rw [this]
      simp [List.splitOnPPrepend]
    · have hne : (c == '%') = false := by simpa using hp
      rw [if_neg (by simp [hne])]
      have hu : (⟨ulen pre + ulen mid⟩ : Pos.Raw).unoffsetBy 0 = ⟨ulen pre + ulen mid⟩ := by
        simp [Pos.Raw.unoffsetBy]
      rw [hu, hnext]
      have := ih pre (mid ++ [c]) r (by simpa using hs)
      simp only [ulen_append, ulen_cons, ulen_nil, Nat.add_zero, ← Nat.add_assoc] at this
      rw [this]
      simp [List.splitOnPPrepend, hne]

theorem splitOn_percent (s : String) :
    s.splitOn "%" = (s.toList.splitOn '%').map String.ofList := by
  have h : ("%" == "") = false := by decide
  unfold String.splitOn
  rw [h]
  simp only [Bool.false_eq_true, if_false]
  have := splitOnAux_valid s s.toList [] [] [] (by simp)
  simp only [ulen_nil, Nat.add_zero, List.reverse_nil, List.nil_append] at this
  exact this

theorem lastPercent_none {cs : List Char} (h : lastPercent cs = none) : '%' ∉ cs := by
  unfold lastPercent at h
  simp only [List.getLast?_eq_none_iff, List.filter_eq_nil_iff, List.mem_range] at h
  intro hm
  obtain ⟨i, hi, he⟩ := List.getElem_of_mem hm
  have := h i hi
  simp [List.getD_eq_getElem?_getD, hi, he] at this

theorem lastPercent_some {cs : List Char} {i : Nat} (h : lastPercent cs = some i) :
    cs = cs.take i ++ '%' :: cs.drop (i + 1) ∧ '%' ∉ cs.drop (i + 1) := by
  unfold lastPercent at h
  simp only [List.getLast?_eq_some_iff] at h
  obtain ⟨ys, hys⟩ := h
  have hpw : List.Pairwise (· < ·) (ys ++ [i]) := by
    rw [← hys]; exact List.Pairwise.filter _ List.pairwise_lt_range
  have hmem : ∀ j, j ∈ ys ++ [i] ↔ (j < cs.length ∧ (cs.getD j ' ' == '%') = true) := by
    intro j; rw [← hys]; simp
  have hi := (hmem i).1 (by simp)
  obtain ⟨hil, hic⟩ := hi
  have hci : cs[i] = '%' := by
    simpa [List.getD_eq_getElem?_getD, hil] using hic
  refine ⟨?_, ?_⟩
  · have := List.take_append_drop i cs
    conv => lhs; rw [← this]
    congr 1
    rw [List.drop_eq_getElem_cons hil, hci]
  · intro hm
    obtain ⟨k, hk, he⟩ := List.getElem_of_mem hm
    simp only [List.length_drop] at hk
    rw [List.getElem_drop] at he
    have hj : (i + 1 + k) ∈ ys ++ [i] := by
      rw [hmem]; refine ⟨by omega, ?_⟩
      have : i + 1 + k < cs.length := by omega
      simp [List.getD_eq_getElem?_getD, this, he]
    rw [List.pairwise_append] at hpw
    rcases List.mem_append.1 hj with h1 | h1
    · have := hpw.2.2 _ h1 i (by simp); omega
    · simp at h1; omega

/-- the spec's parts of a host with a last '%' -/
theorem parts_of_split (t d : List Char) (hd : '%' ∉ d) :
    (t ++ '%' :: d).splitOn '%' = t.splitOn '%' ++ [d] := by
  rw [List.splitOn_append_cons_self, List.splitOn_eq_singleton hd]

theorem intercalate_ofList (ls : List (List Char)) :
    "%".intercalate (ls.map String.ofList) = String.ofList (['%'].intercalate ls) := by
  rw [← String.toList_inj, String.toList_intercalate]
  simp only [List.map_map, String.toList_ofList]
  have : (String.toList ∘ String.ofList) = (id : List Char → List Char) := by
    funext x; simp
  rw [this]
  have h2 : "%".toList = ['%'] := by decide
  simp [h2]

/-- the bridge, address part -/
theorem bridge_addr (h : String) :
    (if (h.splitOn "%").length ≤ 1 then h else "%".intercalate (h.splitOn "%").dropLast) =
      (match lastPercent h.toList with
        | some i => String.ofList (h.toList.take i)
        | none => h) := by
  rw [splitOn_percent]
  cases hl : lastPercent h.toList with
  | none =>
    have := lastPercent_none hl
    simp [List.splitOn_eq_singleton this]
  | some i =>
    obtain ⟨hcs, hd⟩ := lastPercent_some hl
    dsimp only
    generalize h.toList.take i = t at hcs ⊢
    generalize h.toList.drop (i + 1) = d at hcs hd ⊢
    rw [hcs, parts_of_split t d hd]
    have hne : (t.splitOn '%').length ≠ 0 := by
      simp [List.length_eq_zero_iff]
    rw [if_neg (by simp)]
    simp only [List.map_append, List.map_cons, List.map_nil, List.dropLast_concat]
    rw [intercalate_ofList, List.intercalate_splitOn]

/-- the bridge, zone part -/
theorem bridge_zone (h : String) :
    (if (h.splitOn "%").length ≤ 1 then "" else (h.splitOn "%").getLast!) =
      (match lastPercent h.toList with
        | some i => String.ofList (h.toList.drop (i + 1))
        | none => "") := by
  rw [splitOn_percent]
  cases hl : lastPercent h.toList with
  | none =>
    have := lastPercent_none hl
    simp [List.splitOn_eq_singleton this]
  | some i =>
    obtain ⟨hcs, hd⟩ := lastPercent_some hl
    dsimp only
    generalize h.toList.take i = t at hcs ⊢
    generalize h.toList.drop (i + 1) = d at hcs hd ⊢
    rw [hcs, parts_of_split t d hd]
    have hne : (t.splitOn '%').length ≠ 0 := by
      simp [List.length_eq_zero_iff]
    rw [if_neg (by simp)]
    simp [List.getLast!_eq_getLast?_getD]

end ZS

/-! ## model = spec, function by function -/

theorem addr_tail_eq (v6 : Bool) (ip : IPKind) (zone port : String) (atoi : Option Int) :
    (if !(match ip, v6 with | .v4 _, false => true | .v6 _, true => true | _, _ => false) then none
     else if port == "" then some (⟨ip, if v6 then 547 else 67, zone⟩ : UDPAddr)
     else atoi.map (fun p => (⟨ip, p, zone⟩ : UDPAddr))) =
    (match ip with
     | .none => none
     | _ =>
       let is4 := match ip with | .v4 _ => true | _ => false
       if (v6 && is4) || (!v6 && !is4) then none
       else
         if port == "" then some ⟨ip, if v6 then 547 else 67, zone⟩
         else match atoi with
           | none => none
           | some p => some ⟨ip, p, zone⟩) := by
  cases ip <;> cases v6 <;> cases atoi <;> simp

theorem addr_tail_family (v6 : Bool) (ip : IPKind) (zone port : String) (atoi : Option Int) (a : UDPAddr)
    (h : (if !(match ip, v6 with | .v4 _, false => true | .v6 _, true => true | _, _ => false) then none
     else if port == "" then some (⟨ip, if v6 then 547 else 67, zone⟩ : UDPAddr)
     else atoi.map (fun p => (⟨ip, p, zone⟩ : UDPAddr))) = some a) :
    (match a.ip with | .v4 _ => v6 = false | .v6 _ => v6 = true | .none => False) := by
  cases ip <;> cases v6 <;> simp at h <;>
    (by_cases hp : port = "" <;> simp [hp] at h <;>
      (first
        | (subst h; simp)
        | (obtain ⟨p, _, h⟩ := h; subst h; simp)))

theorem specAddr_eq (v6 : Bool) (o : AddrOracle) : specAddr v6 o = getListenAddress v6 o := by
  unfold specAddr getListenAddress splitHostPort
  cases hs : o.shp with
  | some hp =>
    obtain ⟨h, p⟩ := hp
    simp only [Option.orElse_some, Option.bind_some]
    rw [ZS.bridge_addr, ZS.bridge_zone]
    cases hl : lastPercent h.toList <;> dsimp only <;> exact addr_tail_eq v6 _ _ _ _
  | none =>
    cases hs0 : o.shp0 with
    | none => simp
    | some h =>
      simp only [Option.orElse_none, Option.map_some, Option.bind_some]
      rw [ZS.bridge_addr, ZS.bridge_zone]
      cases hl : lastPercent h.toList <;> dsimp only <;> exact addr_tail_eq v6 _ _ _ _

theorem specExpand_eq (ifs : List Iface) (l : UDPAddr) :
    specExpand ifs l =
      (if l.zone == "" && (isLLMulticast l.ip || isIfaceLocalMulticast l.ip) then expandLLMulticast ifs l
       else some [l]) := by
  unfold specExpand
  split
  · rename_i hc
    simp only [Bool.and_eq_true, beq_iff_eq] at hc
    obtain ⟨hz, hm⟩ := hc
    unfold expandLLMulticast
    have h1 : (!(isLLMulticast l.ip || isIfaceLocalMulticast l.ip)) = false := by simp [hm]
    have h2 : (l.zone != "") = false := by simp [hz]
    simp only [h1, h2, Bool.false_eq_true, if_false]
    have key : ∀ (b : Bool), ifs.filter (fun i => i.multi && (i.bcast || !b)) =
        ifs.filter (fun i => i.multi && (!b || i.bcast)) := by
      intro b; congr 1; funext i; rw [Bool.or_comm]
    rw [key]
    rfl
  · rfl

theorem listenLoop_eq (v6 : Bool) (ifs : List Iface) (os : List AddrOracle) (l : List String) :
    listenLoop v6 ifs os l =
      l.foldr (fun s acc =>
        match findOracle os s, acc with
        | some o, some rest => ((specAddr v6 o).bind (specExpand ifs)).map (· ++ rest)
        | _, _ => none) (some []) := by
  induction l with
  | nil => rfl
  | cons a rest ih =>
    rw [List.foldr_cons, ← ih]
    conv => lhs; unfold listenLoop
    cases hf : findOracle os a with
    | none => simp
    | some o =>
      cases hr : listenLoop v6 ifs os rest with
      | none =>
        dsimp only
        cases getListenAddress v6 o with
        | none => rfl
        | some x =>
          dsimp only
          cases (if (x.zone == "" && (isLLMulticast x.ip || isIfaceLocalMulticast x.ip)) = true then
            expandLLMulticast ifs x else some [x]) <;> rfl
      | some y =>
        dsimp only
        rw [specAddr_eq]
        cases hg : getListenAddress v6 o with
        | none => rfl
        | some x =>
          dsimp only
          rw [Option.bind_some, specExpand_eq]
          cases (if (x.zone == "" && (isLLMulticast x.ip || isIfaceLocalMulticast x.ip)) = true then
            expandLLMulticast ifs x else some [x]) <;> rfl

theorem parseListen_eq (v6 : Bool) (ifs : List Iface) (sec : SectionView) :
    parseListen v6 ifs sec = specListeners v6 ifs sec := by
  unfold parseListen specListeners
  cases hi : sec.iface <;> cases hl : sec.listen <;> simp only [Option.bind_some, Option.bind_none]
  · -- default listeners
    unfold defaultListen
    cases v6
    · rfl
    · have hm : isLLMulticast allRelayAgentsAndServers = true := by decide
      rw [specExpand_eq]
      simp only [hm, Bool.true_or, Bool.and_true, beq_self_eq_true, if_true, Bool.not_true, Bool.false_eq_true, if_false]
      cases expandLLMulticast ifs ⟨allRelayAgentsAndServers, 547, ""⟩ <;> rfl
  · exact listenLoop_eq v6 ifs sec.oracles _
  · exact listenLoop_eq v6 ifs sec.oracles _

theorem parsePlugins_eq (items : List ItemView) :
    parsePlugins items = if itemsOk items then some (itemsList items) else none := by
  induction items with
  | nil => rfl
  | cons i rest ih =>
    cases i with
    | one n a =>
      have e1 : itemsOk (.one n a :: rest) = itemsOk rest := by simp [itemsOk]
      have e2 : itemsList (.one n a :: rest) = (n, a) :: itemsList rest := by simp [itemsList]
      rw [parsePlugins, ih, e1, e2]
      split <;> simp
    | notMap => simp [parsePlugins, itemsOk]
    | keys k => simp [parsePlugins, itemsOk]

theorem parseSection_eq (v6 : Bool) (ifs : List Iface) (sec : SectionView) :
    parseSection v6 ifs sec = specSection v6 ifs sec := by
  unfold parseSection specSection
  cases sec.plugins with
  | none => rfl
  | some items =>
    simp only [parsePlugins_eq, parseListen_eq]
    cases itemsOk items <;> simp
    cases specListeners v6 ifs sec <;> simp

theorem sameCfg_refl (a : Option ServerConfig) : sameCfg a a = true := by
  cases a <;> simp [sameCfg]

/-! ## the C18 theorems (statements verbatim from `ConfigStmts.lean`) -/

/-- For every document (as viper/cast deliver it), every interface list and every answer of the
stdlib parsers: what the loader returns is what the property demands (`C18.holds`). -/
theorem C18_load (ifs : List Iface) (s6 s4 : Option SectionView) :
    C18.holds ifs s6 s4 (loadConfig ifs s6 s4) = true := by
  unfold C18.holds loadConfig
  cases s6 with
  | none =>
    cases s4 with
    | none => rfl
    | some t4 =>
      simp only [parseSection_eq]
      cases specSection false ifs t4 <;> simp [sameCfg_refl]
  | some t6 =>
    simp only [parseSection_eq]
    cases specSection true ifs t6 with
    | none => cases s4 <;> rfl
    | some c6 =>
      cases s4 with
      | none => simp [sameCfg_refl]
      | some t4 => cases h4 : specSection false ifs t4 <;> simp [h4, sameCfg_refl]

/-- on success the plugin list of a configured protocol is exactly the listed one-key items, in order -/
theorem C18_plugins_exact (v6 : Bool) (ifs : List Iface) (sec : SectionView) (cfg : ServerConfig)
    (h : parseSection v6 ifs sec = some cfg) :
    ∃ items, sec.plugins = some items ∧ itemsOk items = true ∧ cfg.plugins = itemsList items := by
  rw [parseSection_eq] at h
  unfold specSection at h
  cases hp : sec.plugins with
  | none => simp [hp] at h
  | some items =>
    refine ⟨items, rfl, ?_⟩
    simp only [hp] at h
    cases hok : itemsOk items with
    | false => simp [hok] at h
    | true =>
      simp only [hok, Bool.not_true, Bool.false_eq_true, if_false, Option.map_eq_some_iff] at h
      obtain ⟨ls, _, rfl⟩ := h
      exact ⟨rfl, rfl⟩

/-- a missing / non-list plugins section, a non-map item or an item naming several plugins is an error -/
theorem C18_bad_plugins (v6 : Bool) (ifs : List Iface) (sec : SectionView)
    (h : sec.plugins = none ∨ ∃ items, sec.plugins = some items ∧ itemsOk items = false) :
    parseSection v6 ifs sec = none := by
  rw [parseSection_eq]
  unfold specSection
  rcases h with h | ⟨items, h, hok⟩
  · simp [h]
  · simp [h, hok]

/-- using both `listen` and `interface` is an error -/
theorem C18_listen_and_interface (v6 : Bool) (ifs : List Iface) (sec : SectionView)
    (hi : sec.iface.isSome = true) (hl : sec.listen.isSome = true) : parseSection v6 ifs sec = none := by
  have hpl : parseListen v6 ifs sec = none := by
    unfold parseListen
    cases h1 : sec.iface with
    | none => simp [h1] at hi
    | some i =>
      cases h2 : sec.listen with
      | none => simp [h2] at hl
      | some l => rfl
  unfold parseSection
  rw [hpl]
  cases sec.plugins with
  | none => rfl
  | some items => dsimp only; cases parsePlugins items <;> rfl

/-- an accepted listen address has the protocol's family, the default port when none was given,
and the zone that follows the last '%' -/
theorem C18_listen_address (v6 : Bool) (o : AddrOracle) (a : UDPAddr) (h : getListenAddress v6 o = some a) :
    (match a.ip with | .v4 _ => v6 = false | .v6 _ => v6 = true | .none => False) ∧
    specAddr v6 o = some a := by
  refine ⟨?_, by rw [specAddr_eq]; exact h⟩
  rw [← specAddr_eq] at h
  unfold specAddr at h
  simp only [Option.bind_eq_some_iff] at h
  obtain ⟨⟨host, port⟩, _, h⟩ := h
  exact addr_tail_family v6 _ _ _ _ a h

/-- an unparsable address, an address of the wrong family or an unparsable port is an error -/
theorem C18_listen_rejects (v6 : Bool) (o : AddrOracle) (h : specAddr v6 o = none) :
    getListenAddress v6 o = none := by
  rw [← specAddr_eq]; exact h

/-- neither protocol configured is an error -/
theorem C18_needs_one (ifs : List Iface) : loadConfig ifs none none = none := rfl

end CoreDhcp
