import CoreDhcp.Spec.File
namespace CoreDhcp

namespace FileAux

/-- the per-line key function used by `listedFor` -/
def key (m : List Nat) : FLine → Option IPKind := fun l => match l with
  | .fields _ (some m') ip => if m' == m then some ip else none
  | _ => none

theorem listedFor_eq (m : List Nat) (lines : List FLine) :
    listedFor m lines = lines.reverse.findSome? (key m) := rfl

theorem listedFor_nil (m : List Nat) : listedFor m [] = none := rfl

theorem listedFor_cons (m : List Nat) (l : FLine) (rest : List FLine) :
    listedFor m (l :: rest) = (listedFor m rest).or (key m l) := by
  rw [listedFor_eq, listedFor_eq, List.reverse_cons, List.findSome?_append]
  cases h : key m l <;> simp [h]

theorem get_nil (m : List Nat) : FTable.get [] m = none := rfl

theorem find_filter_ne (t : FTable) (m m' : List Nat) (h : m' ≠ m) :
    (t.filter (fun p => !(p.1 == m))).find? (fun p => p.1 == m') = t.find? (fun p => p.1 == m') := by
  induction t with
  | nil => rfl
  | cons p t ih =>
    by_cases hp : p.1 = m
    · have h1 : (p.1 == m) = true := by simp [hp]
      have h2 : (p.1 == m') = false := by
        simp [hp]; exact fun e => h e.symm
      simp [h1, h2, ih]
    · have h1 : (p.1 == m) = false := by simp [hp]
      simp [List.find?_cons, h1, ih]

theorem get_put (t : FTable) (m m' : List Nat) (ip : IPKind) :
    FTable.get (t.put m ip) m' = if m' == m then some ip else t.get m' := by
  unfold FTable.get FTable.put
  by_cases h : m' = m
  · subst h
    simp
  · have h1 : (m == m') = false := by simp; exact fun e => h e.symm
    have h2 : (m' == m) = false := by simp [h]
    rw [List.find?_cons]
    simp only [h1, h2]
    rw [find_filter_ne t m m' h]
    simp

/-- generalised: accepted iff all lines ok, independent of the accumulator -/
theorem load_isSome (v6 : Bool) (lines : List FLine) :
    ∀ acc : FTable, (loadFile v6 lines acc).isSome = fileOk v6 lines := by
  induction lines with
  | nil => intro acc; simp [loadFile, fileOk]
  | cons l rest ih =>
    intro acc
    have hcons : fileOk v6 (l :: rest) = (FLine.ok v6 l && fileOk v6 rest) := by
      simp [fileOk, List.all_cons]
    rw [hcons]
    cases l with
    | empty => simp [loadFile, FLine.ok, ih]
    | comment => simp [loadFile, FLine.ok, ih]
    | fields n mac ip =>
      by_cases hn : n = 2
      · subst hn
        cases mac with
        | none => simp [loadFile, FLine.ok]
        | some mm =>
          cases v6 <;> cases ip <;> simp [loadFile, FLine.ok, ih]
      · have : (n == 2) = false := by simp [hn]
        simp [loadFile, FLine.ok, hn]

/-- generalised: the accepted table is the file's listing, falling back to the accumulator -/
theorem load_get (v6 : Bool) (lines : List FLine) :
    ∀ (acc t : FTable), loadFile v6 lines acc = some t →
      ∀ m, t.get m = (listedFor m lines).or (acc.get m) := by
  induction lines with
  | nil =>
    intro acc t h m
    simp [loadFile] at h
    subst h
    simp [listedFor_nil]
  | cons l rest ih =>
    intro acc t h m
    rw [listedFor_cons]
    cases l with
    | empty =>
      simp only [loadFile] at h
      rw [ih acc t h m]; simp [key]
    | comment =>
      simp only [loadFile] at h
      rw [ih acc t h m]; simp [key]
    | fields n mac ip =>
      by_cases hn : n = 2
      · subst hn
        cases mac with
        | none => simp [loadFile] at h
        | some mm =>
          have step : ∀ ip', loadFile v6 rest (acc.put mm ip') = some t → ip' = ip →
              t.get m = ((listedFor m rest).or (key m (.fields 2 (some mm) ip))).or (acc.get m) := by
            intro ip' h' e
            subst e
            rw [ih _ t h' m, get_put, Option.or_assoc]
            congr 1
            by_cases hm : m = mm
            · subst hm; simp [key]
            · have h1 : (m == mm) = false := by simp [hm]
              have h2 : (mm == m) = false := by simp; exact fun e => hm e.symm
              simp [key, h1, h2]
          cases v6 <;> cases ip <;> simp [loadFile] at h
          · exact step _ h rfl
          · exact step _ h rfl
      · simp [loadFile, hn] at h

theorem load_spec (s : FState) (v6 : Bool) (lines : List FLine) :
    (fileOk v6 lines = true ∧ ∃ t, loadFile v6 lines [] = some t ∧
        s.load v6 lines = (s.setTable v6 t, true)) ∨
    (fileOk v6 lines = false ∧ s.load v6 lines = (s, false)) := by
  have h := load_isSome v6 lines []
  unfold FState.load
  cases hl : loadFile v6 lines [] with
  | none =>
    right
    rw [hl] at h
    exact ⟨by simpa using h.symm, rfl⟩
  | some t =>
    left
    rw [hl] at h
    exact ⟨by simpa using h.symm, t, rfl, rfl⟩

/-- invariant relating the model state and the monitor state -/
def Inv (s : FState) (mon : FMon) : Prop :=
  (∀ m, s.t4.get m = listedFor m (mon.f4.getD [])) ∧
  (∀ m, s.t6.get m = listedFor m (mon.f6.getD []))

theorem inv_load (s : FState) (mon : FMon) (v6 : Bool) (lines : List FLine) (hinv : Inv s mon) :
    Inv (s.load v6 lines).1
      (if fileOk v6 lines then
        (if v6 then { mon with f6 := some lines } else { mon with f4 := some lines }) else mon) ∧
    (s.load v6 lines).2 = fileOk v6 lines := by
  rcases load_spec s v6 lines with ⟨hok, t, ht, hl⟩ | ⟨hok, hl⟩
  · rw [hl, hok]
    refine ⟨?_, rfl⟩
    have hg : ∀ m, t.get m = listedFor m lines := by
      intro m
      rw [load_get v6 lines [] t ht m, get_nil]; simp
    cases v6
    · refine ⟨?_, ?_⟩
      · intro m; simpa [FState.setTable] using hg m
      · intro m; simpa [FState.setTable] using hinv.2 m
    · refine ⟨?_, ?_⟩
      · intro m; simpa [FState.setTable] using hinv.1 m
      · intro m; simpa [FState.setTable] using hg m
  · rw [hl, hok]
    exact ⟨by simpa using hinv, rfl⟩

theorem q4_ok (s : FState) (mon : FMon) (hinv : Inv s mon) (mac : List Nat) :
    (mon.step (.q4 mac (s.query4 mac))).2 = true := by
  simp only [FMon.step, FState.query4]
  rw [hinv.1 mac]
  cases h : listedFor mac (mon.f4.getD []) with
  | none => simp
  | some ip => cases ip <;> simp

theorem q6_ok (s : FState) (mon : FMon) (hinv : Inv s mon) (hi : Bool) (mac : Option (List Nat)) :
    (mon.step (.q6 hi mac (s.query6 hi mac))).2 = true := by
  simp only [FMon.step, FState.query6]
  cases hi
  · simp
  · cases mac with
    | none => simp
    | some mm =>
      simp only [Bool.not_true, Bool.false_eq_true, if_false]
      rw [hinv.2 mm]
      cases h : listedFor mm (mon.f6.getD []) with
      | none => simp
      | some ip => cases ip <;> simp

theorem run_ok (ops : List FOp) :
    ∀ (s : FState) (mon : FMon), Inv s mon → (FMon.run mon (FState.run s ops)).all id = true := by
  induction ops with
  | nil => intro s mon _; simp [FState.run, FMon.run]
  | cons op ops ih =>
    intro s mon hinv
    cases op with
    | setup v6 lines =>
      have h := inv_load s mon v6 lines hinv
      simp only [FState.run, FMon.run, List.all_cons, FMon.step]
      rw [ih _ _ h.1, h.2]
      simp
    | refresh v6 lines =>
      have h := inv_load s mon v6 lines hinv
      simp only [FState.run, FMon.run, List.all_cons, FMon.step]
      rw [ih _ _ h.1]
      simp
    | q4 mac =>
      have h := q4_ok s mon hinv mac
      simp only [FState.run, FMon.run, List.all_cons]
      have hs : (mon.step (.q4 mac (s.query4 mac))).1 = mon := rfl
      rw [h, hs, ih s mon hinv]
      simp
    | q6 hi mac =>
      have h := q6_ok s mon hinv hi mac
      simp only [FState.run, FMon.run, List.all_cons]
      have hs : (mon.step (.q6 hi mac (s.query6 hi mac))).1 = mon := rfl
      rw [h, hs, ih s mon hinv]
      simp

end FileAux

open FileAux

/-- a file is accepted exactly when every line is skipped or well-formed for the protocol -/
theorem C10_load_ok_iff (v6 : Bool) (lines : List FLine) :
    (loadFile v6 lines []).isSome = fileOk v6 lines := load_isSome v6 lines []

/-- the accepted table maps every hardware address to the address of the last line naming it, and nothing else -/
theorem C10_load_map (v6 : Bool) (lines : List FLine) (t : FTable)
    (h : loadFile v6 lines [] = some t) : ∀ m, t.get m = listedFor m lines := by
  intro m
  rw [load_get v6 lines [] t h m, get_nil]
  simp

/-- every history of set-ups, refreshes (well-formed or not) and queries of both protocols passes the monitor -/
theorem C10_run (ops : List FOp) : C10.holds (FState.run {} ops) = true := by
  unfold C10.holds
  apply run_ok
  exact ⟨fun m => rfl, fun m => rfl⟩

/-- loading a file for one protocol never changes what the other protocol serves -/
theorem C10_separate (s : FState) (v6 : Bool) (lines : List FLine) :
    (s.load v6 lines).1.table (!v6) = s.table (!v6) := by
  unfold FState.load
  cases loadFile v6 lines [] with
  | none => rfl
  | some t => cases v6 <;> simp [FState.table, FState.setTable]

/-- a malformed update leaves the previous mapping in force -/
theorem C10_bad_update (s : FState) (v6 : Bool) (lines : List FLine) (h : fileOk v6 lines = false) :
    (s.load v6 lines) = (s, false) := by
  rcases load_spec s v6 lines with ⟨hok, _⟩ | ⟨_, hl⟩
  · rw [h] at hok; cases hok
  · exact hl

end CoreDhcp
