/-
The IPv4 bitmap allocator model satisfies the four history monitors (C04–C07) on every run.
-/
import CoreDhcp.Spec.Alloc
import CoreDhcp.Proofs.Bits
namespace CoreDhcp

/-! ### BitVec 32 arithmetic -/

private theorem bv_sub_toNat (s x : BitVec 32) (h : s.toNat ≤ x.toNat) :
    (x - s).toNat = x.toNat - s.toNat := by
  have := x.isLt; have := s.isLt
  rw [BitVec.toNat_sub]; omega

private theorem bv_add_ofNat_toNat (s : BitVec 32) (o : Nat) (h : s.toNat + o < 2^32) :
    (s + BitVec.ofNat 32 o).toNat = s.toNat + o := by
  rw [BitVec.toNat_add, BitVec.toNat_ofNat]; omega

private theorem bv_add_sub_cancel (s x : BitVec 32) (h : s.toNat ≤ x.toNat) :
    s + BitVec.ofNat 32 (x - s).toNat = x := by
  apply BitVec.eq_of_toNat_eq
  have := x.isLt; have := s.isLt
  rw [bv_add_ofNat_toNat] <;> rw [bv_sub_toNat s x h] <;> omega

private theorem bv_add_ofNat_inj (s : BitVec 32) (o n : Nat) (ho : s.toNat + o < 2^32)
    (hn : s.toNat + n < 2^32) (h : s + BitVec.ofNat 32 o = s + BitVec.ofNat 32 n) : o = n := by
  have := congrArg BitVec.toNat h
  rw [bv_add_ofNat_toNat s o ho, bv_add_ofNat_toNat s n hn] at this
  omega

/-! ### list helper -/

private theorem filter_ne_length {α} [BEq α] [LawfulBEq α] (l : List α) (x : α)
    (hn : l.Nodup) (hx : x ∈ l) : (l.filter (· != x)).length + 1 = l.length := by
  induction l with
  | nil => cases hx
  | cons y ys ih =>
    rw [List.nodup_cons] at hn
    by_cases hxy : y = x
    · subst hxy
      have : ys.filter (· != y) = ys := by
        rw [List.filter_eq_self]
        intro z hz
        have : z ≠ y := fun h => hn.1 (h ▸ hz)
        simpa using this
      simp [this]
    · have hx' : x ∈ ys := by
        rcases List.mem_cons.1 hx with h | h
        · exact absurd h.symm hxy
        · exact h
      have := ih hn.2 hx'
      have hb : (y != x) = true := by simpa using hxy
      simp [hb, this]

/-! ### the easy theorems -/

/-- the offset `Allocate` tries first -/
def A4.hintOff (a : A4) (h : Option (BitVec 32)) : Nat :=
  match a.toOffset h with | .ok o => o | .error _ => 0

/-- `Allocate`, with the hint offset named -/
theorem A4.allocate_eq (a : A4) (h : Option (BitVec 32)) (c : Option Nat) :
    a.allocate h c =
      match (if (!a.bm.test (a.hintOff h)) = true then some (some (a.hintOff h))
        else match c with
          | none => if a.bm.full then some none else none
          | some c => if c < a.bm.length ∧ !a.bm.test c then some (some c) else none) with
      | none => none
      | some none => some (a, .noaddr)
      | some (some n) =>
        if n % 2^32 > (a.stop - a.start).toNat then
          some (({ a with bm := a.bm.set n } : A4), A4Res.panic)
        else some ({ a with bm := a.bm.set n }, A4Res.ok (a.start + BitVec.ofNat 32 n)) := rfl

theorem A4.firstFit_admissible (a : A4) (h : Option (BitVec 32)) :
    (a.allocate h a.firstFit).isSome = true := by
  rw [A4.allocate_eq]
  unfold A4.firstFit
  generalize a.hintOff h = ho
  cases ht : a.bm.test ho
  · simp only [Bool.not_false, if_true]
    split <;> rfl
  · cases hn : a.bm.nextClear with
    | none => simp [Bits.nextClear_none _ hn]
    | some c =>
      obtain ⟨h1, h2⟩ := Bits.nextClear_some _ _ hn
      simp only [h1, h2, Bool.not_true, Bool.not_false, and_self, if_true,
        Bool.false_eq_true, if_false]
      split <;> rfl

private theorem A4.allocate_fin (a a' : A4) (r : A4Res) (n : Nat)
    (h3 : (if n % 2^32 > (a.stop - a.start).toNat then
          some (({ a with bm := a.bm.set n } : A4), A4Res.panic)
        else some ({ a with bm := a.bm.set n }, A4Res.ok (a.start + BitVec.ofNat 32 n)))
        = some (a', r)) :
    a' = { a with bm := a.bm.set n } ∧
      ((r = .panic ∧ n % 2^32 > (a.stop - a.start).toNat) ∨
       (r = .ok (a.start + BitVec.ofNat 32 n) ∧ ¬ n % 2^32 > (a.stop - a.start).toNat)) := by
  split at h3
  · next hp =>
    simp only [Option.some.injEq, Prod.mk.injEq] at h3
    exact ⟨h3.1.symm, Or.inl ⟨h3.2.symm, hp⟩⟩
  · next hp =>
    simp only [Option.some.injEq, Prod.mk.injEq] at h3
    exact ⟨h3.1.symm, Or.inr ⟨h3.2.symm, hp⟩⟩

/-- case analysis of a successful (admissible) `Allocate` -/
theorem A4.allocate_cases (a a' : A4) (h : Option (BitVec 32)) (c : Option Nat) (r : A4Res)
    (hr : a.allocate h c = some (a', r)) :
    (a' = a ∧ r = .noaddr ∧ a.bm.full = true ∧ a.bm.test (a.hintOff h) = true) ∨
    (∃ n, a.bm.test n = false ∧
      (n = a.hintOff h ∨ (a.bm.test (a.hintOff h) = true ∧ n < a.bm.length)) ∧
      a' = { a with bm := a.bm.set n } ∧
      ((r = .panic ∧ n % 2^32 > (a.stop - a.start).toNat) ∨
       (r = .ok (a.start + BitVec.ofNat 32 n) ∧ ¬ n % 2^32 > (a.stop - a.start).toNat))) := by
  rw [A4.allocate_eq] at hr
  generalize a.hintOff h = ho at hr ⊢
  cases ht : a.bm.test ho
  · simp only [ht, Bool.not_false, if_true] at hr
    exact Or.inr ⟨ho, ht, Or.inl rfl, A4.allocate_fin a a' r ho hr⟩
  · simp only [ht, Bool.not_true, Bool.false_eq_true, if_false] at hr
    cases c with
    | none =>
      simp only at hr
      cases hf : a.bm.full
      · simp [hf] at hr
      · simp only [hf, if_true, Option.some.injEq, Prod.mk.injEq] at hr
        exact Or.inl ⟨hr.1.symm, hr.2.symm, rfl, rfl⟩
    | some c =>
      simp only at hr
      by_cases hc : c < a.bm.length ∧ (!a.bm.test c) = true
      · simp only [hc, and_self, if_true] at hr
        have : a.bm.test c = false := by simpa using hc.2
        exact Or.inr ⟨c, this, Or.inr ⟨rfl, hc.1⟩, A4.allocate_fin a a' r c hr⟩
      · rw [if_neg hc] at hr
        cases hr

theorem A4.noaddr_unchanged (a a' : A4) (h : Option (BitVec 32)) (c : Option Nat)
    (hr : a.allocate h c = some (a', .noaddr)) : a' = a := by
  rcases A4.allocate_cases a a' h c _ hr with ⟨h1, _⟩ | ⟨n, _, _, _, ⟨h1, _⟩ | ⟨h1, _⟩⟩
  · exact h1
  · cases h1
  · cases h1

theorem A4.free_error_unchanged (a : A4) (ip : Option (BitVec 32))
    (hr : (a.free ip).2 ≠ .ok) : (a.free ip).1 = a := by
  unfold A4.free at hr ⊢
  split
  · rfl
  · next o ho =>
    simp only [ho] at hr
    split
    · rfl
    · next ht => simp [ht] at hr

/-! ### the invariant -/

/-- relation between the allocator state and the monitor's outstanding list -/
structure Inv4 (s e : BitVec 32) (a : A4) (out : List (BitVec 32)) : Prop where
  hs : a.start = s
  he : a.stop = e
  hle : s.toNat ≤ e.toNat
  hlen : a.bm.length = e.toNat - s.toNat + 1
  nodup : out.Nodup
  range : ∀ x ∈ out, s.toNat ≤ x.toNat ∧ x.toNat ≤ e.toNat
  bit : ∀ o, o < a.bm.length → (a.bm.test o = true ↔ (s + BitVec.ofNat 32 o) ∈ out)
  cnt : out.length = a.bm.count

theorem Inv4.init (s e : BitVec 32) (a : A4) (hnew : A4.new (some s) (some e) = .ok a) :
    Inv4 s e a [] := by
  unfold A4.new at hnew
  simp only at hnew
  split at hnew
  · cases hnew
  · next hle =>
    have hle : s.toNat ≤ e.toNat := by omega
    injection hnew with hnew
    subst hnew
    refine ⟨rfl, rfl, hle, ?_, List.nodup_nil, ?_, ?_, ?_⟩
    · simp [A4.size, bv_sub_toNat s e hle]
    · intro x hx; cases hx
    · intro o _; simp
    · simp

/-- membership in `out` is the bit at the address's offset -/
theorem Inv4.mem_iff {s e : BitVec 32} {a : A4} {out : List (BitVec 32)} (hI : Inv4 s e a out)
    (x : BitVec 32) (h1 : s.toNat ≤ x.toNat) (h2 : x.toNat ≤ e.toNat) :
    x ∈ out ↔ a.bm.test (x - s).toNat = true := by
  have hlt : (x - s).toNat < a.bm.length := by
    rw [hI.hlen, bv_sub_toNat s x h1]; omega
  rw [hI.bit _ hlt, bv_add_sub_cancel s x h1]

theorem Inv4.toOffset_inrange {s e : BitVec 32} {a : A4} {out : List (BitVec 32)}
    (hI : Inv4 s e a out) (x : BitVec 32) (h1 : s.toNat ≤ x.toNat) (h2 : x.toNat ≤ e.toNat) :
    a.toOffset (some x) = .ok (x - s).toNat := by
  unfold A4.toOffset
  simp only [hI.hs, hI.he]
  rw [if_neg (by omega)]

theorem Inv4.toOffset_outrange {s e : BitVec 32} {a : A4} {out : List (BitVec 32)}
    (hI : Inv4 s e a out) (x : BitVec 32) (h : ¬ (s.toNat ≤ x.toNat ∧ x.toNat ≤ e.toNat)) :
    a.toOffset (some x) = .error .notInRange := by
  unfold A4.toOffset
  simp only [hI.hs, hI.he]
  rw [if_pos (by omega)]

theorem Inv4.hintOff_lt {s e : BitVec 32} {a : A4} {out : List (BitVec 32)}
    (hI : Inv4 s e a out) (h : Option (BitVec 32)) : a.hintOff h < a.bm.length := by
  unfold A4.hintOff
  cases h with
  | none => simp only [A4.toOffset]; rw [hI.hlen]; omega
  | some x =>
    by_cases hx : s.toNat ≤ x.toNat ∧ x.toNat ≤ e.toNat
    · rw [hI.toOffset_inrange x hx.1 hx.2]
      simp only
      rw [hI.hlen, bv_sub_toNat s x hx.1]; omega
    · rw [hI.toOffset_outrange x hx]
      simp only
      rw [hI.hlen]; omega

/-- a hint naming a free address of the range: its offset is the hint offset and its bit is clear -/
theorem Inv4.hint_free {s e : BitVec 32} {a : A4} {out : List (BitVec 32)}
    (hI : Inv4 s e a out) (y : BitVec 32) (h1 : s.toNat ≤ y.toNat) (h2 : y.toNat ≤ e.toNat)
    (h3 : y ∉ out) :
    a.hintOff (some y) = (y - s).toNat ∧ a.bm.test (a.hintOff (some y)) = false := by
  have ho : a.hintOff (some y) = (y - s).toNat := by
    unfold A4.hintOff
    rw [hI.toOffset_inrange y h1 h2]
  refine ⟨ho, ?_⟩
  rw [ho]
  cases ht : a.bm.test (y - s).toNat
  · rfl
  · exact absurd ((hI.mem_iff y h1 h2).2 ht) h3

/-! ### steps -/

theorem Inv4.step_noaddr {s e : BitVec 32} {a : A4} {out : List (BitVec 32)}
    (hI : Inv4 s e a out) (h : Option (BitVec 32)) (hfull : a.bm.full = true)
    (hh : a.bm.test (a.hintOff h) = true) :
    (Mon4.step s e out (.alloc h .noaddr)).2.all = true := by
  have hcap : e.toNat - s.toNat + 1 ≤ out.length := by
    rw [hI.cnt, (Bits.full_iff_count _).1 hfull, hI.hlen]; omega
  cases h with
  | none => simp [Mon4.step, Verdict.all, hcap]
  | some y =>
    simp only [Mon4.step, Verdict.all, hcap, decide_true, Bool.true_and]
    cases hc : (decide (s.toNat ≤ y.toNat) && decide (y.toNat ≤ e.toNat) && !out.contains y)
    · rfl
    · simp only [Bool.and_eq_true, decide_eq_true_eq, Bool.not_eq_true', List.contains_eq_mem,
        decide_eq_false_iff_not] at hc
      have := (hI.hint_free y hc.1.1 hc.1.2 hc.2).2
      rw [this] at hh
      cases hh

theorem Inv4.step_ok {s e : BitVec 32} {a : A4} {out : List (BitVec 32)}
    (hI : Inv4 s e a out) (h : Option (BitVec 32)) (n : Nat) (hn : a.bm.test n = false)
    (hlt : n < a.bm.length)
    (hh : n = a.hintOff h ∨ a.bm.test (a.hintOff h) = true) :
    (Mon4.step s e out (.alloc h (.ok (s + BitVec.ofNat 32 n)))).2.all = true := by
  have hlen := hI.hlen
  have hle := hI.hle
  have he := e.isLt
  have hx : (s + BitVec.ofNat 32 n).toNat = s.toNat + n := bv_add_ofNat_toNat s n (by omega)
  have hnot : (s + BitVec.ofNat 32 n) ∉ out := by
    intro hm
    rw [← hI.bit n hlt, hn] at hm
    cases hm
  have h5a : s.toNat ≤ (s + BitVec.ofNat 32 n).toNat := by omega
  have h5b : (s + BitVec.ofNat 32 n).toNat ≤ e.toNat := by omega
  clear hx
  generalize hxdef : s + BitVec.ofNat 32 n = x at hnot h5a h5b ⊢
  cases h with
  | none =>
    simp only [Mon4.step, Verdict.all, List.contains_eq_mem, hnot, decide_false, Bool.not_false,
      h5a, h5b, decide_true, Bool.and_self]
  | some y =>
    simp only [Mon4.step, Verdict.all, List.contains_eq_mem, hnot, decide_false, Bool.not_false,
      h5a, h5b, decide_true, Bool.true_and, Bool.and_self]
    cases hc : (decide (s.toNat ≤ y.toNat) && decide (y.toNat ≤ e.toNat) && !decide (y ∈ out))
    · rfl
    · simp only [Bool.and_eq_true, decide_eq_true_eq, Bool.not_eq_true',
        decide_eq_false_iff_not] at hc
      obtain ⟨ho, ht⟩ := hI.hint_free y hc.1.1 hc.1.2 hc.2
      rcases hh with hh | hh
      · have : x = y := by
          rw [← hxdef, hh, ho]; exact bv_add_sub_cancel s y hc.1.1
        simp [this]
      · rw [ht] at hh; cases hh

theorem Inv4.alloc_ok {s e : BitVec 32} {a : A4} {out : List (BitVec 32)}
    (hI : Inv4 s e a out) (n : Nat) (hn : a.bm.test n = false) (hlt : n < a.bm.length) :
    Inv4 s e { a with bm := a.bm.set n } ((s + BitVec.ofNat 32 n) :: out) := by
  have hlen := hI.hlen
  have hle := hI.hle
  have he := e.isLt
  have hx : (s + BitVec.ofNat 32 n).toNat = s.toNat + n := bv_add_ofNat_toNat s n (by omega)
  have hnot : (s + BitVec.ofNat 32 n) ∉ out := by
    intro hm
    rw [← hI.bit n hlt, hn] at hm
    cases hm
  refine ⟨hI.hs, hI.he, hle, ?_, ?_, ?_, ?_, ?_⟩
  · simp only [Bits.length_set_of_lt _ _ hlt]; exact hlen
  · exact List.nodup_cons.2 ⟨hnot, hI.nodup⟩
  · intro x hxm
    rcases List.mem_cons.1 hxm with rfl | hxm
    · omega
    · exact hI.range x hxm
  · intro o ho
    simp only [Bits.length_set_of_lt _ _ hlt] at ho
    by_cases hon : n = o
    · subst hon
      simp
    · simp only [Bits.test_set_of_ne _ _ _ hon, List.mem_cons]
      rw [hI.bit o ho]
      constructor
      · exact Or.inr
      · rintro (h | h)
        · exact absurd (bv_add_ofNat_inj s o n (by omega) (by omega) h).symm hon
        · exact h
  · simp only [List.length_cons, hI.cnt, Bits.count_set_of_not_test _ _ hlt hn]

theorem Inv4.step_alloc {s e : BitVec 32} {a a' : A4} {out : List (BitVec 32)}
    (hI : Inv4 s e a out) (h : Option (BitVec 32)) (c : Option Nat) (r : A4Res)
    (hr : a.allocate h c = some (a', r)) :
    Inv4 s e a' (Mon4.step s e out (.alloc h r)).1 ∧
      (Mon4.step s e out (.alloc h r)).2.all = true := by
  rcases A4.allocate_cases a a' h c r hr with ⟨rfl, rfl, hf, hh⟩ | ⟨n, hn, hh, rfl, hres⟩
  · exact ⟨hI, hI.step_noaddr h hf hh⟩
  · have hlt : n < a.bm.length := by
      rcases hh with rfl | ⟨_, hlt⟩
      · exact hI.hintOff_lt h
      · exact hlt
    have hnp : ¬ n % 2^32 > (a.stop - a.start).toNat := by
      have := hI.hlen
      have := e.isLt
      rw [hI.hs, hI.he, bv_sub_toNat s e hI.hle]
      omega
    rcases hres with ⟨_, hp⟩ | ⟨rfl, _⟩
    · exact absurd hp hnp
    · rw [show A4Res.ok (a.start + BitVec.ofNat 32 n) = A4Res.ok (s + BitVec.ofNat 32 n) by
        rw [hI.hs]]
      refine ⟨hI.alloc_ok n hn hlt, hI.step_ok h n hn hlt ?_⟩
      rcases hh with hh | ⟨hh, _⟩
      · exact Or.inl hh
      · exact Or.inr hh

theorem Inv4.step_free {s e : BitVec 32} {a : A4} {out : List (BitVec 32)}
    (hI : Inv4 s e a out) (ip : Option (BitVec 32)) :
    Inv4 s e (a.free ip).1 (Mon4.step s e out (.free ip (a.free ip).2)).1 ∧
      (Mon4.step s e out (.free ip (a.free ip).2)).2.all = true := by
  cases ip with
  | none =>
    have : a.free none = (a, .notInRange) := rfl
    rw [this]
    exact ⟨hI, by simp [Mon4.step, Verdict.all]⟩
  | some x =>
    by_cases hx : s.toNat ≤ x.toNat ∧ x.toNat ≤ e.toNat
    · have hto := hI.toOffset_inrange x hx.1 hx.2
      have hmem := hI.mem_iff x hx.1 hx.2
      have hlt : (x - s).toNat < a.bm.length := by
        rw [hI.hlen, bv_sub_toNat s x hx.1]; omega
      cases ht : a.bm.test (x - s).toNat
      · have : a.free (some x) = (a, .doubleFree) := by
          unfold A4.free; rw [hto]; simp only [ht, Bool.not_false, if_true]
        rw [this]
        have hnm : x ∉ out := by rw [hmem, ht]; simp
        exact ⟨hI, by simp [Mon4.step, Verdict.all, hnm]⟩
      · have : a.free (some x) = ({ a with bm := a.bm.clear (x - s).toNat }, .ok) := by
          unfold A4.free; rw [hto]; simp only [ht, Bool.not_true, Bool.false_eq_true, if_false]
        rw [this]
        have hm : x ∈ out := hmem.2 ht
        refine ⟨?_, by simp [Mon4.step, Verdict.all, hm]⟩
        simp only [Mon4.step]
        refine ⟨hI.hs, hI.he, hI.hle, ?_, hI.nodup.filter _, ?_, ?_, ?_⟩
        · simp only [Bits.length_clear]; exact hI.hlen
        · intro y hy; exact hI.range y (List.mem_filter.1 hy).1
        · intro o ho
          simp only [Bits.length_clear] at ho
          have hlen := hI.hlen
          have := e.isLt
          by_cases hon : (x - s).toNat = o
          · subst hon
            rw [bv_add_sub_cancel s x hx.1]
            simp [List.mem_filter]
          · simp only [Bits.test_clear_of_ne _ _ _ hon, List.mem_filter]
            rw [hI.bit o ho]
            constructor
            · intro h
              refine ⟨h, ?_⟩
              have : s + BitVec.ofNat 32 o ≠ x := by
                intro hxx
                apply hon
                rw [← hxx, bv_sub_toNat s _ (by rw [bv_add_ofNat_toNat s o (by omega)]; omega),
                  bv_add_ofNat_toNat s o (by omega)]
                omega
              simpa using this
            · exact fun h => h.1
        · have h1 := filter_ne_length out x hI.nodup hm
          have h2 := Bits.count_clear_of_test a.bm _ ht
          have h3 := hI.cnt
          simp only
          omega
    · have hto := hI.toOffset_outrange x hx
      have : a.free (some x) = (a, .notInRange) := by
        unfold A4.free; rw [hto]
      rw [this]
      have hnm : x ∉ out := fun hm => hx (hI.range x hm)
      exact ⟨hI, by simp [Mon4.step, Verdict.all, hnm]⟩

/-! ### runs -/

theorem Inv4.run {s e : BitVec 32} (ops : List Op4) :
    ∀ (a : A4) (out : List (BitVec 32)) (cs : List (Option Nat)) (evs : List Ev4) (z : A4),
      Inv4 s e a out → A4.run a ops cs = some (evs, z) →
      (Mon4.run s e out evs).all Verdict.all = true := by
  induction ops with
  | nil =>
    intro a out cs evs z _ hrun
    simp only [A4.run, Option.some.injEq, Prod.mk.injEq] at hrun
    rw [← hrun.1]
    rfl
  | cons op ops ih =>
    intro a out cs evs z hI hrun
    cases op with
    | alloc h =>
      cases cs with
      | nil => simp [A4.run] at hrun
      | cons c cs =>
        simp only [A4.run] at hrun
        cases hal : a.allocate h c with
        | none => simp [hal] at hrun
        | some p =>
          obtain ⟨a', r⟩ := p
          simp only [hal, Option.map_eq_some_iff] at hrun
          obtain ⟨⟨evs', z'⟩, hrun', heq⟩ := hrun
          simp only [Prod.mk.injEq] at heq
          obtain ⟨rfl, rfl⟩ := heq
          obtain ⟨hI', hv⟩ := hI.step_alloc h c r hal
          simp only [Mon4.run, List.all_cons, hv, Bool.true_and]
          exact ih a' _ cs evs' z' hI' hrun'
    | free ip =>
      simp only [A4.run, Option.map_eq_some_iff] at hrun
      obtain ⟨⟨evs', z'⟩, hrun', heq⟩ := hrun
      simp only [Prod.mk.injEq] at heq
      obtain ⟨rfl, rfl⟩ := heq
      obtain ⟨hI', hv⟩ := hI.step_free ip
      simp only [Mon4.run, List.all_cons, hv, Bool.true_and]
      exact ih _ _ cs evs' z' hI' hrun'

/-- Every run of the IPv4 allocator model passes all four monitors at every step, for every
range `start ≤ end` including 0.0.0.0–255.255.255.255. -/
theorem A4.run_verdicts (s e : BitVec 32) (a : A4) (hnew : A4.new (some s) (some e) = .ok a)
    (ops : List Op4) (cs : List (Option Nat)) (evs : List Ev4) (z : A4)
    (hrun : A4.run a ops cs = some (evs, z)) :
    (Mon4.run s e [] evs).all Verdict.all = true :=
  Inv4.run ops a [] cs evs z (Inv4.init s e a hnew) hrun

end CoreDhcp
