/-
Invariant proof for the IPv6 bitmap allocator model against the history monitors.
-/
import CoreDhcp.Spec.Alloc
import CoreDhcp.Props.C20
import CoreDhcp.Proofs.Bits6
namespace CoreDhcp

/-! ### pure arithmetic -/
namespace A6Arith

theorem blk_sep (K i j : Nat) (h : i < j) : i * K + K ≤ j * K := by
  have := Nat.mul_le_mul_right K (Nat.succ_le_of_lt h)
  rw [Nat.succ_mul] at this
  exact this

/-- `x` lies in block number `(x - B) / K` -/
theorem in_own_block (K B x : Nat) (hK : 0 < K) (hle : B ≤ x) :
    B + (x - B) / K * K ≤ x ∧ x < B + (x - B) / K * K + K := by
  have h1 := Nat.div_add_mod (x - B) K
  have h2 := Nat.mod_lt (x - B) hK
  rw [Nat.mul_comm] at h1
  constructor <;> omega

/-- … and in no other -/
theorem block_unique (K B x j : Nat) (hK : 0 < K) (hle : B ≤ x)
    (h1 : B + j * K ≤ x) (h2 : x < B + j * K + K) : (x - B) / K = j := by
  obtain ⟨g1, g2⟩ := in_own_block K B x hK hle
  rcases Nat.lt_trichotomy ((x - B) / K) j with h | h | h
  · have := blk_sep K _ _ h; omega
  · exact h
  · have := blk_sep K _ _ h; omega

theorem idx_blockBase (K B i : Nat) (hK : 0 < K) : (B + i * K - B) / K = i := by
  rw [Nat.add_sub_cancel_left, Nat.mul_div_cancel _ hK]

theorem idx_lt (K B N x : Nat) (hle : B ≤ x) (h : x < B + N * K) : (x - B) / K < N := by
  apply Nat.div_lt_of_lt_mul
  rw [Nat.mul_comm K N]
  omega

theorem blockBase_inj (K B i j : Nat) (hK : 0 < K) (h : B + i * K = B + j * K) : i = j :=
  Nat.eq_of_mul_eq_mul_right hK (Nat.add_left_cancel h)

/-- an aligned point below an aligned bound leaves room for a whole aligned unit -/
theorem aligned_room (U m hi : Nat) (hm : U ∣ m) (hh : U ∣ hi) (hlt : m < hi) :
    m + U ≤ hi := by
  obtain ⟨a, rfl⟩ := hm
  obtain ⟨b, rfl⟩ := hh
  have hab : a < b := Nat.lt_of_mul_lt_mul_left hlt
  have := Nat.mul_le_mul_left U (Nat.succ_le_of_lt hab)
  rw [Nat.mul_succ] at this
  exact this

/-- membership in the pool: equal quotients ⇔ inside the aligned interval -/
theorem contains_iff (W B x : Nat) (hW : 0 < W) (hal : B % W = 0) :
    x / W = B / W ↔ B ≤ x ∧ x < B + W := by
  have hB := Nat.div_add_mod B W
  have hx := Nat.div_add_mod x W
  have hr := Nat.mod_lt x hW
  rw [hal] at hB
  constructor
  · intro h
    rw [h] at hx
    constructor <;> omega
  · rintro ⟨h1, h2⟩
    have h3 : x = W * (B / W) + (x - B) := by omega
    have h4 : (x - B) / W = 0 := Nat.div_eq_of_lt (by omega)
    rw [h3, Nat.mul_add_div hW, h4, Nat.add_zero]

end A6Arith

/-! ### addresses -/

theorem maskAddr_val (ip : Addr) (ones : Nat) :
    (maskAddr ip ones).val = ip.val / 2^(128 - ones) * 2^(128 - ones) := by
  apply Addr.val_ofVal_of_lt
  have := Nat.div_mul_le_self ip.val (2^(128 - ones))
  have := ip.val_lt
  omega

/-! ### geometry of a well-formed pool -/

structure Geo (p : Pool6) : Prop where
  Kpos : 0 < 2^(128 - p.page)
  Wpos : 0 < 2^(128 - p.poolLen)
  width : 2^(128 - p.poolLen) = p.nblocks * 2^(128 - p.page)
  alignK : 2^(128 - p.page) ∣ p.base.val
  alignW : p.base.val % 2^(128 - p.poolLen) = 0
  top : p.base.val + 2^(128 - p.poolLen) ≤ 2^128
  nlt : p.nblocks < 2^64
  page_le : p.page ≤ 128
  len_le : p.poolLen ≤ p.page

theorem Geo.of_WF {p : Pool6} (hp : p.WF) : Geo p := by
  obtain ⟨h1, h2, h3, h4⟩ := hp
  have hw : 2^(128 - p.poolLen) = p.nblocks * 2^(128 - p.page) := by
    unfold Pool6.nblocks
    rw [← Nat.pow_add]
    congr 1
    omega
  refine ⟨Nat.two_pow_pos _, Nat.two_pow_pos _, hw, ?_, h4, ?_, ?_, h2, h1⟩
  · have : 2^(128 - p.poolLen) ∣ p.base.val := Nat.dvd_of_mod_eq_zero h4
    exact Nat.dvd_trans ⟨p.nblocks, by rw [hw, Nat.mul_comm]⟩ this
  · have hlt := p.base.val_lt
    have h128 : (2:Nat)^128 = 2^p.poolLen * 2^(128 - p.poolLen) := by
      rw [← Nat.pow_add]; congr 1; omega
    have hd : 2^(128 - p.poolLen) ∣ 2^128 := ⟨2^p.poolLen, by rw [h128, Nat.mul_comm]⟩
    exact A6Arith.aligned_room _ _ _ (Nat.dvd_of_mod_eq_zero h4) hd hlt
  · unfold Pool6.nblocks
    exact Nat.pow_lt_pow_right (by decide) h3

/-! ### bridge lemmas from the C20 theorems -/

theorem blockBase_lt {p : Pool6} (g : Geo p) (i : Nat) (hi : i < p.nblocks) :
    p.blockBase i + 2^(128 - p.page) ≤ p.base.val + 2^(128 - p.poolLen) := by
  unfold Pool6.blockBase
  have := A6Arith.blk_sep (2^(128 - p.page)) i p.nblocks hi
  have := g.width
  omega

/-- (T1) -/
theorem toPrefix_ok {p : Pool6} (g : Geo p) (a : A6) (ha : a.pool = p) (i : Nat)
    (hi : i < p.nblocks) :
    a.toPrefix i = .ok (Addr.ofVal (p.blockBase i)) ∧
      (Addr.ofVal (p.blockBase i)).val = p.blockBase i := by
  have hlt : p.blockBase i < 2^128 := by
    have := blockBase_lt g i hi
    have := g.top
    have := g.Kpos
    omega
  refine ⟨?_, Addr.val_ofVal_of_lt hlt⟩
  subst ha
  unfold A6.toPrefix
  have hpg : (BitVec.ofNat 64 a.pool.page).toNat = a.pool.page := by
    rw [BitVec.toNat_ofNat]
    have := g.page_le
    omega
  have hi' : (BitVec.ofNat 64 i).toNat = i := by
    rw [BitVec.toNat_ofNat]
    have := g.nlt
    omega
  rw [C20_addPrefixes_exact _ _ _ (by rw [hpg]; exact g.page_le), hpg, hi']
  exact if_pos hlt

theorem contains_iff {p : Pool6} (g : Geo p) (x : Addr) :
    p.contains x = true ↔ p.base.val ≤ x.val ∧ x.val < p.base.val + 2^(128 - p.poolLen) := by
  unfold Pool6.contains
  rw [beq_iff_eq]
  exact A6Arith.contains_iff _ _ _ g.Wpos g.alignW

/-- (T2) -/
theorem toIndex_ok {p : Pool6} (g : Geo p) (a : A6) (ha : a.pool = p) (x : Addr)
    (hc : p.contains x = true) :
    a.toIndex x = .ok ((x.val - p.base.val) / 2^(128 - p.page)) ∧
      (x.val - p.base.val) / 2^(128 - p.page) < p.nblocks := by
  obtain ⟨h1, h2⟩ := (contains_iff g x).mp hc
  have hlt : (x.val - p.base.val) / 2^(128 - p.page) < p.nblocks := by
    apply A6Arith.idx_lt _ _ _ _ h1
    rw [← g.width]
    exact h2
  refine ⟨?_, hlt⟩
  subst ha
  unfold A6.toIndex
  have hal : a.pool.base.val % 2^(128 - a.pool.page) = 0 := Nat.mod_eq_zero_of_dvd g.alignK
  have h64 : (x.val - a.pool.base.val) / 2^(128 - a.pool.page) < 2^64 :=
    Nat.lt_trans hlt g.nlt
  rw [C20_offset_exact x a.pool.base a.pool.page g.page_le hal h1, if_pos h64]
  simp only [BitVec.toNat_ofNat]
  rw [Nat.mod_eq_of_lt h64]

/-! ### geometry of blocks -/

/-- index of the page-block a block starts in -/
def idx6 (p : Pool6) (b : Block) : Nat := (b.base.val - p.base.val) / 2^(128 - p.page)

theorem idx6_of_base {p : Pool6} (g : Geo p) (b : Block) (i : Nat)
    (h : b.base.val = p.blockBase i) : idx6 p b = i := by
  unfold idx6
  rw [h]
  exact A6Arith.idx_blockBase _ _ _ g.Kpos

theorem blockBase_inj {p : Pool6} (g : Geo p) (i j : Nat)
    (h : p.blockBase i = p.blockBase j) : i = j :=
  A6Arith.blockBase_inj _ _ _ _ g.Kpos h

theorem pow_len_le (page len : Nat) (h : page ≤ len) : 2^(128 - len) ≤ 2^(128 - page) :=
  Nat.pow_le_pow_right (by decide) (by omega)

theorem disjoint_of_ne {p : Pool6} (b o : Block) (i j : Nat)
    (hb : b.base.val = p.blockBase i) (ho : o.base.val = p.blockBase j)
    (hbl : p.page ≤ b.len) (hol : p.page ≤ o.len) (hne : i ≠ j) :
    b.disjoint o = true := by
  unfold Block.disjoint Block.hi Block.lo
  rw [hb, ho]
  unfold Pool6.blockBase
  have h1 := pow_len_le _ _ hbl
  have h2 := pow_len_le _ _ hol
  simp only [Bool.or_eq_true, decide_eq_true_eq]
  rcases Nat.lt_or_gt_of_ne hne with h | h
  · have := A6Arith.blk_sep (2^(128 - p.page)) _ _ h
    left; omega
  · have := A6Arith.blk_sep (2^(128 - p.page)) _ _ h
    right; omega

theorem unit_hasAddr_iff {p : Pool6} (g : Geo p) (o : Block) (j : Nat)
    (ho : o.base.val = p.blockBase j) (x : Nat) (hx : p.base.val ≤ x) :
    (p.unit o).hasAddr x = true ↔ (x - p.base.val) / 2^(128 - p.page) = j := by
  unfold Block.hasAddr Pool6.unit Block.hi Block.lo
  simp only [Bool.and_eq_true, decide_eq_true_eq]
  rw [ho]
  unfold Pool6.blockBase
  constructor
  · rintro ⟨h1, h2⟩
    exact A6Arith.block_unique _ _ _ _ g.Kpos hx h1 h2
  · intro h
    have := A6Arith.in_own_block _ _ _ g.Kpos hx
    rw [h] at this
    exact this

/-- a block that lies within a page-block of the pool lies in the pool interval -/
theorem within_unit_contains {p : Pool6} (g : Geo p) (o : Block) (j : Nat) (hj : j < p.nblocks)
    (ho : o.base.val = p.blockBase j) (P : Block) (h : P.within (p.unit o) = true) :
    p.base.val ≤ P.base.val ∧ P.base.val < p.base.val + 2^(128 - p.poolLen) := by
  unfold Block.within Pool6.unit Block.hi Block.lo at h
  simp only [Bool.and_eq_true, decide_eq_true_eq] at h
  rw [ho] at h
  have h1 := blockBase_lt g j hj
  have h2 : 0 < 2^(128 - P.len) := Nat.two_pow_pos _
  have h3 : p.base.val ≤ p.blockBase j := Nat.le_add_right _ _
  omega

/-- an aligned prefix no shorter than a page lies within page-block `j` iff it starts in it -/
theorem within_unit_iff {p : Pool6} (g : Geo p) (o : Block) (j : Nat)
    (ho : o.base.val = p.blockBase j) (P : Block)
    (hal : 2^(128 - P.len) ∣ P.base.val) (hl1 : p.page ≤ P.len) (hl2 : P.len ≤ 128)
    (hle : p.base.val ≤ P.base.val) :
    P.within (p.unit o) = true ↔ idx6 p P = j := by
  unfold Block.within Pool6.unit Block.hi Block.lo idx6
  simp only [Bool.and_eq_true, decide_eq_true_eq]
  rw [ho]
  unfold Pool6.blockBase
  have hU : 0 < 2^(128 - P.len) := Nat.two_pow_pos _
  constructor
  · rintro ⟨h1, h2⟩
    exact A6Arith.block_unique _ _ _ _ g.Kpos hle h1 (by omega)
  · intro h
    have hb := A6Arith.in_own_block _ _ _ g.Kpos hle
    rw [h] at hb
    refine ⟨hb.1, ?_⟩
    have hUK : 2^(128 - P.len) ∣ 2^(128 - p.page) :=
      ⟨2^(P.len - p.page), by rw [← Nat.pow_add]; congr 1; omega⟩
    have hd : 2^(128 - P.len) ∣ p.base.val + j * 2^(128 - p.page) + 2^(128 - p.page) :=
      Nat.dvd_add (Nat.dvd_add (Nat.dvd_trans hUK g.alignK)
        (Nat.dvd_trans hUK (Nat.dvd_mul_left _ _))) hUK
    exact A6Arith.aligned_room _ _ _ hal hd hb.2

theorem freedPrefix_aligned (ip : Addr) (ones : Nat) :
    2^(128 - (freedPrefix ip ones).len) ∣ (freedPrefix ip ones).base.val := by
  unfold freedPrefix
  simp only
  rw [maskAddr_val]
  exact Nat.dvd_mul_left _ _

/-! ### the invariant -/

structure Inv6 (p : Pool6) (a : A6) (out : List Block) : Prop where
  pool : a.pool = p
  len : a.bm.length = p.nblocks
  base : ∀ b, b ∈ out → ∃ i, i < p.nblocks ∧ b.base.val = p.blockBase i
  blen : ∀ b, b ∈ out → p.page ≤ b.len
  nodup : (out.map (idx6 p)).Nodup
  test : ∀ i, i < p.nblocks → (a.bm.test i = true ↔ ∃ b, b ∈ out ∧ b.base.val = p.blockBase i)
  count : out.length = a.bm.count

theorem Inv6.init {p : Pool6} {a : A6} (hnew : A6.new p = .ok a) : Inv6 p a [] := by
  unfold A6.new at hnew
  split at hnew
  · cases hnew
  · split at hnew
    · cases hnew
    · injection hnew with hnew
      subst hnew
      refine ⟨rfl, by simp [Pool6.nblocks], by simp, by simp, by simp, ?_, by simp⟩
      intro i _
      simp

/-! ### Allocate -/

theorem Inv6.alloc {p : Pool6} {a : A6} {out : List Block} (g : Geo p) (I : Inv6 p a out)
    (i : Nat) (hi : i < p.nblocks) (ht : a.bm.test i = false) (len : Nat) (hl : p.page ≤ len)
    (ad : Addr) (hv : ad.val = p.blockBase i) :
    Inv6 p { a with bm := a.bm.set i } (⟨ad, len⟩ :: out) := by
  have hilen : i < a.bm.length := by rw [I.len]; exact hi
  refine ⟨I.pool, ?_, ?_, ?_, ?_, ?_, ?_⟩
  · show (a.bm.set i).length = p.nblocks
    rw [Bits6.length_set_of_lt _ _ hilen, I.len]
  · intro b hb
    rcases List.mem_cons.mp hb with rfl | hb
    · exact ⟨i, hi, hv⟩
    · exact I.base b hb
  · intro b hb
    rcases List.mem_cons.mp hb with rfl | hb
    · exact hl
    · exact I.blen b hb
  · rw [List.map_cons, List.nodup_cons]
    refine ⟨?_, I.nodup⟩
    intro hm
    obtain ⟨o, ho, he⟩ := List.mem_map.mp hm
    obtain ⟨j, hj, hoj⟩ := I.base o ho
    rw [idx6_of_base g o j hoj, idx6_of_base g ⟨ad, len⟩ i hv] at he
    subst he
    have := (I.test j hj).mpr ⟨o, ho, hoj⟩
    rw [ht] at this
    cases this
  · intro j hj
    show (a.bm.set i).test j = true ↔ _
    by_cases hji : j = i
    · subst hji
      rw [Bits6.test_set_self]
      exact ⟨fun _ => ⟨_, List.mem_cons_self, hv⟩, fun _ => rfl⟩
    · rw [Bits6.test_set_of_ne _ _ _ hilen hji, I.test j hj]
      constructor
      · rintro ⟨b, hb, e⟩
        exact ⟨b, List.mem_cons_of_mem _ hb, e⟩
      · rintro ⟨b, hb, e⟩
        rcases List.mem_cons.mp hb with rfl | hb
        · exact absurd (blockBase_inj g _ _ (hv.symm.trans e)).symm hji
        · exact ⟨b, hb, e⟩
  · show (_ :: out).length = (a.bm.set i).count
    rw [List.length_cons, Bits6.count_set_of_clear _ _ hilen ht, I.count]

theorem reqSize_eq_wantLen (a : A6) (h : Hint6) : a.reqSize h = a.pool.wantLen h := by
  unfold A6.reqSize Pool6.wantLen
  by_cases hb : h.bits = 128
  · by_cases ho : h.ones < a.pool.page
    · simp only [hb, ho, ne_eq, not_true, or_false, if_true]; omega
    · simp only [hb, ho, ne_eq, not_true, or_false, if_true, if_false]; omega
  · simp [hb]

theorem reqSize_ge (a : A6) (h : Hint6) : a.pool.page ≤ a.reqSize h := by
  unfold A6.reqSize
  split <;> omega

theorem reqSize_le (a : A6) (h : Hint6) (hp : a.pool.page ≤ 128)
    (hh : h.bits = 128 → h.ones ≤ 128) : a.reqSize h ≤ 128 := by
  unfold A6.reqSize
  split
  · exact hp
  · rename_i hc
    apply hh
    apply Decidable.byContradiction
    intro hn
    exact hc (Or.inr hn)

/-- the hint path is taken only for a hint naming clear block `i` -/
theorem hintIdx_some {p : Pool6} {a : A6} {out : List Block} (g : Geo p) (I : Inv6 p a out)
    (h : Hint6) (i : Nat) (hh : a.hintIdx h = some i) :
    ∃ x, h.ip = some x ∧ p.base.val ≤ x.val ∧ (x.val - p.base.val) / 2^(128 - p.page) = i ∧
      i < p.nblocks ∧ a.bm.test i = false := by
  have hpool := I.pool
  subst hpool
  unfold A6.hintIdx at hh
  split at hh
  · cases hh
  · rename_i x hx
    split at hh
    · rename_i hc
      obtain ⟨e, hlt⟩ := toIndex_ok g a rfl x hc
      rw [e] at hh
      simp only at hh
      split at hh
      · rename_i ht
        injection hh with hh
        subst hh
        refine ⟨x, hx, ((contains_iff g x).mp hc).1, rfl, hlt, ?_⟩
        simpa using ht
      · cases hh
    · cases hh

/-- if the hint path is not taken, the hint does not name a free block of the pool -/
theorem hintIdx_none {p : Pool6} {a : A6} {out : List Block} (g : Geo p) (I : Inv6 p a out)
    (h : Hint6) (hh : a.hintIdx h = none) : p.hintNamesFree out h = false := by
  have hpool := I.pool
  subst hpool
  unfold A6.hintIdx at hh
  unfold Pool6.hintNamesFree
  split at hh
  · rename_i hx
    rw [hx]
  · rename_i x hx
    rw [hx]
    simp only
    by_cases hc : a.pool.contains x = true
    · rw [if_pos hc] at hh
      obtain ⟨e, hlt⟩ := toIndex_ok g a rfl x hc
      rw [e] at hh
      simp only at hh
      have ht : a.bm.test ((x.val - a.pool.base.val) / 2^(128 - a.pool.page)) = true := by
        cases hb : a.bm.test ((x.val - a.pool.base.val) / 2^(128 - a.pool.page))
        · rw [hb] at hh; simp at hh
        · rfl
      obtain ⟨b, hb, hbb⟩ := (I.test _ hlt).mp ht
      have hin := (unit_hasAddr_iff g b _ hbb x.val ((contains_iff g x).mp hc).1).mpr rfl
      rw [Bool.and_eq_false_iff]
      right
      rw [List.all_eq_false]
      exact ⟨b, hb, by rw [hin]; simp⟩
    · rw [Bool.and_eq_false_iff]
      left
      apply Bool.eq_false_iff.mpr
      intro hb
      apply hc
      rw [contains_iff g x]
      unfold Block.hasAddr Pool6.block Block.lo Block.hi at hb
      simpa using hb

/-- a successful allocation of clear block `i` -/
theorem step_alloc_ok {p : Pool6} {a : A6} {out : List Block} (g : Geo p) (I : Inv6 p a out)
    (h : Hint6) (hh : h.bits = 128 → h.ones ≤ 128) (i : Nat) (hi : i < p.nblocks)
    (ht : a.bm.test i = false) (ad : Addr) (hv : ad.val = p.blockBase i)
    (h7 : ∀ x, h.ip = some x → p.hintNamesFree out h = true →
      p.base.val ≤ x.val ∧ (x.val - p.base.val) / 2^(128 - p.page) = i) :
    Inv6 p { a with bm := a.bm.set i } (Mon6.step p out (.alloc h (.ok ⟨ad, a.reqSize h⟩))).1 ∧
      (Mon6.step p out (.alloc h (.ok ⟨ad, a.reqSize h⟩))).2.all = true := by
  have hpool := I.pool
  have hge : p.page ≤ a.reqSize h := by rw [← hpool]; exact reqSize_ge a h
  have hle : a.reqSize h ≤ 128 := reqSize_le a h (by rw [hpool]; exact g.page_le) hh
  refine ⟨I.alloc g i hi ht _ hge ad hv, ?_⟩
  unfold Mon6.step Verdict.all
  simp only [Bool.and_eq_true, Bool.and_true]
  refine ⟨⟨?_, ⟨⟨⟨⟨?_, ?_⟩, ?_⟩, ?_⟩, ?_⟩⟩, ?_⟩
  · -- c04
    rw [List.all_eq_true]
    intro o ho
    obtain ⟨j, hj, hoj⟩ := I.base o ho
    apply disjoint_of_ne (p := p) ⟨ad, a.reqSize h⟩ o i j hv hoj hge (I.blen o ho)
    intro hij
    subst hij
    have := (I.test i hi).mpr ⟨o, ho, hoj⟩
    rw [ht] at this
    cases this
  · -- length
    rw [beq_iff_eq, reqSize_eq_wantLen, hpool]
  · -- alignment
    rw [beq_iff_eq]
    show ad.val % _ = 0
    rw [hv]
    exact Nat.mod_eq_zero_of_dvd (Nat.dvd_add g.alignK (Nat.dvd_mul_left _ _))
  · -- within the pool
    unfold Block.within Pool6.block Block.lo Block.hi
    simp only [Bool.and_eq_true, decide_eq_true_eq]
    rw [hv]
    have h1 := blockBase_lt g i hi
    have h2 := pow_len_le _ _ hge
    have h3 : p.base.val ≤ p.blockBase i := Nat.le_add_right _ _
    omega
  · exact decide_eq_true hge
  · exact decide_eq_true hle
  · -- c07
    split
    · rename_i x hx
      cases hn : p.hintNamesFree out h
      · rfl
      · obtain ⟨h1, h2⟩ := h7 x hx hn
        rw [(unit_hasAddr_iff g ⟨ad, a.reqSize h⟩ i hv x.val h1).mpr h2]
        rfl
    · rfl

/-- every admissible `Allocate` step preserves the invariant and passes the monitor -/
theorem step_alloc {p : Pool6} {a : A6} {out : List Block} (g : Geo p) (I : Inv6 p a out)
    (h : Hint6) (hh : h.bits = 128 → h.ones ≤ 128) (c : Option Nat) (a' : A6)
    (r : Except AErr Block) (hr : a.allocate h c = some (a', r)) :
    Inv6 p a' (Mon6.step p out (.alloc h r)).1 ∧ (Mon6.step p out (.alloc h r)).2.all = true := by
  unfold A6.allocate at hr
  simp only at hr
  split at hr
  · -- hint path
    rename_i i hidx
    obtain ⟨x, hx, hxle, hxi, hi, ht⟩ := hintIdx_some g I h i hidx
    obtain ⟨e, hv⟩ := toPrefix_ok g a I.pool i hi
    rw [e] at hr
    simp only [Option.some.injEq, Prod.mk.injEq] at hr
    obtain ⟨rfl, rfl⟩ := hr
    apply step_alloc_ok g I h hh i hi ht _ hv
    intro x' hx' _
    rw [hx] at hx'
    injection hx' with hx'
    subst hx'
    exact ⟨hxle, hxi⟩
  · rename_i hidx
    have hnf := hintIdx_none g I h hidx
    split at hr
    · -- no choice: must be full
      split at hr
      · rename_i hfull
        simp only [Option.some.injEq, Prod.mk.injEq] at hr
        obtain ⟨rfl, rfl⟩ := hr
        refine ⟨I, ?_⟩
        unfold Mon6.step Verdict.all
        simp only [Bool.and_eq_true, Bool.and_true, Bool.true_and]
        refine ⟨decide_eq_true ?_, by rw [hnf]; rfl⟩
        rw [I.count, Bits6.count_of_full _ hfull, I.len]
        exact Nat.le_refl _
      · cases hr
    · rename_i c
      split at hr
      · rename_i hc
        obtain ⟨hc1, hc2⟩ := hc
        have hi : c < p.nblocks := by rw [← I.len]; exact hc1
        have ht : a.bm.test c = false := by simpa using hc2
        obtain ⟨e, hv⟩ := toPrefix_ok g a I.pool c hi
        rw [e] at hr
        simp only [Option.some.injEq, Prod.mk.injEq] at hr
        obtain ⟨rfl, rfl⟩ := hr
        apply step_alloc_ok g I h hh c hi ht _ hv
        intro x' _ hn
        rw [hnf] at hn
        cases hn
      · cases hr

/-! ### Free -/

theorem filter_length_of_nodup {α : Type} (f : α → Nat) (l : List α) (d : Nat)
    (hn : (l.map f).Nodup) (hm : d ∈ l.map f) :
    (l.filter (fun o => f o != d)).length + 1 = l.length := by
  induction l with
  | nil => simp at hm
  | cons x xs ih =>
    rw [List.map_cons, List.nodup_cons] at hn
    obtain ⟨hx, hn⟩ := hn
    by_cases hfx : f x = d
    · subst hfx
      have : List.filter (fun o => f o != f x) xs = xs := by
        rw [List.filter_eq_self]
        intro o ho
        have : f o ≠ f x := fun e => hx (e ▸ List.mem_map_of_mem ho)
        simpa using this
      rw [List.filter_cons_of_neg (by simp), this, List.length_cons]
    · have hm' : d ∈ xs.map f := by
        rw [List.map_cons] at hm
        rcases List.mem_cons.mp hm with e | hm
        · exact absurd e.symm hfx
        · exact hm
      rw [List.filter_cons_of_pos (by simpa using hfx), List.length_cons, List.length_cons,
        ih hn hm']

theorem Inv6.free {p : Pool6} {a : A6} {out : List Block} (g : Geo p) (I : Inv6 p a out)
    (d : Nat) (hd : d < p.nblocks) (ht : a.bm.test d = true) :
    Inv6 p { a with bm := a.bm.clear d } (out.filter (fun o => idx6 p o != d)) := by
  refine ⟨I.pool, ?_, ?_, ?_, ?_, ?_, ?_⟩
  · show (a.bm.clear d).length = p.nblocks
    rw [Bits6.length_clear, I.len]
  · intro b hb
    exact I.base b (List.mem_filter.mp hb).1
  · intro b hb
    exact I.blen b (List.mem_filter.mp hb).1
  · exact List.Nodup.sublist (List.Sublist.map _ List.filter_sublist) I.nodup
  · intro j hj
    show (a.bm.clear d).test j = true ↔ _
    by_cases hjd : j = d
    · subst hjd
      rw [Bits6.test_clear_self]
      constructor
      · intro hc; cases hc
      · rintro ⟨b, hb, e⟩
        have := (List.mem_filter.mp hb).2
        rw [idx6_of_base g b j e] at this
        simp at this
    · rw [Bits6.test_clear_of_ne _ _ _ hjd, I.test j hj]
      constructor
      · rintro ⟨b, hb, e⟩
        refine ⟨b, List.mem_filter.mpr ⟨hb, ?_⟩, e⟩
        rw [idx6_of_base g b j e]
        simpa using hjd
      · rintro ⟨b, hb, e⟩
        exact ⟨b, (List.mem_filter.mp hb).1, e⟩
  · show (List.filter _ out).length = (a.bm.clear d).count
    obtain ⟨b, hb, e⟩ := (I.test d hd).mp ht
    have hm : d ∈ out.map (idx6 p) :=
      List.mem_map.mpr ⟨b, hb, idx6_of_base g b d e⟩
    have h1 := filter_length_of_nodup (idx6 p) out d I.nodup hm
    have h2 := Bits6.count_clear_of_set _ _ ht
    have h3 := I.count
    omega

/-- for an in-domain freed prefix inside the pool, "within the unit of `o`" is "same index" -/
theorem freed_within_iff {p : Pool6} {a : A6} {out : List Block} (g : Geo p) (I : Inv6 p a out)
    (ip : Addr) (ones : Nat) (h1 : p.page ≤ ones) (h2 : ones ≤ 128)
    (hc : p.contains (maskAddr ip ones) = true) (o : Block) (ho : o ∈ out) :
    (freedPrefix ip ones).within (p.unit o) = true ↔
      idx6 p o = ((maskAddr ip ones).val - p.base.val) / 2^(128 - p.page) := by
  obtain ⟨j, hj, hoj⟩ := I.base o ho
  have hle : p.base.val ≤ (freedPrefix ip ones).base.val :=
    ((contains_iff g (maskAddr ip ones)).mp hc).1
  rw [within_unit_iff g o j hoj (freedPrefix ip ones) (freedPrefix_aligned ip ones) h1 h2 hle,
    idx6_of_base g o j hoj]
  exact eq_comm

theorem step_free {p : Pool6} {a : A6} {out : List Block} (g : Geo p) (I : Inv6 p a out)
    (ip : Addr) (ones : Nat) (h1 : p.page ≤ ones) (h2 : ones ≤ 128) :
    Inv6 p (a.free ip ones).1 (Mon6.step p out (.free ip ones (a.free ip ones).2)).1 ∧
      (Mon6.step p out (.free ip ones (a.free ip ones).2)).2.all = true := by
  have hpool := I.pool
  subst hpool
  generalize hm : maskAddr ip ones = m
  have hfp : freedPrefix ip ones = ⟨m, ones⟩ := by rw [← hm]; rfl
  by_cases hc : a.pool.contains m = true
  · obtain ⟨e, hlt⟩ := toIndex_ok g a rfl m hc
    have hw : ∀ o, o ∈ out → ((⟨m, ones⟩ : Block).within (a.pool.unit o) = true ↔
        idx6 a.pool o = (m.val - a.pool.base.val) / 2^(128 - a.pool.page)) := by
      intro o ho
      have := freed_within_iff g I ip ones h1 h2 (by rw [hm]; exact hc) o ho
      rw [hfp, hm] at this
      exact this
    generalize hd : (m.val - a.pool.base.val) / 2^(128 - a.pool.page) = d at e hlt hw
    have hfree : a.free ip ones =
        if !a.bm.test d then (a, .error .doubleFree)
        else ({ a with bm := a.bm.clear d }, .ok ()) := by
      unfold A6.free
      simp only [hm, hc, e, Bool.not_true, Bool.false_eq_true, if_false]
    rw [hfree]
    cases ht : a.bm.test d
    · -- double free: nothing outstanding there
      simp only [Bool.not_false, if_true]
      refine ⟨I, ?_⟩
      unfold Mon6.step Verdict.all
      simp only [Bool.and_true, Bool.true_and, Bool.not_eq_true', hfp]
      rw [List.any_eq_false]
      intro o ho hwo
      obtain ⟨j, hj, hoj⟩ := I.base o ho
      have hidx := (hw o ho).mp hwo
      rw [idx6_of_base g o j hoj] at hidx
      have := (I.test j hj).mpr ⟨o, ho, hoj⟩
      rw [hidx, ht] at this
      cases this
    · -- freed
      simp only [Bool.not_true, Bool.false_eq_true, if_false]
      have hfil : out.filter (fun o => !((⟨m, ones⟩ : Block).within (a.pool.unit o))) =
          out.filter (fun o => idx6 a.pool o != d) := by
        apply List.filter_congr
        intro o ho
        have := hw o ho
        rw [Bool.eq_iff_iff]
        simp only [Bool.not_eq_true', bne_iff_ne, ne_eq]
        rw [← this, Bool.not_eq_true]
      unfold Mon6.step Verdict.all
      simp only [Bool.and_true, Bool.true_and, hfp]
      rw [hfil]
      refine ⟨I.free g d hlt ht, ?_⟩
      obtain ⟨b, hb, hbb⟩ := (I.test d hlt).mp ht
      rw [List.any_eq_true]
      exact ⟨b, hb, (hw b hb).mpr (idx6_of_base g b d hbb)⟩
  · -- not in the pool
    have hfree : a.free ip ones = (a, .error .notFound) := by
      unfold A6.free
      simp only [hm, hc, Bool.not_false, if_true]
    rw [hfree]
    refine ⟨I, ?_⟩
    unfold Mon6.step Verdict.all
    simp only [Bool.and_true, Bool.true_and, Bool.not_eq_true', hfp]
    rw [List.any_eq_false]
    intro o ho hwo
    obtain ⟨j, hj, hoj⟩ := I.base o ho
    exact hc ((contains_iff g m).mpr (within_unit_contains g o j hj hoj ⟨m, ones⟩ hwo))

/-! ### runs

Kernel note.  `A6.run` destructures `a.free ip ones` with a `match` on a pair.  Whenever the
kernel has to put that discriminant in weak-head normal form it starts unfolding `Nat.div` /
`Nat.decEq` on open terms and does not come back, so the equation lemmas of `A6.run` cannot be
generated (nor used).  We therefore use a copy `run'` of `A6.run` in which `Free` is a
parameter, built from the *same* matcher constants, so that `A6.run = run' A6.free` is checked
argument-by-argument without ever unfolding the matcher on `a.free ip ones`. -/

/-- `A6.run` with the `Free` function abstracted (same matchers as `A6.run`) -/
def run' (fre : A6 → Addr → Nat → A6 × Except FErr Unit) (a : A6)
    (ops : List Op6) (cs : List (Option Nat)) : Option (List Ev6 × A6) :=
  A6.run.match_7 (fun _ _ => Option (List Ev6 × A6)) ops cs
    (fun _ => some ([], a))
    (fun h ops c cs =>
      A6.run.match_3 (fun _ => Option (List Ev6 × A6)) (a.allocate h c) (fun _ => none) fun a' r =>
        Option.map (fun x => A6.run.match_1 (fun _ => List Ev6 × A6) x
          fun evs z => (Ev6.alloc h r :: evs, z)) (run' fre a' ops cs))
    (fun _ _ => none)
    (fun ip ones ops cs =>
      A6.run.match_5 (fun _ => Option (List Ev6 × A6)) (fre a ip ones) fun a' r =>
        Option.map (fun x => A6.run.match_1 (fun _ => List Ev6 × A6) x
          fun evs z => (Ev6.free ip ones r :: evs, z)) (run' fre a' ops cs))
termination_by structural ops

set_option smartUnfolding false in
theorem run_eq_run' (a : A6) (ops : List Op6) (cs : List (Option Nat)) :
    A6.run a ops cs = run' A6.free a ops cs := rfl

theorem run'_nil (fre : A6 → Addr → Nat → A6 × Except FErr Unit) (a : A6)
    (cs : List (Option Nat)) : run' fre a [] cs = some ([], a) := by
  rw [run']

theorem run'_alloc_nil (fre : A6 → Addr → Nat → A6 × Except FErr Unit) (a : A6) (h : Hint6)
    (ops : List Op6) : run' fre a (.alloc h :: ops) [] = none := by
  rw [run']

theorem run'_alloc (fre : A6 → Addr → Nat → A6 × Except FErr Unit) (a : A6) (h : Hint6)
    (ops : List Op6) (c : Option Nat) (cs : List (Option Nat)) :
    run' fre a (.alloc h :: ops) (c :: cs) =
      (a.allocate h c).bind (fun ar =>
        (run' fre ar.1 ops cs).map (fun x => (Ev6.alloc h ar.2 :: x.1, x.2))) := by
  rw [run']
  cases a.allocate h c with
  | none => rfl
  | some ar =>
    obtain ⟨a', r⟩ := ar
    cases run' fre a' ops cs <;> rfl

theorem run'_free (fre : A6 → Addr → Nat → A6 × Except FErr Unit) (a : A6) (ip : Addr)
    (ones : Nat) (ops : List Op6) (cs : List (Option Nat)) :
    run' fre a (.free ip ones :: ops) cs =
      (run' fre (fre a ip ones).1 ops cs).map
        (fun x => (Ev6.free ip ones (fre a ip ones).2 :: x.1, x.2)) := by
  rw [run']

theorem run_inv {p : Pool6} (g : Geo p) (ops : List Op6) :
    ∀ (a : A6) (out : List Block) (cs : List (Option Nat)) (evs : List Ev6) (z : A6),
      Inv6 p a out → ops.all (Op6.inDomain p) = true →
      run' A6.free a ops cs = some (evs, z) → (Mon6.run p out evs).all Verdict.all = true := by
  induction ops with
  | nil =>
    intro a out cs evs z _ _ hrun
    rw [run'_nil] at hrun
    simp only [Option.some.injEq, Prod.mk.injEq] at hrun
    rw [← hrun.1]
    rfl
  | cons op ops ih =>
    intro a out cs evs z I hdom hrun
    rw [List.all_cons, Bool.and_eq_true] at hdom
    cases op with
    | alloc h =>
      cases cs with
      | nil => rw [run'_alloc_nil] at hrun; cases hrun
      | cons c cs =>
        rw [run'_alloc] at hrun
        cases hal : a.allocate h c with
        | none => rw [hal] at hrun; cases hrun
        | some ar =>
          obtain ⟨a', r⟩ := ar
          rw [hal] at hrun
          simp only [Option.bind_some, Option.map_eq_some_iff] at hrun
          obtain ⟨⟨evs', z'⟩, hrun', heq⟩ := hrun
          simp only [Prod.mk.injEq] at heq
          obtain ⟨rfl, rfl⟩ := heq
          have hd := hdom.1
          simp only [Op6.inDomain, decide_eq_true_eq] at hd
          have hok : h.bits = 128 → h.ones ≤ 128 := fun hb => hb ▸ hd
          obtain ⟨I', hv⟩ := step_alloc g I h hok c a' r hal
          simp only [Mon6.run, List.all_cons, Bool.and_eq_true]
          exact ⟨hv, ih a' _ cs evs' z' I' hdom.2 hrun'⟩
    | free ip ones =>
      have hd := hdom.1
      simp only [Op6.inDomain, Bool.and_eq_true, decide_eq_true_eq] at hd
      have hsf := step_free g I ip ones hd.1 hd.2
      rw [run'_free] at hrun
      generalize a.free ip ones = fr at hrun hsf
      obtain ⟨a', r⟩ := fr
      simp only [Option.map_eq_some_iff] at hrun
      obtain ⟨⟨evs', z'⟩, hrun', heq⟩ := hrun
      simp only [Prod.mk.injEq] at heq
      obtain ⟨rfl, rfl⟩ := heq
      obtain ⟨I', hv⟩ := hsf
      simp only [Mon6.run, List.all_cons, Bool.and_eq_true]
      exact ⟨hv, ih a' _ cs evs' z' I' hdom.2 hrun'⟩

/-- Every run of the IPv6 allocator model from a freshly created well-formed pool, under any
admissible sequence of choices and any in-domain operations, passes all four monitors at
every step. -/
theorem A6.run_verdicts (p : Pool6) (hp : p.WF) (a : A6) (hnew : A6.new p = .ok a)
    (ops : List Op6) (cs : List (Option Nat)) (evs : List Ev6) (z : A6)
    (hdom : ops.all (Op6.inDomain p) = true)
    (hrun : A6.run a ops cs = some (evs, z)) :
    (Mon6.run p [] evs).all Verdict.all = true := by
  rw [run_eq_run'] at hrun
  exact run_inv (Geo.of_WF hp) ops a [] cs evs z (Inv6.init hnew) hdom hrun

/-! ### the small theorems -/

/-- The model is never stuck: the choice the current code makes (first fit) is admissible in
every state, so the theorems above are not vacuous for any operation sequence. -/
theorem A6.firstFit_admissible (a : A6) (h : Hint6) : (a.allocate h a.firstFit).isSome = true := by
  unfold A6.allocate A6.firstFit
  simp only
  split
  · split <;> rfl
  · cases hn : a.bm.nextClear with
    | none =>
      simp only
      rw [(Bits6.nextClear_none a.bm).mp hn]
      rfl
    | some c =>
      obtain ⟨h1, h2, _⟩ := Bits6.nextClear_some a.bm c hn
      simp only [h1, h2, Bool.not_false, and_self, if_true]
      split <;> rfl

/-- `Allocate` reporting "no address available" changes nothing. -/
theorem A6.noaddr_unchanged (a a' : A6) (h : Hint6) (c : Option Nat)
    (hr : a.allocate h c = some (a', .error .noaddr)) : a' = a := by
  unfold A6.allocate at hr
  simp only at hr
  split at hr
  · split at hr
    · simp at hr
    · simp at hr
  · split at hr
    · split at hr
      · simp only [Option.some.injEq, Prod.mk.injEq] at hr
        exact hr.1.symm
      · cases hr
    · split at hr
      · split at hr
        · simp at hr
        · simp at hr
      · cases hr

theorem A6.free_eq (a : A6) (ip : Addr) (ones : Nat) : a.free ip ones =
    if !a.pool.contains (maskAddr ip ones) then (a, .error .notFound)
    else
      match a.toIndex (maskAddr ip ones) with
      | .error _ => (a, .error .notFound)
      | .ok idx =>
        if !a.bm.test idx then (a, .error .doubleFree)
        else ({ a with bm := a.bm.clear idx }, .ok ()) := rfl

/-- A failing `Free` changes nothing. -/
theorem A6.free_error_unchanged (a : A6) (ip : Addr) (ones : Nat) (e : FErr)
    (hr : (a.free ip ones).2 = .error e) : (a.free ip ones).1 = a := by
  rw [A6.free_eq] at hr ⊢
  generalize maskAddr ip ones = m at hr ⊢
  cases hc : a.pool.contains m
  · simp only [Bool.not_false, if_true]
  · simp only [hc, Bool.not_true, Bool.false_eq_true, if_false] at hr ⊢
    cases hi : a.toIndex m with
    | error e' => simp only
    | ok idx =>
      simp only [hi] at hr ⊢
      cases ht : a.bm.test idx
      · simp only [Bool.not_false, if_true]
      · simp only [ht, Bool.not_true, Bool.false_eq_true, if_false] at hr
        cases hr

end CoreDhcp
