/-
Proofs about Model/HwKey.lean: the stored key of a hardware address reads back as the same
address, for byte lists of every length; and `macString` is injective on byte lists.
-/
import CoreDhcp.Model.HwKey
namespace CoreDhcp

/-! ### hex digits -/

theorem parseHexDigit_hexDigit_fin : ∀ n : Fin 16, parseHexDigit (hexDigit n.val) = some n.val := by
  decide

theorem parseHexDigit_hexDigit (n : Nat) (h : n < 16) : parseHexDigit (hexDigit n) = some n :=
  parseHexDigit_hexDigit_fin ⟨n, h⟩

theorem hexDigit_ne_colon_fin : ∀ n : Fin 16, (hexDigit n.val = ':') = False := by decide

theorem hexDigit_ne_colon (n : Nat) : hexDigit n ≠ ':' := by
  have h := hexDigit_ne_colon_fin ⟨n % 16, Nat.mod_lt _ (by decide)⟩
  have e : hexDigit (n % 16) = hexDigit n := by
    unfold hexDigit; rw [Nat.mod_mod]
  intro hc
  rw [← e] at hc
  exact (h ▸ hc : False)

theorem hexDigit_eq_zero_fin : ∀ n : Fin 16, hexDigit n.val = '0' → n.val = 0 := by decide

theorem hexDigit_eq_zero (n : Nat) (h : n < 16) (hz : hexDigit n = '0') : n = 0 :=
  hexDigit_eq_zero_fin ⟨n, h⟩ hz

/-! ### one pair -/

theorem parsePart_hexPair (b : Nat) (hb : b < 256) : parsePart (hexPair b) = some b := by
  have h1 : b / 16 < 16 := by omega
  have h2 : b % 16 < 16 := by omega
  simp only [hexPair, parsePart, Nat.mod_eq_of_lt hb, parseHexDigit_hexDigit _ h1,
    parseHexDigit_hexDigit _ h2]
  congr 1; omega

theorem colon_not_mem_hexPair (b : Nat) : ':' ∉ hexPair b := by
  intro h
  simp only [hexPair, List.mem_cons, List.not_mem_nil, or_false] at h
  rcases h with h | h
  · exact hexDigit_ne_colon _ h.symm
  · exact hexDigit_ne_colon _ h.symm

theorem hexPair_ne_nil (b : Nat) : hexPair b ≠ [] := by simp [hexPair]

/-! ### split ∘ join -/

theorem splitColon_ne_nil (s : List Char) : splitColon s ≠ [] := by
  cases s with
  | nil => simp [splitColon]
  | cons c cs =>
    unfold splitColon
    split
    · simp
    · split <;> simp

/-- A part without ':' followed by ':' and a rest splits off as the first part. -/
theorem splitColon_append_colon (p rest : List Char) (hp : ':' ∉ p) :
    splitColon (p ++ ':' :: rest) = p :: splitColon rest := by
  induction p with
  | nil => simp [splitColon]
  | cons c cs ih =>
    have hc : c ≠ ':' := fun h => hp (by simp [h])
    have hcs : ':' ∉ cs := fun h => hp (List.mem_cons_of_mem _ h)
    simp only [List.cons_append, splitColon, hc, if_false, ih hcs]

/-- A part without ':' is its own split. -/
theorem splitColon_single (p : List Char) (hp : ':' ∉ p) : splitColon p = [p] := by
  induction p with
  | nil => simp [splitColon]
  | cons c cs ih =>
    have hc : c ≠ ':' := fun h => hp (by simp [h])
    have hcs : ':' ∉ cs := fun h => hp (List.mem_cons_of_mem _ h)
    simp only [splitColon, hc, if_false, ih hcs]

/-- `strings.Split(strings.Join(parts, ":"), ":") = parts` for a non-empty list of parts none of
which contains ':'. -/
theorem splitColon_joinColon (parts : List (List Char)) (hne : parts ≠ [])
    (hp : ∀ p ∈ parts, ':' ∉ p) : splitColon (joinColon parts) = parts := by
  induction parts with
  | nil => exact absurd rfl hne
  | cons p ps ih =>
    cases ps with
    | nil => simpa [joinColon] using splitColon_single p (hp p (by simp))
    | cons q qs =>
      have h1 : ':' ∉ p := hp p (by simp)
      have h2 := ih (by simp) (fun r hr => hp r (List.mem_cons_of_mem _ hr))
      simp only [joinColon] at h2 ⊢
      rw [splitColon_append_colon _ _ h1, h2]

/-! ### the loop -/

theorem parseParts_hexPairs (m : List Nat) (hb : ∀ b ∈ m, b < 256) :
    parseParts (m.map hexPair) = some m := by
  induction m with
  | nil => rfl
  | cons b bs ih =>
    have h1 := parsePart_hexPair b (hb b (by simp))
    have h2 := ih (fun x hx => hb x (List.mem_cons_of_mem _ hx))
    simp only [List.map_cons, parseParts, h1, h2]

theorem joinColon_ne_nil (p : List Char) (ps : List (List Char)) (hp : p ≠ []) :
    joinColon (p :: ps) ≠ [] := by
  cases ps with
  | nil => simpa [joinColon] using hp
  | cons q qs => simp [joinColon, hp]

/-- `parseHWAddr` is a left inverse of `HardwareAddr.String()` on byte lists of every length
(no column affinity in between). -/
theorem parseChars_macChars (m : List Nat) (hb : ∀ b ∈ m, b < 256) :
    parseChars (macChars m) = some m := by
  cases m with
  | nil => rfl
  | cons b bs =>
    have hne : macChars (b :: bs) ≠ [] := by
      simpa [macChars] using joinColon_ne_nil (hexPair b) (bs.map hexPair) (hexPair_ne_nil b)
    have hsplit : splitColon (macChars (b :: bs)) = (b :: bs).map hexPair := by
      apply splitColon_joinColon _ (by simp)
      intro p hp
      rw [List.mem_map] at hp
      obtain ⟨x, _, rfl⟩ := hp
      exact colon_not_mem_hexPair x
    unfold parseChars
    split
    · next h => exact absurd h hne
    · rw [hsplit]; exact parseParts_hexPairs _ hb

/-! ### the column affinity -/

/-- A lone pair: whatever the affinity does to it, it parses back to the byte. -/
theorem parseChars_affinity_hexPair (b : Nat) (hb : b < 256) :
    parseChars (affinityChars (hexPair b)) = some [b] := by
  have keep : parseChars (hexPair b) = some [b] := by
    simpa [macChars, joinColon] using parseChars_macChars [b] (by simpa using hb)
  have h1 : b / 16 < 16 := by omega
  have h2 : b % 16 < 16 := by omega
  simp only [hexPair, Nat.mod_eq_of_lt hb] at keep ⊢
  unfold affinityChars
  split
  · next a c heq =>
    simp only [List.cons.injEq, and_true] at heq
    obtain ⟨ha, hc⟩ := heq
    subst ha; subst hc
    split
    · split
      · next hz =>
        have hz0 : b / 16 = 0 := hexDigit_eq_zero _ h1 hz
        have hbb : b % 16 = b := by omega
        have hnc : hexDigit b ≠ ':' := hexDigit_ne_colon _
        have hbl : b < 16 := by omega
        rw [hbb]
        simp only [parseChars, splitColon, hnc, if_false, parseParts, parsePart,
          parseHexDigit_hexDigit _ hbl]
      · exact keep
    · exact keep
  · next hno => exact absurd rfl (hno _ _)

/-- Two or more pairs (and the empty text) are not numbers: kept as they are. -/
theorem affinityChars_macChars_two (b c : Nat) (rest : List Nat) :
    affinityChars (macChars (b :: c :: rest)) = macChars (b :: c :: rest) := by
  simp only [macChars, List.map_cons, joinColon, hexPair, List.cons_append, List.nil_append]
  rfl

/-- The key read back from the table, on lists of characters. -/
theorem loadKeyChars_roundtrip (m : List Nat) (hb : ∀ b ∈ m, b < 256) : loadKeyChars m = some m := by
  unfold loadKeyChars
  match m, hb with
  | [], _ => rfl
  | [b], hb =>
    simpa [macChars, joinColon] using parseChars_affinity_hexPair b (hb b (by simp))
  | b :: c :: rest, hb =>
    rw [affinityChars_macChars_two]; exact parseChars_macChars _ hb

/-! ### the `String` wrappers -/

theorem loadKeyConcrete_eq_chars (m : List Nat) : loadKeyConcrete m = loadKeyChars m := by
  simp only [loadKeyConcrete, loadKeyChars, parseHWAddr, sqliteAffinity, macString,
    String.toList_ofList]

theorem parseHWAddr_macString (m : List Nat) (hb : ∀ b ∈ m, b < 256) :
    parseHWAddr (macString m) = some m := by
  simp only [parseHWAddr, macString, String.toList_ofList]; exact parseChars_macChars m hb

theorem loadKeyConcrete_roundtrip (m : List Nat) (hb : ∀ b ∈ m, b < 256) :
    loadKeyConcrete m = some m := by
  rw [loadKeyConcrete_eq_chars]; exact loadKeyChars_roundtrip m hb

theorem macString_injective (m m' : List Nat) (hb : ∀ b ∈ m, b < 256) (hb' : ∀ b ∈ m', b < 256)
    (h : macString m = macString m') : m = m' := by
  have h1 := parseHWAddr_macString m hb
  have h2 := parseHWAddr_macString m' hb'
  rw [h] at h1
  exact Option.some.inj (h1.symm.trans h2)

end CoreDhcp
