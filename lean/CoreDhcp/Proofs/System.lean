/-
Lemmas behind Props/System.lean: the dispatch logic composed with the models of the built-in
plugins (Model/System.lean).
-/
import CoreDhcp.Model.System
import CoreDhcp.Spec.Dispatch
import CoreDhcp.Spec.OptPlug
import CoreDhcp.Proofs.Dispatch
import CoreDhcp.Proofs.OptPlug
set_option linter.unusedSimpArgs false
set_option linter.unusedVariables false
namespace CoreDhcp
open Sys
open Plug (Bytes Opts lookup upd4)

/-! ## the chain, generically -/

section chain
variable {Req Resp : Type}

/-- a handler that stops whenever it is reached cuts the chain: nothing after it matters -/
theorem go_cut (req : Req) (h : Req → Option Resp → Option Resp × Bool) (hstop : ∀ r, (h req r).2 = true)
    (pre post : List (Req → Option Resp → Option Resp × Bool)) :
    ∀ i r, runChain.go req (pre ++ h :: post) i r = runChain.go req (pre ++ [h]) i r := by
  induction pre with
  | nil =>
    intro i r
    simp [runChain.go, hstop r]
  | cons g rest ih =>
    intro i r
    simp only [List.cons_append, runChain.go, ih]

theorem runChain_cut (req : Req) (h : Req → Option Resp → Option Resp × Bool) (hstop : ∀ r, (h req r).2 = true)
    (pre post : List (Req → Option Resp → Option Resp × Bool)) (n : Nat) (r : Option Resp) :
    runChain (pre ++ h :: post) req n r = runChain (pre ++ [h]) req n r := by
  rw [runChain_eq, runChain_eq]
  exact go_cut req h hstop pre post 0 r

/-- a first handler that returns nil and stops: the chain returns nil -/
theorem runChain_head_nil (req : Req) (h : Req → Option Resp → Option Resp × Bool)
    (rest : List (Req → Option Resp → Option Resp × Bool)) (n : Nat) (r : Option Resp)
    (hh : h req r = (none, true)) : (runChain (h :: rest) req n r).1 = none := by
  rw [runChain_eq]
  simp [runChain.go, hh]

/-- when no handler of `pre` stops with a response, the response that leaves `pre ++ [h]`,
if any, is one returned by `h` -/
theorem go_reaches (req : Req) (h : Req → Option Resp → Option Resp × Bool)
    (hnil : (h req none).1 = none)
    (pre : List (Req → Option Resp → Option Resp × Bool))
    (hpre : ∀ g ∈ pre, (g req none).1 = none ∧ ∀ r x, g req (some r) ≠ (some x, true)) :
    ∀ i r x, (runChain.go req (pre ++ [h]) i r).1 = some x → ∃ r', (h req (some r')).1 = some x := by
  induction pre with
  | nil =>
    intro i r x hx
    cases r with
    | none =>
      simp only [List.nil_append, runChain.go] at hx
      split at hx <;> (rw [hnil] at hx; cases hx)
    | some r' =>
      refine ⟨r', ?_⟩
      simp only [List.nil_append, runChain.go] at hx
      split at hx <;> exact hx
  | cons g rest ih =>
    intro i r x hx
    have hg := hpre g (by simp)
    simp only [List.cons_append, runChain.go] at hx
    split at hx
    · next hs =>
      dsimp only at hx
      cases r with
      | none => rw [hg.1] at hx; cases hx
      | some r' =>
        exact absurd (Prod.ext hx hs : g req (some r') = (some x, true)) (hg.2 r' x)
    · exact ih (fun g' hm => hpre g' (by simp [hm])) (i + 1) _ x hx

end chain

/-! ## DHCPv4 -/

/-- the option codes a DHCPv4 element may write (stated in Props/System.lean) -/
def Sys.owned4 : Elem4 → List Nat
  | .plug (.dns _) => [6] | .plug (.mtu _) => [26] | .plug (.netmask _) => [1] | .plug (.router _) => [3]
  | .plug (.leasetime _) => [51] | .plug (.search _) => [119] | .plug (.staticroute _) => [121]
  | .plug (.ipv6only _) => [108] | .plug (.autoconfigure _) => [116] | .plug (.nbp _) => [66, 67]
  | .plug (.sleep _) => [] | .plug (.serverid _) => [54] | .file _ => [] | .lease _ => [51]

theorem handle4_none (e : Elem4) (req : Sys.Req4) : handle4 e req none = (none, true) := by
  cases e <;> rfl

theorem handle4_plug (c : Plug.Cfg4) (req : Sys.Req4) (r : Sys.Resp4) :
    handle4 (.plug c) req (some r) =
      match Plug.plugHandle4 c (viewReq4 req) (viewResp4 r) with
      | (none, stop) => (none, stop)
      | (some p, stop) => (some (putResp4 r p), stop) := rfl

theorem handle4_file (t : FTable) (req : Sys.Req4) (r : Sys.Resp4) :
    handle4 (.file t) req (some r) =
      match t.get req.chaddr with
      | some (.v4 a) => (some { r with yiaddr := be4 a }, true)
      | _ => (some r, false) := rfl

/-- every built-in plugin writes only the option codes it owns -/
theorem plug_frame4 (cfg : Plug.Cfg4) (req : Plug.ReqView4) (pre r : Plug.Resp4) (stop : Bool)
    (h : Plug.plugHandle4 cfg req pre = (some r, stop)) (c : Nat) (hc : c ∉ owned4 (.plug cfg)) :
    lookup c r.opts = lookup c pre.opts := by
  open Plug in
  cases cfg <;> simp only [plugHandle4, dns4.handle, mtu.handle, netmask.handle, router.handle, leasetime.handle,
    search.handle4, staticroute.handle, ipv6only.handle, autoconfigure.handle, nbp4.handle, sleep.handle4,
    serverid4.handle] at h
  all_goals (repeat' split at h)
  all_goals (try (simp at h; done))
  all_goals
    simp only [Prod.mk.injEq, Option.some.injEq] at h
    obtain ⟨rfl, _⟩ := h
    simp only [owned4, List.mem_cons, List.not_mem_nil, or_false, not_or, not_false_eq_true] at hc
    simp [Plug.Resp4.update, lookup_upd4_other, hc]

/-- what one element of the chain does to a response: the header fields the reply echoes stay,
and so does every option the element does not own -/
theorem handle4_some (e : Elem4) (req : Sys.Req4) (r x : Sys.Resp4)
    (h : (handle4 e req (some r)).1 = some x) :
    x.op = r.op ∧ x.xid = r.xid ∧ x.htype = r.htype ∧ x.chaddr = r.chaddr ∧ x.flags = r.flags ∧
    x.giaddr = r.giaddr ∧ ∀ c, c ∉ owned4 e → lookup c x.opts = lookup c r.opts := by
  cases e with
  | plug cfg =>
    rw [handle4_plug] at h
    cases hp : Plug.plugHandle4 cfg (viewReq4 req) (viewResp4 r) with
    | mk o stop =>
      rw [hp] at h
      cases o with
      | none => cases h
      | some p =>
        dsimp only at h
        cases h
        refine ⟨rfl, rfl, rfl, rfl, rfl, rfl, ?_⟩
        intro c hc
        exact plug_frame4 cfg _ _ p stop hp c hc
  | file t =>
    rw [handle4_file] at h
    split at h <;> (cases h; exact ⟨rfl, rfl, rfl, rfl, rfl, rfl, fun _ _ => rfl⟩)
  | lease out =>
    cases out with
    | none => cases h
    | some p =>
      obtain ⟨ip, o51⟩ := p
      simp only [handle4] at h
      cases h
      refine ⟨rfl, rfl, rfl, rfl, rfl, rfl, ?_⟩
      intro c hc
      have hne : c ≠ 51 := by
        intro h51; subst h51; exact hc (by simp [owned4])
      exact lookup_upd4_other 51 c _ _ hne

/-- the invariant of the chain -/
def Sys.Inv4 (chain : List Elem4) (r0 x : Sys.Resp4) : Prop :=
  x.op = r0.op ∧ x.xid = r0.xid ∧ x.htype = r0.htype ∧ x.chaddr = r0.chaddr ∧ x.flags = r0.flags ∧
  x.giaddr = r0.giaddr ∧ ∀ c, (∀ e ∈ chain, c ∉ owned4 e) → lookup c x.opts = lookup c r0.opts

theorem chain4_inv (chain : List Elem4) (req : Sys.Req4) (r0 resp : Sys.Resp4)
    (hc : (runChain (chain.map handle4) req 0 (some r0)).1 = some resp) : Inv4 chain r0 resp := by
  have hinv := runChain_invariant (fun r => ∀ x, r = some x → Inv4 chain r0 x) req (chain.map handle4)
    (by
      intro h hm r hr x hx
      obtain ⟨e, he, rfl⟩ := List.mem_map.mp hm
      cases r with
      | none => rw [handle4_none] at hx; cases hx
      | some y =>
        obtain ⟨a1, a2, a3, a4, a5, a6, a7⟩ := hr y rfl
        obtain ⟨b1, b2, b3, b4, b5, b6, b7⟩ := handle4_some e req y x hx
        exact ⟨b1.trans a1, b2.trans a2, b3.trans a3, b4.trans a4, b5.trans a5, b6.trans a6,
          fun c hc => (b7 c (hc e he)).trans (a7 c hc)⟩)
    0 (some r0) (by intro x hx; cases hx; exact ⟨rfl, rfl, rfl, rfl, rfl, rfl, fun _ _ => rfl⟩)
  exact hinv resp hc

theorem not_owned_echo (e : Elem4) : 82 ∉ owned4 e ∧ 61 ∉ owned4 e ∧ 53 ∉ owned4 e := by
  cases e with
  | plug c => cases c <;> simp [owned4]
  | file t => simp [owned4]
  | lease o => simp [owned4]

/-- the part of `serve4` after the chain returned `some resp` -/
def Sys.deliverS4 (bound : Nat) (oob : Option Nat) (req : Sys.Req4) (resp : Sys.Resp4) : Sys.Out4 :=
  let p := peer4 (absReq4 req) (absResp4 resp)
  let needPin := p.1 == bcast4 || isLinkLocal4 p.1 || p.2.2
  let woob := if needPin then pin bound oob else none
  if p.2.2 && woob.isNone then .panicNoIf
  else .send resp p.1 p.2.1 woob p.2.2

theorem serve4_eq (bound : Nat) (oob : Option Nat) (chain : List Elem4) (req : Sys.Req4) (r0 : Sys.Resp4)
    (h0 : Sys.stub4 req = some r0) :
    serve4 bound oob chain (some req) =
      match (runChain (chain.map handle4) req 0 (some r0)).1 with
      | none => .drop
      | some resp => deliverS4 bound oob req resp := by
  cases hc : (runChain (chain.map handle4) req 0 (some r0)).1 <;> simp only [serve4, h0, deliverS4, hc]

theorem absOut4_deliver (bound : Nat) (oob : Option Nat) (req : Sys.Req4) (resp : Sys.Resp4) :
    absOut4 (deliverS4 bound oob req resp) = deliver4 bound oob (absReq4 req) (absResp4 resp) := by
  unfold deliverS4 deliver4
  dsimp only
  generalize ((peer4 (absReq4 req) (absResp4 resp)).2.2 && _) = c
  cases c <;> rfl

theorem deliverS4_send (bound : Nat) (oob : Option Nat) (req : Sys.Req4) (resp resp' : Sys.Resp4)
    (peer : BitVec 32) (port : Nat) (ifidx : Option Nat) (l2 : Bool)
    (h : deliverS4 bound oob req resp = .send resp' peer port ifidx l2) : resp' = resp := by
  unfold deliverS4 at h
  dsimp only at h
  generalize ((peer4 (absReq4 req) (absResp4 resp)).2.2 && _) = c at h
  cases c
  · injection h with e1
    exact e1.symm
  · cases h

theorem serve4_send (bound : Nat) (oob : Option Nat) (chain : List Elem4) (req : Sys.Req4)
    (resp : Sys.Resp4) (peer : BitVec 32) (port : Nat) (ifidx : Option Nat) (l2 : Bool)
    (h : serve4 bound oob chain (some req) = .send resp peer port ifidx l2) :
    ∃ r0, Sys.stub4 req = some r0 ∧ (runChain (chain.map handle4) req 0 (some r0)).1 = some resp := by
  cases h0 : Sys.stub4 req with
  | none => simp [serve4, h0] at h
  | some r0 =>
    rw [serve4_eq bound oob chain req r0 h0] at h
    cases hc : (runChain (chain.map handle4) req 0 (some r0)).1 with
    | none => rw [hc] at h; cases h
    | some resp' =>
      rw [hc] at h
      dsimp only at h
      have := deliverS4_send bound oob req resp' resp peer port ifidx l2 h
      subst this
      exact ⟨r0, rfl, hc⟩

/-! ### the prepared reply -/

theorem getNonEmpty_congr (c : Nat) (o o' : Opts) (h : lookup c o = lookup c o') :
    getNonEmpty c o = getNonEmpty c o' := by
  unfold getNonEmpty; rw [h]

theorem mtOf_congr (o o' : Opts) (h : lookup 53 o = lookup 53 o') : mtOf o = mtOf o' := by
  unfold mtOf; rw [h]

theorem lookup_copyOpt_other (c c' : Nat) (req : Sys.Req4) (o : Opts) (h : c' ≠ c) :
    lookup c' (copyOpt c req o) = lookup c' o := by
  unfold copyOpt
  split
  · exact lookup_upd4_other c c' _ o h
  · rfl

theorem getNonEmpty_copyOpt_same (c : Nat) (req : Sys.Req4) (o : Opts) (ho : lookup c o = none) :
    getNonEmpty c (copyOpt c req o) = getNonEmpty c req.opts := by
  unfold copyOpt
  split
  · next v hv =>
    rw [hv]
    unfold getNonEmpty at hv ⊢
    rw [lookup_upd4_same]
    split at hv
    · cases hv; rfl
    · cases hv
  · next hv =>
    rw [hv]
    unfold getNonEmpty
    rw [ho]

theorem stub4_sys_some (req : Sys.Req4) (r0 : Sys.Resp4) (h : Sys.stub4 req = some r0) :
    req.op = 1 ∧ r0.op = 2 ∧ r0.xid = req.xid ∧ r0.htype = req.htype ∧ r0.chaddr = req.chaddr ∧
    r0.flags = req.flags ∧ r0.giaddr = req.giaddr ∧
    getNonEmpty 82 r0.opts = getNonEmpty 82 req.opts ∧ getNonEmpty 61 r0.opts = getNonEmpty 61 req.opts ∧
    ((mtOf req.opts = 1 ∧ mtOf r0.opts = 2) ∨ (mtOf req.opts = 3 ∧ mtOf r0.opts = 5)) := by
  have h82 : ∀ mt, getNonEmpty 82 (upd4 53 [mt] (copyOpt 61 req (copyOpt 82 req []))) = getNonEmpty 82 req.opts := by
    intro mt
    rw [getNonEmpty_congr 82 _ (copyOpt 82 req []) (by
      rw [lookup_upd4_other 53 82 _ _ (by decide), lookup_copyOpt_other 61 82 req _ (by decide)])]
    exact getNonEmpty_copyOpt_same 82 req [] rfl
  have h61 : ∀ mt, getNonEmpty 61 (upd4 53 [mt] (copyOpt 61 req (copyOpt 82 req []))) = getNonEmpty 61 req.opts := by
    intro mt
    rw [getNonEmpty_congr 61 _ (copyOpt 61 req (copyOpt 82 req [])) (lookup_upd4_other 53 61 _ _ (by decide))]
    exact getNonEmpty_copyOpt_same 61 req _ (by rw [lookup_copyOpt_other 82 61 req _ (by decide)]; rfl)
  have h53 : ∀ mt o, mtOf (upd4 53 [mt] o) = mt := by
    intro mt o; unfold mtOf; rw [lookup_upd4_same]
  unfold Sys.stub4 at h
  split at h
  · cases h
  · next hop =>
    have hop' : req.op = 1 := by simpa using hop
    split at h
    · next hmt =>
      cases h
      exact ⟨hop', rfl, rfl, rfl, rfl, rfl, rfl, h82 _, h61 _, Or.inl ⟨hmt, h53 _ _⟩⟩
    · split at h
      · next hmt =>
        cases h
        exact ⟨hop', rfl, rfl, rfl, rfl, rfl, rfl, h82 _, h61 _, Or.inr ⟨hmt, h53 _ _⟩⟩
      · cases h

/-! ### C11, C15 -/

theorem sys_C11 (bound : Nat) (oob : Option Nat) (chain : List Elem4) (input : Option Sys.Req4) :
    C11.holds (input.map absReq4) (absOut4 (serve4 bound oob chain input)) = true := by
  cases input with
  | none => simp [serve4, absOut4, C11.holds]
  | some req =>
    generalize hout : serve4 bound oob chain (some req) = out
    cases out with
    | drop => simp [absOut4, C11.holds]
    | panicNoIf => simp [absOut4, C11.holds]
    | send resp peer port ifidx l2 =>
      obtain ⟨r0, h0, hc⟩ := serve4_send bound oob chain req resp peer port ifidx l2 hout
      obtain ⟨s1, s2, s3, s4, s5, s6, s7, s8, s9, s10⟩ := stub4_sys_some req r0 h0
      obtain ⟨a1, a2, a3, a4, a5, a6, a7⟩ := chain4_inv chain req r0 resp hc
      have e82 := getNonEmpty_congr 82 _ _ (a7 82 (fun e _ => (not_owned_echo e).1))
      have e61 := getNonEmpty_congr 61 _ _ (a7 61 (fun e _ => (not_owned_echo e).2.1))
      have e53 := mtOf_congr _ _ (a7 53 (fun e _ => (not_owned_echo e).2.2))
      simp only [Option.map_some, absOut4, C11.holds, echo4, typeOk4, absReq4, absResp4,
        a1, a2, a3, a4, a5, a6, e82, e61, e53, s1, s2, s3, s4, s5, s6, s7, s8, s9]
      rcases s10 with ⟨m1, m2⟩ | ⟨m1, m2⟩ <;> simp [m1, m2]

theorem sys_C15 (bound : Nat) (oob : Option Nat) (chain : List Elem4) (input : Option Sys.Req4) :
    C15.holds bound oob (input.map absReq4) (absOut4 (serve4 bound oob chain input)) = true := by
  cases input with
  | none => simp [serve4, absOut4, C15.holds]
  | some req =>
    cases h0 : Sys.stub4 req with
    | none => simp [serve4, h0, absOut4, C15.holds]
    | some r0 =>
      rw [serve4_eq bound oob chain req r0 h0]
      split
      · simp [absOut4, C15.holds]
      · rw [absOut4_deliver]
        exact C15_deliver bound oob (absReq4 req) _

/-! ### C14, end to end -/

theorem sys_C14_drop4 (bound : Nat) (oob : Option Nat) (c : Plug.serverid4.Cfg) (rest : List Elem4) (req : Sys.Req4)
    (h : C14.namesOther4 c (viewReq4 req) = true) :
    serve4 bound oob (.plug (.serverid c) :: rest) (some req) = .drop := by
  cases h0 : Sys.stub4 req with
  | none => simp [serve4, h0]
  | some r0 =>
    rw [serve4_eq bound oob _ req r0 h0]
    have hh : handle4 (.plug (.serverid c)) req (some r0) = (none, true) := by
      have h14 := c14_v4 c (viewReq4 req) (viewResp4 r0)
      unfold C14.holds4 at h14
      rw [h, if_pos rfl] at h14
      have h14' : Plug.serverid4.handle c (viewReq4 req) (viewResp4 r0) = (none, true) := by simpa using h14
      rw [handle4_plug]
      simp only [Plug.plugHandle4, h14']
    rw [List.map_cons, runChain_head_nil req _ _ 0 (some r0) hh]

/-! ### `file` -/

theorem file_stops (t : FTable) (req : Sys.Req4) (a : BitVec 32) (h : t.get req.chaddr = some (.v4 a))
    (r : Option Sys.Resp4) : (handle4 (.file t) req r).2 = true := by
  cases r with
  | none => rfl
  | some r => rw [handle4_file, h]

theorem sys_file_stops4 (bound : Nat) (oob : Option Nat) (pre post : List Elem4) (t : FTable) (req : Sys.Req4)
    (a : BitVec 32) (h : t.get req.chaddr = some (.v4 a)) :
    serve4 bound oob (pre ++ .file t :: post) (some req) = serve4 bound oob (pre ++ [.file t]) (some req) := by
  cases h0 : Sys.stub4 req with
  | none => simp [serve4, h0]
  | some r0 =>
    rw [serve4_eq bound oob _ req r0 h0, serve4_eq bound oob _ req r0 h0]
    simp only [List.map_append, List.map_cons, List.map_nil]
    rw [runChain_cut req (handle4 (.file t)) (file_stops t req a h)]

/-- when no element before `file` ends the chain with a response, the address sent is the listed one -/
theorem sys_file_address4 (bound : Nat) (oob : Option Nat) (pre post : List Elem4) (t : FTable) (req : Sys.Req4)
    (a : BitVec 32) (h : t.get req.chaddr = some (.v4 a))
    (hpre : ∀ e ∈ pre, ∀ r r', handle4 e req (some r) ≠ (some r', true))
    (resp : Sys.Resp4) (peer : BitVec 32) (port : Nat) (ifidx : Option Nat) (l2 : Bool)
    (hs : serve4 bound oob (pre ++ .file t :: post) (some req) = .send resp peer port ifidx l2) :
    resp.yiaddr = be4 a := by
  rw [sys_file_stops4 bound oob pre post t req a h] at hs
  obtain ⟨r0, h0, hc⟩ := serve4_send bound oob _ req resp peer port ifidx l2 hs
  rw [runChain_eq] at hc
  simp only [List.map_append, List.map_cons, List.map_nil] at hc
  obtain ⟨r', hr'⟩ := go_reaches req (handle4 (.file t)) (by rw [handle4_none]) (pre.map handle4)
    (by
      intro g hg
      obtain ⟨e, he, rfl⟩ := List.mem_map.mp hg
      exact ⟨by rw [handle4_none], hpre e he⟩)
    0 (some r0) resp hc
  rw [handle4_file, h] at hr'
  cases hr'
  rfl

/-! ### frame -/

theorem sys_frame4 (bound : Nat) (oob : Option Nat) (chain : List Elem4) (req : Sys.Req4) (r0 : Sys.Resp4)
    (h0 : Sys.stub4 req = some r0)
    (resp : Sys.Resp4) (peer : BitVec 32) (port : Nat) (ifidx : Option Nat) (l2 : Bool)
    (hs : serve4 bound oob chain (some req) = .send resp peer port ifidx l2) (c : Nat)
    (hc : lookup c resp.opts ≠ lookup c r0.opts) :
    ∃ e ∈ chain, c ∈ owned4 e := by
  obtain ⟨r0', h0', hrun⟩ := serve4_send bound oob chain req resp peer port ifidx l2 hs
  rw [h0] at h0'
  cases h0'
  obtain ⟨_, _, _, _, _, _, a7⟩ := chain4_inv chain req r0 resp hrun
  apply Classical.byContradiction
  intro hne
  exact hc (a7 c (fun e he hm => hne ⟨e, he, hm⟩))

/-! ## DHCPv6 -/

theorem handle6_none (e : Elem6) (d : Sys.Pkt6) : handle6 e d none = (none, true) := by
  cases e <;> rfl

theorem handle6_plug (c : Plug.Cfg6) (d : Sys.Pkt6) (r : Sys.Resp6) :
    handle6 (.plug c) d (some r) =
      match d.msg with
      | none => (none, true)
      | some m =>
        match Plug.plugHandle6 c ⟨d.layers.length, m.mt, m.opts⟩ ⟨r.mt, r.opts⟩ with
        | (none, stop) => (none, stop)
        | (some p, stop) => (some { r with mt := p.mt, opts := p.opts }, stop) := rfl

theorem handle6_file (t : FTable) (d : Sys.Pkt6) (r : Sys.Resp6) :
    handle6 (.file t) d (some r) =
      match d.msg with
      | none => (none, true)
      | some m =>
        match lookup 3 m.opts with
        | none => (some r, false)
        | some ia =>
          match d.mac with
          | none => (some r, false)
          | some mac =>
            match t.get mac with
            | some (.v6 a) => (some { r with opts := r.opts ++ [(3, encIANA (ia.take 4) a)] }, false)
            | _ => (some r, false) := rfl

theorem handle6_pd (out : List PdAns) (d : Sys.Pkt6) (r : Sys.Resp6) :
    handle6 (.pd out) d (some r) =
      match d.msg with
      | none => (none, true)
      | some m =>
        match lookup 1 m.opts with
        | none => (none, true)
        | some _ => (some { r with opts := r.opts ++ out.map (fun a => (25, encIAPD a)) }, false) := rfl

theorem filter_append_pd (c : Nat) (hc : c ≠ 25) (l : Opts) (out : List PdAns) :
    (l ++ out.map (fun a => (25, encIAPD a))).filter (fun o => o.1 == c) = l.filter (fun o => o.1 == c) := by
  rw [List.filter_append]
  have : (out.map (fun a => ((25 : Nat), encIAPD a))).filter (fun o => o.1 == c) = [] := by
    apply List.filter_eq_nil_iff.mpr
    intro o ho
    obtain ⟨a, _, rfl⟩ := List.mem_map.mp ho
    simp only [beq_iff_eq]
    exact fun h => hc h.symm
  rw [this, List.append_nil]

theorem lookup_of_filter (c : Nat) (l l' : Opts)
    (h : l.filter (fun o => o.1 == c) = l'.filter (fun o => o.1 == c)) : lookup c l = lookup c l' := by
  have := congrArg List.head? h
  rw [head_filter_lookup, head_filter_lookup] at this
  cases h1 : lookup c l <;> cases h2 : lookup c l' <;> simp_all

/-- what one element of the DHCPv6 chain leaves alone: type, transaction id, Client-ID, Rapid Commit -/
theorem handle6_some (e : Elem6) (d : Sys.Pkt6) (r x : Sys.Resp6)
    (h : (handle6 e d (some r)).1 = some x) :
    x.mt = r.mt ∧ x.xid = r.xid ∧ lookup 1 x.opts = lookup 1 r.opts ∧ lookup 14 x.opts = lookup 14 r.opts := by
  cases e with
  | plug cfg =>
    rw [handle6_plug] at h
    cases hm : d.msg with
    | none => rw [hm] at h; cases h
    | some m =>
      rw [hm] at h
      dsimp only at h
      cases hp : Plug.plugHandle6 cfg ⟨d.layers.length, m.mt, m.opts⟩ ⟨r.mt, r.opts⟩ with
      | mk o stop =>
        rw [hp] at h
        cases o with
        | none => cases h
        | some p =>
          dsimp only at h
          cases h
          have h1 := preserve_mt6 cfg _ _ p stop hp
          obtain ⟨h2, h3⟩ := preserve_cid6 cfg _ _ p stop hp
          exact ⟨h1, rfl, lookup_of_filter 1 _ _ h2, lookup_of_filter 14 _ _ h3⟩
  | file t =>
    rw [handle6_file] at h
    have happ : ∀ v, lookup 1 (r.opts ++ [(3, v)]) = lookup 1 r.opts ∧ lookup 14 (r.opts ++ [(3, v)]) = lookup 14 r.opts := by
      intro v
      constructor <;> (apply lookup_of_filter; simp)
    repeat' split at h
    all_goals (first | (cases h; done) | (cases h; exact ⟨rfl, rfl, rfl, rfl⟩) | (cases h; exact ⟨rfl, rfl, (happ _).1, (happ _).2⟩))
  | pd out =>
    rw [handle6_pd] at h
    repeat' split at h
    all_goals (first | (cases h; done) |
      (cases h; exact ⟨rfl, rfl, lookup_of_filter 1 _ _ (filter_append_pd 1 (by decide) _ _),
        lookup_of_filter 14 _ _ (filter_append_pd 14 (by decide) _ _)⟩))

theorem chain6_inv (chain : List Elem6) (d : Sys.Pkt6) (r0 resp : Sys.Resp6)
    (hc : (runChain (chain.map handle6) d 0 (some r0)).1 = some resp) :
    resp.mt = r0.mt ∧ resp.xid = r0.xid ∧ lookup 1 resp.opts = lookup 1 r0.opts ∧
    lookup 14 resp.opts = lookup 14 r0.opts := by
  have hinv := runChain_invariant
    (fun r => ∀ x, r = some x → x.mt = r0.mt ∧ x.xid = r0.xid ∧ lookup 1 x.opts = lookup 1 r0.opts ∧
      lookup 14 x.opts = lookup 14 r0.opts) d (chain.map handle6)
    (by
      intro h hm r hr x hx
      obtain ⟨e, he, rfl⟩ := List.mem_map.mp hm
      cases r with
      | none => rw [handle6_none] at hx; cases hx
      | some y =>
        obtain ⟨a1, a2, a3, a4⟩ := hr y rfl
        obtain ⟨b1, b2, b3, b4⟩ := handle6_some e d y x hx
        exact ⟨b1.trans a1, b2.trans a2, b3.trans a3, b4.trans a4⟩)
    0 (some r0) (by intro x hx; cases hx; exact ⟨rfl, rfl, rfl, rfl⟩)
  exact hinv resp hc

/-- the prepared reply of the composed model is the one of `HandleMsg6`'s model -/
theorem stub6_abs (m : Sys.Msg6) : CoreDhcp.stub6 (absMsg6 m) = (Sys.stub6 m).map absResp6 := by
  unfold CoreDhcp.stub6 Sys.stub6 absMsg6
  dsimp only
  cases h1 : lookup 1 m.opts with
  | none => rfl
  | some c =>
    dsimp only
    by_cases hm : m.mt = 1
    · simp only [hm, if_true]
      cases h14 : (lookup 14 m.opts).isSome <;> simp [absResp6, lookup]
    · simp only [hm, if_false]
      split <;> simp [absResp6, lookup]

/-- the part of `serve6` after the chain returned `some resp` -/
def Sys.deliverS6 (bound : Nat) (oob : Option Nat) (src : Addr) (d : Sys.Pkt6) (resp : Sys.Resp6) : Sys.Out6 :=
  let woob := if isLinkLocal6 src then pin bound oob else none
  match d.layers with
  | [] => .send [] resp woob
  | l :: _ =>
    if l.mt ≠ 12 then .drop
    else .send (mirror d.layers) resp woob

theorem serve6_eq (bound : Nat) (oob : Option Nat) (src : Addr) (chain : List Elem6) (d : Sys.Pkt6) (m : Sys.Msg6)
    (r0 : Sys.Resp6) (hm : d.msg = some m) (h0 : Sys.stub6 m = some r0) :
    serve6 bound oob src chain (some d) =
      match (runChain (chain.map handle6) d 0 (some r0)).1 with
      | none => .drop
      | some resp => deliverS6 bound oob src d resp := by
  cases hc : (runChain (chain.map handle6) d 0 (some r0)).1 <;> simp only [serve6, hm, h0, deliverS6, hc]
  generalize d.layers = ls
  cases ls <;> rfl

theorem deliverS6_cases (bound : Nat) (oob : Option Nat) (src : Addr) (d : Sys.Pkt6) (resp : Sys.Resp6) :
    deliverS6 bound oob src d resp = .drop ∨
    deliverS6 bound oob src d resp =
      .send (mirror d.layers) resp (if isLinkLocal6 src then pin bound oob else none) := by
  unfold deliverS6
  dsimp only
  cases hl : d.layers with
  | nil => right; simp [mirror]
  | cons l rest =>
    dsimp only
    by_cases h12 : l.mt = 12
    · right; simp [h12]
    · left; simp [h12]

theorem sys_C12 (bound : Nat) (oob : Option Nat) (src : Addr) (chain : List Elem6) (input : Option Sys.Pkt6) :
    C12.holds bound oob src (input.map absPkt6) (absOut6 (serve6 bound oob src chain input)) = true := by
  cases input with
  | none => simp [serve6, absOut6, C12.holds]
  | some d =>
    cases hm : d.msg with
    | none => simp [serve6, hm, absOut6, C12.holds]
    | some m =>
      cases h0 : Sys.stub6 m with
      | none => simp [serve6, hm, h0, absOut6, C12.holds]
      | some r0 =>
        rw [serve6_eq bound oob src chain d m r0 hm h0]
        cases hc : (runChain (chain.map handle6) d 0 (some r0)).1 with
        | none => simp [absOut6, C12.holds]
        | some resp =>
          dsimp only
          rcases deliverS6_cases bound oob src d resp with hd | hd
          · rw [hd]; simp [absOut6, C12.holds]
          · rw [hd]
            have hs : CoreDhcp.stub6 (absMsg6 m) = some (absResp6 r0) := by rw [stub6_abs, h0]; rfl
            obtain ⟨s1, s2, s3, s4, s5⟩ := stub6_some (absMsg6 m) (absResp6 r0) hs
            obtain ⟨a1, a2, a3, a4⟩ := chain6_inv chain d r0 resp hc
            have hz := mirror_zip_all d.layers
            have hpin := pin_eq bound oob
            have b1 : (absResp6 resp).mt = (absResp6 r0).mt := a1
            have b2 : (absResp6 resp).xid = (absResp6 r0).xid := a2
            have b3 : (absResp6 resp).cid = (absResp6 r0).cid := a3
            have b4 : (absResp6 resp).rapid = (absResp6 r0).rapid := by
              show (lookup 14 resp.opts).isSome = (lookup 14 r0.opts).isSome
              rw [a4]
            have hmsg : (absPkt6 d).msg = some (absMsg6 m) := by simp [absPkt6, hm]
            have hlay : (absPkt6 d).layers = d.layers := rfl
            simp only [Option.map_some, absOut6, C12.holds, hmsg, hlay, b1, b2, b3, b4, s1, s2, s3, s4, s5,
              mirror_length, hz, ← hpin]
            simp

theorem sys_C14_drop6 (bound : Nat) (oob : Option Nat) (src : Addr) (c : Plug.serverid6.Cfg) (rest : List Elem6)
    (d : Sys.Pkt6) (m : Sys.Msg6) (hm : d.msg = some m)
    (h : C14.mustDiscard6 m.mt (C14.rel6 c ⟨d.layers.length, m.mt, m.opts⟩) = true) :
    serve6 bound oob src (.plug (.serverid c) :: rest) (some d) = .drop := by
  cases h0 : Sys.stub6 m with
  | none => simp [serve6, hm, h0]
  | some r0 =>
    rw [serve6_eq bound oob src _ d m r0 hm h0]
    have hh : handle6 (.plug (.serverid c)) d (some r0) = (none, true) := by
      have hcount : C17.count 2 r0.opts ≤ 1 := by
        unfold Sys.stub6 at h0
        repeat' split at h0
        all_goals (first | (cases h0; done) | (cases h0; simp [C17.count]))
      have h14 := c14_v6 c ⟨d.layers.length, m.mt, m.opts⟩ ⟨r0.mt, r0.opts⟩ hcount
      unfold C14.holds6 at h14
      rw [h, if_pos rfl] at h14
      have h14' : Plug.serverid6.handle c ⟨d.layers.length, m.mt, m.opts⟩ ⟨r0.mt, r0.opts⟩ = (none, true) := by
        simpa using h14
      rw [handle6_plug, hm]
      simp only [Plug.plugHandle6, h14']
    rw [List.map_cons, runChain_head_nil d _ _ 0 (some r0) hh]

end CoreDhcp

namespace CoreDhcp
open Sys

/-- the plugins `neverStops4` names hand a response on and never end the chain -/
theorem sys_neverStops4 (e : Elem4) (he : neverStops4 e = true) (req : Sys.Req4) (r : Sys.Resp4) :
    ∃ r', handle4 e req (some r) = (some r', false) := by
  cases e with
  | file t => simp [neverStops4] at he
  | lease o => simp [neverStops4] at he
  | plug c =>
    cases c <;> simp only [neverStops4] at he <;> try (exact absurd he (by decide))
    all_goals
      simp only [handle4_plug, Plug.plugHandle4, Plug.dns4.handle, Plug.mtu.handle, Plug.netmask.handle, Plug.router.handle,
        Plug.search.handle4, Plug.staticroute.handle, Plug.sleep.handle4]
      try exact ⟨_, rfl⟩
    -- lease_time: two branches, both hand the response on
    · simp only [Plug.leasetime.handle]
      by_cases hop : (viewReq4 req).op ≠ 1
      · rw [if_pos hop]; exact ⟨_, rfl⟩
      · rw [if_neg hop]; exact ⟨_, rfl⟩

/-- C10 end to end, as the `sys` driver evaluates it: only plugins that never end the chain before
`file`, the client is listed: if anything is sent, it carries the listed address. -/
theorem sys_file_address4_syntactic (bound : Nat) (oob : Option Nat) (pre post : List Elem4) (t : FTable) (req : Sys.Req4)
    (a : BitVec 32) (h : t.get req.chaddr = some (.v4 a)) (hpre : pre.all neverStops4 = true)
    (resp : Sys.Resp4) (peer : BitVec 32) (port : Nat) (ifidx : Option Nat) (l2 : Bool)
    (hs : serve4 bound oob (pre ++ .file t :: post) (some req) = .send resp peer port ifidx l2) :
    resp.yiaddr = be4 a := by
  refine sys_file_address4 bound oob pre post t req a h ?_ resp peer port ifidx l2 hs
  intro e he r r' hc
  obtain ⟨r'', hr⟩ := sys_neverStops4 e (List.all_eq_true.mp hpre e he) req r
  rw [hr] at hc
  cases hc

end CoreDhcp

/-! ### C17 delivered -/

namespace CoreDhcp
open Sys
open Plug (lookup)

section chain2
variable {Req Resp : Type}

/-- the response a chain returns does not depend on the index the trace starts at -/
theorem go_fst_idx (req : Req) (l : List (Req → Option Resp → Option Resp × Bool)) :
    ∀ i j r, (runChain.go req l i r).1 = (runChain.go req l j r).1 := by
  induction l with
  | nil => intro i j r; rfl
  | cons h rest ih =>
    intro i j r
    simp only [runChain.go]
    cases hs : (h req r).2
    · simp only [Bool.false_eq_true, if_false]
      exact ih _ _ _
    · simp only [if_true]

/-- handlers that all hand a response on without stopping: the chain `l1 ++ l2` is `l2` run on what
`l1` made of the response -/
theorem go_through (req : Req) (l1 : List (Req → Option Resp → Option Resp × Bool))
    (hl : ∀ g ∈ l1, ∀ r, ∃ r', g req (some r) = (some r', false)) :
    ∀ i r, ∃ mid, (runChain.go req l1 i (some r)).1 = some mid ∧
      ∀ l2, (runChain.go req (l1 ++ l2) i (some r)).1 = (runChain.go req l2 0 (some mid)).1 := by
  induction l1 with
  | nil => intro i r; exact ⟨r, rfl, fun l2 => go_fst_idx req l2 i 0 _⟩
  | cons g rest ih =>
    intro i r
    obtain ⟨r', hr'⟩ := hl g (by simp) r
    obtain ⟨mid, h1, h2⟩ := ih (fun g' hm => hl g' (by simp [hm])) (i + 1) r'
    refine ⟨mid, ?_, ?_⟩
    · simp only [runChain.go, hr', Bool.false_eq_true, if_false]
      exact h1
    · intro l2
      simp only [List.cons_append, runChain.go, hr', Bool.false_eq_true, if_false]
      exact h2 l2

end chain2

/-- a nil response stays nil -/
theorem go_handle4_none (req : Sys.Req4) (l : List Elem4) (i : Nat) :
    (runChain.go req (l.map handle4) i none).1 = none := by
  cases l with
  | nil => rfl
  | cons e rest => simp [runChain.go, handle4_none]

theorem sys_C17_delivered4 (bound : Nat) (oob : Option Nat) (pre post : List Elem4) (c : Plug.Cfg4) (req : Sys.Req4)
    (name : String) (args : List Plug.ArgOracle) (hcfg : Plug.plugSetup4 name args = some (.ok c))
    (hpre : pre.all neverStops4 = true)
    (hpost : ∀ e ∈ post, ∀ code ∈ owned4 (.plug c), code ∉ owned4 e)
    (resp : Sys.Resp4) (peer : BitVec 32) (port : Nat) (ifidx : Option Nat) (l2 : Bool)
    (hs : serve4 bound oob (pre ++ .plug c :: post) (some req) = .send resp peer port ifidx l2) :
    ∃ r0 mid out stop, Sys.stub4 req = some r0 ∧
      (runChain (pre.map handle4) req 0 (some r0)).1 = some mid ∧
      Plug.plugHandle4 c (viewReq4 req) (viewResp4 mid) = (some out, stop) ∧
      C17.holds4 c (viewReq4 req) (viewResp4 mid) (some out, stop) = true ∧
      ∀ code ∈ owned4 (.plug c), Plug.lookup code resp.opts = Plug.lookup code out.opts := by
  obtain ⟨r0, h0, hc⟩ := serve4_send bound oob _ req resp peer port ifidx l2 hs
  rw [runChain_eq] at hc
  simp only [List.map_append, List.map_cons] at hc
  obtain ⟨mid, hm1, hm2⟩ := go_through req (pre.map handle4) (by
      intro g hg r
      obtain ⟨e, he, rfl⟩ := List.mem_map.mp hg
      exact sys_neverStops4 e (List.all_eq_true.mp hpre e he) req r) 0 r0
  rw [hm2] at hc
  simp only [runChain.go] at hc
  rw [handle4_plug] at hc
  have h17 := c17_builtin4 name args c (viewReq4 req) (viewResp4 mid) hcfg
  cases hp : Plug.plugHandle4 c (viewReq4 req) (viewResp4 mid) with
  | mk o stop =>
    rw [hp] at hc h17
    cases o with
    | none =>
      exfalso
      dsimp only at hc
      cases stop
      · simp [go_handle4_none] at hc
      · simp at hc
    | some out =>
      refine ⟨r0, mid, out, stop, h0, by rw [runChain_eq]; exact hm1, hp, h17, ?_⟩
      intro code hcode
      dsimp only at hc
      cases stop
      · simp only [Bool.false_eq_true, if_false] at hc
        have hinv := chain4_inv post req (putResp4 mid out) resp
          (by rw [runChain_eq, go_fst_idx req _ 0 (0 + 1)]; exact hc)
        exact hinv.2.2.2.2.2.2 code (fun e he => hpost e he code hcode)
      · simp only [if_true] at hc
        cases hc
        rfl

end CoreDhcp
