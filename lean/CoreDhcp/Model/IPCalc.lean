/-
Model of /repo/plugins/allocators/ipcalc.go  (Offset, AddPrefixes)

Machine arithmetic is `BitVec 64` with `Nat` shift counts: a Go shift by a count
≥ 64 yields 0, and so does `BitVec.shiftLeft/ushiftRight` with a `Nat` count
(Lean's `UInt64` shifts reduce the count mod 64, which Go does not).

Core Lean only: this file is linked into the driver executable.
-/
namespace CoreDhcp

/-- A 16-byte address as the two big-endian 64-bit halves the Go code reads with
`binary.BigEndian.Uint64(a[:8])` / `(a[8:])`. -/
structure Addr where
  hi : BitVec 64
  lo : BitVec 64
deriving DecidableEq, Repr, Inhabited

/-- The 128-bit number an address denotes. -/
def Addr.val (a : Addr) : Nat := a.hi.toNat * 2^64 + a.lo.toNat

/-- The address denoting `n mod 2^128`. -/
def Addr.ofVal (n : Nat) : Addr := ⟨BitVec.ofNat 64 (n / 2^64), BitVec.ofNat 64 n⟩

inductive CalcErr
  | prefixRange   -- "prefix out of range"
  | overflow      -- ErrOverflow
  | need128       -- "AddPrefixes needs 128-bit IPs"
deriving DecidableEq, Repr

/-- `bits.Sub64(x, y, borrow)` : difference and borrow-out. -/
def sub64 (x y borrow : BitVec 64) : BitVec 64 × BitVec 64 :=
  (x - y - borrow, if x.toNat < y.toNat + borrow.toNat then 1#64 else 0#64)

/-- `bits.Add64(x, y, carry)` : sum and carry-out. -/
def add64 (x y carry : BitVec 64) : BitVec 64 × BitVec 64 :=
  (x + y + carry, if 2^64 ≤ x.toNat + y.toNat + carry.toNat then 1#64 else 0#64)

/-- `bits.Mul64(x, y)` : (hi, lo) of the 128-bit product. -/
def mul64 (x y : BitVec 64) : BitVec 64 × BitVec 64 :=
  (BitVec.ofNat 64 (x.toNat * y.toNat / 2^64), BitVec.ofNat 64 (x.toNat * y.toNat))

/-- `allocators.Offset(a, b, prefixLength)` for two 16-byte addresses
(ipcalc.go:30-84), statement by statement. -/
def offset (a b : Addr) (p : Int) : Except CalcErr (BitVec 64) :=
  if p > 128 ∨ p < 0 then .error .prefixRange
  else
    let p : Nat := p.toNat
    -- reverse := bytes.Compare(a, b): for 16-byte slices this is the numeric order
    if a = b then .ok 0#64
    else
      let ab : Addr × Addr := if a.val < b.val then (b, a) else (a, b)
      let a := ab.1
      let b := ab.2
      if p ≤ 64 then
        .ok ((a.hi - b.hi) >>> (64 - p))
      else
        let dl := sub64 a.lo b.lo 0#64            -- distanceLow, borrow
        let dh := (sub64 a.hi b.hi dl.2).1        -- distanceHigh
        if (1#64 <<< (128 - p)).toNat ≤ dh.toNat then .error .overflow
        else .ok ((dh <<< (p - 64)) + (dl.1 >>> (128 - p)))

/-- `allocators.AddPrefixes(ip, n, unit)` for a 16-byte `ip` (ipcalc.go:89-131).
Includes the range check on `n` that the `fix:` commit for D1 adds: for
`unit < 64`, `n << (64-unit)` would silently drop the bits of `n` at and above
`unit`; those are exactly the cases where the result lies beyond 2^128. -/
def addPrefixes (ip : Addr) (n unit : BitVec 64) : Except CalcErr Addr :=
  if unit = 0#64 ∧ n ≠ 0#64 then .error .overflow
  else if n = 0#64 then .ok ip
  else
    if unit.toNat < 64 ∧ (n >>> unit.toNat) ≠ 0#64 then .error .overflow
    else
      let off : BitVec 64 × BitVec 64 :=
        if unit.toNat ≤ 64 then (n <<< (64 - unit.toNat), 0#64)
        else mul64 n (1#64 <<< (128#64 - unit).toNat)
      let l := add64 off.2 ip.lo 0#64
      let h := add64 off.1 ip.hi l.2
      if h.2 ≠ 0#64 then .error .overflow
      else .ok ⟨h.1, l.1⟩

/-- The code as it was before the D1 repair (kept for the refutation witness). -/
def addPrefixesPreFix (ip : Addr) (n unit : BitVec 64) : Except CalcErr Addr :=
  if unit = 0#64 ∧ n ≠ 0#64 then .error .overflow
  else if n = 0#64 then .ok ip
  else
    let off : BitVec 64 × BitVec 64 :=
      if unit.toNat ≤ 64 then (n <<< (64 - unit.toNat), 0#64)
      else mul64 n (1#64 <<< (128#64 - unit).toNat)
    let l := add64 off.2 ip.lo 0#64
    let h := add64 off.1 ip.hi l.2
    if h.2 ≠ 0#64 then .error .overflow
    else .ok ⟨h.1, l.1⟩

end CoreDhcp
