/-
Model of `setupFile` of plugins/file/plugin.go (unit `filesetup`): what the set-up of the static-lease plugin does
with its arguments, in which order it loads the file and sets the watcher up, what the refresh goroutine does for
one event of the watcher, and which table each of the two handlers it returns serves.

Out of the repository, hence inputs: whether `loadFromFile` succeeds (unit `fileplugin` / Model/File.lean say what it
does to the tables), whether `fsnotify.NewWatcher()` and `watcher.Add(path)` succeed, the events the watcher
delivers (the model looks at one thing: whether the event says the watched file was removed or renamed), and whether
the `watcher.Add` of the re-watch succeeds.
-/
import CoreDhcp.Model.File
namespace CoreDhcp
namespace FileSetup

/-- the table a handler serves: `DHCPv4Records`, `DHCPv6Records`, or `StaticRecords` (= whichever was loaded last) -/
inductive Table
  | own4
  | own6
  | last
deriving DecidableEq, Repr

/-- the two argument errors, in the order of the tests -/
inductive ArgErr
  /-- `len(args) < 1`: "need a file name" -/
  | noFileName
  /-- `args[0] == ""`: "got empty file name" -/
  | emptyFileName
deriving DecidableEq, Repr

/-- what `setupFile` returns -/
inductive SetupOut
  | argErr (which : ArgErr)
  /-- the error of the initial `loadFromFile` -/
  | loadErr
  /-- the error of `fsnotify.NewWatcher()` -/
  | watcherErr
  /-- the error of `watcher.Add(…)` -/
  | watchErr
  /-- `watch` = the path whose events the refresh goroutine consumes (`none`: no goroutine); the table each of the
  two handlers returned serves -/
  | ok (watch : Option String) (serves4 serves6 : Table)
deriving DecidableEq, Repr

/-- the value of the constant `autoRefreshArg` -/
def autoRefreshArg : String := "autorefresh"

/-- `setupFile(v6, args...)`; `loadOk` = the initial `loadFromFile(v6, args[0])` returned nil, `newWatcherOk` =
`fsnotify.NewWatcher()` returned no error, `addOk` = `watcher.Add(args[0])` returned nil.  The protocol only
selects what is loaded: it is an argument of the load, not of what `setupFile` returns. -/
def setup (_v6 : Bool) (args : List String) (loadOk newWatcherOk addOk : Bool) : SetupOut :=
  match args with
  | [] => .argErr .noFileName
  | filename :: rest =>
    if filename = "" then .argErr .emptyFileName
    else if !loadOk then .loadErr
    else if rest.head? = some autoRefreshArg then
      if !newWatcherOk then .watcherErr
      else if !addOk then .watchErr
      else .ok (some filename) .own4 .own6
    else .ok none .own4 .own6

/-! ## the refresher -/

/-- what one reload does to the mapping -/
inductive Refresh
  | keep
  | replace
deriving DecidableEq, Repr

/-- whether the goroutine takes the next event -/
inductive LoopAfter
  | continues
  | stops
deriving DecidableEq, Repr

/-- a well-formed version replaces the mapping, a malformed one leaves it as it is -/
def refresh (loadOk : Bool) : Refresh := if loadOk then .replace else .keep

/-- whatever the reload did, the goroutine goes on to the next event -/
def loopAfter (_loadOk : Bool) : LoopAfter := .continues

/-- an event of the watcher (`fsnotify.Event`): the operation bits (`fsnotify.Op`: Create = 1, Write = 2, Remove = 4,
Rename = 8, Chmod = 16) and the name -/
structure Event where
  op : Nat
  name : String
deriving DecidableEq, Repr

/-- `ev.Has(c)`, `c` an operation constant with the value `bit` (fsnotify: `o&h != 0`) -/
def Event.has (ev : Event) (bit : Nat) : Bool := ev.op &&& bit != 0

/-- the event says the watched file was removed or renamed — which is what happens to the OLD file when a new version
is moved into place under its name; with it the watch (it is on the file, not on the name) is gone:
`ev.Has(fsnotify.Remove) || ev.Has(fsnotify.Rename)` -/
def Event.replaced (ev : Event) : Bool := ev.has 4 || ev.has 8

/-- what the goroutine does for one event: the calls `loadFromFile(v6, name)` it makes, what became of the mapping,
whether it takes the next event, and the name it watches again (`watcher.Remove(name)` then `watcher.Add(name)`,
before the reload; `none`: it does not touch the watcher) -/
structure EvOut where
  loads : List (Bool × String)
  refresh : Refresh
  after : LoopAfter
  rewatch : Option String
deriving DecidableEq, Repr

/-- one event = one reload of the configured file for the protocol of this instance; an event that says the file was
replaced makes the goroutine watch the configured name again first.  Whether that `Add` succeeds is not an input:
its error is only logged -/
def onEvent (v6 : Bool) (filename : String) (loadOk : Bool) (ev : Event) : EvOut :=
  ⟨[(v6, filename)], refresh loadOk, loopAfter loadOk, if ev.replaced then some filename else none⟩

/-- the code before the repair of the lost watch: the same reload, the watcher is never touched again -/
def onEventOld (v6 : Bool) (filename : String) (loadOk : Bool) (_ev : Event) : EvOut :=
  ⟨[(v6, filename)], refresh loadOk, loopAfter loadOk, none⟩

/-! ## the watch, abstractly

`watching` = the watcher has a watch on the file that carries the configured name NOW.  The world: an event is
delivered only while watching; a replacement of the watched file ends the watch (the watch was on the old file).
The loop: `rewatch = some name` puts a watch on the file that carries `name` now — if that `Add` succeeds
(`readdOk`; it fails when no file carries the name at that moment: delete, then create). -/

/-- the watch state after the loop handled `ev`, which was delivered (so the state before was `true`) -/
def watchAfter (name : String) (readdOk : Bool) (ev : Event) (out : EvOut) : Bool :=
  !ev.replaced || (decide (out.rewatch = some name) && readdOk)

/-- a history of events of the configured file, from watch state `w`: for each event, `none` = not delivered (nobody
was watching), `some w'` = delivered and handled, `w'` = the watch state after it -/
def watchRun (handle : Event → EvOut) (name : String) (readdOk : Bool) : Bool → List Event → List (Option Bool)
  | _, [] => []
  | false, _ :: rest => none :: watchRun handle name readdOk false rest
  | true, ev :: rest =>
    let w := watchAfter name readdOk ev (handle ev)
    some w :: watchRun handle name readdOk w rest

/-! ## the two registered functions -/

/-- which of the pair `setupFile` returns -/
inductive Side
  /-- result 1, the `handler.Handler6` -/
  | six
  /-- result 2, the `handler.Handler4` -/
  | four
deriving DecidableEq, Repr

/-- a registered set-up function: the flag it gives `setupFile` and the result it passes on -/
structure Reg where
  v6 : Bool
  side : Side
deriving DecidableEq, Repr

/-- `setup6` -/
def reg6 : Reg := ⟨true, .six⟩
/-- `setup4` -/
def reg4 : Reg := ⟨false, .four⟩

/-- the table `loadFromFile(v6, _)` fills (Model/File.lean: `FState.setTable`) -/
def Table.loadedBy (v6 : Bool) : Table := if v6 then .own6 else .own4

/-- the table served by the handler on this side of the pair -/
def SetupOut.served (o : SetupOut) (s : Side) : Option Table :=
  match o, s with
  | .ok _ _ t6, .six => some t6
  | .ok _ t4 _, .four => some t4
  | _, _ => none

/-! ## link to Model/File.lean -/

/-- what a handler serving `t` reads in a state of Model/File.lean; `StaticRecords` is the table of the protocol
whose load came last -/
def Table.read (t : Table) (s : FState) (lastV6 : Bool) : FTable :=
  match t with
  | .own4 => s.t4
  | .own6 => s.t6
  | .last => s.table lastV6

/-- the refresher over the successive versions of the file, one event each: one `FState.load` attempt per event,
as long as the loop goes on (`after` = what the loop does after a reload; the code's is `loopAfter`) -/
def run (after : Bool → LoopAfter) (s : FState) (v6 : Bool) : List (List FLine) → FState
  | [] => s
  | f :: rest =>
    match after (s.load v6 f).2 with
    | .continues => run after (s.load v6 f).1 v6 rest
    | .stops => (s.load v6 f).1

end FileSetup
end CoreDhcp
