/-
Model of the argument and start-up part of `setupRange` of plugins/range/plugin.go (unit `rangesetup`): which tests it
makes on its arguments, in which order, which library call is asked about which argument, what the plugin state is
filled with, and what it returns — `p.Handler4`, the method value of the very state it filled in, or no handler at all.

Out of the repository (or in another unit), hence inputs (`World`): what `net.ParseIP(s).To4()` is, what
`time.ParseDuration(s)` answers, whether `bitmap.NewIPv4Allocator(a, b)` (unit `alloc4`: `A4.new`), `registerBackingDB(f)`
and `loadRecords(db)` (unit `storage`) succeed, and whether the re-marking loop (unit `range4`: `remark`) runs through.
Every answer is a FUNCTION OF THE ARGUMENTS of the call, so that the model says which argument goes where.

Trusted pure facts: `net.IP(nil).To4()` is nil (an address that does not parse has no IPv4 form);
`d.Round(time.Second)` is `goRoundSecond d` below: halves round AWAY FROM ZERO, so for d ≥ 0 it is `keptLease d` of
Model/Range.lean and for d < 0 its mirror image.  (Go saturates when the rounding overflows int64 — such a value and
the unbounded one of the model are both far above the largest lease accepted, so both are refused.)
`math.MaxUint32*time.Second` = 4294967295 s = 4294967295000000000 ns.
-/
import CoreDhcp.Model.Range
namespace CoreDhcp
namespace RangeSetup

/-- why `setupRange` refuses, in the order of its tests -/
inductive Err
  /-- `len(args) < 4` -/
  | arity
  /-- `args[0] == ""` -/
  | emptyFileName
  /-- `net.ParseIP(args[k]).To4() == nil`; k = 1: the start of the range, k = 2: its end -/
  | notIPv4 (arg : Nat)
  /-- start ≥ end (as big-endian 32-bit numbers) -/
  | badRange
  /-- `bitmap.NewIPv4Allocator` returned an error -/
  | allocator
  /-- `time.ParseDuration(args[3])` returned an error -/
  | badDuration
  /-- the rounded lease time is negative or more than 2^32 − 1 seconds (since the repair of D21) -/
  | leaseOutOfRange
  /-- `p.registerBackingDB(args[0])` returned an error -/
  | storage
  /-- `loadRecords(p.leasedb)` returned an error -/
  | load
  /-- the re-marking loop returned an error (unit `range4`) -/
  | remark
deriving DecidableEq, Repr

/-- the answers of the calls `setupRange` makes -/
structure World where
  /-- `net.ParseIP(s).To4()` as a big-endian number (`binary.BigEndian.Uint32` of it); `none`: `To4()` is nil -/
  ip4 : String → Option (BitVec 32)
  /-- `bitmap.NewIPv4Allocator(a, b)` returned no error; an address is seen through its `To4()` (as `A4.new` does) -/
  newAlloc : Option (BitVec 32) → Option (BitVec 32) → Bool
  /-- `time.ParseDuration(s)`: nanoseconds, `none`: an error -/
  duration : String → Option Int
  /-- `p.registerBackingDB(f)` returned nil -/
  register : String → Bool
  /-- `loadRecords(p.leasedb)` returned no error -/
  loadOk : Bool
  /-- the loop `for _, v := range p.Recordsv4` ran through without returning -/
  remarkOk : Bool

/-- what the plugin state the handler is bound to was filled with -/
structure Config where
  /-- the lease database: the argument `registerBackingDB` was given -/
  file : String
  /-- the two addresses the allocator was made from -/
  start : BitVec 32
  stop : BitVec 32
  /-- `p.LeaseTime`, ns -/
  lease : Int
deriving DecidableEq, Repr

/-- the pair `setupRange` returns: `handler = some c` — `p.Handler4` of the state filled with `c`; `none` — nil.
`err = none` — a nil error. (Go lets a function return both, or neither.) -/
structure Out where
  handler : Option Config
  err : Option Err
deriving DecidableEq, Repr

def fail (e : Err) : Out := ⟨none, some e⟩

/-- `d.Round(time.Second)`: to the nearest whole second, halves away from zero (`time.Duration.Round`) -/
def goRoundSecond (d : Int) : Int := if d < 0 then -(keptLease (-d)) else keptLease d

/-- the largest lease time option 51 can carry: `math.MaxUint32*time.Second`, in ns -/
def maxLease : Int := 4294967295000000000

/-- `setupRange(args...)` -/
def setup (args : List String) (w : World) : Out :=
  match args with
  | file :: a :: b :: d :: _ =>
    if file = "" then fail .emptyFileName
    else match w.ip4 a with
      | none => fail (.notIPv4 1)
      | some start =>
        match w.ip4 b with
        | none => fail (.notIPv4 2)
        | some stop =>
          if start.toNat ≥ stop.toNat then fail .badRange
          else if !w.newAlloc (some start) (some stop) then fail .allocator
          else match w.duration d with
            | none => fail .badDuration
            | some ns =>
              if goRoundSecond ns < 0 ∨ goRoundSecond ns > 4294967295000000000 then fail .leaseOutOfRange
              else if !w.register file then fail .storage
              else if !w.loadOk then fail .load
              else if !w.remarkOk then fail .remark
              else ⟨some ⟨file, start, stop, goRoundSecond ns⟩, none⟩
  | _ => fail .arity

/-- `setupRange` BEFORE the repair of D21 (no test on the lease time): kept for the counter-example -/
def setupOld (args : List String) (w : World) : Out :=
  match args with
  | file :: a :: b :: d :: _ =>
    if file = "" then fail .emptyFileName
    else match w.ip4 a with
      | none => fail (.notIPv4 1)
      | some start =>
        match w.ip4 b with
        | none => fail (.notIPv4 2)
        | some stop =>
          if start.toNat ≥ stop.toNat then fail .badRange
          else if !w.newAlloc (some start) (some stop) then fail .allocator
          else match w.duration d with
            | none => fail .badDuration
            | some ns =>
              if !w.register file then fail .storage
              else if !w.loadOk then fail .load
              else if !w.remarkOk then fail .remark
              else ⟨some ⟨file, start, stop, goRoundSecond ns⟩, none⟩
  | _ => fail .arity

/-- the tests of `setupRange` in source order, each with the error its failure is reported as (the values a later
test looks at exist once the earlier ones have passed; `getD` only makes the list total) -/
def checks (args : List String) (w : World) : List (Bool × Err) :=
  let start := (w.ip4 (args.getD 1 "")).getD 0#32
  let stop := (w.ip4 (args.getD 2 "")).getD 0#32
  let kept := goRoundSecond ((w.duration (args.getD 3 "")).getD 0)
  [ (decide (args.length < 4), .arity),
    (decide (args.getD 0 "" = ""), .emptyFileName),
    ((w.ip4 (args.getD 1 "")).isNone, .notIPv4 1),
    ((w.ip4 (args.getD 2 "")).isNone, .notIPv4 2),
    (decide (start.toNat ≥ stop.toNat), .badRange),
    (!w.newAlloc (w.ip4 (args.getD 1 "")) (w.ip4 (args.getD 2 "")), .allocator),
    ((w.duration (args.getD 3 "")).isNone, .badDuration),
    (decide (kept < 0 ∨ kept > 4294967295000000000), .leaseOutOfRange),
    (!w.register (args.getD 0 ""), .storage),
    (!w.loadOk, .load),
    (!w.remarkOk, .remark) ]

/-- the error of the first test that fails -/
def firstFailure (args : List String) (w : World) : Option Err :=
  ((checks args w).find? (·.1)).map (·.2)

/-! ## the registration -/

/-- a set-up function a plugin registers -/
inductive Fn
  /-- the function this unit translates (`setupRange`) -/
  | setupRange
  /-- anything else -/
  | other
deriving DecidableEq, Repr

/-- `var Plugin = plugins.Plugin{…}`; `none` = nil / not given -/
structure PluginDecl where
  name : String
  setup6 : Option Fn
  setup4 : Option Fn
deriving DecidableEq, Repr

/-- the range plugin: DHCPv4 only -/
def plugin : PluginDecl := ⟨"range", none, some .setupRange⟩

/-! ## link to Model/Alloc4.lean and Model/Range.lean -/

/-- the start-up answers taken from the models of the other units: the allocator is `A4.new`, the table `db` is what
the lease file holds, `loadRecords` and the re-marking loop are the ones of Model/Range.lean (`order`: Go's map
iteration order); the file can be opened -/
def World.ofModel (ip4 : String → Option (BitVec 32)) (duration : String → Option Int) (db : List Row)
    (loadKey : Mac → Option Mac) (order : List (Mac × Rec) → List (Mac × Rec)) (start stop : BitVec 32) : World where
  ip4 := ip4
  duration := duration
  newAlloc := fun a b => match A4.new a b with | .ok _ => true | .error _ => false
  register := fun _ => true
  loadOk := (loadRecords loadKey db).isSome
  remarkOk :=
    match A4.new (some start) (some stop), loadRecords loadKey db with
    | .ok a, some recs => (remark a (order recs)).isSome
    | _, _ => false

end RangeSetup
end CoreDhcp
