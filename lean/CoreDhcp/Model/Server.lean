/-
The program as one function: `main` (Model/MainReg.lean) → `config.Load` (Model/Config.lean) → the registry main
builds → `server.Start` (Model/Start.lean) with the chains `plugins.LoadPlugins` (Model/Plugins.lean) yields → the
per-datagram function of every listener (`dispatch4/6` of Model/Dispatch.lean, `Sys.serve4/6` of Model/System.lean).

NOTHING is modelled again here.  Every component model keeps its own "world" input for the calls it makes into
code it does not model (`MainReg.World`: what `config.Load` and `server.Start` answer; `Start.start`: whether
`LoadPlugins` succeeded; `Listener.chain`: WHICH of the two chains, as a tag).  This file fills each of those inputs
with the component that, in the Go program, gives the answer — and leaves as inputs (`Env`) only what no component
answers: the files there are, the interfaces, the set-up function of every declared plugin, the socket calls.

The type of a handler (`H4`, `H6`) is a parameter, as in Model/Plugins.lean: Go functions (`Handler4` of
Model/Dispatch.lean, for theorems about every plugin) or configured built-in plugins (`Sys.Elem4` of
Model/System.lean).
-/
import CoreDhcp.Model.MainReg
import CoreDhcp.Model.Config
import CoreDhcp.Model.Start
import CoreDhcp.Model.System
namespace CoreDhcp
namespace Server
open MainReg (Reg Cfg Flags Trace Step regRun)

/-- a configuration file as the YAML reader, viper and cast deliver it (the input of Model/Config.lean) -/
structure RawFile where
  s6 : Option SectionView
  s4 : Option SectionView

/-- what the program finds around it -/
structure Env (H4 H6 : Type) where
  file    : String → Option Nat          -- the file a path names (none = it cannot be read); `MainReg.Cfg` c is
                                         -- "the configuration loaded from file number c"
  content : Nat → RawFile
  ifs     : List Iface                   -- net.Interfaces()
  setup4  : PluginDecl → Setup H4        -- the `Setup4` function of a declared plugin (asked only when it has one)
  setup6  : PluginDecl → Setup H6
  net     : CoreDhcp.World               -- the answers to the successive listenN calls
  ifIndex : String → Nat                 -- the Index of the interface net.InterfaceByName(zone) found

/-- what `config.Load` returns without error: (Server6, Server4), nil = none -/
abbrev Loaded := Option ServerConfig × Option ServerConfig

/-- `config.Load` on file number `c` -/
def cfgOf {H4 H6 : Type} (e : Env H4 H6) (c : Cfg) : Option Loaded :=
  loadConfig e.ifs (e.content c).s6 (e.content c).s4

/-- `config.Load(path)` as `main` sees it -/
def load {H4 H6 : Type} (e : Env H4 H6) (path : String) : Option Cfg :=
  match e.file path with
  | none => none
  | some c => if (cfgOf e c).isSome then some c else none

/-- `net.IP.IsMulticast()`: 224.0.0.0/4, ff00::/8; false for a nil IP -/
def isMulticast : IPKind → Bool
  | .v4 a => a.toNat / 2 ^ 28 == 14
  | .v6 a => a.hi.toNat / 2 ^ 56 == 255
  | .none => false

/-- the addresses of one section as `listenN` looks at them; "which address it is" = its position in the
section, counted from `k` -/
def laddrs : Nat → List UDPAddr → List LAddr
  | _, [] => []
  | k, a :: rest => ⟨a.zone, isMulticast a.ip, k⟩ :: laddrs (k + 1) rest

/-- the part of the configuration `Start` reads for its listeners -/
def startCfg (cfg : Loaded) : StartCfg :=
  ⟨cfg.1.map (fun s => laddrs 0 s.addrs), cfg.2.map (fun s => laddrs 0 s.addrs)⟩

/-- `plugins.LoadPlugins(conf)` in a process whose registry is `reg` -/
def chains {H4 H6 : Type} (e : Env H4 H6) (reg : Reg) (cfg : Loaded) : Except LoadErr (List H4 × List H6) :=
  loadPlugins (Reg.view4 e.setup4 reg) (Reg.view6 e.setup6 reg) (cfg.2.map (·.plugins)) (cfg.1.map (·.plugins))

def isOk {ε α : Type} : Except ε α → Bool
  | .ok _ => true
  | .error _ => false

/-- `server.Start(conf)` in a process whose registry is `reg` -/
def start {H4 H6 : Type} (e : Env H4 H6) (reg : Reg) (cfg : Loaded) : StartOut :=
  Start.start (startCfg cfg) (isOk (chains e reg cfg)) e.net

def startOk : StartOut → Bool
  | .ok _ => true
  | _ => false

/-- the answers `main` gets: `config.Load` is `load`, `server.Start` is `start` with the registry of the process -/
def world {H4 H6 : Type} (e : Env H4 H6) (reg : Reg) : MainReg.World :=
  ⟨load e, fun c => match cfgOf e c with
    | none => false                     -- never asked: main starts the server with what `load` returned
    | some cfg => startOk (start e reg cfg)⟩

/-- the configuration `server.Start` was called with in a trace, if it was -/
def started : Trace → Option Cfg
  | [] => none
  | .start c :: _ => some c
  | _ :: rest => started rest

/-- one run of the program -/
structure Run (H4 H6 : Type) where
  trace  : Trace              -- what `main` did
  start  : Option StartOut    -- what `server.Start` did; none = it was not called
  chain4 : List H4            -- the chains `LoadPlugins` returned to it ([] when it was not called or failed)
  chain6 : List H6

/-- The program: `main` with the plugin list `desired`, in a process that starts with the registry `reg0`; its
`config.Load` and `server.Start` are the components above, and `server.Start` finds the registry main has built. -/
def run {H4 H6 : Type} (levels : List String) (desired : List PluginDecl) (reg0 : Reg) (f : Flags) (e : Env H4 H6) :
    Run H4 H6 :=
  let reg := ((regRun reg0 desired).2).getD []
  let trace := MainReg.main levels desired reg0 f (world e reg)
  match (started trace).bind (cfgOf e) with
  | none => ⟨trace, none, [], []⟩
  | some cfg =>
    match chains e reg cfg with
    | .ok hs => ⟨trace, some (start e reg cfg), hs.1, hs.2⟩
    | .error _ => ⟨trace, some (start e reg cfg), [], []⟩

/-- the listeners that are being served when `main` waits -/
def Run.listeners {H4 H6 : Type} (r : Run H4 H6) : List Listener :=
  match r.start with
  | some (.ok st) => st.serving
  | _ => []

/-- the number of listenN calls (socket openings attempted) in the run -/
def Run.listenCalls {H4 H6 : Type} (r : Run H4 H6) : Nat :=
  match r.start with
  | some (.ok st) => st.asked
  | some (.listenErr st _) => st.asked
  | _ => 0

/-- `l.handlers` of a listener: the chain its tag names (a nil slice has no handlers) -/
def Run.handlers4 {H4 H6 : Type} (r : Run H4 H6) (l : Listener) : List H4 :=
  match l.chain with
  | some .chain4 => r.chain4
  | _ => []

def Run.handlers6 {H4 H6 : Type} (r : Run H4 H6) (l : Listener) : List H6 :=
  match l.chain with
  | some .chain6 => r.chain6
  | _ => []

/-- `l.Interface.Index` of a listener: 0 when it is bound to no interface -/
def bound {H4 H6 : Type} (e : Env H4 H6) (l : Listener) : Nat :=
  match l.iface with
  | none => 0
  | some z => e.ifIndex z

/-- what a DHCPv4 listener of the run does with one datagram: `HandleMsg4` over its handlers (handlers = Go functions) -/
def recv4 {H6 : Type} (e : Env Handler4 H6) (r : Run Handler4 H6) (l : Listener) (oob : Option Nat)
    (input : Option Req4) : Out4 :=
  dispatch4 (bound e l) oob (r.handlers4 l) input

def recv6 {H4 : Type} (e : Env H4 Handler6) (r : Run H4 Handler6) (l : Listener) (oob : Option Nat) (src : Addr)
    (input : Option Pkt6) : Out6 :=
  dispatch6 (bound e l) oob src (r.handlers6 l) input

/-- the same when the handlers are configured built-in plugins (Model/System.lean) -/
def recvSys4 {H6 : Type} (e : Env Sys.Elem4 H6) (r : Run Sys.Elem4 H6) (l : Listener) (oob : Option Nat)
    (input : Option Sys.Req4) : Sys.Out4 :=
  Sys.serve4 (bound e l) oob (r.handlers4 l) input

def recvSys6 {H4 : Type} (e : Env H4 Sys.Elem6) (r : Run H4 Sys.Elem6) (l : Listener) (oob : Option Nat) (src : Addr)
    (input : Option Sys.Pkt6) : Sys.Out6 :=
  Sys.serve6 (bound e l) oob src (r.handlers6 l) input

/-- The set-up functions of the built-in option plugins and `server_id` (Model/OptPlug.lean: `Plug.plugSetup4`, tied
to the Go set-up functions by unit `setups`), as set-up functions in the sense of Model/Plugins.lean: the handler
is the configured plugin.  `oracle`: what the standard library answers for an argument string (net.ParseIP, …).
`other`: the set-up functions of the plugins that are not option plugins (`file`, `range`). -/
def optSetup4 (oracle : String → Plug.ArgOracle) (other : PluginDecl → Setup Sys.Elem4) : PluginDecl → Setup Sys.Elem4 :=
  fun p args =>
    match Plug.plugSetup4 p.name (args.map oracle) with
    | some (.ok c) => .ok (some (.plug c))
    | some (.error _) => .error ()
    | none => other p args

def optSetup6 (oracle : String → Plug.ArgOracle) (other : PluginDecl → Setup Sys.Elem6) : PluginDecl → Setup Sys.Elem6 :=
  fun p args =>
    match Plug.plugSetup6 p.name (args.map oracle) with
    | some (.ok c) => .ok (some (.plug c))
    | some (.error _) => .error ()
    | none => other p args

end Server
end CoreDhcp
