/-
Model of /repo/server/sendEthernet.go: the frame `HandleMsg4` sends when a reply is unicast at link
level (no relay, no ciaddr, broadcast flag clear, not a NAK) — C15's last destination clause:
"unicast at link level to the client's hardware address and the offered address, on the client port".

Out of the repository, hence taken at their documented meaning: gopacket's serialisation of the
Ethernet / IPv4 / UDP layers (it refuses hardware addresses that are not six bytes long, computes
lengths and checksums), `syscall.Sendto` on a packet socket. Core Lean only: linked into the driver.

The UDP payload is NOT `resp.ToBytes()` itself: sendEthernet.go:55-57,61 decode those bytes with gopacket
(`gopacket.NewPacket(resp.ToBytes(), layers.LayerTypeDHCPv4, …)`, `packet.Layer(…)`) and serialise the decoded
layer again, and gopacket's `layers.DHCPv4` stops at the End option: the zero padding `ToBytes` adds up to the
BOOTP minimum of 300 bytes is not sent (an OFFER of 300 bytes leaves as 256). `Args.wire` is therefore the
re-serialised message, `dhcpLayerBytes (resp.ToBytes())`; Generated/Ethernet.lean carries pairs computed with the
real libraries and Props/GenEthernet.lean checks `dhcpLayerBytes` against them.
-/
namespace CoreDhcp
namespace Eth

abbrev Bytes := List Nat

/-- what `sendEthernet` reads of its arguments -/
structure Args where
  ifIndex : Nat
  ifMac   : Bytes        -- iface.HardwareAddr
  chaddr  : Bytes        -- resp.ClientHWAddr
  siaddr  : Bytes        -- resp.ServerIPAddr
  yiaddr  : Bytes        -- resp.YourIPAddr
  wire    : Bytes        -- dhcpLayerBytes (resp.ToBytes()): what gopacket's DHCPv4 layer serialises, see above
deriving DecidableEq, Repr, Inhabited

/-- the options gopacket's `layers.DHCPv4` keeps when it decodes a message (`DecodeFromBytes`): one after the other
up to the first End (255), a Pad (0) being one byte long; the first argument bounds the walk -/
def keptOptions : Nat → Bytes → Bytes
  | 0, _ => []
  | _, [] => []
  | n + 1, t :: rest =>
    if t = 255 then []
    else if t = 0 then 0 :: keptOptions n rest
    else match rest with
      | [] => []
      | l :: body => t :: l :: (body.take l ++ keptOptions n (body.drop l))

/-- `resp.ToBytes()` decoded by gopacket as `layers.LayerTypeDHCPv4` and serialised again (`(*DHCPv4).SerializeTo`):
the 240 bytes up to the magic cookie, the options kept and one End; a message without options gets a zero byte
and no End (`Len()` counts the End, `SerializeTo` writes it only when there are options).  For the result of a
`ToBytes()` (hardware address padded with zeros, well-formed options) -/
def dhcpLayerBytes (w : Bytes) : Bytes :=
  let o := keptOptions w.length (w.drop 240)
  w.take 240 ++ (if o = [] then [0] else o ++ [255])

/-- the frame handed to the packet socket, field by field -/
structure Frame where
  dstMac    : Bytes
  srcMac    : Bytes
  etherType : Nat
  ipVersion : Nat
  ttl       : Nat
  dontFrag  : Bool
  proto     : Nat
  srcIp     : Bytes
  dstIp     : Bytes
  srcPort   : Nat
  dstPort   : Nat
  payload   : Bytes
  /-- the interface the frame is sent on (`SockaddrLinklayer.Ifindex`) -/
  outIf     : Nat
deriving DecidableEq, Repr, Inhabited

/-- `sendEthernet`: `none` = an error is returned and nothing is sent (gopacket refuses an Ethernet
layer whose addresses are not six bytes long) -/
def sendEthernet (a : Args) : Option Frame :=
  if a.ifMac.length ≠ 6 ∨ a.chaddr.length ≠ 6 then none
  else some { dstMac := a.chaddr, srcMac := a.ifMac, etherType := 0x0800, ipVersion := 4, ttl := 64, dontFrag := true,
              proto := 17, srcIp := a.siaddr, dstIp := a.yiaddr, srcPort := 67, dstPort := 68, payload := a.wire,
              outIf := a.ifIndex }

/-- C15's link-level clause on an observed frame -/
def frameOK (a : Args) (f : Frame) : Bool :=
  f.dstMac == a.chaddr && f.dstIp == a.yiaddr && f.srcPort == 67 && f.dstPort == 68 && f.proto == 17 &&
  f.etherType == 0x0800 && f.payload == a.wire && f.outIf == a.ifIndex

end Eth
end CoreDhcp
