/-
Model of /repo/server/sendEthernet.go: the frame `HandleMsg4` sends when a reply is unicast at link
level (no relay, no ciaddr, broadcast flag clear, not a NAK) — C15's last destination clause:
"unicast at link level to the client's hardware address and the offered address, on the client port".

Out of the repository, hence taken at their documented meaning: gopacket's serialisation of the
Ethernet / IPv4 / UDP layers (it refuses hardware addresses that are not six bytes long, computes
lengths and checksums), `syscall.Sendto` on a packet socket. The reply's own bytes (`resp.ToBytes()`)
are an input. Core Lean only: linked into the driver.
-/
namespace CoreDhcp
namespace Eth

abbrev Bytes := List Nat

/-- what `sendEthernet` reads of its arguments -/
structure Args where
  ifIndex : Nat
  ifMac   : Bytes        -- iface.HardwareAddr
  chaddr  : Bytes        -- resp.ClientHWAddr
  siaddr  : Bytes        -- resp.ServerIPAddr
  yiaddr  : Bytes        -- resp.YourIPAddr
  wire    : Bytes        -- resp.ToBytes()
deriving DecidableEq, Repr, Inhabited

/-- the frame handed to the packet socket, field by field -/
structure Frame where
  dstMac    : Bytes
  srcMac    : Bytes
  etherType : Nat
  ipVersion : Nat
  ttl       : Nat
  dontFrag  : Bool
  proto     : Nat
  srcIp     : Bytes
  dstIp     : Bytes
  srcPort   : Nat
  dstPort   : Nat
  payload   : Bytes
  /-- the interface the frame is sent on (`SockaddrLinklayer.Ifindex`) -/
  outIf     : Nat
deriving DecidableEq, Repr, Inhabited

/-- `sendEthernet`: `none` = an error is returned and nothing is sent (gopacket refuses an Ethernet
layer whose addresses are not six bytes long) -/
def sendEthernet (a : Args) : Option Frame :=
  if a.ifMac.length ≠ 6 ∨ a.chaddr.length ≠ 6 then none
  else some { dstMac := a.chaddr, srcMac := a.ifMac, etherType := 0x0800, ipVersion := 4, ttl := 64, dontFrag := true,
              proto := 17, srcIp := a.siaddr, dstIp := a.yiaddr, srcPort := 67, dstPort := 68, payload := a.wire,
              outIf := a.ifIndex }

/-- C15's link-level clause on an observed frame -/
def frameOK (a : Args) (f : Frame) : Bool :=
  f.dstMac == a.chaddr && f.dstIp == a.yiaddr && f.srcPort == 67 && f.dstPort == 68 && f.proto == 17 &&
  f.etherType == 0x0800 && f.payload == a.wire && f.outIf == a.ifIndex

end Eth
end CoreDhcp
