/-
Model of /repo/config/config.go from the parsed document down: `splitHostPort`,
`getListenAddress`, `parsePlugins`, `parseListen`, `expandLLMulticast`, `defaultListen`,
`parseConfig`, `Load`.

Out of the repository, hence inputs: the YAML reader, viper and cast (the model starts from what
`viper.Get` / `cast.To*` return for the keys the code asks for), `net.SplitHostPort`,
`net.ParseIP`, `strconv.Atoi`, `strings.Fields`, `net.Interfaces`.
-/
import CoreDhcp.Model.File
namespace CoreDhcp

/-- the stdlib's answers for one `listen` string `s` -/
structure AddrOracle where
  s     : String
  shp   : Option (String × String)        -- net.SplitHostPort(s) = (host, port), none = error
  shp0  : Option String                   -- host of net.SplitHostPort(s ++ ":0"), none = error
  ips   : List (String × IPKind)          -- net.ParseIP on the strings the code may pass it
  atoi  : Option Int                      -- strconv.Atoi(port of shp), none = error
deriving Repr, Inhabited

structure UDPAddr where
  ip   : IPKind            -- `.none` = nil IP (the default DHCPv4 listener)
  port : Int
  zone : String
deriving DecidableEq, Repr, Inhabited

/-- index of the last '%' -/
def lastPercent (cs : List Char) : Option Nat :=
  let idxs := (List.range cs.length).filter (fun i => cs.getD i ' ' == '%')
  idxs.getLast?

/-- `splitHostPort`: (ip, zone, port), none = error -/
def splitHostPort (o : AddrOracle) : Option (String × String × String) :=
  let hp : Option (String × String) :=
    match o.shp with
    | some (h, p) => some (h, p)
    | none => match o.shp0 with
      | some h => some (h, "")
      | none => none
  match hp with
  | none => none
  | some (h, p) =>
    match lastPercent h.toList with
    | some i => some (String.ofList (h.toList.take i), String.ofList (h.toList.drop (i + 1)), p)
    | none => some (h, "", p)

def lookupIP (o : AddrOracle) (s : String) : IPKind :=
  match o.ips.find? (fun p => p.1 == s) with
  | some p => p.2
  | none => .none

/-- `getListenAddress(addr, ver)`; `v6` = the protocol version is 6 -/
def getListenAddress (v6 : Bool) (o : AddrOracle) : Option UDPAddr :=
  match splitHostPort o with
  | none => none
  | some (ipStr, zone, portStr) =>
    let ip : IPKind := if ipStr == "" then (if v6 then .v6 ⟨0#64, 0#64⟩ else .v4 0#32) else lookupIP o ipStr
    match ip with
    | .none => none                                         -- invalid IP address
    | _ =>
      let is4 := match ip with | .v4 _ => true | _ => false
      if (v6 && is4) || (!v6 && !is4) then none             -- wrong family
      else
        if portStr == "" then some ⟨ip, if v6 then 547 else 67, zone⟩
        else match o.atoi with
          | none => none                                    -- invalid port
          | some p => some ⟨ip, p, zone⟩

/-- a network interface: name, FlagMulticast, FlagBroadcast -/
structure Iface where
  name  : String
  multi : Bool
  bcast : Bool
deriving Repr, Inhabited

def isLLMulticast : IPKind → Bool
  | .v4 a => a.toNat / 256 == 224 * 65536                    -- 224.0.0.0/24
  | .v6 a => a.hi.toNat / 2^56 == 0xff && (a.hi.toNat / 2^48) % 16 == 2      -- ff02::/16
  | .none => false
def isIfaceLocalMulticast : IPKind → Bool
  | .v6 a => a.hi.toNat / 2^56 == 0xff && (a.hi.toNat / 2^48) % 16 == 1      -- ff01::/16
  | _ => false

/-- `expandLLMulticast`: one listener per suitable interface; none = error -/
def expandLLMulticast (ifs : List Iface) (a : UDPAddr) : Option (List UDPAddr) :=
  if !(isLLMulticast a.ip || isIfaceLocalMulticast a.ip) then none
  else if a.zone != "" then none
  else
    let is4 := match a.ip with | .v4 _ => true | _ => false
    let ok := ifs.filter (fun i => i.multi && (!is4 || i.bcast))
    if ok.isEmpty then none else some (ok.map (fun i => { a with zone := i.name }))

def allRelayAgentsAndServers : IPKind := .v6 ⟨0xff02000000000000#64, 0x0000000000010002#64⟩   -- ff02::1:2
def allServers : IPKind := .v6 ⟨0xff05000000000000#64, 0x0000000000010003#64⟩                 -- ff05::1:3

def defaultListen (v6 : Bool) (ifs : List Iface) : Option (List UDPAddr) :=
  if !v6 then some [⟨.none, 67, ""⟩]
  else match expandLLMulticast ifs ⟨allRelayAgentsAndServers, 547, ""⟩ with
    | none => none
    | some l => some (l ++ [⟨allServers, 547, ""⟩])

/-- one item of the `plugins` list as `cast.ToStringMap` sees it -/
inductive ItemView
  | notMap                                              -- nil map
  | keys (n : Nat)                                      -- a map with n ≠ 1 keys
  | one (name : String) (args : List String)            -- one key; args = strings.Fields(cast.ToString(value))
deriving Repr, Inhabited

/-- `parsePlugins` -/
def parsePlugins : List ItemView → Option (List (String × List String))
  | [] => some []
  | .one name args :: rest => (parsePlugins rest).map (fun l => (name, args) :: l)
  | _ :: _ => none

/-- what viper/cast return for one `serverN` section -/
structure SectionView where
  plugins : Option (List ItemView)          -- cast.ToSlice(Get("serverN.plugins")), none = nil
  iface   : Option String                   -- cast.ToString(Get("serverN.interface")), none = key absent
  listen  : Option (List String)            -- the listen value as a string slice, none = key absent
  /-- what `cast.ToStringSliceE` makes of `"%" + interface` — the deprecated alias goes through the
  same conversion as a scalar `listen`, which splits a string at white space (`interface: ' '` is
  the wildcard `%`, `interface: 'a b'` is the two addresses `%a` and `b`); `[]` when there is no alias -/
  alias   : List String := []
  oracles : List AddrOracle                 -- stdlib answers for every listen string
deriving Repr, Inhabited

def findOracle (os : List AddrOracle) (s : String) : Option AddrOracle := os.find? (fun o => o.s == s)

/-- the loop of `parseListen` over the address strings -/
def listenLoop (v6 : Bool) (ifs : List Iface) (os : List AddrOracle) : List String → Option (List UDPAddr)
  | [] => some []
  | a :: rest =>
    match findOracle os a with
    | none => none
    | some o =>
      match getListenAddress v6 o with
      | none => none
      | some l =>
        let these : Option (List UDPAddr) :=
          if l.zone == "" && (isLLMulticast l.ip || isIfaceLocalMulticast l.ip) then expandLLMulticast ifs l
          else some [l]
        match these, listenLoop v6 ifs os rest with
        | some x, some y => some (x ++ y)
        | _, _ => none

/-- `parseListen` -/
def parseListen (v6 : Bool) (ifs : List Iface) (sec : SectionView) : Option (List UDPAddr) :=
  match sec.iface, sec.listen with
  | some _, some _ => none                               -- both `interface` and `listen`
  | some _, none => listenLoop v6 ifs sec.oracles sec.alias
  | none, none => defaultListen v6 ifs
  | none, some addrs => listenLoop v6 ifs sec.oracles addrs

structure ServerConfig where
  addrs   : List UDPAddr
  plugins : List (String × List String)
deriving Repr, Inhabited

/-- `parseConfig(ver)` for a present section: none = error -/
def parseSection (v6 : Bool) (ifs : List Iface) (sec : SectionView) : Option ServerConfig :=
  match sec.plugins with
  | none => none                                         -- "not a list or no plugin specified"
  | some items =>
    match parsePlugins items with
    | none => none
    | some ps =>
      match parseListen v6 ifs sec with
      | none => none
      | some ls => some ⟨ls, ps⟩

/-- `Load` once the file was read: DHCPv6 first, then DHCPv4; none = error -/
def loadConfig (ifs : List Iface) (s6 s4 : Option SectionView) : Option (Option ServerConfig × Option ServerConfig) :=
  let r6 : Option (Option ServerConfig) := match s6 with
    | none => some none
    | some sec => (parseSection true ifs sec).map some
  match r6 with
  | none => none
  | some c6 =>
    let r4 : Option (Option ServerConfig) := match s4 with
      | none => some none
      | some sec => (parseSection false ifs sec).map some
    match r4 with
    | none => none
    | some c4 => if c6.isNone && c4.isNone then none else some (c6, c4)

end CoreDhcp
