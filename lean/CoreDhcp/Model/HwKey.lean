/-
The concrete path a hardware address takes through the lease table of plugins/range
(storage.go), the thing `loadKey : Mac → Option Mac` of Model/Range.lean abstracts:

  1. `saveIPAddress` writes `net.HardwareAddr.String()`: lower-case hex pairs joined by ':';
     the empty address is written as "" (`macString`);
  2. the column `mac` is declared `string`, which gives it NUMERIC affinity in sqlite: a text
     that looks like a number is stored as that number and read back as the number's text
     (`sqliteAffinity`);
  3. `loadRecords` reads the text back through `parseHWAddr` (`parseHWAddr`).

`loadKeyConcrete m = parseHWAddr (sqliteAffinity (macString m))`.

Everything is defined on `List Char` (`macChars`, `affinityChars`, `parseChars`) and wrapped into
`String` by `String.ofList` / `String.toList`; all definitions are executable.
Core Lean only.
-/
namespace CoreDhcp

/-! ### 1. `net.HardwareAddr.String()` -/

/-- The lower-case hex digit of `n % 16` (`"0123456789abcdef"[n]` in package net). -/
def hexDigit (n : Nat) : Char :=
  match n % 16 with
  | 0 => '0' | 1 => '1' | 2 => '2' | 3 => '3'
  | 4 => '4' | 5 => '5' | 6 => '6' | 7 => '7'
  | 8 => '8' | 9 => '9' | 10 => 'a' | 11 => 'b'
  | 12 => 'c' | 13 => 'd' | 14 => 'e' | _ => 'f'

/-- Two lower-case hex digits of the byte `b % 256`: `hexDigit[b>>4]`, `hexDigit[b&0xF]`. -/
def hexPair (b : Nat) : List Char :=
  [hexDigit (b % 256 / 16), hexDigit (b % 256 % 16)]

/-- `strings.Join(parts, ":")`. -/
def joinColon : List (List Char) → List Char
  | [] => []
  | [p] => p
  | p :: q :: ps => p ++ ':' :: joinColon (q :: ps)

/-- `net.HardwareAddr.String()` as a list of characters: "" for the empty address, otherwise the
hex pairs of the bytes separated by ':'. -/
def macChars (m : List Nat) : List Char := joinColon (m.map hexPair)

/-- `net.HardwareAddr.String()`: what `saveIPAddress` binds to the `mac` column, and the key of the
Go map `Recordsv4`. -/
def macString (m : List Nat) : String := String.ofList (macChars m)

/-! ### 2. The column's NUMERIC affinity -/

/-- A decimal digit '0'..'9'. -/
def isDecDigit (c : Char) : Bool := 48 ≤ c.toNat && c.toNat ≤ 57

/-- What sqlite hands back for a text bound to a column of NUMERIC affinity, restricted to what
matters here. On EVERY text that is exactly two decimal digits this is sqlite's behaviour: the
text is a well-formed integer literal, so it is stored as that integer and read back as the
integer's decimal text, i.e. with one leading zero stripped ("07" ↦ "7", "00" ↦ "0", "10" ↦ "10").
On every other text it is the identity, which is sqlite's behaviour on every other text of the
image of `macString`: those are "", a single pair containing a hex letter a–f ("1e", "0e" are not
numbers: no digits follow the e), or two or more pairs separated by ':' — none is a well-formed
number, so the text is kept. OUTSIDE the image of `macString` (and outside two-decimal-digit
texts) this function is NOT a model of sqlite (e.g. "007", " 7", "1e2", "0.50" are converted by
sqlite and left alone here). -/
def affinityChars : List Char → List Char
  | [a, b] =>
    if isDecDigit a && isDecDigit b then
      if a = '0' then [b] else [a, b]
    else [a, b]
  | s => s

/-- `affinityChars` on `String`. -/
def sqliteAffinity (s : String) : String := String.ofList (affinityChars s.toList)

/-! ### 3. `parseHWAddr` of storage.go -/

/-- One base-16 digit as `strconv.ParseUint(_, 16, _)` reads it: '0'–'9', 'a'–'f', 'A'–'F';
nothing else (no sign, no underscore, no prefix). -/
def parseHexDigit (c : Char) : Option Nat :=
  let n := c.toNat
  if 48 ≤ n ∧ n ≤ 57 then some (n - 48)
  else if 97 ≤ n ∧ n ≤ 102 then some (n - 87)
  else if 65 ≤ n ∧ n ≤ 70 then some (n - 55)
  else none

/-- One part between colons: `len(part) > 2` is refused by `parseHWAddr` itself, the empty part by
`strconv.ParseUint`; one or two hex digits give a value below 256, so the `bitSize = 8` range
check of `ParseUint` never fires. -/
def parsePart : List Char → Option Nat
  | [a] => parseHexDigit a
  | [a, b] =>
    match parseHexDigit a, parseHexDigit b with
    | some x, some y => some (16 * x + y)
    | _, _ => none
  | _ => none

/-- `strings.Split(s, ":")`; never empty, `Split("", ":") = [""]`. -/
def splitColon : List Char → List (List Char)
  | [] => [[]]
  | c :: cs =>
    if c = ':' then [] :: splitColon cs
    else
      match splitColon cs with
      | p :: ps => (c :: p) :: ps
      | [] => [[c]]

/-- The loop of `parseHWAddr`: every part must parse, the first failure fails the whole. -/
def parseParts : List (List Char) → Option (List Nat)
  | [] => some []
  | p :: ps =>
    match parsePart p, parseParts ps with
    | some b, some bs => some (b :: bs)
    | _, _ => none

/-- `parseHWAddr` of storage.go on a list of characters: "" is the empty address; otherwise split
on ':' and parse every part. -/
def parseChars (s : List Char) : Option (List Nat) :=
  match s with
  | [] => some []
  | _ => parseParts (splitColon s)

/-- `parseHWAddr` of storage.go. -/
def parseHWAddr (s : String) : Option (List Nat) := parseChars s.toList

/-! ### The composition -/

/-- What `loadRecords` makes of the key that `saveIPAddress` wrote for `m`. -/
def loadKeyConcrete (m : List Nat) : Option (List Nat) :=
  parseHWAddr (sqliteAffinity (macString m))

/-- The same on lists of characters (no `String` in between); equal to `loadKeyConcrete` by
`loadKeyConcrete_eq_chars` in Proofs/HwKey.lean. -/
def loadKeyChars (m : List Nat) : Option (List Nat) :=
  parseChars (affinityChars (macChars m))

end CoreDhcp
