/-
Model of how the server program wires things together: /repo/cmds/coredhcp/main.go (`desiredPlugins`, `main`)
and `plugins.RegisterPlugin` of /repo/plugins/plugin.go.

What the world answers — the values of the command-line flags after `flag.Parse()`, whether `config.Load`
gives a configuration for a path, whether `server.Start` succeeds for a configuration — is an explicit input
(`Flags`, `World`); what the program does with the answers — which call it makes with which argument, in which
order, where the process ends — is the model: a `Trace`, the list of the observable steps of one run.
Generated/MainReg.lean (written by `harness gen -unit mainreg` from the go/ast of main.go, plugin.go and the
`var Plugin = plugins.Plugin{…}` declaration of every plugin package main.go lists) is proved equal to these
definitions in Props/GenMainReg.lean.
-/
import CoreDhcp.Model.Plugins
namespace CoreDhcp

/-- one element `&pl_x.Plugin` of `desiredPlugins`, as far as this unit reads it: the import path of `pl_x`,
and of the `plugins.Plugin` literal declared there its `Name` and whether `Setup4` / `Setup6` is a function
(false: the field is absent or `nil`) -/
structure PluginDecl where
  importPath : String
  name : String
  has4 : Bool
  has6 : Bool
deriving DecidableEq, Repr

/-- one flag declared with `flag.StringP` / `flag.BoolP` (spf13/pflag): long name, one-letter name, default -/
inductive FlagDefault
  | str (s : String)
  | bool (b : Bool)
deriving DecidableEq, Repr

structure FlagDecl where
  long : String
  short : String
  dflt : FlagDefault
deriving DecidableEq, Repr

namespace MainReg

/-- `plugins.RegisteredPlugins` (a Go `map[string]*Plugin`) as an association list without repeated keys, in
the order the keys were first set -/
abbrev Reg := List (String × PluginDecl)

/-- `m[k]` with `, ok`: none = no such key -/
def Reg.get : Reg → String → Option PluginDecl
  | [], _ => none
  | (k', v) :: rest, k => if k' = k then some v else Reg.get rest k

/-- `m[k] = v`: replaces the value of an existing key, otherwise adds the key -/
def Reg.set : Reg → String → PluginDecl → Reg
  | [], k, v => [(k, v)]
  | (k', v') :: rest, k, v => if k' = k then (k, v) :: rest else (k', v') :: Reg.set rest k v

/-- what `plugins.LoadPlugins` (Model/Plugins.lean, unit `loadplugins`) sees of this registry when it loads the
DHCPv4 chain: `RegisteredPlugins[name]` with `, ok`, then the field `Setup4` of the plugin found (`some none` = nil:
no set-up for this protocol). WHAT the set-up functions do is not this unit's business: `setups` gives each
declared plugin one. -/
def Reg.view4 {H : Type} (setups : PluginDecl → Setup H) (reg : Reg) : Registry H := fun name =>
  match Reg.get reg name with
  | none => none
  | some p => some (if p.has4 = true then some (setups p) else none)

/-- the same for DHCPv6: the field `Setup6` -/
def Reg.view6 {H : Type} (setups : PluginDecl → Setup H) (reg : Reg) : Registry H := fun name =>
  match Reg.get reg name with
  | none => none
  | some p => some (if p.has6 = true then some (setups p) else none)

/-- how `RegisterPlugin` ends: nil returned (and the registry afterwards), an error returned (registry
untouched), or `log.Panicf`: a panic -/
inductive Out
  | ok (reg : Reg)
  | error
  | panic
deriving DecidableEq, Repr

/-- `plugins.RegisterPlugin(plugin)`; `none` = a nil pointer. A nil plugin is an error and nothing is
registered; a name that is already registered is a panic; otherwise the registry gets name ↦ plugin. -/
def register (plugin : Option PluginDecl) (reg : Reg) : Out :=
  match plugin with
  | none => .error
  | some p => if (Reg.get reg p.name).isSome then .panic else .ok (Reg.set reg p.name p)

/-- registering a list of (non-nil) plugins one after the other, stopping at the first that does not succeed -/
def registerAll : Reg → List PluginDecl → Out
  | reg, [] => .ok reg
  | reg, p :: rest =>
    match register (some p) reg with
    | .ok reg' => registerAll reg' rest
    | .error => .error
    | .panic => .panic

/-- the command-line flags after `flag.Parse()`, by their long names -/
structure Flags where
  logfile : String
  nostdout : Bool
  loglevel : String
  conf : String
  plugins : Bool
deriving DecidableEq, Repr

/-- a loaded configuration (`*config.Config`): which one it is -/
abbrev Cfg := Nat

/-- the answers of the rest of the program and the world to `main` -/
structure World where
  load : String → Option Cfg   -- config.Load(path): none = an error, some c = the configuration c
  start : Cfg → Bool           -- server.Start(c) returns no error

/-- where `log.Fatalf` / `log.Fatal` ended the process -/
inductive Fatal
  | logLevel                  -- the value of --loglevel is not a key of `logLevels`
  | load                      -- config.Load returned an error
  | register (name : String)  -- RegisterPlugin returned an error for the plugin of this name
  | start                     -- server.Start returned an error
deriving DecidableEq, Repr

/-- one observable step of a run of `main` -/
inductive Step
  | parseFlags                   -- flag.Parse()
  | print (name : String)        -- fmt.Println(name)
  | exit (code : Nat)            -- os.Exit(code)
  | getLogger (name : String)    -- logger.GetLogger(name)
  | setLevel (level : String)    -- logLevels[level](log.Logger)
  | withFile (path : String)     -- logger.WithFile(log, path)
  | withNoStdout                 -- logger.WithNoStdOutErr(log)
  | load (path : String)         -- config.Load(path)
  | registered (name : String)   -- plugins.RegisterPlugin returned nil for the plugin of this name
  | start (c : Cfg)              -- server.Start(c)
  | wait                         -- srv.Wait()
  | fatal (f : Fatal)            -- log.Fatalf / log.Fatal: the process ends here
  | panic                        -- a panic (RegisterPlugin's log.Panicf) ends the process here
  | ret                          -- main returns
deriving DecidableEq, Repr

abbrev Trace := List Step

/-- main's registration loop from the registry `reg`: the steps it adds, and the registry afterwards
(none = the process has ended in the loop) -/
def regRun : Reg → List PluginDecl → Trace × Option Reg
  | reg, [] => ([], some reg)
  | reg, p :: rest =>
    match register (some p) reg with
    | .error => ([.fatal (.register p.name)], none)
    | .panic => ([.panic], none)
    | .ok reg' => (.registered p.name :: (regRun reg' rest).1, (regRun reg' rest).2)

/-- the logger set-up, once the log level has been found valid -/
def logging (f : Flags) : Trace :=
  [.setLevel f.loglevel] ++ (if f.logfile ≠ "" then [.withFile f.logfile] else [])
    ++ (if f.nostdout = true then [.withNoStdout] else [])

/-- `main`, for the known log levels `levels`, the plugin list `desired` and the registry `reg0` the process
starts with. With --plugins: the names are printed and the process exits with 0, nothing else. Otherwise: the
logger (an unknown level is fatal), THEN the configuration named with --conf is loaded (an error is fatal), THEN
every plugin of `desired` is registered in order (an error is fatal), THEN the server is started with the
loaded configuration (an error is fatal), then main waits. -/
def main (levels : List String) (desired : List PluginDecl) (reg0 : Reg) (f : Flags) (w : World) : Trace :=
  if f.plugins = true then .parseFlags :: (desired.map (fun p => Step.print p.name) ++ [.exit 0]) else
  let pre : Trace := [.parseFlags, .getLogger "main"]
  if levels.contains f.loglevel = false then pre ++ [.fatal .logLevel] else
  let upToLoad := pre ++ logging f ++ [.load f.conf]
  match w.load f.conf with
  | none => upToLoad ++ [.fatal .load]
  | some c =>
    match regRun reg0 desired with
    | (steps, none) => upToLoad ++ steps
    | (steps, some _) =>
      upToLoad ++ steps ++ [.start c] ++ (if w.start c = true then [.wait, .ret] else [.fatal .start])

end MainReg
end CoreDhcp
