/-
Model of /repo/plugins/plugin.go `LoadPlugins`: from the per-protocol plugin lists of the
configuration and the registry to the two handler chains, or the first error.
-/
namespace CoreDhcp

inductive LoadErr
  | noConfig                       -- neither server6 nor server4 configured
  | unknown (name : String)        -- "unknown plugin"
  | setup (name : String)          -- the plugin's setup function returned an error
  | nilHandler (name : String)     -- setup returned a nil handler without error
deriving DecidableEq, Repr

/-- a setup function of one plugin for one protocol: error, or a handler (`none` = nil handler) -/
abbrev Setup (H : Type) := List String → Except Unit (Option H)

/-- registry entry for one protocol: `none` = name not registered; `some none` = registered but
no setup function for this protocol; `some (some f)` = setup function `f` -/
abbrev Registry (H : Type) := String → Option (Option (Setup H))

/-- the loop over one protocol's plugin list -/
def loadChain {H : Type} (reg : Registry H) : List (String × List String) → Except LoadErr (List H)
  | [] => .ok []
  | (name, args) :: rest =>
    match reg name with
    | none => .error (.unknown name)
    | some none => loadChain reg rest                       -- not supported for this protocol: skipped
    | some (some f) =>
      match f args with
      | .error _ => .error (.setup name)
      | .ok none => .error (.nilHandler name)
      | .ok (some h) =>
        match loadChain reg rest with
        | .error e => .error e
        | .ok hs => .ok (h :: hs)

/-- `LoadPlugins`: DHCPv6 plugins are set up first, then DHCPv4 -/
def loadPlugins {H4 H6 : Type} (reg4 : Registry H4) (reg6 : Registry H6)
    (server4 server6 : Option (List (String × List String))) : Except LoadErr (List H4 × List H6) :=
  if server4.isNone && server6.isNone then .error .noConfig
  else
    match (match server6 with | some ps => loadChain reg6 ps | none => .ok []) with
    | .error e => .error e
    | .ok h6 =>
      match (match server4 with | some ps => loadChain reg4 ps | none => .ok []) with
      | .error e => .error e
      | .ok h4 => .ok (h4, h6)

end CoreDhcp
