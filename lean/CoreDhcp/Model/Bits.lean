/-
Abstract model of github.com/bits-and-blooms/bitset as used by the allocators:
New / Test / Set / Clear / NextClear(0).  This is the library's observable contract; the word-level
implementation is modelled in Model/BitsWords.lean and proved to refine this one in
Props/BitsWords.lean (BITSW_*); the conformance engine `bits` compares both with the real library.
-/
namespace CoreDhcp

structure Bits where
  bits : List Bool
deriving DecidableEq, Repr, Inhabited

namespace Bits

/-- `bitset.New(n)` : `n` clear bits. -/
def new (n : Nat) : Bits := ⟨List.replicate n false⟩

/-- `Len()` -/
def length (b : Bits) : Nat := b.bits.length

/-- `Test(i)` : false beyond the end. -/
def test (b : Bits) (i : Nat) : Bool := b.bits.getD i false

/-- `Set(i)` : grows the set (with clear bits) when `i` is beyond the end. -/
def set (b : Bits) (i : Nat) : Bits :=
  if i < b.bits.length then ⟨b.bits.set i true⟩
  else ⟨b.bits ++ List.replicate (i - b.bits.length) false ++ [true]⟩

/-- `Clear(i)` : no-op beyond the end. -/
def clear (b : Bits) (i : Nat) : Bits := ⟨b.bits.set i false⟩

/-- `NextClear(0)` : least clear index below the length. -/
def nextClear (b : Bits) : Option Nat := b.bits.findIdx? (fun x => !x)

/-- No clear bit below the length. -/
def full (b : Bits) : Bool := b.bits.all (fun x => x)

/-- number of set bits -/
def count (b : Bits) : Nat := b.bits.count true

end Bits
end CoreDhcp
