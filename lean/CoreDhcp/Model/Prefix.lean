/-
Model of /repo/plugins/prefix/plugin.go (`Handler.Handle`): DHCPv6 prefix delegation over
the IPv6 allocator model. The model mirrors the code *after* the `fix:` commits for
D4 (hint-less IA_PD allocated anew every time), D5 (only the last new lease was stored),
D6 (nil dereference on an IAPrefix of length 0), D14 (one lock section per datagram) and
D15 (an unspecified hint allocated a further block although the IA_PD was already answered
from the client's leases); see DESIGN.md §5.

The wall clock is a parameter: a message is handled at one instant `now` (ns).
-/
import CoreDhcp.Model.Alloc6
namespace CoreDhcp

structure Lease where
  pfx    : Block
  expire : Int            -- ns since the epoch
deriving DecidableEq, Repr, Inhabited

/-- `recordKey(client)`: the bytes of the client DUID -/
abbrev ClientKey := List Nat

/-- An IAPrefix hint as the library delivers it and the handler normalises it:
* `empty` — no IAPrefix option in the IA_PD (the handler's synthetic `&net.IPNet{}`), or an
  IAPrefix of prefix-length 0, which the library parses to a nil `Prefix` and the handler
  replaces by `&net.IPNet{}`: IP nil, mask nil;
* `pfx ip v4 len` — prefix-length 1..128: 16-byte `ip` (`v4` = it is IPv4-mapped; since the `fix:`
  for D18 the allocator decides membership on the 16 bytes and the flag no longer matters), /len 128-bit mask;
* `nomask ip v4` — prefix-length > 128: `net.CIDRMask` returns a nil mask. -/
inductive HintP
  | empty
  | pfx (ip : Addr) (v4 : Bool) (len : Nat)
  | nomask (ip : Addr) (v4 : Bool)
deriving DecidableEq, Repr, Inhabited

/-- `leaseDuration` -/
def leaseDur : Int := 3600 * 1000000000

/-- what the allocator sees of the hint -/
def HintP.toHint6 : HintP → Hint6
  | .empty => ⟨none, 0, 0⟩
  | .pfx ip _ len => ⟨some ip, len, 128⟩
  | .nomask ip _ => ⟨some ip, 0, 0⟩

/-- `samePrefix(h.Prefix, &lease.Prefix)` -/
def HintP.same (h : HintP) (l : Lease) : Bool :=
  match h with
  | .pfx ip _ len => ip == l.pfx.base && len == l.pfx.len
  | _ => false

/-- loop 2 considers the hint: its address is absent or `::` -/
def HintP.unspecified : HintP → Bool
  | .empty => true
  | .pfx ip _ _ => ip == ⟨0#64, 0#64⟩
  | .nomask ip _ => ip == ⟨0#64, 0#64⟩

/-- `h.Prefix.Mask.Size()` ones -/
def HintP.wantLen : HintP → Nat
  | .pfx _ _ len => len
  | _ => 0

/-- `if lease.Expire.Before(now+leaseDuration) { lease.Expire = now+leaseDuration }` -/
def Lease.extend (l : Lease) (now : Int) : Lease :=
  if l.expire < now + leaseDur then { l with expire := now + leaseDur } else l

/-- state of the three loops for one IA_PD -/
structure LoopSt where
  alloc  : A6
  ls     : List (Lease × Bool)      -- knownLeases with the `givenOut` bit
  hs     : List (HintP × Bool)      -- hints with the `satisfied` bit
  reply  : List Lease               -- addPrefix calls, in order
  fresh  : Bool                     -- something was allocated (Records must be stored)
deriving Repr, Inhabited

/-- loop 1: leases that exactly match a hint -/
def loop1 (now : Int) (st : LoopSt) : LoopSt :=
  let hints := st.hs.map (·.1)
  { st with
    reply := st.reply ++ hints.flatMap (fun h => (st.ls.filter (fun p => h.same p.1)).map (fun p => p.1.extend now))
    ls := st.ls.map (fun p => if hints.any (fun h => h.same p.1) then (p.1.extend now, true) else p)
    hs := st.hs.map (fun q => (q.1, q.2 || st.ls.any (fun p => q.1.same p.1))) }

/-- is lease `p` handed to unspecified hint `h` in loop 2? -/
def loop2Eligible (h : HintP) (p : Lease × Bool) : Bool :=
  !p.2 && (h.wantLen == 0 || h.wantLen == p.1.pfx.len)

/-- loop 2, one hint -/
def loop2Step (now : Int) (acc : List (Lease × Bool) × List Lease × List (HintP × Bool)) (q : HintP × Bool) :
    List (Lease × Bool) × List Lease × List (HintP × Bool) :=
  let (ls, reply, done) := acc
  if q.2 || !q.1.unspecified then (ls, reply, done ++ [q])
  else
    (ls.map (fun p => if loop2Eligible q.1 p then (p.1.extend now, true) else p),
     reply ++ (ls.filter (loop2Eligible q.1)).map (fun p => p.1.extend now),
     done ++ [(q.1, ls.any (loop2Eligible q.1))])

/-- loop 2: unspecified hints take every remaining lease (of the requested length, if any) -/
def loop2 (now : Int) (st : LoopSt) : LoopSt :=
  let r := st.hs.foldl (loop2Step now) (st.ls, st.reply, [])
  { st with ls := r.1, reply := r.2.1, hs := r.2.2 }

/-- loop 3, one hint; consumes one choice per `Allocate` call. `none` = inadmissible choice. -/
def loop3Step (now : Int) (acc : Option (LoopSt × List (Option Nat))) (q : HintP × Bool) :
    Option (LoopSt × List (Option Nat)) :=
  match acc with
  | none => none
  | some (st, cs) =>
    if q.2 then some (st, cs)
    else if q.1 == .empty && !st.reply.isEmpty then some (st, cs)        -- D15 repair
    else
      match cs with
      | [] => none
      | c :: cs' =>
        match st.alloc.allocate q.1.toHint6 c with
        | none => none
        | some (a', .error _) => some ({ st with alloc := a' }, cs')       -- "Nothing allocated", continue
        | some (a', .ok b) =>
          let l : Lease := ⟨b, now + leaseDur⟩
          some ({ st with alloc := a', ls := st.ls ++ [(l, true)], reply := st.reply ++ [l], fresh := true }, cs')

def loop3 (now : Int) (st : LoopSt) (cs : List (Option Nat)) : Option (LoopSt × List (Option Nat)) :=
  st.hs.foldl (loop3Step now) (some (st, cs))

structure PState where
  alloc : A6
  recs  : List (ClientKey × List Lease)       -- Records
deriving Repr, Inhabited

def PState.leasesOf (s : PState) (c : ClientKey) : List Lease :=
  match s.recs.find? (fun p => p.1 == c) with
  | some p => p.2
  | none => []

def PState.put (s : PState) (c : ClientKey) (ls : List Lease) : List (ClientKey × List Lease) :=
  (c, ls) :: s.recs.filter (fun p => !(p.1 == c))

structure IAPDReq where
  iaid  : Nat
  hints : List HintP          -- as parsed: [] when the IA_PD has no IAPrefix option
deriving Repr, Inhabited

/-- one IA_PD of the reply: the prefixes with their lifetime (preferred = valid), in order;
an empty list stands for the NoPrefixAvail status -/
structure IAPDResp where
  iaid : Nat
  pfxs : List (Block × Int)
deriving Repr, Inhabited, DecidableEq

/-- the body of the `for _, iapd := range msg.Options.IAPD()` loop -/
def PState.handleIAPD (s : PState) (client : ClientKey) (iapd : IAPDReq) (now : Int) (cs : List (Option Nat)) :
    Option (PState × IAPDResp × List (Option Nat)) :=
  let hints := if iapd.hints.isEmpty then [HintP.empty] else iapd.hints
  let known := s.leasesOf client
  let st0 : LoopSt := ⟨s.alloc, known.map (fun l => (l, false)), hints.map (fun h => (h, false)), [], false⟩
  match loop3 now (loop2 now (loop1 now st0)) cs with
  | none => none
  | some (st, cs') =>
    let leases := st.ls.map (·.1)
    -- expiry extensions are made in place (visible in Records when the client was known);
    -- new leases are stored when something was allocated
    let recs' := if st.fresh || !known.isEmpty then s.put client leases else s.recs
    some (⟨st.alloc, recs'⟩, ⟨iapd.iaid, st.reply.map (fun l => (l.pfx, l.expire - now))⟩, cs')

/-- `Handle` on the inner message: `client = none` when the message has no Client-ID (or the
inner message cannot be extracted): the handler returns (nil, true) and nothing is sent. -/
def PState.handleMsg (s : PState) (client : Option ClientKey) (iapds : List IAPDReq) (now : Int)
    (cs : List (Option Nat)) : Option (PState × Option (List IAPDResp) × List (Option Nat)) :=
  match client with
  | none => some (s, none, cs)
  | some c =>
    let rec go (s : PState) (acc : List IAPDResp) (cs : List (Option Nat)) :
        List IAPDReq → Option (PState × Option (List IAPDResp) × List (Option Nat))
      | [] => some (s, some acc, cs)
      | i :: rest =>
        match s.handleIAPD c i now cs with
        | none => none
        | some (s', r, cs') => go s' (acc ++ [r]) cs' rest
    go s [] cs iapds

inductive PSetupErr | arity | cidr | size | alloc
deriving DecidableEq, Repr

/-- `setupPrefix` once its arguments are parsed: `pool = none` when `net.ParseCIDR` fails or
(after the D12 repair) yields an IPv4 network; `size = none` when `strconv.Atoi` fails. -/
def PState.setup (pool : Option (Addr × Nat)) (size : Option Int) : Except PSetupErr PState :=
  match pool, size with
  | none, _ => .error .cidr
  | some _, none => .error .size
  | some (base, poolLen), some sz =>
    if sz > 128 ∨ sz < 0 then .error .size
    else match A6.new ⟨base, poolLen, sz.toNat⟩ with
      | .error _ => .error .alloc
      | .ok a => .ok ⟨a, []⟩

end CoreDhcp
