/-
Word-level model of github.com/bits-and-blooms/bitset v1.22.0 (bitset.go), restricted to the
calls the two allocators make: New / Len / Test / Set / Clear / NextClear.

The library keeps `length uint` and `set []uint64`; bit `i` lives in word `i >> 6` at position
`i & 63`.  Every definition below is written the way the library computes it (same guards, same
order, same word arithmetic); `Props/BitsWords.lean` proves that under the representation
invariant `WBits.WF` these refine the list-of-booleans model `Model/Bits.lean` that the allocator
models use, and the conformance engine `bits` compares both with the real library on every run.

Stated simplifications (the only ones):
  * `uint` is modelled by `Nat`: the capacity guards (`wordsNeeded` saturating at `Cap()`,
    `extendSet` panicking at `i >= Cap()`, `New` recovering from a failed `make`) are not
    modelled — they concern lengths ≥ 2^64-63, which no allocator reaches (alloc6 checks
    `1<<order <= Cap()` itself; alloc4 ranges are < 2^32).
  * `extendSet` has three branches (nil slice / enough capacity: reslice / reallocate 2x and
    copy).  All three yield the old words followed by zero words PROVIDED the spare capacity of
    the slice is zero; that holds because the only writer of spare capacity is `make` (the ops
    modelled here never shrink the slice).  The model therefore appends zero words.
  * `bits.TrailingZeros64` is the intrinsic; here: the least position of a set bit, 64 if none.
-/
import CoreDhcp.Model.Bits
namespace CoreDhcp

/-- list-model `NextClear(i)` for any start index: least clear index ≥ i below the length
(`Bits.nextClear` is the case i = 0, see BITSW_nextClearFrom_zero). -/
def Bits.nextClearFrom (b : Bits) (i : Nat) : Option Nat :=
  ((b.bits.drop i).findIdx? (fun x => !x)).map (· + i)

structure WBits where
  length : Nat
  words : List (BitVec 64)
deriving DecidableEq, Repr, Inhabited

namespace WBits

/-- `wordsNeeded(n)` = `(n + 63) >> 6` (below the capacity bound) -/
def wordsNeeded (n : Nat) : Nat := (n + 63) >>> 6

/-- `bits.TrailingZeros64` -/
def ctz (w : BitVec 64) : Nat := ((List.range 64).find? (fun k => w.getLsbD k)).getD 64

def allBits : BitVec 64 := BitVec.allOnes 64

/-- `b.set[x]` for an index known to be in range (0 otherwise; never reached out of range) -/
def word (b : WBits) (x : Nat) : BitVec 64 := b.words.getD x 0

/-- `1 << wordsIndex(i)` -/
def mask (i : Nat) : BitVec 64 := (1#64) <<< (i &&& 63)

/-- `bitset.New(n)` -/
def new (n : Nat) : WBits := ⟨n, List.replicate (wordsNeeded n) 0⟩

/-- `Len()` -/
def len (b : WBits) : Nat := b.length

/-- `Test(i)` -/
def test (b : WBits) (i : Nat) : Bool :=
  if i ≥ b.length then false
  else (b.word (i >>> 6) &&& mask i) != 0

/-- `extendSet(i)` -/
def extendSet (b : WBits) (i : Nat) : WBits :=
  let nsize := wordsNeeded (i + 1)
  ⟨i + 1, b.words ++ List.replicate (nsize - b.words.length) 0⟩

/-- `Set(i)` -/
def set (b : WBits) (i : Nat) : WBits :=
  let b := if i ≥ b.length then b.extendSet i else b
  ⟨b.length, b.words.set (i >>> 6) (b.word (i >>> 6) ||| mask i)⟩

/-- `Clear(i)` -/
def clear (b : WBits) (i : Nat) : WBits :=
  if i ≥ b.length then b
  else ⟨b.length, b.words.set (i >>> 6) (b.word (i >>> 6) &&& ~~~ mask i)⟩

/-- the loop `for idx, word := range b.set[x:]` of NextClear; `x` is the index of the head word -/
def scan (length : Nat) : Nat → List (BitVec 64) → Option Nat
  | _, [] => none
  | x, w :: ws =>
    if w != allBits then
      let index := x * 64 + ctz (~~~ w)
      if index < length then some index else scan length (x + 1) ws
    else scan length (x + 1) ws

/-- `NextClear(i)`: `some index` for `(index, true)`, `none` for `(0, false)` -/
def nextClear (b : WBits) (i : Nat) : Option Nat :=
  let x := i >>> 6
  if x ≥ b.words.length then none
  else
    let word := b.word x >>> (i &&& 63)
    let wordAll := allBits >>> (i &&& 63)
    let index := i + ctz (~~~ word)
    if word != wordAll && index < b.length then some index
    else scan b.length (x + 1) (b.words.drop (x + 1))

end WBits
end CoreDhcp
