/-
Hand-written support for translator unit `storage` (plugins/range/storage.go; the generated text is
Generated/Storage.lean, namespace CoreDhcp.GenStorage; the theorems are in Props/GenStorage.lean).

1. VOCABULARY: the Lean meaning of the library calls the generated definitions mention. Everything here is
   TRUSTED to be what the Go library / the sqlite driver does; the two text primitives (`parseUint`,
   `splitOn`) are in addition compared with the real Go functions on a probe table that the translator
   computes by CALLING `strconv.ParseUint` / `strings.Split` (Generated/Storage.lean, `parseUintProbes`,
   `splitProbes`; theorems `GEN_storage_parseUint_probes`, `GEN_storage_split_probes`).
2. SPECS: the small hand-written statements the generated descriptions are proved equal to
   (`saveSpec`, `registerSpec`, `loadSpec`, `affinityOfType`).

A Go `string` is a Lean `String` (or the `List Char` of a piece of one): VALID UTF-8 only. A Go string may
hold arbitrary bytes; on a byte ≥ 0x80 `strconv.ParseUint` fails whatever the encoding, and so does
`parseUint` on every character ≥ 0x80, so nothing is lost for `parseHWAddr`.
Core Lean only.
-/
import CoreDhcp.Model.HwKey
import CoreDhcp.Model.Range
namespace CoreDhcp.Storage

/-! ### errors and loops -/

/-- the error values: `new` = made in storage.go (the literal of fmt.Errorf / errors.New), `lib` = the error
of a library function passed on as it is, `indexPanic` = not an error but a run-time panic of an index
expression out of range (`GEN_storage_parseHWAddr_nopanic`: never produced) -/
inductive Err
  | new (text : String)
  | lib (fn : String)
  | indexPanic
deriving DecidableEq, Repr

deriving instance DecidableEq for Except

/-- `for i, x := range list { body }`, `i` counting from `i0`: the body's `.ok` is the state for the next
round, its `.error` ends the function -/
def forIdxFrom {σ α : Type} (body : σ → Nat → α → Except Err σ) : Nat → σ → List α → Except Err σ
  | _, s, [] => .ok s
  | i, s, x :: xs =>
    match body s i x with
    | .error e => .error e
    | .ok s' => forIdxFrom body (i + 1) s' xs

/-- `for i, x := range list { body }` -/
def forIdx {σ α : Type} (body : σ → Nat → α → Except Err σ) (s : σ) (l : List α) : Except Err σ :=
  forIdxFrom body 0 s l

/-- `for rows.Next() { body }` over the rows the driver delivers, in the order it delivers them -/
def forEach {σ α : Type} (body : σ → α → Except Err σ) : σ → List α → Except Err σ
  | s, [] => .ok s
  | s, x :: xs =>
    match body s x with
    | .error e => .error e
    | .ok s' => forEach body s' xs

/-! ### Go strings -/

/-- `len(s)` of a Go string: its length in BYTES (UTF-8) -/
def byteLen (s : List Char) : Nat := (s.map Char.utf8Size).sum

/-- `strings.Split(s, sep)` for a one-character separator: never empty, `Split("", sep) = [""]` -/
def splitOn (sep : Char) : List Char → List (List Char)
  | [] => [[]]
  | c :: cs =>
    if c = sep then [] :: splitOn sep cs
    else
      match splitOn sep cs with
      | p :: ps => (c :: p) :: ps
      | [] => [[c]]

/-- the value of one digit as `strconv.ParseUint` reads it (function `lower`/digit switch of
strconv/atoi.go): '0'–'9', 'a'–'z' ↦ 10…35, 'A'–'Z' ↦ 10…35; everything else (sign, '_', space, any
character ≥ 0x80) is not a digit. -/
def digitVal (c : Char) : Option Nat :=
  let n := c.toNat
  if 48 ≤ n ∧ n ≤ 57 then some (n - 48)
  else if 97 ≤ n ∧ n ≤ 122 then some (n - 87)
  else if 65 ≤ n ∧ n ≤ 90 then some (n - 55)
  else none

/-- the digits of `s` read in `base`, most significant first, onto `acc`; `none` = a character that is not a
digit below `base` (ErrSyntax) -/
def parseUintAux (base : Nat) : Nat → List Char → Option Nat
  | acc, [] => some acc
  | acc, c :: cs =>
    match digitVal c with
    | some d => if d < base then parseUintAux base (acc * base + d) cs else none
    | none => none

/-- `strconv.ParseUint(s, base, bits)` for an explicit base 2…36 (base ≠ 0: no "0x" prefix, no '_') and a
bit size 0…64 (0 means 64): `some v` = `(v, nil)`, `none` = `err != nil`. The empty string is an error; no
sign is accepted; a value of 2^bits or more is an error (ErrRange; Go detects it while it reads the digits
and may then not look at the rest of the string, but it returns an error either way). The translator
refuses every other base and bit size. -/
def parseUint (base bits : Nat) (s : List Char) : Option Nat :=
  match s with
  | [] => none
  | _ =>
    match parseUintAux base 0 s with
    | some v => if v < 2 ^ (if bits = 0 then 64 else bits) then some v else none
    | none => none

/-- `slice[i] = v`; `none` = the index is out of range (Go panics) -/
def storeAt (l : List Nat) (i v : Nat) : Option (List Nat) :=
  if i < l.length then some (l.set i v) else none

/-! ### net.IP, Record, the map -/

/-- a `net.IP` as far as storage.go can tell: nil, an IPv4 address (4 bytes or the 16-byte v4-in-v6 form;
`To4` and `String` do not distinguish them), or anything else, of which only the text `String()` gives
matters here -/
inductive NetIP
  | nil
  | v4 (a : BitVec 32)
  | other (text : String)
deriving DecidableEq, Repr

/-- `ip.To4()`: nil unless `ip` is an IPv4 address -/
def NetIP.to4 : NetIP → NetIP
  | .v4 a => .v4 a
  | _ => .nil

/-- `ip.String()`: dotted decimal for IPv4, "<nil>" for nil -/
def NetIP.string : NetIP → String
  | .nil => "<nil>"
  | .v4 a =>
    let n := a.toNat
    toString (n / 16777216 % 256) ++ "." ++ toString (n / 65536 % 256) ++ "." ++
      toString (n / 256 % 256) ++ "." ++ toString (n % 256)
  | .other t => t

/-- `Record` of plugins/range/plugin.go, field by field (the declaration is checked by the translator) -/
structure GRecord where
  IP : NetIP
  expires : Int
  hostname : String
deriving DecidableEq, Repr

/-- `map[string]*Record` as the list of its entries, at most one per key -/
abbrev RecMap := List (String × GRecord)

/-- `m[key] = &rec`: the entry the key had is replaced -/
def mapStore (m : RecMap) (key : String) (r : GRecord) : RecMap :=
  (key, r) :: m.filter (fun p => !(p.1 == key))

/-! ### what the sqlite driver answers (oracle inputs) -/

/-- what `rows.Scan` delivers for one row of `leases4`, by COLUMN (not by position in the select list):
the three `string` columns as the text Scan puts into a Go `string` (an integer the column's NUMERIC
affinity made of the text comes back as its decimal text), `expiry` as the Go `int`; `scanErr` = Scan
returns an error (e.g. a NULL) -/
structure RawRow where
  mac : String
  ip : String
  expiry : Int
  hostname : String
  scanErr : Bool
deriving DecidableEq, Repr

/-- the answer to the query of loadRecords: `queryErr` = `db.Query` fails; `rows` = the rows for which
`rows.Next()` is true, in the order delivered; `iterErr` = `rows.Err() != nil` after the loop -/
structure QueryResult where
  queryErr : Bool
  rows : List RawRow
  iterErr : Bool
deriving Repr

/-- `select <columns> from <table>` -/
structure Select where
  table : String
  columns : List String
deriving DecidableEq, Repr

/-! ### SQL statements as data -/

inductive SqlVal
  | text (s : String)
  | int (i : Int)
deriving DecidableEq, Repr

/-- `insert` / `insert or <X>` -/
inductive Conflict
  | abort | replace | ignore | fail | rollback
deriving DecidableEq, Repr

/-- `insert [or X] into table(c1, …) values (?, …)` with its placeholders bound, in the column order of the
statement -/
structure Insert where
  table : String
  onConflict : Conflict
  bind : List (String × SqlVal)
deriving DecidableEq, Repr

structure Column where
  name : String
  type : String        -- the declared type, as written
  notNull : Bool
deriving DecidableEq, Repr

/-- `create table [if not exists] table (columns, primary key (…))` -/
structure Schema where
  table : String
  ifNotExists : Bool
  columns : List Column
  primaryKey : List String
deriving DecidableEq, Repr

/-- `*sql.DB`: what it was opened with and the tables created through it -/
structure Db where
  driver : String
  dsn : String
  created : List Schema
deriving DecidableEq, Repr

/-- the errors of `sql.Open` and of the `create table` Exec -/
structure DbOracle where
  openErr : Bool
  createErr : Bool
deriving DecidableEq, Repr

/-! ### specs -/

/-- one row written under a key: the row with that key, if any, is replaced -/
structure Upsert where
  table : String
  key : List (String × SqlVal)
  vals : List (String × SqlVal)
deriving DecidableEq, Repr

/-- an `insert or replace` that binds every column of the primary key is an upsert on that key; no other
insert is -/
def Insert.asUpsert (pk : List String) (i : Insert) : Option Upsert :=
  if i.onConflict = .replace ∧ pk.all (fun c => i.bind.any (fun b => b.1 == c)) then
    some { table := i.table, key := i.bind.filter (fun b => pk.contains b.1),
           vals := i.bind.filter (fun b => !pk.contains b.1) }
  else none

/-- SPEC of saveIPAddress: one upsert into leases4 on the key (mac text, ip text) writing (expiry, hostname) -/
def saveSpec (macText ipText : String) (expiry : Int) (hostname : String) : Upsert :=
  { table := "leases4",
    key := [("mac", .text macText), ("ip", .text ipText)],
    vals := [("expiry", .int expiry), ("hostname", .text hostname)] }

/-- SPEC of registerBackingDB: (the new `p.leasedb`, success). A database once registered stays; otherwise
the database is loaded, and registered iff that succeeded. -/
def registerSpec (cur : Option Db) (loaded : Except Err Db) : Option Db × Bool :=
  match cur, loaded with
  | some d, _ => (some d, false)
  | none, .error _ => (none, false)
  | none, .ok d => (some d, true)

/-- SPEC of one round of loadRecords: the map entry a row gives (`none` = the load fails) -/
def entryOf (parseIP : String → NetIP) (r : RawRow) : Option (String × GRecord) :=
  if r.scanErr then none
  else
    match CoreDhcp.parseHWAddr r.mac, parseIP r.ip with
    | some m, .v4 a => some (macString m, { IP := .v4 a, expires := r.expiry, hostname := r.hostname })
    | _, _ => none

/-- the rows one after the other in the order delivered, a later row replacing an earlier one of the same key -/
def loadRows (parseIP : String → NetIP) : RecMap → List RawRow → Option RecMap
  | m, [] => some m
  | m, r :: rs =>
    match entryOf parseIP r with
    | none => none
    | some (k, v) => loadRows parseIP (mapStore m k v) rs

/-- SPEC of loadRecords -/
def loadSpec (parseIP : String → NetIP) (q : QueryResult) : Option RecMap :=
  if q.queryErr then none
  else
    match loadRows parseIP [] q.rows with
    | none => none
    | some m => if q.iterErr then none else some m

/-! ### sqlite's column affinity (https://sqlite.org/datatype3.html §3.1) -/

inductive Affinity
  | integer | text | blob | real | numeric
deriving DecidableEq, Repr

def isInfix (pat : List Char) : List Char → Bool
  | [] => pat.isEmpty
  | c :: cs => pat.isPrefixOf (c :: cs) || isInfix pat cs

/-- the five rules, in order, on the declared type (case-insensitive) -/
def affinityOfType (declared : String) : Affinity :=
  let t := declared.toList.map Char.toUpper
  if isInfix "INT".toList t then .integer
  else if isInfix "CHAR".toList t || isInfix "CLOB".toList t || isInfix "TEXT".toList t then .text
  else if isInfix "BLOB".toList t || t.isEmpty then .blob
  else if isInfix "REAL".toList t || isInfix "FLOA".toList t || isInfix "DOUB".toList t then .real
  else .numeric

end CoreDhcp.Storage
