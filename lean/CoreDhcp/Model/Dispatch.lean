/-
Model of /repo/server/handle.go: `HandleMsg4` and `HandleMsg6` from the parsed datagram to
"nothing sent" or "this reply, to this peer, on this interface".

Out of the repository, hence inputs of the model: the insomniacslk/dhcp parser (the model
starts from the parse result, or the fact that parsing failed). Mirrored from the library as far
as the repository's behaviour depends on it: `NewReplyFromRequest`, `NewAdvertiseFromSolicit`,
`NewReplyFromMessage`, `GetInnerMessage`, `NewRelayReplFromRelayForw`.
Handlers are arbitrary functions: theorems about the chain hold for every plugin.
-/
import CoreDhcp.Model.IPCalc
namespace CoreDhcp

/-! ## The handler chain (both protocols) -/

/-- `for _, handler := range l.handlers { resp, stop = handler(req, resp); if stop { break } }`,
also returning the log of invocations: (position in the chain, response it was given). -/
def runChain {Req Resp : Type} (hs : List (Req → Option Resp → Option Resp × Bool)) (req : Req) :
    Nat → Option Resp → Option Resp × List (Nat × Option Resp)
  | _, r => go hs 0 r
where
  go : List (Req → Option Resp → Option Resp × Bool) → Nat → Option Resp → Option Resp × List (Nat × Option Resp)
    | [], _, r => (r, [])
    | h :: rest, i, r =>
      let out := h req r
      if out.2 then (out.1, [(i, r)])
      else
        let tl := go rest (i + 1) out.1
        (tl.1, (i, r) :: tl.2)

/-! ## DHCPv4 -/

/-- what `HandleMsg4` and the built-in plugins consult of a parsed request -/
structure Req4 where
  op     : Nat                      -- opcode byte
  mt     : Nat                      -- option 53 (0 = absent / MessageTypeNone)
  xid    : Nat
  htype  : Nat
  chaddr : List Nat
  flags  : Nat
  ciaddr : BitVec 32
  giaddr : BitVec 32
  opt82  : Option (List Nat)        -- relay agent information
  opt61  : Option (List Nat)        -- client identifier
deriving DecidableEq, Repr, Inhabited

structure Resp4 where
  op     : Nat
  mt     : Nat
  xid    : Nat
  htype  : Nat
  chaddr : List Nat
  flags  : Nat
  giaddr : BitVec 32
  yiaddr : BitVec 32
  opt82  : Option (List Nat)
  opt61  : Option (List Nat)
  tags   : List Nat                 -- a private option the synthetic handlers of the harness write
deriving DecidableEq, Repr, Inhabited

abbrev Handler4 := Req4 → Option Resp4 → Option Resp4 × Bool

/-- `NewReplyFromRequest(req)` followed by the OFFER/ACK switch; `none` = the datagram is not
answered (not a BOOTREQUEST, or message type other than DISCOVER / REQUEST) -/
def stub4 (req : Req4) : Option Resp4 :=
  if req.op ≠ 1 then none
  else
    let mk (mt : Nat) : Resp4 :=
      { op := 2, mt := mt, xid := req.xid, htype := req.htype, chaddr := req.chaddr, flags := req.flags,
        giaddr := req.giaddr, yiaddr := 0#32, opt82 := req.opt82, opt61 := req.opt61, tags := [] }
    if req.mt = 1 then some (mk 2)          -- DISCOVER -> OFFER
    else if req.mt = 3 then some (mk 5)     -- REQUEST  -> ACK
    else none

inductive Out4
  | drop
  /-- reply `resp` to `peer:port`; `ifidx` = interface the write is pinned to (control message),
  `l2` = sent as a link-layer unicast to chaddr/yiaddr -/
  | send (resp : Resp4) (peer : BitVec 32) (port : Nat) (ifidx : Option Nat) (l2 : Bool)
  /-- `woob.IfIndex` with `woob == nil`: link-layer reply with no interface information -/
  | panicNoIf
deriving DecidableEq, Repr

def bcast4 : BitVec 32 := 0xffffffff#32
/-- 169.254.0.0/16 -/
def isLinkLocal4 (a : BitVec 32) : Bool := a.toNat / 65536 == 169 * 256 + 254

/-- destination cascade of `HandleMsg4`: (peer, port, l2) -/
def peer4 (req : Req4) (resp : Resp4) : BitVec 32 × Nat × Bool :=
  if req.giaddr ≠ 0#32 then (req.giaddr, 67, false)
  else if resp.mt = 6 then (bcast4, 68, false)                     -- NAK
  else if req.ciaddr ≠ 0#32 then (req.ciaddr, 68, false)
  else if req.flags / 32768 % 2 = 1 then (bcast4, 68, false)       -- broadcast flag
  else (resp.yiaddr, 68, true)

/-- the interface a reply is pinned to -/
def pin (bound : Nat) (oob : Option Nat) : Option Nat :=
  if bound ≠ 0 then some bound
  else match oob with
    | some i => if i ≠ 0 then some i else none
    | none => none

/-- `HandleMsg4`; `input = none` when `dhcpv4.FromBytes` fails. `bound` = index of the interface
the listener is bound to (0 = unbound), `oob` = receiving interface from the control message. -/
def dispatch4 (bound : Nat) (oob : Option Nat) (hs : List Handler4) (input : Option Req4) : Out4 :=
  match input with
  | none => .drop
  | some req =>
    match stub4 req with
    | none => .drop
    | some r0 =>
      match (runChain hs req 0 (some r0)).1 with
      | none => .drop
      | some resp =>
        let p := peer4 req resp
        let needPin := p.1 == bcast4 || isLinkLocal4 p.1 || p.2.2
        let woob := if needPin then pin bound oob else none
        if p.2.2 && woob.isNone then .panicNoIf
        else .send resp p.1 p.2.1 woob p.2.2

/-! ## DHCPv6 -/

structure Msg6 where
  mt    : Nat
  xid   : Nat
  cid   : Option (List Nat)
  rapid : Bool
deriving DecidableEq, Repr, Inhabited

structure Layer6 where
  mt   : Nat                       -- 12 Relay-Forward / 13 Relay-Reply
  link : Addr
  peer : Addr
  iid  : Option (List Nat)         -- Interface-ID option
  rid  : Option (List Nat)         -- Remote-ID option
deriving DecidableEq, Repr, Inhabited

/-- a parsed DHCPv6 datagram: relay layers, outermost first, around a message; `msg = none` when
the innermost relay layer carries no Relay-Message option -/
structure Pkt6 where
  layers : List Layer6
  msg    : Option Msg6
deriving DecidableEq, Repr, Inhabited

structure Resp6 where
  mt    : Nat
  xid   : Nat
  cid   : Option (List Nat)
  rapid : Bool
  tags  : List Nat
deriving DecidableEq, Repr, Inhabited

abbrev Handler6 := Pkt6 → Option Resp6 → Option Resp6 × Bool

/-- the `switch msg.Type()` of `HandleMsg6` with the two constructors; `none` = no reply -/
def stub6 (m : Msg6) : Option Resp6 :=
  match m.cid with
  | none => none                     -- both constructors require a Client-ID
  | some c =>
    if m.mt = 1 then
      if m.rapid then some ⟨7, m.xid, some c, true, []⟩      -- REPLY echoing Rapid Commit
      else some ⟨2, m.xid, some c, false, []⟩                -- ADVERTISE
    else if m.mt = 3 ∨ m.mt = 4 ∨ m.mt = 5 ∨ m.mt = 6 ∨ m.mt = 8 ∨ m.mt = 11 then
      some ⟨7, m.xid, some c, false, []⟩
    else none

/-- reply layers of `NewRelayReplFromRelayForw`: Relay-Reply layers with the same link-address,
peer-address, Interface-ID and Remote-ID, outermost first -/
def mirror (ls : List Layer6) : List Layer6 := ls.map (fun l => { l with mt := 13 })

inductive Out6
  | drop
  | send (layers : List Layer6) (resp : Resp6) (ifidx : Option Nat)     -- to the source address and port
deriving DecidableEq, Repr

/-- fe80::/10 -/
def isLinkLocal6 (a : Addr) : Bool := a.hi.toNat / 2^54 == 0x3fa

/-- `HandleMsg6`; `input = none` when `dhcpv6.FromBytes` fails; `src` = source address of the datagram -/
def dispatch6 (bound : Nat) (oob : Option Nat) (src : Addr) (hs : List Handler6) (input : Option Pkt6) : Out6 :=
  match input with
  | none => .drop
  | some d =>
    match d.msg with
    | none => .drop                                  -- GetInnerMessage: no Relay-Message option
    | some m =>
      match stub6 m with
      | none => .drop
      | some r0 =>
        match (runChain hs d 0 (some r0)).1 with
        | none => .drop
        | some resp =>
          let woob := if isLinkLocal6 src then pin bound oob else none
          match d.layers with
          | [] => .send [] resp woob
          | l :: _ =>
            if l.mt ≠ 12 then .drop                  -- outermost layer is not a Relay-Forward
            else .send (mirror d.layers) resp woob

end CoreDhcp
