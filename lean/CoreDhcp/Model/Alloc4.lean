/-
Model of /repo/plugins/allocators/bitmap/bitmap_ipv4.go (the IPv4 address allocator).
Addresses are `BitVec 32` (what `binary.BigEndian.Uint32(ip.To4())` yields);
`none` stands for a `net.IP` whose `To4()` is nil.
-/
import CoreDhcp.Model.Bits
namespace CoreDhcp

structure A4 where
  start : BitVec 32
  stop  : BitVec 32      -- `end` in the Go code
  bm    : Bits
deriving DecidableEq, Repr, Inhabited

inductive New4Err | invalid | empty
deriving DecidableEq, Repr

/-- number of addresses of the range: `uint(end-start)+1` (after the D3 repair; the
`uint32` expression `end-start+1` wrapped to 0 for 0.0.0.0-255.255.255.255) -/
def A4.size (start stop : BitVec 32) : Nat := (stop - start).toNat + 1

/-- the pre-repair size computation, in `uint32` -/
def A4.sizePreFix (start stop : BitVec 32) : Nat := (stop - start + 1#32).toNat

/-- `NewIPv4Allocator(start, end)` -/
def A4.new (start stop : Option (BitVec 32)) : Except New4Err A4 :=
  match start, stop with
  | some s, some e =>
    if s.toNat > e.toNat then .error .empty
    else .ok ⟨s, e, Bits.new (A4.size s e)⟩
  | _, _ => .error .invalid

inductive Off4Err | invalid | notInRange
deriving DecidableEq, Repr

/-- `toOffset(ip)` -/
def A4.toOffset (a : A4) (ip : Option (BitVec 32)) : Except Off4Err Nat :=
  match ip with
  | none => .error .invalid
  | some x =>
    if x.toNat < a.start.toNat ∨ x.toNat > a.stop.toNat then .error .notInRange
    else .ok (x - a.start).toNat

inductive A4Res
  | ok (ip : BitVec 32)
  | noaddr
  | panic            -- toIP: "BUG: offset out of bounds"
deriving DecidableEq, Repr

/-- `(*IPv4Allocator).Allocate(hint)`; `hintOffset, _ := a.toOffset(hint.IP)` degrades every
unusable hint to offset 0. `none` = the observed choice is inadmissible. -/
def A4.allocate (a : A4) (hint : Option (BitVec 32)) (choice : Option Nat) : Option (A4 × A4Res) :=
  let hintOffset : Nat := match a.toOffset hint with | .ok o => o | .error _ => 0
  let next : Option (Option Nat) :=           -- none = inadmissible, some none = no address
    if !a.bm.test hintOffset then some (some hintOffset)
    else match choice with
      | none => if a.bm.full then some none else none
      | some c => if c < a.bm.length ∧ !a.bm.test c then some (some c) else none
  match next with
  | none => none
  | some none => some (a, .noaddr)
  | some (some n) =>
    let a' : A4 := { a with bm := a.bm.set n }
    if n % 2^32 > (a.stop - a.start).toNat then some (a', .panic)
    else some (a', .ok (a.start + BitVec.ofNat 32 n))

def A4.firstFit (a : A4) : Option Nat := a.bm.nextClear

inductive F4Res | ok | notInRange | doubleFree
deriving DecidableEq, Repr

/-- `(*IPv4Allocator).Free(n)` (the mask is ignored by the code) -/
def A4.free (a : A4) (ip : Option (BitVec 32)) : A4 × F4Res :=
  match a.toOffset ip with
  | .error _ => (a, .notInRange)
  | .ok o =>
    if !a.bm.test o then (a, .doubleFree)
    else ({ a with bm := a.bm.clear o }, .ok)

end CoreDhcp
