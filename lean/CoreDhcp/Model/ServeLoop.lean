/-
Model of the receive side of /repo/server/handle.go: the buffer pool `bufpool`, one iteration of the two
`Serve` loops (`(*listener6).Serve`, `(*listener4).Serve`), the head of `HandleMsg6` / `HandleMsg4` where the
buffer goes back to the pool — and a small system model of the pool shared by the loops and the handler
goroutines, over which "no buffer is in two hands at once" is stated (Props/GenServeLoop.lean).

    var bufpool = sync.Pool{New: func() interface{} { r := make([]byte, MaxDatagram); return &r }}
    const MaxDatagram = 1 << 16

    for {
        b := *bufpool.Get().(*[]byte)        -- Get, the type assertion, the dereference
        b = b[:MaxDatagram]                  -- the pool may hold buffers resliced shorter
        n, oob, peer, err := l.ReadFrom(b)
        if errors.Is(err, net.ErrClosed) { return nil } else if err != nil { …; return err }
        go l.HandleMsgN(b[:n], oob, peer.(*net.UDPAddr))
    }

    func (l *listenerN) HandleMsgN(buf []byte, oob …, peer …) {
        d, err := dhcpvN.FromBytes(buf)
        bufpool.Put(&buf)                    -- the slice header of the PARAMETER: length n, the same backing array
        if err != nil { …; return }
        …                                    -- units dispatch4 / dispatch6; `buf` is not mentioned again

Out of the repository, hence inputs taken at their documented meaning: `sync.Pool` (`Get` returns any one value
that was `Put`, or what `New` makes; it may drop values at any time), `ReadFrom` (all four results are values of
THIS call), the parsers `dhcpv4.FromBytes` / `dhcpv6.FromBytes` (they copy what they keep: Model/…, C16).
A buffer is its identity (the backing array) and its current length.  Core Lean only.
-/
namespace CoreDhcp
namespace ServeLoop

/-- `MaxDatagram = 1 << 16` -/
def maxDatagram : Nat := 65536

/-- the two listener types and their handlers: `listener6` / `HandleMsg6`, `listener4` / `HandleMsg4` -/
inductive Fam | v6 | v4
deriving DecidableEq, Repr

/-- a pooled buffer: its identity and its current length (a pool may hold buffers resliced shorter) -/
structure Buf where
  id  : Nat
  len : Nat
deriving DecidableEq, Repr

/-- how a buffer is handed to the pool, and what `New` makes: a pointer to the slice (`&buf`, `&r`) or the slice -/
inductive PutArg | ptr | slice
deriving DecidableEq, Repr

/-- a value sitting in the pool -/
structure Item where
  kind : PutArg
  buf  : Buf
deriving DecidableEq, Repr

/-- what the pool's `New` returns: the kind of value and the length of the new buffer -/
structure NewOut where
  kind : PutArg
  len  : Nat
deriving DecidableEq, Repr

/-- `New: func() interface{} { r := make([]byte, MaxDatagram); return &r }` -/
def poolNew (md : Nat) : NewOut := ⟨.ptr, md⟩

/-- the error result of `ReadFrom`: nil, something `errors.Is(·, net.ErrClosed)`, anything else -/
inductive RErr | none | closed | other
deriving DecidableEq, Repr

/-- the four results of ONE call of `ReadFrom`; `oob` / `peer`: the identities of the values of THIS read -/
structure Read where
  n    : Nat
  oob  : Nat
  peer : Nat
  err  : RErr
deriving DecidableEq, Repr

/-- `go l.HandleMsgN(b[:upto], oob, peer)`: which handler, the buffer (its identity), and the three values -/
structure Spawn where
  handler : Fam
  buf     : Nat
  upto    : Nat
  oob     : Nat
  peer    : Nat
deriving DecidableEq, Repr

/-- `return nil` / `return err` -/
inductive Exit | nil | err
deriving DecidableEq, Repr

/-- how one pass through the loop body ends: with the spawn of a handler (and then the next iteration), by
leaving `Serve`, or by going to the next iteration without having spawned anything (`again`: the code under
study never does that) -/
inductive Next
  | spawn (s : Spawn)
  | exit (e : Exit)
  | again
deriving DecidableEq, Repr

/-- one iteration: the type assertion on what `Get` returned fails (`panic`: the process dies), or `ReadFrom` is
called on `readInto` and the iteration ends as `next` -/
inductive Iter
  | panic
  | ran (readInto : Buf) (next : Next)
deriving DecidableEq, Repr

/-- what one iteration of `Serve` does with the value it took from the pool and the read it made -/
def iter (f : Fam) (md : Nat) (taken : Item) (r : Read) : Iter :=
  match taken.kind with
  | .slice => .panic
  | .ptr =>
    let b : Buf := ⟨taken.buf.id, md⟩
    match r.err with
    | .closed => .ran b (.exit .nil)
    | .other  => .ran b (.exit .err)
    | .none   => .ran b (.spawn ⟨f, b.id, r.n, r.oob, r.peer⟩)

/-- what the head of a handler does with its buffer, in order: the parser reads it, it is handed to the pool,
something else mentions it -/
inductive HeadEv
  | parse
  | put (a : PutArg)
  | use
deriving DecidableEq, Repr

structure HeadOut where
  events    : List HeadEv
  continues : Bool          -- false: the handler returns (parse error); true: it goes on with the parsed message
deriving DecidableEq, Repr

/-- the handler's head: parse, then hand the buffer back — on both paths -/
def handlerHead (parsedOk : Bool) : HeadOut := ⟨[.parse, .put .ptr], parsedOk⟩

/-- the `Put`s of a head, in order -/
def putsOf : List HeadEv → List PutArg
  | [] => []
  | .put a :: es => a :: putsOf es
  | _ :: es => putsOf es

/-- an event that reads the buffer -/
def HeadEv.reads : HeadEv → Bool
  | .put _ => false
  | _ => true

/-- the buffer is read (by the parser or anything else) after it went to the pool -/
def usedAfterPut : List HeadEv → Bool
  | [] => false
  | .put _ :: es => es.any HeadEv.reads || usedAfterPut es
  | _ :: es => usedAfterPut es

/-! ## the loop: iterations one after the other -/

inductive End | exit (e : Exit) | panic
deriving DecidableEq, Repr

/-- `Serve` run on the answers of the world (what `Get` returned, what `ReadFrom` returned), iteration by iteration:
the handlers spawned, in order, and how the loop ended (`none`: still running when the answers ran out) -/
def run (f : Fam) (md : Nat) : List (Item × Read) → List Spawn × Option End
  | [] => ([], none)
  | (t, r) :: rest =>
    match iter f md t r with
    | .panic => ([], some .panic)
    | .ran _ (.spawn s) => (s :: (run f md rest).1, (run f md rest).2)
    | .ran _ (.exit e) => ([], some (.exit e))
    | .ran _ .again => run f md rest

/-! ## the pool, the loops and the handlers together

One process: ONE pool (a package-level variable) shared by all the `Serve` loops (one per listener) and all the
handler goroutines.  The code that runs is a parameter (`Code`), so that the same system can be run with the
model's functions or with the regenerated ones. -/

structure Code where
  new  : NewOut
  iter : Fam → Item → Read → Iter
  head : Fam → Bool → HeadOut

/-- the model's code -/
def code (md : Nat) : Code := ⟨poolNew md, fun f => iter f md, fun _ => handlerHead⟩

/-- a `Serve` loop: between `Get` and the end of the iteration it holds what it took -/
structure Loop where
  fam  : Fam
  held : Option Item
  live : Bool               -- false: `Serve` has returned
deriving DecidableEq, Repr

/-- a handler goroutine that has not yet run its head: it holds `b[:n]` -/
structure Handler where
  fam : Fam
  buf : Buf
deriving DecidableEq, Repr

structure Sys where
  pool     : List Item
  loops    : List Loop
  handlers : List Handler
  fresh    : Nat            -- identity of the next buffer `New` makes
  crashed  : Bool           -- a type assertion failed: the process is gone
deriving DecidableEq, Repr

def Sys.init (fams : List Fam) : Sys := ⟨[], fams.map (fun f => ⟨f, none, true⟩), [], 0, false⟩

/-- what can happen next, in any order (the scheduler's and the pool's choices are part of the event) -/
inductive Ev
  | get (l : Nat) (pick : Option Nat)   -- loop l: `bufpool.Get()` — the pool gives its pick-th value, or calls `New`
  | read (l : Nat) (r : Read)           -- loop l: the rest of the iteration, `ReadFrom` answering r
  | head (j : Nat) (parsedOk : Bool)    -- the j-th waiting handler runs its head
  | drop (i : Nat)                      -- the pool forgets its i-th value (sync.Pool may, at any time)
deriving DecidableEq, Repr

def Sys.step (c : Code) (s : Sys) (e : Ev) : Sys :=
  if s.crashed then s else
  match e with
  | .get l pick =>
    match s.loops[l]? with
    | none => s
    | some lp =>
      if lp.live = false ∨ lp.held ≠ none then s else
      match pick with
      | none =>
        { s with loops := s.loops.set l { lp with held := some ⟨c.new.kind, ⟨s.fresh, c.new.len⟩⟩ },
                 fresh := s.fresh + 1 }
      | some i =>
        match s.pool[i]? with
        | none => s
        | some it => { s with pool := s.pool.eraseIdx i, loops := s.loops.set l { lp with held := some it } }
  | .read l r =>
    match s.loops[l]? with
    | none => s
    | some lp =>
      match lp.held with
      | none => s
      | some it =>
        match c.iter lp.fam it r with
        | .panic => { s with crashed := true }
        | .ran _ (.spawn sp) =>
          { s with loops := s.loops.set l { lp with held := none },
                   handlers := s.handlers ++ [⟨sp.handler, ⟨sp.buf, sp.upto⟩⟩] }
        | .ran _ (.exit _) => { s with loops := s.loops.set l { lp with held := none, live := false } }
        | .ran _ .again => { s with loops := s.loops.set l { lp with held := none } }
  | .head j ok =>
    match s.handlers[j]? with
    | none => s
    | some h =>
      let out := c.head h.fam ok
      { s with pool := s.pool ++ (putsOf out.events).map (fun k => ⟨k, h.buf⟩),
               handlers := if usedAfterPut out.events then s.handlers else s.handlers.eraseIdx j }
  | .drop i => { s with pool := s.pool.eraseIdx i }

def Sys.run (c : Code) (s : Sys) (evs : List Ev) : Sys := evs.foldl (Sys.step c) s

/-- the buffer a loop holds -/
def Loop.heldId (lp : Loop) : Option Nat := lp.held.map (·.buf.id)

/-- every hand a buffer is in, one entry per hand: the pool's values, the loops that are between `Get` and the
end of their iteration, the handlers that have not yet handed their buffer back -/
def Sys.hands (s : Sys) : List Nat :=
  s.pool.map (·.buf.id) ++ s.loops.filterMap Loop.heldId ++ s.handlers.map (·.buf.id)

end ServeLoop
end CoreDhcp
