/-
The server as one function: `HandleMsg4` / `HandleMsg6` of /repo/server/handle.go composed with the
models of the built-in plugins that make up a configured chain — from the parsed datagram to
"nothing sent" or "this reply, with these fields and options, to this peer, on this interface".

Model/Dispatch.lean keeps handlers abstract (its theorems hold for every plugin but need the
hypothesis that handlers leave the echoed fields alone); Model/OptPlug.lean and Model/File.lean
model one plugin at a time. Here the chain is a list of *configured built-in plugins*, the
response carries every header field and every option, and the hypotheses about handlers are
discharged (Props/System.lean).

Chain elements: every option plugin and `server_id` (through `Plug.plugHandle4/6`), the static
lease `file` plugin with the table it loaded, and the stateful allocating plugins `range`
(`Elem4.lease`) and `prefix` (`Elem6.pd`) through what their state machines (Model/Range.lean,
Model/Prefix.lean) answer for the datagram at hand.

Out of the repository, hence inputs: the parser (`input = none` when `FromBytes` fails; the request
arrives as the fields and option list the library exposes), `dhcpv6.ExtractMAC`.
Core Lean only: linked into the driver.
-/
import CoreDhcp.Model.Dispatch
import CoreDhcp.Model.OptPlug
import CoreDhcp.Model.File
import CoreDhcp.Model.Prefix
namespace CoreDhcp
namespace Sys
open Plug (Bytes Opts lookup upd4)

/-! ## DHCPv4 -/

/-- a parsed DHCPv4 datagram: header fields and the option map as an association list sorted by
code (addresses as their 4 bytes) -/
structure Req4 where
  op     : Nat
  xid    : Nat
  htype  : Nat
  chaddr : Bytes
  flags  : Nat
  ciaddr : Bytes
  giaddr : Bytes
  siaddr : Bytes
  opts   : Opts
deriving DecidableEq, Repr, Inhabited

structure Resp4 where
  op     : Nat
  xid    : Nat
  htype  : Nat
  chaddr : Bytes
  flags  : Nat
  giaddr : Bytes
  yiaddr : Bytes
  siaddr : Bytes
  opts   : Opts
deriving DecidableEq, Repr, Inhabited

/-- `MessageType()`: option 53 when it is exactly one byte long, else none (0) -/
def mtOf (o : Opts) : Nat := match lookup 53 o with | some [t] => t | _ => 0

/-- `Options.Get(code)` as `WithOptionCopied` sees it: a zero-length option has a nil value -/
def getNonEmpty (c : Nat) (o : Opts) : Option Bytes :=
  match lookup c o with
  | some (b :: bs) => some (b :: bs)
  | _ => none

def ip32 (b : Bytes) : BitVec 32 := BitVec.ofNat 32 (b.foldl (fun a x => a * 256 + x) 0)

/-- what `HandleMsg4`'s own decisions consult of the request -/
def absReq4 (r : Req4) : CoreDhcp.Req4 :=
  { op := r.op, mt := mtOf r.opts, xid := r.xid, htype := r.htype, chaddr := r.chaddr, flags := r.flags,
    ciaddr := ip32 r.ciaddr, giaddr := ip32 r.giaddr, opt82 := getNonEmpty 82 r.opts, opt61 := getNonEmpty 61 r.opts }

def absResp4 (r : Resp4) : CoreDhcp.Resp4 :=
  { op := r.op, mt := mtOf r.opts, xid := r.xid, htype := r.htype, chaddr := r.chaddr, flags := r.flags,
    giaddr := ip32 r.giaddr, yiaddr := ip32 r.yiaddr, opt82 := getNonEmpty 82 r.opts, opt61 := getNonEmpty 61 r.opts,
    tags := [] }

/-- copy option `c` of the request into `o` when the request has a non-empty one -/
def copyOpt (c : Nat) (req : Req4) (o : Opts) : Opts :=
  match getNonEmpty c req.opts with
  | some v => upd4 c v o
  | none => o

/-- `NewReplyFromRequest(req)` (reply opcode, xid, htype, chaddr, flags, giaddr, options 82 and 61
copied) followed by the OFFER/ACK switch -/
def stub4 (req : Req4) : Option Resp4 :=
  if req.op ≠ 1 then none
  else
    let mk (mt : Nat) : Resp4 :=
      { op := 2, xid := req.xid, htype := req.htype, chaddr := req.chaddr, flags := req.flags,
        giaddr := req.giaddr, yiaddr := [0, 0, 0, 0], siaddr := [0, 0, 0, 0],
        opts := upd4 53 [mt] (copyOpt 61 req (copyOpt 82 req [])) }
    if mtOf req.opts = 1 then some (mk 2)
    else if mtOf req.opts = 3 then some (mk 5)
    else none

/-- a configured plugin in the DHCPv4 chain -/
inductive Elem4
  | plug (c : Plug.Cfg4)
  /-- `file` with the table it serves: hardware address (bytes) ↦ address -/
  | file (t : FTable)
  /-- `range`, as far as one datagram is concerned: what its lease table and allocator answer for
  this client — the address and the value of option 51 (`RReply.reply` of Model/Range.lean), or
  `none` when no address is left (the handler returns a nil response and ends the chain). The
  state machine behind it is Model/Range.lean; the driver threads its state. -/
  | lease (out : Option (BitVec 32 × Nat))
deriving Repr

def viewReq4 (r : Req4) : Plug.ReqView4 := ⟨r.op, mtOf r.opts, r.siaddr, r.ciaddr, r.opts⟩
def viewResp4 (r : Resp4) : Plug.Resp4 := ⟨mtOf r.opts, r.yiaddr, r.siaddr, r.opts⟩
/-- a plugin can change what `Plug.Resp4` carries: yiaddr, siaddr, options -/
def putResp4 (r : Resp4) (p : Plug.Resp4) : Resp4 := { r with yiaddr := p.yiaddr, siaddr := p.siaddr, opts := p.opts }

def be4 (a : BitVec 32) : Bytes := [a.toNat / 16777216 % 256, a.toNat / 65536 % 256, a.toNat / 256 % 256, a.toNat % 256]

def handle4 : Elem4 → Req4 → Option Resp4 → Option Resp4 × Bool
  | _, _, none => (none, true)       -- never happens: a nil response ends the chain (fact F3)
  | .plug c, req, some r =>
    match Plug.plugHandle4 c (viewReq4 req) (viewResp4 r) with
    | (none, stop) => (none, stop)
    | (some p, stop) => (some (putResp4 r p), stop)
  | .file t, req, some r =>
    match t.get req.chaddr with
    | some (.v4 a) => (some { r with yiaddr := be4 a }, true)
    | _ => (some r, false)
  | .lease none, _, some _ => (none, true)
  | .lease (some (ip, o51)), _, some r => (some { r with yiaddr := be4 ip, opts := upd4 51 (Plug.be 4 o51) r.opts }, false)

/-- built-in DHCPv4 plugins whose handler never ends the chain and never drops the request -/
def neverStops4 : Elem4 → Bool
  | .plug (.dns _) | .plug (.mtu _) | .plug (.netmask _) | .plug (.router _) | .plug (.leasetime _)
  | .plug (.search _) | .plug (.staticroute _) | .plug (.sleep _) => true
  | _ => false

def isLease : Elem4 → Bool
  | .lease _ => true
  | _ => false

/-- `server_id` (DHCPv4) with this address -/
def isServerId4 : Elem4 → Bool
  | .plug (.serverid _) => true
  | _ => false

inductive Out4
  | drop
  | send (resp : Resp4) (peer : BitVec 32) (port : Nat) (ifidx : Option Nat) (l2 : Bool)
  | panicNoIf
deriving DecidableEq, Repr

/-- `HandleMsg4` over a chain of configured built-in plugins -/
def serve4 (bound : Nat) (oob : Option Nat) (chain : List Elem4) (input : Option Req4) : Out4 :=
  match input with
  | none => .drop
  | some req =>
    match stub4 req with
    | none => .drop
    | some r0 =>
      match (runChain (chain.map handle4) req 0 (some r0)).1 with
      | none => .drop
      | some resp =>
        let p := peer4 (absReq4 req) (absResp4 resp)
        let needPin := p.1 == bcast4 || isLinkLocal4 p.1 || p.2.2
        let woob := if needPin then pin bound oob else none
        if p.2.2 && woob.isNone then .panicNoIf
        else .send resp p.1 p.2.1 woob p.2.2

def absOut4 : Out4 → CoreDhcp.Out4
  | .drop => .drop
  | .send r peer port ifidx l2 => .send (absResp4 r) peer port ifidx l2
  | .panicNoIf => .panicNoIf

/-! ## DHCPv6 -/

/-- the message inside the relay layers -/
structure Msg6 where
  mt   : Nat
  xid  : Nat
  opts : Opts            -- in wire order, codes may repeat
deriving DecidableEq, Repr, Inhabited

structure Pkt6 where
  layers : List Layer6
  msg    : Option Msg6   -- `none`: the innermost relay layer carries no Relay-Message option
  /-- `dhcpv6.ExtractMAC(d)` (`none` = error) -/
  mac    : Option Bytes
deriving DecidableEq, Repr, Inhabited

structure Resp6 where
  mt   : Nat
  xid  : Nat
  opts : Opts
deriving DecidableEq, Repr, Inhabited

def absMsg6 (m : Msg6) : CoreDhcp.Msg6 := ⟨m.mt, m.xid, lookup 1 m.opts, (lookup 14 m.opts).isSome⟩
def absPkt6 (d : Pkt6) : CoreDhcp.Pkt6 := ⟨d.layers, d.msg.map absMsg6⟩
def absResp6 (r : Resp6) : CoreDhcp.Resp6 := ⟨r.mt, r.xid, lookup 1 r.opts, (lookup 14 r.opts).isSome, []⟩

/-- the `switch msg.Type()` of `HandleMsg6` with `NewAdvertiseFromSolicit` / `NewReplyFromMessage`:
transaction id and the (first) Client-ID copied, Rapid Commit added to the REPLY to a SOLICIT -/
def stub6 (m : Msg6) : Option Resp6 :=
  match lookup 1 m.opts with
  | none => none
  | some c =>
    if m.mt = 1 then
      if (lookup 14 m.opts).isSome then some ⟨7, m.xid, [(1, c), (14, [])]⟩
      else some ⟨2, m.xid, [(1, c)]⟩
    else if m.mt = 3 ∨ m.mt = 4 ∨ m.mt = 5 ∨ m.mt = 6 ∨ m.mt = 8 ∨ m.mt = 11 then
      some ⟨7, m.xid, [(1, c)]⟩
    else none

/-- one IA_PD of the reply as `prefix` builds it: the IAID (4 bytes) and the delegated blocks with
their lifetime in seconds (preferred = valid); no block stands for the NoPrefixAvail status -/
structure PdAns where
  iaid : Bytes
  pfxs : List (Block × Nat)
deriving Repr, DecidableEq, Inhabited

inductive Elem6
  | plug (c : Plug.Cfg6)
  | file (t : FTable)
  /-- `prefix`, as far as one datagram is concerned: what its records and allocator answer this
  client — one `PdAns` per IA_PD of the request, in order (`PState.handleMsg` of Model/Prefix.lean).
  The state machine behind it is Model/Prefix.lean; the driver threads its state. -/
  | pd (out : List PdAns)
deriving Repr

def be16 (a : Addr) : Bytes :=
  (List.range 8).map (fun i => a.hi.toNat / 256 ^ (7 - i) % 256) ++ (List.range 8).map (fun i => a.lo.toNat / 256 ^ (7 - i) % 256)

/-- `OptIANA{IaId, Options: [OptIAAddress{addr, 3600 s, 3600 s}]}.ToBytes()`: IAID, T1 = T2 = 0,
then one IA Address option (code 5, length 24) -/
def encIANA (iaid : Bytes) (a : Addr) : Bytes :=
  iaid ++ [0, 0, 0, 0, 0, 0, 0, 0] ++ [0, 5, 0, 24] ++ be16 a ++ [0, 0, 14, 16] ++ [0, 0, 14, 16]

/-- `OptIAPrefix{lifetime, lifetime, prefix}` as a sub-option: code 26, length 25, preferred and
valid lifetime (seconds), prefix length, the 16 bytes of the prefix -/
def encIAPrefix (b : Block) (life : Nat) : Bytes :=
  [0, 26, 0, 25] ++ Plug.be 4 life ++ Plug.be 4 life ++ [b.len] ++ be16 b.base

/-- `OptIAPD{IaId, Options}.ToBytes()`: IAID, T1 = T2 = 0, then the IAPrefix sub-options or, when
there is none, one Status Code sub-option (code 13, length 2) NoPrefixAvail (6) with an empty message -/
def encIAPD (a : PdAns) : Bytes :=
  a.iaid ++ [0, 0, 0, 0, 0, 0, 0, 0] ++
    (if a.pfxs.isEmpty then [0, 13, 0, 2, 0, 6] else a.pfxs.flatMap (fun p => encIAPrefix p.1 p.2))

/-- big-endian value of a byte list -/
def beNat (b : Bytes) : Nat := b.foldl (fun a x => a * 256 + x) 0

/-- the address in 16 bytes -/
def addrOfBe16 (b : Bytes) : Addr := ⟨BitVec.ofNat 64 (beNat (b.take 8)), BitVec.ofNat 64 (beNat ((b.drop 8).take 8))⟩

/-- the sub-options of an IA_PD body as a client reads them: IAPrefix (code 26, length 25) gives a
block and its valid lifetime, Status Code (13) is skipped, anything else is refused -/
def decPdSubs : Nat → Bytes → Option (List (Block × Nat))
  | 0, _ => none
  | _, [] => some []
  | fuel + 1, c1 :: c0 :: l1 :: l0 :: rest =>
    let code := c1 * 256 + c0
    let len := l1 * 256 + l0
    if rest.length < len then none
    else
      let body := rest.take len
      let tail := rest.drop len
      if code = 26 then
        if len ≠ 25 then none
        else
          match decPdSubs fuel tail with
          | none => none
          | some ps => some ((⟨addrOfBe16 (body.drop 9), body.getD 8 0⟩, beNat ((body.drop 4).take 4)) :: ps)
      else if code = 13 then decPdSubs fuel tail
      else none
  | _, _ => none

/-- what a client reads back from an IA_PD option body: the IAID and the delegated blocks -/
def decIAPD (b : Bytes) : Option PdAns :=
  if b.length < 12 then none else (decPdSubs b.length (b.drop 12)).map (fun ps => ⟨b.take 4, ps⟩)

def handle6 : Elem6 → Pkt6 → Option Resp6 → Option Resp6 × Bool
  | _, _, none => (none, true)
  | .pd out, d, some r =>
    match d.msg with
    | none => (none, true)           -- `GetInnerMessage` fails: unreachable after `HandleMsg6` decapsulated
    | some m =>
      match lookup 1 m.opts with
      | none => (none, true)         -- no Client-ID: unreachable, `stub6` already refused the message
      | some _ => (some { r with opts := r.opts ++ out.map (fun a => (25, encIAPD a)) }, false)
  | .plug c, d, some r =>
    match d.msg with
    | none => (none, true)           -- unreachable: `HandleMsg6` already decapsulated successfully
    | some m =>
      match Plug.plugHandle6 c ⟨d.layers.length, m.mt, m.opts⟩ ⟨r.mt, r.opts⟩ with
      | (none, stop) => (none, stop)
      | (some p, stop) => (some { r with mt := p.mt, opts := p.opts }, stop)
  | .file t, d, some r =>
    match d.msg with
    | none => (none, true)
    | some m =>
      -- `m.Options.OneIANA()`: the first IA_NA (code 3); its IAID is the first four bytes
      match lookup 3 m.opts with
      | none => (some r, false)
      | some ia =>
        match d.mac with
        | none => (some r, false)
        | some mac =>
          match t.get mac with
          | some (.v6 a) => (some { r with opts := r.opts ++ [(3, encIANA (ia.take 4) a)] }, false)
          | _ => (some r, false)

/-- lifetime on the wire: `Duration.Round(time.Second)` of a non-negative duration in ns, in seconds -/
def secsOf (ns : Int) : Nat := ((ns + 500000000) / 1000000000).toNat

/-- the reply of `PState.handleMsg` (Model/Prefix.lean) as the chain element sees it -/
def pdOf (rs : List IAPDResp) : List PdAns :=
  rs.map (fun r => ⟨Plug.be 4 r.iaid, r.pfxs.map (fun p => (p.1, secsOf p.2))⟩)

/-- built-in DHCPv6 elements whose handler always hands a response on and never ends the chain
(`nbp` always ends it, `server_id` may drop the message, `prefix` goes on but is not an option plugin) -/
def neverStops6 : Elem6 → Bool
  | .plug (.dns _) | .plug (.search _) | .plug (.sleep _) | .file _ => true
  | _ => false

def isPd : Elem6 → Bool
  | .pd _ => true
  | _ => false

inductive Out6
  | drop
  | send (layers : List Layer6) (resp : Resp6) (ifidx : Option Nat)
deriving DecidableEq, Repr

def serve6 (bound : Nat) (oob : Option Nat) (src : Addr) (chain : List Elem6) (input : Option Pkt6) : Out6 :=
  match input with
  | none => .drop
  | some d =>
    match d.msg with
    | none => .drop
    | some m =>
      match stub6 m with
      | none => .drop
      | some r0 =>
        match (runChain (chain.map handle6) d 0 (some r0)).1 with
        | none => .drop
        | some resp =>
          let woob := if isLinkLocal6 src then pin bound oob else none
          match d.layers with
          | [] => .send [] resp woob
          | l :: _ =>
            if l.mt ≠ 12 then .drop
            else .send (mirror d.layers) resp woob

def absOut6 : Out6 → CoreDhcp.Out6
  | .drop => .drop
  | .send layers r ifidx => .send layers (absResp6 r) ifidx

end Sys
end CoreDhcp
