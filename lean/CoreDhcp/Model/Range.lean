/-
Model of /repo/plugins/range (plugin.go, storage.go): the DHCPv4 dynamic-lease handler over
the IPv4 allocator model and a keyed table standing for the sqlite `leases4` table.

Out of the repository, hence parameters:
* the wall clock: every handler call takes `now` (ns since the epoch) as input;
* the store/load of a hardware address through `HardwareAddr.String()`, sqlite's column
  affinity and the parser used by `loadRecords`: `loadKey : Mac → Option Mac` says what key a
  row written for `m` is read back under (`none` = the row makes `loadRecords` fail).
  The round-trip assumption `∀ m, loadKey m = some m` is what the `fix:` for D7 establishes and
  what the restart operations of the conformance run exercise on the real sqlite file.
-/
import CoreDhcp.Model.Alloc4
namespace CoreDhcp

/-- client hardware address: the bytes of `chaddr` (0..16 of them) -/
abbrev Mac := List Nat

structure Rec where
  ip      : BitVec 32
  expires : Int            -- unix seconds
deriving DecidableEq, Repr, Inhabited

/-- a row of `leases4` (primary key (mac, ip)); the hostname column does not influence bindings -/
structure Row where
  mac    : Mac
  ip     : BitVec 32
  expiry : Int
deriving DecidableEq, Repr, Inhabited

structure RState where
  alloc : A4
  recs  : List (Mac × Rec)       -- Recordsv4
  db    : List Row               -- leases4
  lease : Int                    -- LeaseTime, ns
deriving Repr, Inhabited

def nsPerSec : Int := 1000000000

/-- `time.Unix()` of a time given in ns (floor; times are positive) -/
def unixFloor (ns : Int) : Int := ns / nsPerSec
/-- `t.Round(time.Second).Unix()` / `d.Round(time.Second)` in seconds (half rounds up; positive values) -/
def unixRound (ns : Int) : Int := (ns + 500000000) / nsPerSec

/-- the value of option 51: `uint32(LeaseTime.Round(time.Second) / time.Second)` -/
def leaseOpt (lease : Int) : Nat := (unixRound lease % 4294967296).toNat

/-- the lease time `setupRange` keeps (since the `fix:` for D19): the configured duration rounded to whole
seconds, `p.LeaseTime = p.LeaseTime.Round(time.Second)` — what the wire can carry. `RState.lease` is this
value: the drivers hand `keptLease` of the configured duration to `RState.setup`. (Durations are not
negative here; Go rounds a negative half away from zero, this rounds it up.) -/
def keptLease (configured : Int) : Int := unixRound configured * nsPerSec

def lookupRec (recs : List (Mac × Rec)) (m : Mac) : Option Rec :=
  (recs.find? (fun p => p.1 == m)).map (·.2)

/-- `insert or replace into leases4` keyed by (mac, ip) -/
def dbSave (db : List Row) (r : Row) : List Row :=
  r :: db.filter (fun x => !(x.mac == r.mac && x.ip == r.ip))

/-- `p.Recordsv4[mac] = rec` -/
def recsPut (recs : List (Mac × Rec)) (m : Mac) (r : Rec) : List (Mac × Rec) :=
  (m, r) :: recs.filter (fun p => !(p.1 == m))

inductive RReply
  | reply (yiaddr : BitVec 32) (opt51 : Nat)
  | drop                      -- (nil, true): nothing is sent
  | panic
deriving DecidableEq, Repr

/-- `(*PluginState).Handler4` for a request from `mac` at time `now`; `choice` is the
allocator's choice should the free-address step be reached. `none` = inadmissible choice. -/
def RState.handle (s : RState) (mac : Mac) (now : Int) (choice : Option Nat) : Option (RState × RReply) :=
  match lookupRec s.recs mac with
  | none =>
    -- new client: Allocate(net.IPNet{})
    match s.alloc.allocate none choice with
    | none => none
    | some (a', .noaddr) => some ({ s with alloc := a' }, .drop)
    | some (a', .panic) => some ({ s with alloc := a' }, .panic)
    | some (a', .ok ip) =>
      let rec_ : Rec := ⟨ip, unixFloor (now + s.lease)⟩
      some ({ s with alloc := a', recs := recsPut s.recs mac rec_, db := dbSave s.db ⟨mac, ip, rec_.expires⟩ },
            .reply ip (leaseOpt s.lease))
  | some r =>
    if r.expires * nsPerSec < now + s.lease then
      let r' : Rec := ⟨r.ip, unixRound (now + s.lease)⟩
      some ({ s with recs := recsPut s.recs mac r', db := dbSave s.db ⟨mac, r.ip, r'.expires⟩ },
            .reply r.ip (leaseOpt s.lease))
    else some (s, .reply r.ip (leaseOpt s.lease))

inductive RSetupErr
  | badRange        -- start >= end, or allocator creation failed
  | loadFailed      -- loadRecords returned an error
  | realloc         -- "failed to re-allocate" / "did not re-allocate requested leased ip"
deriving DecidableEq, Repr

/-- `loadRecords`: one record per row, keyed by the parsed hardware address (later rows win) -/
def loadRecords (loadKey : Mac → Option Mac) : List Row → Option (List (Mac × Rec))
  | [] => some []
  | r :: rows =>
    match loadKey r.mac, loadRecords loadKey rows with
    | some k, some acc => some (recsPut acc k ⟨r.ip, r.expiry⟩)
    | _, _ => none

/-- the re-marking loop of `setupRange`: `Allocate(IPNet{IP: v.IP})` must return `v.IP` -/
def remark (a : A4) : List (Mac × Rec) → Option A4
  | [] => some a
  | (_, r) :: rest =>
    match a.allocate (some r.ip) a.firstFit with
    | some (a', .ok ip) => if ip == r.ip then remark a' rest else none
    | _ => none

/-- `setupRange` on an existing lease table. `order` stands for Go's map iteration order: the
records are re-marked in the order `order` lists them (a permutation of the loaded records). -/
def RState.setup (start stop : BitVec 32) (lease : Int) (db : List Row)
    (loadKey : Mac → Option Mac) (order : List (Mac × Rec) → List (Mac × Rec)) : Except RSetupErr RState :=
  if start.toNat ≥ stop.toNat then .error .badRange
  else match A4.new (some start) (some stop) with
    | .error _ => .error .badRange
    | .ok a =>
      match loadRecords loadKey db with
      | none => .error .loadFailed
      | some recs =>
        match remark a (order recs) with
        | none => .error .realloc
        | some a' => .ok ⟨a', recs, db, lease⟩

/-- restart of the plugin on the database it has written -/
def RState.restart (s : RState) (loadKey : Mac → Option Mac)
    (order : List (Mac × Rec) → List (Mac × Rec)) : Except RSetupErr RState :=
  RState.setup s.alloc.start s.alloc.stop s.lease s.db loadKey order

end CoreDhcp
