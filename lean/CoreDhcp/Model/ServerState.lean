/-
Stateful plugins in the composed server: the lease state of `range` threaded through a HISTORY of
datagrams of the whole DHCPv4 server.

`Sys.serve4` (Model/System.lean) is one datagram through the chain; the lease plugin `range` appears in
it as `Elem4.lease out`, `out` being what its lease table and allocator answer this client now. Here
`out` stops being a parameter: `Sys.step4` asks the range state machine (`RState.handle`,
Model/Range.lean) what it answers the client of the datagram at hand, instantiates the chain's `.lease`
element with it, runs `Sys.serve4`, and commits the new range state iff `range` was reached — the
invocation log of `runChain` contains its position. This is what the `sdg4` case of Driver/Sys.lean
does (there with the first-fit choice and time 0; here the clock and the allocator's choice are inputs,
as everywhere in this framework). `Sys.run4` folds it over a history.

Nothing is re-modelled: `RState.handle`, `Sys.serve4`, `Sys.stub4`, `Sys.handle4`, `runChain` are the
existing definitions. `file`'s table is part of the chain and stays fixed (no refresh).
Core Lean only.
-/
import CoreDhcp.Model.System
import CoreDhcp.Spec.Range
namespace CoreDhcp
namespace Sys

/-- the state of the DHCPv4 server between two datagrams: the state of `range`, when the chain has one -/
structure St4 where
  range : Option RState
deriving Repr, Inhabited

/-- what `Elem4.lease` carries of a reply of the range state machine (no address left, or the allocator's
panic: the handler hands no response on) -/
def leaseOut : RReply → Option (BitVec 32 × Nat)
  | .reply ip o => some (ip, o)
  | _ => none

/-- the chain template with its `.lease` element(s) set to `out` -/
def inst4 (out : Option (BitVec 32 × Nat)) (chain : List Elem4) : List Elem4 :=
  chain.map (fun e => match e with | .lease _ => .lease out | e => e)

/-- position of `range` in the chain -/
def leasePos (chain : List Elem4) : Nat := (chain.findIdx? isLease).getD 0

/-- was `range` invoked for this request? Its position is in the invocation log of the chain
(`template`: where `range` sits; `chain`: the instantiated chain that runs) -/
def reached4 (template chain : List Elem4) (req : Req4) : Bool :=
  match stub4 req with
  | some r0 => (runChain (chain.map handle4) req 0 (some r0)).2.any (fun p => p.1 == leasePos template)
  | none => false

/-- one datagram through the stateful server -/
structure Step4 where
  /-- the state after it -/
  st  : St4
  /-- what `HandleMsg4` did -/
  out : Out4
  /-- the plugin-level event when `range` was reached (`REv.req` of Spec/Range.lean: client, time, its
  reply, the rows stored for the client right after), `none` when it was not -/
  ev  : Option REv
deriving Repr

/-- One datagram: `none` = the allocator choice is inadmissible in the present range state (first fit
never is: `SYSST_progress`). Without a range state, or when the datagram does not parse, the chain runs
as it is and the state stays. -/
def step4 (bound : Nat) (oob : Option Nat) (chain : List Elem4) (st : St4) (now : Int) (choice : Option Nat)
    (input : Option Req4) : Option Step4 :=
  match st.range, input with
  | some rs, some req =>
    match rs.handle req.chaddr now choice with
    | none => none
    | some (rs', rr) =>
      let chain' := inst4 (leaseOut rr) chain
      if reached4 chain chain' req then
        some ⟨⟨some rs'⟩, serve4 bound oob chain' input,
              some (.req req.chaddr now rr (rs'.db.filter (fun x => x.mac == req.chaddr)))⟩
      else some ⟨st, serve4 bound oob chain' input, none⟩
  | _, _ => some ⟨st, serve4 bound oob chain input, none⟩

/-- a datagram of the history: when it arrives, what the allocator would choose, the parsed datagram
(`none`: `FromBytes` failed) -/
structure Dg4 where
  now    : Int
  choice : Option Nat
  input  : Option Req4
deriving Repr

/-- a history of datagrams; returns the trace (one `Step4` per datagram) and the final state -/
def run4 (bound : Nat) (oob : Option Nat) (chain : List Elem4) : St4 → List Dg4 → Option (List Step4 × St4)
  | st, [] => some ([], st)
  | st, d :: ds =>
    match step4 bound oob chain st d.now d.choice d.input with
    | none => none
    | some r => (run4 bound oob chain r.st ds).map (fun (tr, z) => (r :: tr, z))

/-! ### the projection of a server-level history onto a plugin-level one -/

/-- the events of `range` along a trace -/
def projEvs (tr : List Step4) : List REv := tr.filterMap (·.ev)

/-- the operation an event records -/
def opOfEv : REv → ROp
  | .req mac now _ _ => .req mac now
  | .restart _ _ => .restart [] 0

/-- the requests that reached `range`, in order -/
def projOps (tr : List Step4) : List ROp := (projEvs tr).map opOfEv

/-- the allocator choices of the datagrams that reached `range`, in order -/
def projChoices : List Dg4 → List Step4 → List (Option Nat)
  | d :: ds, r :: tr => if r.ev.isSome then d.choice :: projChoices ds tr else projChoices ds tr
  | _, _ => []

end Sys
end CoreDhcp
