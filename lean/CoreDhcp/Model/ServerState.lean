/-
Stateful plugins in the composed server: the lease state of `range` threaded through a HISTORY of
datagrams of the whole DHCPv4 server.

`Sys.serve4` (Model/System.lean) is one datagram through the chain; the lease plugin `range` appears in
it as `Elem4.lease out`, `out` being what its lease table and allocator answer this client now. Here
`out` stops being a parameter: `Sys.step4` asks the range state machine (`RState.handle`,
Model/Range.lean) what it answers the client of the datagram at hand, instantiates the chain's `.lease`
element with it, runs `Sys.serve4`, and commits the new range state iff `range` was reached — the
invocation log of `runChain` contains its position. This is what the `sdg4` case of Driver/Sys.lean
does (there with the first-fit choice and time 0; here the clock and the allocator's choice are inputs,
as everywhere in this framework). `Sys.run4` folds it over a history.

Nothing is re-modelled: `RState.handle`, `Sys.serve4`, `Sys.stub4`, `Sys.handle4`, `runChain` are the
existing definitions. `file`'s table is part of the chain and stays fixed (no refresh).
Core Lean only.
-/
import CoreDhcp.Model.System
import CoreDhcp.Spec.Range
import CoreDhcp.Spec.Prefix
namespace CoreDhcp
namespace Sys

/-- the state of the DHCPv4 server between two datagrams: the state of `range`, when the chain has one -/
structure St4 where
  range : Option RState
deriving Repr, Inhabited

/-- what `Elem4.lease` carries of a reply of the range state machine (no address left, or the allocator's
panic: the handler hands no response on) -/
def leaseOut : RReply → Option (BitVec 32 × Nat)
  | .reply ip o => some (ip, o)
  | _ => none

/-- the chain template with its `.lease` element(s) set to `out` -/
def inst4 (out : Option (BitVec 32 × Nat)) (chain : List Elem4) : List Elem4 :=
  chain.map (fun e => match e with | .lease _ => .lease out | e => e)

/-- position of `range` in the chain -/
def leasePos (chain : List Elem4) : Nat := (chain.findIdx? isLease).getD 0

/-- was `range` invoked for this request? Its position is in the invocation log of the chain
(`template`: where `range` sits; `chain`: the instantiated chain that runs) -/
def reached4 (template chain : List Elem4) (req : Req4) : Bool :=
  match stub4 req with
  | some r0 => (runChain (chain.map handle4) req 0 (some r0)).2.any (fun p => p.1 == leasePos template)
  | none => false

/-- one datagram through the stateful server -/
structure Step4 where
  /-- the state after it -/
  st  : St4
  /-- what `HandleMsg4` did -/
  out : Out4
  /-- the plugin-level event when `range` was reached (`REv.req` of Spec/Range.lean: client, time, its
  reply, the rows stored for the client right after), `none` when it was not -/
  ev  : Option REv
deriving Repr

/-- One datagram: `none` = the allocator choice is inadmissible in the present range state (first fit
never is: `SYSST_progress`). Without a range state, or when the datagram does not parse, the chain runs
as it is and the state stays. -/
def step4 (bound : Nat) (oob : Option Nat) (chain : List Elem4) (st : St4) (now : Int) (choice : Option Nat)
    (input : Option Req4) : Option Step4 :=
  match st.range, input with
  | some rs, some req =>
    match rs.handle req.chaddr now choice with
    | none => none
    | some (rs', rr) =>
      let chain' := inst4 (leaseOut rr) chain
      if reached4 chain chain' req then
        some ⟨⟨some rs'⟩, serve4 bound oob chain' input,
              some (.req req.chaddr now rr (rs'.db.filter (fun x => x.mac == req.chaddr)))⟩
      else some ⟨st, serve4 bound oob chain' input, none⟩
  | _, _ => some ⟨st, serve4 bound oob chain input, none⟩

/-- a datagram of the history: when it arrives, what the allocator would choose, the parsed datagram
(`none`: `FromBytes` failed) -/
structure Dg4 where
  now    : Int
  choice : Option Nat
  input  : Option Req4
deriving Repr

/-- a history of datagrams; returns the trace (one `Step4` per datagram) and the final state -/
def run4 (bound : Nat) (oob : Option Nat) (chain : List Elem4) : St4 → List Dg4 → Option (List Step4 × St4)
  | st, [] => some ([], st)
  | st, d :: ds =>
    match step4 bound oob chain st d.now d.choice d.input with
    | none => none
    | some r => (run4 bound oob chain r.st ds).map (fun (tr, z) => (r :: tr, z))

/-! ### the projection of a server-level history onto a plugin-level one -/

/-- the events of `range` along a trace -/
def projEvs (tr : List Step4) : List REv := tr.filterMap (·.ev)

/-- the operation an event records -/
def opOfEv : REv → ROp
  | .req mac now _ _ => .req mac now
  | .restart _ _ => .restart [] 0

/-- the requests that reached `range`, in order -/
def projOps (tr : List Step4) : List ROp := (projEvs tr).map opOfEv

/-- the allocator choices of the datagrams that reached `range`, in order -/
def projChoices : List Dg4 → List Step4 → List (Option Nat)
  | d :: ds, r :: tr => if r.ev.isSome then d.choice :: projChoices ds tr else projChoices ds tr
  | _, _ => []

/-! ## DHCPv6: the records of `prefix` threaded through a history

Same construction for `prefix` (`Elem6.pd`, `PState.handleMsg` of Model/Prefix.lean). Two things differ from DHCPv4:
one message consumes a variable number of allocator choices, so the choices are one stream that the steps hand on
(as in `PState.run`), and a datagram that does not reach `prefix` consumes none; the IA_PD options of the inner
message as the library parses them (`msg.Options.IAPD()`, IAID and hints — outside the repository) are an input
of the datagram next to its option list, as `mac` is in `Pkt6`. -/

structure St6 where
  pfx : Option PState
deriving Repr, Inhabited

/-- the chain template with its `.pd` element(s) set to `out` -/
def inst6 (out : List PdAns) (chain : List Elem6) : List Elem6 :=
  chain.map (fun e => match e with | .pd _ => .pd out | e => e)

def pdPos (chain : List Elem6) : Nat := (chain.findIdx? isPd).getD 0

/-- was `prefix` invoked for this datagram? -/
def reached6 (template chain : List Elem6) (d : Pkt6) : Bool :=
  match d.msg.bind stub6 with
  | some r0 => (runChain (chain.map handle6) d 0 (some r0)).2.any (fun p => p.1 == pdPos template)
  | none => false

structure Dg6 where
  now   : Int
  src   : Addr
  input : Option Pkt6
  /-- `msg.Options.IAPD()` of the inner message as the handler normalises it (Model/Prefix.lean) -/
  iapds : List IAPDReq
deriving Repr

structure Step6 where
  st  : St6
  out : Out6
  /-- the plugin-level event (`PEv` of Spec/Prefix.lean) when `prefix` was reached -/
  ev  : Option PEv
  /-- the allocator choices left for the datagrams to come -/
  cs  : List (Option Nat)
deriving Repr

/-- the client key `prefix` uses: the Client-ID of the inner message -/
def clientOf (d : Pkt6) : Option ClientKey := d.msg.bind (fun m => Plug.lookup 1 m.opts)

/-- what `Elem6.pd` carries of the answer of `PState.handleMsg` (`none`: no Client-ID, the handler hands no response on
and `Sys.handle6` ends the chain whatever the element carries) -/
def pdOut : Option (List IAPDResp) → List PdAns
  | some rs => pdOf rs
  | none => []

def step6 (bound : Nat) (oob : Option Nat) (chain : List Elem6) (st : St6) (d : Dg6) (cs : List (Option Nat)) :
    Option Step6 :=
  match st.pfx, d.input with
  | some ps, some pkt =>
    match ps.handleMsg (clientOf pkt) d.iapds d.now cs with
    | none => none
    | some (ps', resp, cs') =>
      let chain' := inst6 (pdOut resp) chain
      if reached6 chain chain' pkt then
        some ⟨⟨some ps'⟩, serve6 bound oob d.src chain' d.input, some ⟨clientOf pkt, d.iapds, d.now, d.now, resp⟩, cs'⟩
      else some ⟨st, serve6 bound oob d.src chain' d.input, none, cs⟩
  | _, _ => some ⟨st, serve6 bound oob d.src chain d.input, none, cs⟩

def run6 (bound : Nat) (oob : Option Nat) (chain : List Elem6) :
    St6 → List Dg6 → List (Option Nat) → Option (List Step6 × St6)
  | st, [], _ => some ([], st)
  | st, d :: ds, cs =>
    match step6 bound oob chain st d cs with
    | none => none
    | some r => (run6 bound oob chain r.st ds r.cs).map (fun (tr, z) => (r :: tr, z))

def projEvs6 (tr : List Step6) : List PEv := tr.filterMap (·.ev)
def opOfEv6 (e : PEv) : POp := ⟨e.client, e.iapds, e.t0⟩
/-- the messages that reached `prefix`, in order -/
def projOps6 (tr : List Step6) : List POp := (projEvs6 tr).map opOfEv6

/-- the message `prefix` would see of a datagram -/
def opOfDg6 (d : Dg6) : POp := ⟨d.input.bind clientOf, d.iapds, d.now⟩

end Sys
end CoreDhcp
