/-
Model of the built-in option plugins of /repo/plugins — dns, mtu, netmask, router, lease_time,
searchdomains, staticroute, ipv6only, autoconfigure, nbp, sleep — and of server_id, one `setup`
and one `handle` per plugin and protocol.

Out of the repository, hence inputs of the model (`ArgOracle`): what the Go standard library
makes of one argument string (net.ParseIP, net.ParseMAC, strconv.Atoi, time.ParseDuration,
strings.Split + net.ParseCIDR + net.ParseIP for "dest,router", url.Parse). The wire encoders of
github.com/insomniacslk/dhcp are mirrored (`enc*`), as are the decoders the round-trip property
C19 speaks about (`dec*`).

A request is what the library's parser hands to a handler (`ReqView4` / `ReqView6`: the inner
message of a relayed DHCPv6 datagram); a response is the message type, the address fields and the
options. DHCPv4 options are a Go map: modelled as an association list, `upd4` = replace or
insert; DHCPv6 options are a slice: `upd6` = replace the first of that code, else append.
-/
namespace CoreDhcp
namespace Plug

abbrev Bytes := List Nat
abbrev Opts := List (Nat × Bytes)

/-! ## What the Go standard library says about one argument -/

/-- `net.ParseIP(arg)`, classified -/
inductive IpLit
  | v4 (b : Bytes)        -- dotted IPv4 literal; `b` = the 4 bytes of To4()
  | mapped (b : Bytes)    -- IPv4-mapped IPv6 literal ("::ffff:a.b.c.d"); `b` = the 4 bytes of To4()
  | v6 (b : Bytes)        -- any other IPv6 literal, 16 bytes; To4() = nil
deriving DecidableEq, Repr

/-- `_, n, _ := net.ParseCIDR(s)`: `n.IP`, `n.Mask.Size()` -/
structure Cidr where
  ip   : Bytes
  ones : Nat
  bits : Nat
deriving DecidableEq, Repr

/-- `strings.Split(arg, ",")`: number of fields, and for two fields ParseCIDR / ParseIP of them -/
structure SrOracle where
  fields : Nat := 1
  cidr   : Option Cidr := none
  router : Option IpLit := none
deriving DecidableEq, Repr

/-- `u, _ := url.Parse(arg)`: u.Scheme, u.Host, u.Path, u.String(), u.Query().Get("params") -/
structure UrlOracle where
  scheme : Bytes
  host   : Bytes
  path   : Bytes
  str    : Bytes
  params : Bytes
deriving DecidableEq, Repr

structure ArgOracle where
  raw : Bytes                         -- the argument itself
  ip  : Option IpLit := none          -- net.ParseIP
  mac : Option Bytes := none          -- net.ParseMAC
  int : Option Int := none            -- strconv.Atoi
  dur : Option Int := none            -- time.ParseDuration, nanoseconds
  sr  : SrOracle := {}
  url : Option UrlOracle := none      -- url.Parse
deriving DecidableEq, Repr

def isByte (b : Nat) : Bool := decide (b < 256)
def allZero (b : Bytes) : Bool := b.all (· == 0)

/-- `ip.To4()` -/
def IpLit.to4 : IpLit → Option Bytes
  | .v4 b => some b
  | .mapped b => some b
  | .v6 _ => none

/-- `ip.To16()` of a parsed literal (never nil) -/
def IpLit.to16 : IpLit → Bytes
  | .v4 b => [0,0,0,0,0,0,0,0,0,0,255,255] ++ b
  | .mapped b => [0,0,0,0,0,0,0,0,0,0,255,255] ++ b
  | .v6 b => b

/-- `ip.IsUnspecified()`: 0.0.0.0 (in either form) or :: -/
def IpLit.isUnspecified : IpLit → Bool
  | .v4 b => allZero b
  | .mapped b => allZero b
  | .v6 b => allZero b

/-- `n.IP.To4()` of a ParseCIDR network address: 4 bytes as they are, 16 bytes if IPv4-mapped -/
def cidrTo4 (ip : Bytes) : Option Bytes :=
  if ip.length = 4 then some ip
  else if ip.length = 16 ∧ allZero (ip.take 10) = true ∧ (ip.drop 10).take 2 = [255, 255] then some (ip.drop 12)
  else none

/-- what the standard library guarantees about its answers (checked by the driver on every
oracle token, assumed by the theorems that need it): address lengths, byte range, and that
ParseCIDR returns the *network* address, i.e. all bits after the prefix are zero. Only the
byte-granular consequence is needed: the address bytes after the first ⌈ones/8⌉ are zero. -/
def IpLit.wf : IpLit → Bool
  | .v4 b => b.length == 4 && b.all isByte
  | .mapped b => b.length == 4 && b.all isByte
  | .v6 b => b.length == 16 && b.all isByte

def Cidr.wf (c : Cidr) : Bool :=
  c.ip.all isByte && decide (c.ones ≤ c.bits) &&
  ((c.bits == 32 && c.ip.length == 4) || (c.bits == 128 && c.ip.length == 16)) &&
  allZero (c.ip.drop ((c.ones + 7) / 8))

def ArgOracle.wf (a : ArgOracle) : Bool :=
  (match a.ip with | some i => i.wf | none => true) &&
  (match a.mac with | some m => m.all isByte && (m.length == 6 || m.length == 8 || m.length == 20) | none => true) &&
  (match a.sr.cidr with | some c => c.wf | none => true) &&
  (match a.sr.router with | some i => i.wf | none => true)

/-! ## Byte-level helpers and the library's encoders -/

/-- `k` bytes, big endian, of `v mod 256^k` (uio `Write16` / `Write32`) -/
def be : Nat → Nat → Bytes
  | 0, _ => []
  | k + 1, v => (v / 256 ^ k % 256) :: be k v

def ofBe (bs : Bytes) : Nat := bs.foldl (fun a b => a * 256 + b) 0

/-- `dhcpv4.Uint16(n).ToBytes()` for a Go `int` n: conversion keeps the low 16 bits -/
def encU16 (n : Int) : Bytes := be 2 (n % 65536).toNat

/-- `dhcpv4.Duration(d).ToBytes()`: `uint32(d / time.Second)` — Go's integer division truncates
toward zero, the conversion keeps the low 32 bits -/
def encSecs (ns : Int) : Bytes := be 4 ((Int.tdiv ns 1000000000) % 4294967296).toNat

/-- `dhcpv4.IPs.ToBytes()` (each already reduced with To4) and `dhcpv6.optDNS.ToBytes()` (To16) -/
def encIPs (ips : List Bytes) : Bytes := ips.flatten

/-- `strings.Split(s, sep)` for a one-byte separator -/
def splitOn (sep : Nat) : Bytes → List Bytes
  | [] => [[]]
  | b :: rest =>
    if b = sep then [] :: splitOn sep rest
    else match splitOn sep rest with
      | p :: ps => (b :: p) :: ps
      | [] => [[b]]

/-- rfc1035label `labelToBytes`: `byte(len(part))` keeps the low 8 bits -/
def encLabel (name : Bytes) : Bytes :=
  if name = [] then [0]
  else ((splitOn 46 name).map (fun p => (p.length % 256) :: p)).flatten ++ [0]

/-- rfc1035label `labelsToBytes` -/
def encLabels (names : List Bytes) : Bytes := (names.map encLabel).flatten

structure Route where
  dest   : Bytes      -- `Dest.IP.To4()`
  ones   : Nat        -- `Dest.Mask.Size()`
  router : Bytes      -- `Router.To4()`
deriving DecidableEq, Repr

/-- dhcpv4 `Route.Marshal` (RFC 3442): prefix length, the significant bytes of the destination,
the router -/
def encRoute (r : Route) : Bytes := (r.ones % 256) :: (r.dest.take ((r.ones + 7) / 8) ++ r.router)

def encRoutes (rs : List Route) : Bytes := (rs.map encRoute).flatten

/-- `DUIDLL{HWType: Ethernet, LinkLayerAddr: mac}.ToBytes()` -/
def encDuidLL (mac : Bytes) : Bytes := [0, 3, 0, 1] ++ mac
/-- `DUIDLLT{HWType: Ethernet, Time: 0, LinkLayerAddr: mac}.ToBytes()` -/
def encDuidLLT (mac : Bytes) : Bytes := [0, 1, 0, 1, 0, 0, 0, 0] ++ mac

/-- dhcpv6 `optBootFileParam.ToBytes()` (RFC 5970 §3.2): each parameter with a 16-bit length;
parameters of 65536 bytes or more are skipped -/
def encBootParams (ps : List Bytes) : Bytes :=
  ((ps.filter (fun p => decide (p.length < 65536))).map (fun p => be 2 p.length ++ p)).flatten

/-! ## The library's decoders (what a client — and the round-trip check — reads back) -/

/-- dhcpv4 `Duration.FromBytes` (seconds) / `Uint16.FromBytes`: exactly `k` bytes -/
def decBe (k : Nat) (bs : Bytes) : Option Nat := if bs.length = k then some (ofBe bs) else none

/-- dhcpv4 `IPs.FromBytes`: at least one, a multiple of four bytes -/
def decIPs4 : Bytes → Option (List Bytes)
  | [a, b, c, d] => some [[a, b, c, d]]
  | a :: b :: c :: d :: rest => (decIPs4 rest).map ([a, b, c, d] :: ·)
  | _ => none

/-- dhcpv4 `Routes.FromBytes` -/
def decRoutes : Nat → Bytes → Option (List Route)
  | _, [] => some []
  | 0, _ => none
  | fuel + 1, m :: rest =>
    if m > 32 then none
    else
      let n := (m + 7) / 8
      if rest.length < n + 4 then none
      else
        let dest := rest.take n ++ List.replicate (4 - n) 0
        let router := (rest.drop n).take 4
        (decRoutes fuel (rest.drop (n + 4))).map (⟨dest, m, router⟩ :: ·)

/-- dhcpv6 `optBootFileParam.FromBytes` -/
def decBootParams : Nat → Bytes → Option (List Bytes)
  | _, [] => some []
  | _, [_] => none
  | 0, _ => none
  | fuel + 1, a :: b :: rest =>
    let n := a * 256 + b
    if rest.length < n then none
    else (decBootParams fuel (rest.drop n)).map (rest.take n :: ·)

def decodeBootParams (bs : Bytes) : Option (List Bytes) := decBootParams bs.length bs

def decodeRoutes (bs : Bytes) : Option (List Route) := decRoutes bs.length bs

/-- rfc1035label `labelsFromBytes`, with the remaining input instead of a position: `rest` =
`buf[pos:]`, `oldRest` = `buf[oldPos:]`, `hp` = handlingPointer. `none` = error. -/
def decLabelsGo (buf : Bytes) : Nat → Bytes → Bytes → Bytes → Bool → List Bytes → Option (List Bytes)
  | 0, _, _, _, _, _ => none
  | fuel + 1, rest, oldRest, label, hp, acc =>
    match rest with
    | [] => some (if label = [] then acc else acc ++ [label])
    | len :: rest' =>
      if len = 0 then
        decLabelsGo buf fuel (if hp then oldRest else rest') oldRest [] false (acc ++ [label])
      else if len / 64 % 4 = 3 then                      -- length&0xc0 == 0xc0: compression pointer
        if hp then none
        else match rest' with
          | [] => none
          | b :: rest'' => decLabelsGo buf fuel (buf.drop (len % 64 * 256 + b)) rest'' label true acc
      else if rest'.length < len then none
      else
        let chunk := rest'.take len
        decLabelsGo buf fuel (rest'.drop len) oldRest (if label = [] then chunk else label ++ 46 :: chunk) hp acc

def decodeLabels (bs : Bytes) : Option (List Bytes) :=
  decLabelsGo bs ((bs.length + 1) * (bs.length + 1)) bs [] [] false []

/-! ## Requests, responses, option containers -/

def lookup (c : Nat) : Opts → Option Bytes
  | [] => none
  | (c', v) :: rest => if c' = c then some v else lookup c rest

/-- dhcpv4 `Options.Update` (a map assignment), on the association list sorted by code -/
def upd4 (c : Nat) (v : Bytes) : Opts → Opts
  | [] => [(c, v)]
  | (c', v') :: rest =>
    if c' < c then (c', v') :: upd4 c v rest
    else if c' = c then (c, v) :: rest
    else (c, v) :: (c', v') :: rest

/-- dhcpv6 `Options.Update`: replace the first option of that code, append if there is none -/
def upd6 (c : Nat) (v : Bytes) : Opts → Opts
  | [] => [(c, v)]
  | (c', v') :: rest => if c' = c then (c, v) :: rest else (c', v') :: upd6 c v rest

structure ReqView4 where
  op     : Nat          -- opcode
  mt     : Nat          -- message type (0 = none)
  siaddr : Bytes
  ciaddr : Bytes
  opts   : Opts
deriving DecidableEq, Repr, Inhabited

structure Resp4 where
  mt     : Nat          -- `MessageType()`: option 53 decoded
  yiaddr : Bytes
  siaddr : Bytes
  opts   : Opts
deriving DecidableEq, Repr, Inhabited

structure ReqView6 where
  depth : Nat           -- relay layers around the message
  mt    : Nat
  opts  : Opts          -- in order, may repeat
deriving DecidableEq, Repr, Inhabited

structure Resp6 where
  mt   : Nat
  opts : Opts
deriving DecidableEq, Repr, Inhabited

def Resp4.update (r : Resp4) (c : Nat) (v : Bytes) : Resp4 := { r with opts := upd4 c v r.opts }
def Resp6.update (r : Resp6) (c : Nat) (v : Bytes) : Resp6 := { r with opts := upd6 c v r.opts }
def Resp6.add (r : Resp6) (c : Nat) (v : Bytes) : Resp6 := { r with opts := r.opts ++ [(c, v)] }

/-- `req.ParameterRequestList()`: nil when option 55 is missing or (the parser maps a zero-length
option to a nil value) empty -/
def prl4 (req : ReqView4) : Option Bytes :=
  match lookup 55 req.opts with
  | some (b :: bs) => some (b :: bs)
  | _ => none

/-- `req.IsOptionRequested(c)`: true for everything when there is no list -/
def requested4 (req : ReqView4) (c : Nat) : Bool :=
  match prl4 req with
  | none => true
  | some l => l.contains c

/-- the ipv6only loop over `ParameterRequestList()`: an explicit entry -/
def listed4 (req : ReqView4) (c : Nat) : Bool :=
  match prl4 req with
  | none => false
  | some l => l.contains c

def codes16 : Bytes → List Nat
  | a :: b :: rest => (a * 256 + b) :: codes16 rest
  | _ => []

/-- `msg.Options.RequestedOptions()`: the codes of all ORO options, merged in order -/
def oro6 (req : ReqView6) : List Nat := (req.opts.filter (fun o => o.1 == 6)).flatMap (fun o => codes16 o.2)

abbrev Out4 := Option Resp4 × Bool
abbrev Out6 := Option Resp6 × Bool

/-! ## The plugins -/

/-- `for _, arg := range args { v, ok := f(arg); if !ok { return error }; list = append(list, v) }` -/
def allSome {α β : Type} (f : α → Option β) : List α → Option (List β)
  | [] => some []
  | a :: as =>
    match f a, allSome f as with
    | some b, some bs => some (b :: bs)
    | _, _ => none

/-- first argument missing ⇒ error; used by the `len(args) != 1` plugins -/
def single : List ArgOracle → Option ArgOracle
  | [a] => some a
  | _ => none

namespace dns4
/-- To4 bytes of every configured server -/
abbrev Cfg := List Bytes
def setup (args : List ArgOracle) : Except Unit Cfg :=
  if args = [] then .error ()
  else match allSome (fun a => a.ip.bind IpLit.to4) args with
    | some l => .ok l
    | none => .error ()
def handle (cfg : Cfg) (req : ReqView4) (pre : Resp4) : Out4 :=
  (some (if requested4 req 6 then pre.update 6 (encIPs cfg) else pre), false)
end dns4

namespace dns6
/-- To16 bytes of every configured server (IPv4 literals are accepted and sent IPv4-mapped) -/
abbrev Cfg := List Bytes
def setup (args : List ArgOracle) : Except Unit Cfg :=
  if args = [] then .error ()
  else match allSome (fun a => a.ip.map IpLit.to16) args with
    | some l => .ok l
    | none => .error ()
def handle (cfg : Cfg) (req : ReqView6) (pre : Resp6) : Out6 :=
  (some (if (oro6 req).contains 23 then pre.update 23 (encIPs cfg) else pre), false)
end dns6

namespace mtu
abbrev Cfg := Int
/-- the set-up as it was before the repair of D22: every number strconv.Atoi reads was accepted -/
def setupOld (args : List ArgOracle) : Except Unit Cfg :=
  match single args with
  | some a => match a.int with | some n => .ok n | none => .error ()
  | none => .error ()
/-- option 26 carries an unsigned 16-bit number: anything else is refused (`mtu < 0 || mtu > math.MaxUint16`) -/
def setup (args : List ArgOracle) : Except Unit Cfg :=
  match single args with
  | some a =>
    match a.int with
    | some n => if n < 0 ∨ n > 65535 then .error () else .ok n
    | none => .error ()
  | none => .error ()
def handle (cfg : Cfg) (req : ReqView4) (pre : Resp4) : Out4 :=
  (some (if requested4 req 26 then pre.update 26 (encU16 cfg) else pre), false)
end mtu

namespace netmask
abbrev Cfg := Bytes
/-- `checkValidNetmask`: x = ^m; (x + 1) & x == 0 in uint32 arithmetic -/
def checkValid (m : Bytes) : Bool :=
  let x := 4294967295 - ofBe m % 4294967296
  ((x + 1) % 4294967296) &&& x == 0
def setup (args : List ArgOracle) : Except Unit Cfg :=
  match single args with
  | none => .error ()
  | some a =>
    match a.ip with
    | none => .error ()                      -- nil.IsUnspecified() is false, nil.To4() is nil
    | some ip =>
      if ip.isUnspecified then .error ()
      else match ip.to4 with
        | none => .error ()
        | some m => if checkValid m then .ok m else .error ()
def handle (cfg : Cfg) (_req : ReqView4) (pre : Resp4) : Out4 := (some (pre.update 1 cfg), false)
end netmask

namespace router
abbrev Cfg := List Bytes
def setup (args : List ArgOracle) : Except Unit Cfg := dns4.setup args
def handle (cfg : Cfg) (_req : ReqView4) (pre : Resp4) : Out4 := (some (pre.update 3 (encIPs cfg)), false)
end router

namespace leasetime
abbrev Cfg := Int
/-- the set-up as it was before the repair of D23: every duration time.ParseDuration reads was accepted -/
def setupOld (args : List ArgOracle) : Except Unit Cfg :=
  match args with
  | [] => .error ()
  | a :: _ => match a.dur with | some d => .ok d | none => .error ()
/-- further arguments are ignored. Option 51 carries an unsigned 32-bit number of seconds: a negative
duration and one of more than 2^32-1 seconds are refused (`leaseTime < 0 || leaseTime >
math.MaxUint32*time.Second`, in nanoseconds); parts of a second are accepted and not sent -/
def setup (args : List ArgOracle) : Except Unit Cfg :=
  match args with
  | [] => .error ()
  | a :: _ =>
    match a.dur with
    | some d => if d < 0 ∨ d > 4294967295 * 1000000000 then .error () else .ok d
    | none => .error ()
def handle (cfg : Cfg) (req : ReqView4) (pre : Resp4) : Out4 :=
  if req.op ≠ 1 then (some pre, false)
  else (some (if (lookup 51 pre.opts).isSome then pre else pre.update 51 (encSecs cfg)), false)
end leasetime

/-- `checkDomains` -/
def domainOK (name : Bytes) : Bool :=
  decide (name.length ≤ 253) && (splitOn 46 name).all (fun p => decide (1 ≤ p.length) && decide (p.length ≤ 63))

namespace search
abbrev Cfg := List Bytes
/-- the same for both protocols; no argument is fine -/
def setup (args : List ArgOracle) : Except Unit Cfg :=
  if args.all (fun a => domainOK a.raw) then .ok (args.map (·.raw)) else .error ()
def handle4 (cfg : Cfg) (_req : ReqView4) (pre : Resp4) : Out4 := (some (pre.update 119 (encLabels cfg)), false)
def handle6 (cfg : Cfg) (_req : ReqView6) (pre : Resp6) : Out6 := (some (pre.update 24 (encLabels cfg)), false)
end search

namespace staticroute
abbrev Cfg := List Route
def route (a : ArgOracle) : Option Route :=
  if a.sr.fields ≠ 2 then none
  else match a.sr.cidr with
    | none => none
    | some c =>
      match cidrTo4 c.ip with
      | none => none                                 -- not an IPv4 destination
      | some d =>
        if c.bits ≠ 32 then none                     -- len(Mask) != 4
        else match a.sr.router with
          | none => none
          | some r => match r.to4 with
            | none => none                           -- not an IPv4 gateway
            | some g => some ⟨d, c.ones, g⟩
def setup (args : List ArgOracle) : Except Unit Cfg :=
  if args = [] then .error ()
  else match allSome route args with
    | some l => .ok l
    | none => .error ()
def handle (cfg : Cfg) (_req : ReqView4) (pre : Resp4) : Out4 :=
  (some (if cfg = [] then pre else pre.update 121 (encRoutes cfg)), false)
end staticroute

namespace ipv6only
/-- V6ONLY_WAIT in nanoseconds; 0 without argument -/
abbrev Cfg := Int
/-- the set-up as it was before the repair of D24: every duration time.ParseDuration reads was accepted -/
def setupOld (args : List ArgOracle) : Except Unit Cfg :=
  match args with
  | [] => .ok 0
  | a :: rest =>
    match a.dur with
    | none => .error ()
    | some d => if rest = [] then .ok d else .error ()
/-- option 108 carries an unsigned 32-bit number of seconds: a negative wait and one of more than
2^32-1 seconds are refused (`dur < 0 || dur > math.MaxUint32*time.Second`), before the number of
arguments is looked at; parts of a second are accepted and not sent -/
def setup (args : List ArgOracle) : Except Unit Cfg :=
  match args with
  | [] => .ok 0
  | a :: rest =>
    match a.dur with
    | none => .error ()
    | some d =>
      if d < 0 ∨ d > 4294967295 * 1000000000 then .error ()
      else if rest = [] then .ok d else .error ()
def handle (cfg : Cfg) (req : ReqView4) (pre : Resp4) : Out4 :=
  if listed4 req 108 then (some (pre.update 108 (encSecs cfg)), true) else (some pre, false)
end ipv6only

def strBytes (s : String) : Bytes := s.toUTF8.toList.map (·.toNat)

namespace autoconfigure
abbrev Cfg := Nat
/-- `argMap` -/
def argValue (raw : Bytes) : Option Nat :=
  if raw = [48] then some 0
  else if raw = [49] then some 1
  else if raw = strBytes "DoNotAutoConfigure" then some 0
  else if raw = strBytes "AutoConfigure" then some 1
  else none
def setup (args : List ArgOracle) : Except Unit Cfg :=
  match args with
  | [] => .ok 0
  | a :: rest =>
    match argValue a.raw with
    | none => .error ()
    | some v => if rest = [] then .ok v else .error ()
/-- `req.AutoConfigure()` succeeded: the option is one byte long -/
def clientSent (req : ReqView4) : Bool :=
  match lookup 116 req.opts with
  | some [_] => true
  | _ => false
def handle (cfg : Cfg) (req : ReqView4) (pre : Resp4) : Out4 :=
  if pre.mt ≠ 2 ∨ pre.yiaddr ≠ [0, 0, 0, 0] then (some pre, false)
  else if clientSent req then (some (pre.update 116 [cfg]), false)
  else (none, true)
end autoconfigure

namespace nbp4
/-- option 66 (TFTP server name; none for http/https/ftp URLs) and option 67 (boot file name) -/
structure Cfg where
  o66 : Option Bytes
  o67 : Bytes
deriving DecidableEq, Repr
def setup (args : List ArgOracle) : Except Unit Cfg :=
  match single args with
  | none => .error ()
  | some a =>
    match a.url with
    | none => .error ()
    | some u =>
      if u.scheme = strBytes "http" ∨ u.scheme = strBytes "https" ∨ u.scheme = strBytes "ftp" then .ok ⟨none, u.str⟩
      else .ok ⟨some u.host, u.path⟩
/-- always ends the chain -/
def handle (cfg : Cfg) (req : ReqView4) (pre : Resp4) : Out4 :=
  let r1 := match cfg.o66 with
    | some v => if requested4 req 66 then pre.update 66 v else pre
    | none => pre
  let r2 := if requested4 req 67 then r1.update 67 cfg.o67 else r1
  (some r2, true)
end nbp4

namespace nbp6
/-- `o59` = `u.String()`; `o60` = the `params` query value when it is not empty -/
structure Cfg where
  o59 : Bytes
  o60 : Option Bytes
deriving DecidableEq, Repr
def setup (args : List ArgOracle) : Except Unit Cfg :=
  match single args with
  | none => .error ()
  | some a =>
    match a.url with
    | none => .error ()
    | some u => .ok ⟨u.str, if u.params = [] then none else some u.params⟩
/-- what the loop over the requested codes appends; option 60 is `OptBootFileParam(params)`: one
parameter, the whole `params` string -/
def added (cfg : Cfg) : List Nat → Opts
  | [] => []
  | c :: rest =>
    if c = 59 then (59, cfg.o59) :: added cfg rest
    else if c = 60 then
      match cfg.o60 with
      | some p => (60, encBootParams [p]) :: added cfg rest
      | none => added cfg rest
    else added cfg rest
/-- `AddOption` (append) once per occurrence of the code in the ORO; always ends the chain -/
def handle (cfg : Cfg) (req : ReqView6) (pre : Resp6) : Out6 :=
  (some { pre with opts := pre.opts ++ added cfg (oro6 req) }, true)
end nbp6

namespace sleep
abbrev Cfg := Int
def setup (args : List ArgOracle) : Except Unit Cfg :=
  match single args with
  | some a => match a.dur with | some d => .ok d | none => .error ()
  | none => .error ()
def handle4 (_cfg : Cfg) (_req : ReqView4) (pre : Resp4) : Out4 := (some pre, false)
def handle6 (_cfg : Cfg) (_req : ReqView6) (pre : Resp6) : Out6 := (some pre, false)
end sleep

namespace serverid4
/-- the server's address, To4 -/
abbrev Cfg := Bytes
/-- further arguments are ignored -/
def setup (args : List ArgOracle) : Except Unit Cfg :=
  match args with
  | [] => .error ()
  | a :: _ =>
    match a.ip with
    | none => .error ()
    | some ip => match ip.to4 with | some b => .ok b | none => .error ()
/-- `req.ServerIdentifier()`: option 54 when it is four bytes long -/
def sid54 (req : ReqView4) : Option Bytes :=
  match lookup 54 req.opts with
  | some v => if v.length = 4 then some v else none
  | none => none
def handle (cfg : Cfg) (req : ReqView4) (pre : Resp4) : Out4 :=
  if req.op ≠ 1 then (some pre, false)
  else if req.siaddr ≠ [0, 0, 0, 0] ∧ req.siaddr ≠ cfg then (none, true)
  else match sid54 req with
    | some s =>
      if s ≠ [0, 0, 0, 0] ∧ s ≠ cfg then (none, true)
      else (some ({ pre with siaddr := cfg }.update 54 cfg), false)
    | none => (some ({ pre with siaddr := cfg }.update 54 cfg), false)
end serverid4

/-- `strings.ToLower` on ASCII -/
def lowerAscii (b : Bytes) : Bytes := b.map (fun c => if 65 ≤ c ∧ c ≤ 90 then c + 32 else c)

namespace serverid6
/-- the DUID's bytes -/
abbrev Cfg := Bytes
/-- further arguments are ignored -/
def setup (args : List ArgOracle) : Except Unit Cfg :=
  match args with
  | t :: v :: _ =>
    if t.raw = [] ∨ v.raw = [] then .error ()
    else match v.mac with
      | none => .error ()
      | some mac =>
        let ty := lowerAscii t.raw
        if ty = strBytes "ll" ∨ ty = strBytes "duid-ll" ∨ ty = strBytes "duid_ll" then .ok (encDuidLL mac)
        else if ty = strBytes "llt" ∨ ty = strBytes "duid-llt" ∨ ty = strBytes "duid_llt" then .ok (encDuidLLT mac)
        else .error ()
  | _ => .error ()
def handle (cfg : Cfg) (req : ReqView6) (pre : Resp6) : Out6 :=
  match lookup 2 req.opts with                    -- `msg.Options.ServerID()`: the first one
  | some sid =>
    if req.mt = 1 ∨ req.mt = 4 ∨ req.mt = 6 then (none, true)
    else if sid ≠ cfg then (none, true)
    else (some (pre.update 2 cfg), false)
  | none =>
    if req.mt = 3 ∨ req.mt = 5 ∨ req.mt = 9 ∨ req.mt = 8 then (none, true)
    else (some (pre.update 2 cfg), false)
end serverid6

/-! ## One entry point -/

inductive Cfg4
  | dns (c : dns4.Cfg) | mtu (c : mtu.Cfg) | netmask (c : netmask.Cfg) | router (c : router.Cfg)
  | leasetime (c : leasetime.Cfg) | search (c : search.Cfg) | staticroute (c : staticroute.Cfg)
  | ipv6only (c : ipv6only.Cfg) | autoconfigure (c : autoconfigure.Cfg) | nbp (c : nbp4.Cfg)
  | sleep (c : sleep.Cfg) | serverid (c : serverid4.Cfg)
deriving DecidableEq, Repr

inductive Cfg6
  | dns (c : dns6.Cfg) | search (c : search.Cfg) | nbp (c : nbp6.Cfg) | sleep (c : sleep.Cfg)
  | serverid (c : serverid6.Cfg)
deriving DecidableEq, Repr

inductive PlugCfg
  | v4 (c : Cfg4)
  | v6 (c : Cfg6)
deriving DecidableEq, Repr

def plugSetup4 (name : String) (args : List ArgOracle) : Option (Except Unit Cfg4) :=
  if name = "dns" then some ((dns4.setup args).map .dns)
  else if name = "mtu" then some ((mtu.setup args).map .mtu)
  else if name = "netmask" then some ((netmask.setup args).map .netmask)
  else if name = "router" then some ((router.setup args).map .router)
  else if name = "lease_time" then some ((leasetime.setup args).map .leasetime)
  else if name = "searchdomains" then some ((search.setup args).map .search)
  else if name = "staticroute" then some ((staticroute.setup args).map .staticroute)
  else if name = "ipv6only" then some ((ipv6only.setup args).map .ipv6only)
  else if name = "autoconfigure" then some ((autoconfigure.setup args).map .autoconfigure)
  else if name = "nbp" then some ((nbp4.setup args).map .nbp)
  else if name = "sleep" then some ((sleep.setup args).map .sleep)
  else if name = "server_id" then some ((serverid4.setup args).map .serverid)
  else none

def plugSetup6 (name : String) (args : List ArgOracle) : Option (Except Unit Cfg6) :=
  if name = "dns" then some ((dns6.setup args).map .dns)
  else if name = "searchdomains" then some ((search.setup args).map .search)
  else if name = "nbp" then some ((nbp6.setup args).map .nbp)
  else if name = "sleep" then some ((sleep.setup args).map .sleep)
  else if name = "server_id" then some ((serverid6.setup args).map .serverid)
  else none

/-- `none`: the plugin has no setup function for this protocol (or does not exist) -/
def plugSetup (proto : Nat) (name : String) (args : List ArgOracle) : Option (Except Unit PlugCfg) :=
  if proto = 4 then (plugSetup4 name args).map (·.map .v4)
  else if proto = 6 then (plugSetup6 name args).map (·.map .v6)
  else none

def plugHandle4 : Cfg4 → ReqView4 → Resp4 → Out4
  | .dns c => dns4.handle c
  | .mtu c => mtu.handle c
  | .netmask c => netmask.handle c
  | .router c => router.handle c
  | .leasetime c => leasetime.handle c
  | .search c => search.handle4 c
  | .staticroute c => staticroute.handle c
  | .ipv6only c => ipv6only.handle c
  | .autoconfigure c => autoconfigure.handle c
  | .nbp c => nbp4.handle c
  | .sleep c => sleep.handle4 c
  | .serverid c => serverid4.handle c

def plugHandle6 : Cfg6 → ReqView6 → Resp6 → Out6
  | .dns c => dns6.handle c
  | .search c => search.handle6 c
  | .nbp c => nbp6.handle c
  | .sleep c => sleep.handle6 c
  | .serverid c => serverid6.handle c

end Plug
end CoreDhcp
