/-
Model of /repo/server/serve.go: `listen4`, `listen6`, `Start`, `(*Servers).Close` — how the server opens
its listeners at start-up.

What the world answers (does the socket open, does the interface exist, …) is an explicit input
(`ListenOracle`, one per `listenN` call); what the code does with the answers — which call it makes with
which arguments, what it stores in the listener, when it gives up — is the model.
Generated/Start.lean (written by `harness gen -unit start` from the go/ast of serve.go) is proved equal
to these definitions in Props/GenStart.lean.
-/
namespace CoreDhcp

inductive Proto | v6 | v4
deriving DecidableEq, Repr

/-- a configured `net.UDPAddr` as far as `listenN` looks at it: `a.Zone`, `a.IP.IsMulticast()` (a pure
function of the address), and the address as a whole (`id`: which address it is) -/
structure LAddr where
  zone : String
  multicast : Bool
  id : Nat
deriving DecidableEq, Repr

/-- the answers of the world to one `listenN(a)` call; each is asked at most once -/
structure ListenOracle where
  conn : Bool       -- serverN.NewIPvNUDPConn(a.Zone, a) succeeds
  ifByName : Bool   -- net.InterfaceByName(a.Zone) succeeds (asked only when a.Zone ≠ "")
  setCM : Bool      -- SetControlMessage(FlagInterface, true) succeeds (asked only when a.Zone = "")
  join : Bool       -- JoinGroup(ifi, a) succeeds (asked only when the address is multicast)
deriving DecidableEq, Repr

/-- the control-message flags of golang.org/x/net/ipv4 and ipv6 (`ipvN.FlagX`) -/
inductive CFlag | ttl | src | dst | interface | pathMTU | trafficClass | hopLimit
deriving DecidableEq, Repr

/-- the two handler chains `plugins.LoadPlugins` returns, as tags: its first result (DHCPv4), its second (DHCPv6) -/
inductive Chain | chain4 | chain6
deriving DecidableEq, Repr

/-- the chain that belongs to a protocol -/
def Chain.of : Proto → Chain
  | .v6 => .chain6
  | .v4 => .chain4

/-- a `listener4` / `listener6` value -/
structure Listener where
  proto : Proto                           -- which of the two struct types
  conn : Option (Proto × String × Nat)    -- PacketConn: none = nil; some (p, zone, id) = ipvN.NewPacketConn of the
                                          -- socket opened by server<p>.NewIPv<p>UDPConn(zone, address id)
  iface : Option String                   -- the embedded net.Interface: none = zero value (Index 0: "not bound");
                                          -- some z = *ifi of a successful net.InterfaceByName(z)
  cmsg : List (CFlag × Bool)              -- the SetControlMessage(flag, on) calls that succeeded, in order
  joined : Option (Option String × Nat)   -- some (ifi, id) = a successful JoinGroup(ifi, address id); ifi none = nil
  chain : Option Chain                    -- handlers: none = nil slice
deriving DecidableEq, Repr

/-- `listenerN{}` -/
def Listener.zero (p : Proto) : Listener :=
  { proto := p, conn := none, iface := none, cmsg := [], joined := none, chain := none }

inductive ListenErr
  | conn                                        -- the error of serverN.NewIPvNUDPConn, returned as it is
  | noInterface (text : Proto) (zone : String)  -- fmt.Errorf("DHCPv<text>: Listen could not find interface %s: %v", zone, err)
  | setCM                                       -- the error of SetControlMessage, as it is
  | join                                        -- the error of JoinGroup, as it is
deriving DecidableEq, Repr

/-- `return nil, err` of `listenN`: the error, and the listener value the function was building and now
drops — NOTHING is closed on these paths, so if `dropped.conn` is `some _` that socket stays open -/
structure ListenFail where
  err : ListenErr
  dropped : Listener
deriving DecidableEq, Repr

/-- `listen4` (p = v4) / `listen6` (p = v6): open the socket; bind the listener to the zone's interface
(zone ≠ "") or switch per-packet interface information on (zone = ""); join the group if the address is
multicast, on the interface found (nil if there is no zone).
NOTE `listen6` words its interface error "DHCPv4: …" too (the text was copied from `listen4`). -/
def Start.listen (p : Proto) (a : LAddr) (o : ListenOracle) : Except ListenFail Listener :=
  let l0 := Listener.zero p
  if o.conn = false then .error ⟨.conn, l0⟩ else
  let l1 := { l0 with conn := some (p, a.zone, a.id) }
  let bound : Except ListenFail Listener :=
    if a.zone ≠ "" then
      if o.ifByName then .ok { l1 with iface := some a.zone } else .error ⟨.noInterface .v4 a.zone, l1⟩
    else
      if o.setCM then .ok { l1 with cmsg := [(.interface, true)] } else .error ⟨.setCM, l1⟩
  match bound with
  | .error f => .error f
  | .ok l2 =>
    if a.multicast then
      if o.join then .ok { l2 with joined := some (l2.iface, a.id) } else .error ⟨.join, l2⟩
    else .ok l2

/-- the answers of the world to the successive `listenN` calls of one `Start`: call number k (from 0) gets `w k` -/
abbrev World := Nat → ListenOracle

/-- the state `Start` builds up -/
structure St where
  listeners : List (Option Listener)   -- srv.listeners (a Go interface value can be nil)
  serving : List Listener              -- the goroutines started, in order: each runs `srv.errors <- l.Serve()` on its own l
  closed : List Listener               -- the listeners whose Close() was called, in order
  asked : Nat                          -- the number of listenN calls made
deriving DecidableEq, Repr

inductive StartOut
  | loadErr                                 -- (nil, the error of plugins.LoadPlugins)
  | listenErr (st : St) (f : ListenFail)    -- (nil, the error of the failing listenN); st = the state left behind
  | ok (st : St)                            -- (&srv, nil)
deriving DecidableEq, Repr

/-- `(*Servers).Close`: Close() on every non-nil listener, in order -/
def Start.close : List (Option Listener) → List Listener
  | [] => []
  | none :: rest => Start.close rest
  | some l :: rest => l :: Start.close rest

/-- the loop over the addresses of one section, `k` listenN calls having been made before: the listeners
opened (each given the WHOLE chain of the section's protocol), and the failure that stopped the loop, if any -/
def Start.openAll (p : Proto) (w : World) : Nat → List LAddr → List Listener × Option ListenFail
  | _, [] => ([], none)
  | k, a :: rest =>
    match Start.listen p a (w k) with
    | .error f => ([], some f)
    | .ok l =>
      let r := Start.openAll p w (k + 1) rest
      ({ l with chain := some (Chain.of p) } :: r.1, r.2)

structure StartCfg where
  server6 : Option (List LAddr)   -- config.Server6 (none = nil) and its Addresses
  server4 : Option (List LAddr)
deriving Repr

/-- `Start`. `loadedOk = false`: LoadPlugins fails, nothing is opened. Otherwise the DHCPv6 section (if
present), then the DHCPv4 section (if present); for each address in order: listen, give the listener the
whole loaded chain of its protocol, record it in srv.listeners, start a goroutine that serves it.
At the first listen error: every listener recorded so far is closed and the error is returned — the
goroutines already started stay behind (their listener is closed under them; what they then send to
`srv.errors` nobody receives), and the socket the failing `listenN` may have opened is not closed. -/
def Start.start (cfg : StartCfg) (loadedOk : Bool) (w : World) : StartOut :=
  if loadedOk = false then .loadErr else
  match Start.openAll .v6 w 0 (cfg.server6.getD []) with
  | (ls6, some f) => .listenErr ⟨ls6.map some, ls6, ls6, ls6.length + 1⟩ f
  | (ls6, none) =>
    match Start.openAll .v4 w ls6.length (cfg.server4.getD []) with
    | (ls4, some f) => .listenErr ⟨(ls6 ++ ls4).map some, ls6 ++ ls4, ls6 ++ ls4, (ls6 ++ ls4).length + 1⟩ f
    | (ls4, none) => .ok ⟨(ls6 ++ ls4).map some, ls6 ++ ls4, [], (ls6 ++ ls4).length⟩

end CoreDhcp
