/-
Model of the FRONT of `config.Load` (/repo/config/config.go): from its first statement through
`c.v.ReadInConfig()` and the return of its error, and the hand-over of what was read to the rest of `Load`
(`c.parseConfig(protocolV6)`, `c.parseConfig(protocolV4)`, … — Model/Config.lean, unit `config`).

What viper DOES with what it is told — where it looks for a file, how it decodes it — is out of the repository,
hence an input: `World.readInConfig` answers, for the settings an instance has been given, either an error
(`none`) or the document the instance then holds (`some raw`; `raw` is whatever the rest of `Load` asks the
instance for: unit `config` calls it `RawConfig`).  What the code TELLS viper — on which instance, which setting
with which value, in which order, before the one `ReadInConfig()` — is the model.

Generated/ConfigLoad.lean (written by `harness gen -unit configload` from the go/ast of config.go) is proved
equal to these definitions in Props/GenConfigLoad.lean.
-/
namespace CoreDhcp
namespace ConfigLoad

/-- What ONE viper instance (`*viper.Viper`) has been told by the set-up calls made on it.  A record of the
calls, not of viper's private fields: viper's own defaults and what it makes of a value (it expands `$HOME`
in a search directory, ignores an empty string, …) stay on viper's side of `World.readInConfig`. -/
structure Settings where
  /-- `SetConfigType(t)`: decode the file as format `t` whatever its name; `none` = never called (viper then
  goes by the extension of the file it reads) -/
  configType : Option String
  /-- `SetConfigFile(f)`: read exactly this file, search nothing; `none` = never called -/
  configFile : Option String
  /-- `SetConfigName(n)`: the base name searched for in the search directories; `none` = never called -/
  configName : Option String
  /-- `AddConfigPath(d)`: the search directories, in the order they were added (viper searches in that order) -/
  searchPaths : List String
deriving DecidableEq, Repr

/-- `viper.New()`: an instance nothing has been told yet -/
def Settings.fresh : Settings := ⟨none, none, none, []⟩

/-- `v.SetConfigType(t)` -/
def Settings.setConfigType (s : Settings) (t : String) : Settings := { s with configType := some t }
/-- `v.SetConfigFile(f)` -/
def Settings.setConfigFile (s : Settings) (f : String) : Settings := { s with configFile := some f }
/-- `v.SetConfigName(n)` -/
def Settings.setConfigName (s : Settings) (n : String) : Settings := { s with configName := some n }
/-- `v.AddConfigPath(d)`: behind the directories added before -/
def Settings.addConfigPath (s : Settings) (d : String) : Settings := { s with searchPaths := s.searchPaths ++ [d] }

/-- viper (and through it the file system and the decoder): `v.ReadInConfig()` on an instance that has been given
the settings `s`; `none` = it returned an error, `some raw` = it returned nil and the instance now holds `raw` -/
structure World (ρ : Type) where
  readInConfig : Settings → Option ρ

/-- how the front of `Load` ends -/
inductive Result (τ : Type)
  /-- `ReadInConfig()` returned an error: `Load` returns `(nil, err)` at once -/
  | readErr
  /-- the file was read; `t` is what the REST of `Load` makes of what the instance holds (and returns) -/
  | parsed (t : τ)
deriving DecidableEq, Repr

/-- one call of `Load`: the settings of the instance at the moment `ReadInConfig()` was called on it (the one
call `Load` makes to read anything), and how it ended -/
structure Run (τ : Type) where
  asked : Settings
  result : Result τ
deriving DecidableEq, Repr

/-- the directories `Load` has viper search when no path is given, in this order -/
def searchDirs : List String := [".", "$XDG_CONFIG_HOME/coredhcp/", "$HOME/.coredhcp/", "/etc/coredhcp/"]

/-- The set-up calls of `Load(path)` applied to an instance in state `v0`: the type is set to "yml" first and on
every path; a non-empty `path` is given as the file to read, as it is; otherwise the name "config" and the four
search directories. -/
def settingsFrom (v0 : Settings) (path : String) : Settings :=
  let v := v0.setConfigType "yml"
  if path ≠ "" then v.setConfigFile path
  else searchDirs.foldl Settings.addConfigPath (v.setConfigName "config")

/-- `Load(path)` on an instance in state `v0`, `tail` = the rest of `Load` as a function of what the instance
holds after reading: one `ReadInConfig()` with the settings above; its error ends `Load`; otherwise the rest of
`Load` runs on what THIS instance read. -/
def loadOn {ρ τ : Type} (v0 : Settings) (path : String) (w : World ρ) (tail : ρ → τ) : Run τ :=
  match w.readInConfig (settingsFrom v0 path) with
  | none => ⟨settingsFrom v0 path, .readErr⟩
  | some raw => ⟨settingsFrom v0 path, .parsed (tail raw)⟩

/-- what `Load(path)` tells the instance it makes: `c := New()`, i.e. `viper.New()` — nothing is carried over
from an earlier call or from viper's package-global instance -/
def settingsFor (path : String) : Settings := settingsFrom Settings.fresh path

/-- `Load(path)` -/
def load {ρ τ : Type} (path : String) (w : World ρ) (tail : ρ → τ) : Run τ := loadOn Settings.fresh path w tail

/-- the calls `c.parseConfig(K)` of the rest of `Load`, on the configuration whose instance read the file, in
their order: the protocol versions K -/
def tailCalls : List Nat := [6, 4]

end ConfigLoad
end CoreDhcp
