/-
Model of /repo/plugins/allocators/bitmap/bitmap.go  (the IPv6 fixed-size prefix allocator)
over the ipcalc model and the abstract bitset.

Which free block the allocator returns when the hint is not honoured is the
implementation's choice: the model takes it as an input (`choice`) and only checks
its side-conditions, so theorems hold for every allocation policy and a rewrite
from first-fit to next-fit still conforms, while one that hands out a set bit does not.
-/
import CoreDhcp.Model.IPCalc
import CoreDhcp.Model.Bits
namespace CoreDhcp

/-- a prefix `base/len` (128-bit mask) -/
structure Block where
  base : Addr
  len  : Nat
deriving DecidableEq, Repr, Inhabited

/-- first address of the block -/
def Block.lo (b : Block) : Nat := b.base.val
/-- one past the last address of the block -/
def Block.hi (b : Block) : Nat := b.base.val + 2^(128 - b.len)

structure Pool6 where
  base    : Addr     -- containing.IP  (the network address ParseCIDR returns)
  poolLen : Nat      -- ones of containing.Mask
  page    : Nat      -- allocation length
deriving DecidableEq, Repr, Inhabited

/-- What `net.ParseCIDR` of an IPv6 pool followed by a successful
`NewBitmapAllocator` guarantees (page ≤ 128 is checked by the prefix plugin's setup). -/
def Pool6.WF (p : Pool6) : Prop :=
  p.poolLen ≤ p.page ∧ p.page ≤ 128 ∧ p.page - p.poolLen < 64 ∧
  p.base.val % 2^(128 - p.poolLen) = 0

instance (p : Pool6) : Decidable p.WF := by unfold Pool6.WF; exact inferInstance

def Pool6.nblocks (p : Pool6) : Nat := 2^(p.page - p.poolLen)

/-- `(*Allocator).contains(ip)` for a 16-byte `ip`: the address under the pool mask is the pool's base. -/
def Pool6.contains (p : Pool6) (a : Addr) : Bool :=
  a.val / 2^(128 - p.poolLen) == p.base.val / 2^(128 - p.poolLen)

/-- base address of block `i` of the pool -/
def Pool6.blockBase (p : Pool6) (i : Nat) : Nat := p.base.val + i * 2^(128 - p.page)

structure A6 where
  pool : Pool6
  bm   : Bits
deriving DecidableEq, Repr, Inhabited

inductive NewErr | tooSmall | tooLarge
deriving DecidableEq, Repr

/-- `NewBitmapAllocator(pool, size)` -/
def A6.new (p : Pool6) : Except NewErr A6 :=
  if p.page < p.poolLen then .error .tooSmall
  else if p.page - p.poolLen ≥ 64 then .error .tooLarge
  else .ok ⟨p, Bits.new (2^(p.page - p.poolLen))⟩

/-- The hint as the allocator sees it. `ip` is `some` exactly when the hint's IP is a
16-byte slice ("an IPv6 hint", IPv4-mapped or not): for every other `net.IP` (nil, 4-byte)
`(*Allocator).contains` is false. (Before the `fix:` for D18 membership was decided by
`net.IPNet.Contains`, which is false for every IPv4-mapped address.)
`ones, bits = hint.Mask.Size()`. -/
structure Hint6 where
  ip   : Option Addr
  ones : Nat
  bits : Nat
deriving DecidableEq, Repr, Inhabited

inductive AErr
  | noaddr       -- ErrNoAddrAvail
  | bug          -- "BUG: could not get prefix from allocation"
  | hintPrefix   -- toPrefix failed on the hint path (bit stays set)
deriving DecidableEq, Repr

def A6.reqSize (a : A6) (h : Hint6) : Nat :=
  if h.ones < a.pool.page ∨ h.bits ≠ 128 then a.pool.page else h.ones

def A6.toIndex (a : A6) (x : Addr) : Except CalcErr Nat :=
  match offset x a.pool.base a.pool.page with
  | .ok v => .ok v.toNat
  | .error e => .error e

def A6.toPrefix (a : A6) (idx : Nat) : Except CalcErr Addr :=
  addPrefixes a.pool.base (BitVec.ofNat 64 idx) (BitVec.ofNat 64 a.pool.page)

/-- the index the hint path of `Allocate` takes, if it takes it -/
def A6.hintIdx (a : A6) (h : Hint6) : Option Nat :=
  match h.ip with
  | none => none
  | some x =>
    if a.pool.contains x then
      match a.toIndex x with
      | .ok i => if !a.bm.test i then some i else none
      | .error _ => none
    else none

/-- `(*Allocator).Allocate(hint)`.  `none` = the observed choice is not admissible
(not a clear bit below the length / `noaddr` although a clear bit exists). -/
def A6.allocate (a : A6) (h : Hint6) (choice : Option Nat) : Option (A6 × Except AErr Block) :=
  let len := a.reqSize h
  match a.hintIdx h with
  | some i =>
    let a' : A6 := { a with bm := a.bm.set i }
    match a.toPrefix i with
    | .ok ip => some (a', .ok ⟨ip, len⟩)
    | .error _ => some (a', .error .hintPrefix)
  | none =>
    match choice with
    | none => if a.bm.full then some (a, .error .noaddr) else none
    | some c =>
      if c < a.bm.length ∧ !a.bm.test c then
        match a.toPrefix c with
        | .ok ip => some ({ a with bm := a.bm.set c }, .ok ⟨ip, len⟩)
        | .error _ => some (a, .error .bug)        -- Set(next) then Clear(next), next < length
      else none

/-- the choice the current code makes: `NextClear(0)` -/
def A6.firstFit (a : A6) : Option Nat := a.bm.nextClear

inductive FErr | notFound | doubleFree
deriving DecidableEq, Repr

/-- `prefix.IP.Mask(prefix.Mask)` for a 16-byte IP and a 128-bit mask of `ones` ones -/
def maskAddr (ip : Addr) (ones : Nat) : Addr :=
  Addr.ofVal (ip.val / 2^(128 - ones) * 2^(128 - ones))

/-- `(*Allocator).Free(prefix)` for a 16-byte IP with a /ones 128-bit mask, including the
containment check added by the `fix:` commit for D2. -/
def A6.free (a : A6) (ip : Addr) (ones : Nat) : A6 × Except FErr Unit :=
  let m := maskAddr ip ones
  if !a.pool.contains m then (a, .error .notFound)
  else
    match a.toIndex m with
    | .error _ => (a, .error .notFound)
    | .ok idx =>
      if !a.bm.test idx then (a, .error .doubleFree)
      else ({ a with bm := a.bm.clear idx }, .ok ())

/-- `Free` as it was before the D2 repair (kept for the refutation witness). -/
def A6.freePreFix (a : A6) (ip : Addr) (ones : Nat) : A6 × Except FErr Unit :=
  let m := maskAddr ip ones
  match a.toIndex m with
  | .error _ => (a, .error .notFound)
  | .ok idx =>
    if !a.bm.test idx then (a, .error .doubleFree)
    else ({ a with bm := a.bm.clear idx }, .ok ())

end CoreDhcp
