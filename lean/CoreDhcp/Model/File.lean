/-
Model of /repo/plugins/file/plugin.go: static leases from a file, per protocol
(after the `fix:` for D8 each protocol serves from its own table).

Out of the repository, hence part of the input: the split of the file into lines and fields
(`bytes.Split`, `strings.Fields`) and the stdlib parsers — each line arrives as what the code sees
of it, each field with `net.ParseMAC`'s and `net.ParseIP`'s answer.
-/
import CoreDhcp.Model.IPCalc
namespace CoreDhcp

/-- `net.ParseIP(tok)`: `none` = nil; `v4` = `To4() != nil` (dotted or IPv4-mapped); `v6` otherwise -/
inductive IPKind
  | none
  | v4 (a : BitVec 32)
  | v6 (a : Addr)
deriving DecidableEq, Repr, Inhabited

/-- one line of the lease file as `LoadDHCPv{4,6}Records` sees it -/
inductive FLine
  | empty                                   -- len(line) == 0
  | comment                                 -- starts with '#'
  /-- `n` whitespace-separated fields; when `n = 2`: `mac` = `net.ParseMAC(tokens[0])` re-rendered
  (`none` = error), `ip` = `net.ParseIP(tokens[1])` -/
  | fields (n : Nat) (mac : Option (List Nat)) (ip : IPKind)
deriving DecidableEq, Repr, Inhabited

abbrev FTable := List (List Nat × IPKind)

def FTable.put (t : FTable) (m : List Nat) (ip : IPKind) : FTable :=
  (m, ip) :: t.filter (fun p => !(p.1 == m))

def FTable.get (t : FTable) (m : List Nat) : Option IPKind :=
  (t.find? (fun p => p.1 == m)).map (·.2)

/-- `LoadDHCPv4Records` / `LoadDHCPv6Records`: `none` = the file is rejected -/
def loadFile (v6 : Bool) : List FLine → FTable → Option FTable
  | [], t => some t
  | .empty :: rest, t => loadFile v6 rest t
  | .comment :: rest, t => loadFile v6 rest t
  | .fields n mac ip :: rest, t =>
    if n ≠ 2 then none
    else match mac with
      | none => none
      | some m =>
        match v6, ip with
        | false, .v4 a => loadFile v6 rest (t.put m (.v4 a))
        | true, .v6 a => loadFile v6 rest (t.put m (.v6 a))
        | _, _ => none

structure FState where
  t4 : FTable := []
  t6 : FTable := []
deriving Repr, Inhabited

def FState.table (s : FState) (v6 : Bool) : FTable := if v6 then s.t6 else s.t4
def FState.setTable (s : FState) (v6 : Bool) (t : FTable) : FState := if v6 then { s with t6 := t } else { s with t4 := t }

/-- `loadFromFile(v6, filename)`: the table is replaced only when the whole file parses.
Used by `setupFile` (error = start-up fails) and by every file-change event under `autorefresh`. -/
def FState.load (s : FState) (v6 : Bool) (lines : List FLine) : FState × Bool :=
  match loadFile v6 lines [] with
  | some t => (s.setTable v6 t, true)
  | none => (s, false)

inductive FReply4 | yiaddr (a : BitVec 32) | pass      -- yiaddr: YourIPAddr set, chain stopped
deriving DecidableEq, Repr
inductive FReply6 | iana (a : Addr) | pass
deriving DecidableEq, Repr

/-- `Handler4` on the DHCPv4 table -/
def FState.query4 (s : FState) (mac : List Nat) : FReply4 :=
  match s.t4.get mac with
  | some (.v4 a) => .yiaddr a
  | _ => .pass

/-- `Handler6` on the DHCPv6 table; `hasIANA` = the message carries an IA_NA, `mac` = what
`dhcpv6.ExtractMAC` returns (`none` = error) -/
def FState.query6 (s : FState) (hasIANA : Bool) (mac : Option (List Nat)) : FReply6 :=
  if !hasIANA then .pass
  else match mac with
    | none => .pass
    | some m =>
      match s.t6.get m with
      | some (.v6 a) => .iana a
      | _ => .pass

end CoreDhcp
