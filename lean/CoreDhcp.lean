import CoreDhcp.Model.IPCalc
import CoreDhcp.Model.Bits
import CoreDhcp.Model.Alloc6
import CoreDhcp.Model.Alloc4
import CoreDhcp.Spec.IPCalc
import CoreDhcp.Spec.Alloc
import CoreDhcp.Model.Range
import CoreDhcp.Spec.Range
